//! Generator for the token manager properties (C09 flow limit, C10 custody / roles).
use crate::enc::*;
use crate::rng::Rng;
use crate::Sink;

pub const TOK: &str = "TOK-aaaaaa";
pub const OTHER: &str = "OTH-bbbbbb";
pub const EPOCH: u64 = 21600;

pub fn params(operator: Option<&[u8]>, token: Option<&[u8]>) -> Vec<u8> {
    let mut v = vec![];
    match operator {
        None => v.push(0),
        Some(a) => {
            v.push(1);
            v.extend_from_slice(a)
        }
    }
    match token {
        None => v.push(0),
        Some(t) => {
            v.push(1);
            v.extend(nest_buf(t))
        }
    }
    v
}

pub fn gen(rng: &mut Rng, n: usize, sink: &mut Sink, focus: &str) {
    while sink.count < n {
        sink.exec("reset");
        let owner = user(0);
        let service = user(1);
        let tm = sc("tm");
        let ty = if rng.chance(1, 3) { 0 } else { rng.below(5) as u8 }; // 0 native, 1 mintburnfrom, 2 lockunlock, 3 lockunlockfee, 4 mintburn
        let use_egld = (ty == 2 || ty == 3) && rng.chance(1, 4);
        let token: Option<Vec<u8>> = if ty == 0 {
            None
        } else if use_egld {
            Some(b"EGLD".to_vec())
        } else {
            Some(TOK.as_bytes().to_vec())
        };
        let operator = if rng.chance(2, 3) { Some(user(2)) } else { None };
        let mut now = rng.below(3) * EPOCH + rng.below(EPOCH);
        sink.exec(&format!("time {}", now));
        let a = vec![
            service.clone(),
            if ty == 0 { vec![] } else { vec![ty] },
            rng.bytes(32),
            params(operator.as_deref(), token.as_deref()),
        ];
        // sometimes an invalid configuration
        let a = if rng.chance(1, 25) {
            let mut b = a.clone();
            b[3] = params(None, if ty == 0 { Some(TOK.as_bytes()) } else { None });
            b
        } else {
            a
        };
        let out = sink.exec(&format!("deploy token-manager {} {} {}", hex::encode(&owner), hex::encode(&tm), args(&a)));
        for i in 0..6 {
            sink.exec(&format!("acct {} 10000000000000000000 {}:0:1000000,{}:0:1000000,{}:3:1000000", hex::encode(user(i)), TOK, OTHER, TOK));
        }
        if !out.starts_with("ok") {
            continue;
        }
        sink.exec(&format!("acct {} 1000000 {}:0:5000", hex::encode(&tm), TOK));
        if (ty == 1 || ty == 4) && rng.chance(9, 10) {
            sink.exec(&format!("roles {} {} ESDTRoleLocalMint,ESDTRoleLocalBurn", hex::encode(&tm), TOK));
        }
        let mut tokname: String = if use_egld { "EGLD".into() } else { TOK.into() };
        let mut issued = ty != 0;
        let mut pending_issue: Option<(usize, bool)> = None; // (id, delivered)
        let mut next_pend = 0usize;
        let limit_vals = [0u128, 0, 10, 100, 1000];
        // mirror of role bits per user (refreshed from the real views after role-changing calls)
        let mut roles: Vec<u8> = vec![0; 6];
        let mut proposals: Vec<(Vec<u8>, Vec<u8>, &str)> = vec![];
        let refresh = |sink: &mut Sink, roles: &mut Vec<u8>| {
            for i in 0..6u8 {
                let out = sink.exec(&format!("query {} getAccountRoles {}", hex::encode(sc("tm")), args(&[user(i)])));
                roles[i as usize] = if let Some(p) = out.find("r=") {
                    let v = out[p + 2..].split_whitespace().next().unwrap_or(".");
                    if v == "." || v == "-" { 0 } else { u8::from_str_radix(v, 16).unwrap_or(0) }
                } else {
                    0
                };
            }
        };
        refresh(sink, &mut roles);
        // mirror of the flow counters of the current epoch and of the limit (from the real views)
        let mut fin: u128 = 0;
        let mut fout: u128 = 0;
        let mut flimit: u128 = 0;
        let parse_num = |out: &str| -> u128 {
            if let Some(p) = out.find("r=") {
                let v = out[p + 2..].split_whitespace().next().unwrap_or(".");
                if v == "." || v == "-" { 0 } else { u128::from_str_radix(v, 16).unwrap_or(0) }
            } else {
                0
            }
        };
        let holder = |rng: &mut Rng, roles: &Vec<u8>, bit: u8| -> Vec<u8> {
            let hs: Vec<u8> = (0..6u8).filter(|i| roles[*i as usize] & bit != 0).collect();
            if hs.is_empty() || rng.chance(1, 5) {
                user(rng.below(6) as u8)
            } else {
                user(*rng.pick(&hs))
            }
        };
        // native managers: most of the time the token is issued straight away (service call, issue, callback),
        // so that histories of managers WITH a recorded token are as frequent as those without
        if ty == 0 && rng.chance(2, 3) {
            let mut m = vec![1u8];
            m.extend(user(2));
            let out = sink.exec(&format!(
                "tx {} {} deployInterchainToken 50000000000000000 - {}",
                hex::encode(&service),
                hex::encode(&tm),
                args(&[m, b"My Token!".to_vec(), b"mtk".to_vec(), vec![18]])
            ));
            if out.starts_with("ok") && out.contains("pend=") && !out.ends_with("pend=-") {
                let id = next_pend;
                next_pend += 1;
                let newtok = format!("MTK-{:06x}", rng.below(0xffffff));
                let o2 = sink.exec(&format!("deliver {} ok {}", id, hex::encode(newtok.as_bytes())));
                if o2.starts_with("ok") {
                    sink.exec(&format!("roles {} {} ESDTRoleLocalMint,ESDTRoleLocalBurn", hex::encode(&tm), newtok));
                    tokname = newtok;
                }
                let o3 = sink.exec(&format!("cb {}", id));
                if o2.starts_with("ok") && o3.starts_with("ok") {
                    issued = true;
                }
                refresh(sink, &mut roles);
            }
        }
        let steps = rng.range(15, 50);
        for _ in 0..steps {
            let anyone = user(rng.below(6) as u8);
            let caller_service = if rng.chance(5, 6) { service.clone() } else { anyone.clone() };
            let r = rng.below(100);
            let (w_flow, w_roles) = if focus == "C09" { (70, 8) } else { (35, 40) };
            if r < w_flow {
                match rng.below(10) {
                    0..=3 => {
                        let amt = *rng.pick(&[0u128, 1, 5, 9, 10, 11, 50, 99, 100, 101, 400, 1000, 1001]);
                        // boundary amounts relative to the limit and the current net flow
                        let amt = if flimit > 0 && rng.chance(1, 2) {
                            let room = (fout + flimit).saturating_sub(fin);
                            *rng.pick(&[room, room + 1, room.saturating_sub(1), flimit, flimit + 1, flimit + fout])
                        } else {
                            amt
                        };
                        let dest = user(rng.below(6) as u8);
                        sink.exec(&format!("tx {} {} giveToken 0 - {}", hex::encode(&caller_service), hex::encode(&tm), args(&[dest, nat(amt)])));
                    }
                    4..=6 => {
                        let amt = *rng.pick(&[0u64, 1, 5, 9, 10, 11, 50, 99, 100, 101, 400, 1000, 1001]);
                        // (the debug VM refuses a zero-amount transfer of a token the payer has
                        // no entry for; that VM artefact is kept out of the generated space)
                        let amt = if flimit > 0 && rng.chance(1, 2) {
                            let room = (fin + flimit).saturating_sub(fout);
                            (*rng.pick(&[room, room + 1, room.saturating_sub(1), flimit, flimit + 1, flimit + fin])).min(900000) as u64
                        } else {
                            amt
                        };
                        let amt = if amt == 0 && tokname.starts_with("MTK") { 1 } else { amt };
                        let (egld, esdt) = if tokname == "EGLD" {
                            if rng.chance(1, 10) {
                                ("0".to_string(), format!("{}:0:{}", OTHER, amt))
                            } else {
                                (amt.to_string(), "-".to_string())
                            }
                        } else if rng.chance(1, 10) {
                            ("0".to_string(), format!("{}:0:{}", OTHER, amt))
                        } else if rng.chance(1, 15) {
                            (amt.to_string(), "-".to_string())
                        } else if rng.chance(1, 12) && tokname == TOK {
                            // the manager's identifier, but a semi-fungible instance of it (non-zero nonce)
                            ("0".to_string(), format!("{}:3:{}", tokname, amt.max(1)))
                        } else {
                            ("0".to_string(), format!("{}:0:{}", tokname, amt))
                        };
                        sink.exec(&format!("tx {} {} takeToken {} {} -", hex::encode(&caller_service), hex::encode(&tm), egld, esdt));
                    }
                    7 => {
                        let caller = match rng.below(4) {
                            0 => service.clone(),
                            1 => user(2),
                            _ => anyone.clone(),
                        };
                        let l = *rng.pick(&limit_vals);
                        sink.exec(&format!("tx {} {} setFlowLimit 0 - {}", hex::encode(&caller), hex::encode(&tm), args(&[nat(l)])));
                    }
                    8 if rng.chance(1, 2) => {
                        // directed: a large flow under a high limit, the limit lowered inside the epoch, then
                        // transfers the other way around the new limit and around the recorded opposite flow
                        let out_first = rng.chance(1, 2);
                        let hi = *rng.pick(&[1000u128, 1000, 500]);
                        let big = *rng.pick(&[400u128, 300, 450]);
                        let lo = *rng.pick(&[10u128, 100, 50]);
                        let give = |sink: &mut Sink, rng: &mut Rng, a: u128| {
                            let dest = user(rng.below(6) as u8);
                            sink.exec(&format!("tx {} {} giveToken 0 - {}", hex::encode(&service), hex::encode(&tm), args(&[dest, nat(a)])));
                        };
                        let take = |sink: &mut Sink, a: u128| {
                            let (egld, esdt) = if tokname == "EGLD" { (a.to_string(), "-".to_string()) } else { ("0".to_string(), format!("{}:0:{}", tokname, a)) };
                            sink.exec(&format!("tx {} {} takeToken {} {} -", hex::encode(&service), hex::encode(&tm), egld, esdt));
                        };
                        sink.exec(&format!("tx {} {} setFlowLimit 0 - {}", hex::encode(&service), hex::encode(&tm), args(&[nat(hi)])));
                        if out_first { take(sink, big) } else { give(sink, rng, big) }
                        sink.exec(&format!("tx {} {} setFlowLimit 0 - {}", hex::encode(&service), hex::encode(&tm), args(&[nat(lo)])));
                        for _ in 0..rng.range(1, 3) {
                            let a = *rng.pick(&[lo + 1, big, big - 1, lo, big + lo, big + lo + 1, lo - 1, 2 * lo]);
                            if out_first { give(sink, rng, a) } else { take(sink, a) }
                            sink.exec(&format!("query {} flowInAmount -", hex::encode(&tm)));
                            sink.exec(&format!("query {} flowOutAmount -", hex::encode(&tm)));
                        }
                    }
                    _ => {
                        now += *rng.pick(&[1u64, 100, EPOCH - 1, EPOCH, EPOCH + 1, 3 * EPOCH]);
                        sink.exec(&format!("time {}", now));
                    }
                }
                fin = parse_num(&sink.exec(&format!("query {} flowInAmount -", hex::encode(&tm))));
                fout = parse_num(&sink.exec(&format!("query {} flowOutAmount -", hex::encode(&tm))));
                flimit = parse_num(&sink.exec(&format!("query {} getFlowLimit -", hex::encode(&tm))));
            } else if r < w_flow + w_roles {
                let x = user(rng.below(6) as u8);
                let y = user(rng.below(6) as u8);
                let k = rng.below(12);
                if k == 11 {
                    // directed: an account holding SEVERAL roles proposes one of them; the recipient tries to accept
                    // another one of the proposer's roles (a proposal is for exactly the proposed roles), then the right one
                    let both: Vec<u8> = (0..6u8).filter(|i| roles[*i as usize] & 3 == 3).collect();
                    if let Some(i) = both.first().copied() {
                        let from = user(i);
                        let to = user((i + 1 + rng.below(5) as u8) % 6);
                        let (prop, wrong, right) = if rng.chance(1, 2) {
                            ("proposeOperatorship", "acceptMintership", "acceptOperatorship")
                        } else {
                            ("proposeMintership", "acceptOperatorship", "acceptMintership")
                        };
                        sink.exec(&format!("tx {} {} {} 0 - {}", hex::encode(&from), hex::encode(&tm), prop, args(&[to.clone()])));
                        sink.exec(&format!("tx {} {} {} 0 - {}", hex::encode(&to), hex::encode(&tm), wrong, args(&[from.clone()])));
                        sink.exec(&format!("query {} getAccountRoles {}", hex::encode(&tm), args(&[to.clone()])));
                        if rng.chance(1, 2) {
                            sink.exec(&format!("tx {} {} {} 0 - {}", hex::encode(&to), hex::encode(&tm), right, args(&[from.clone()])));
                        }
                        sink.exec(&format!("query {} getAccountRoles {}", hex::encode(&tm), args(&[from.clone()])));
                        refresh(sink, &mut roles);
                        continue;
                    }
                }
                let (caller, func, a): (Vec<u8>, &str, Vec<Vec<u8>>) = match k {
                    0 => (holder(rng, &roles, 2), "addFlowLimiter", vec![x.clone()]),
                    1 => (holder(rng, &roles, 2), "removeFlowLimiter", vec![x.clone()]),
                    2 => (holder(rng, &roles, 2), "transferFlowLimiter", vec![holder(rng, &roles, 4), y.clone()]),
                    3 => (holder(rng, &roles, 2), "transferOperatorship", vec![x.clone()]),
                    4 => (holder(rng, &roles, 2), "proposeOperatorship", vec![x.clone()]),
                    6 => (holder(rng, &roles, 1), "transferMintership", vec![x.clone()]),
                    7 => (holder(rng, &roles, 1), "proposeMintership", vec![x.clone()]),
                    5 | 8 => {
                        // accept an outstanding proposal (right / wrong role, right / wrong caller)
                        if !proposals.is_empty() && rng.chance(4, 5) {
                            let (from, to, f) = rng.pick(&proposals).clone();
                            let acc = if (f == "proposeOperatorship") == rng.chance(9, 10) { "acceptOperatorship" } else { "acceptMintership" };
                            let c = if rng.chance(9, 10) { to } else { x.clone() };
                            (c, acc, vec![from])
                        } else {
                            (x.clone(), if k == 5 { "acceptOperatorship" } else { "acceptMintership" }, vec![y.clone()])
                        }
                    }
                    9 => {
                        let c = holder(rng, &roles, 2);
                        (c.clone(), "transferOperatorship", vec![c])
                    }
                    _ => (x.clone(), "transferMintership", vec![y.clone()]),
                };
                let out = sink.exec(&format!("tx {} {} {} 0 - {}", hex::encode(&caller), hex::encode(&tm), func, args(&a)));
                if out.starts_with("ok") {
                    if func.starts_with("propose") {
                        proposals.push((caller.clone(), a[0].clone(), func));
                    }
                    refresh(sink, &mut roles);
                }
                sink.exec(&format!("query {} getProposedRoles {}", hex::encode(&tm), args(&[caller.clone(), a[0].clone()])));
                sink.exec(&format!("query {} getAccountRoles {}", hex::encode(&tm), args(&[vec![0u8; 32]])));
            } else {
                match rng.below(8) {
                    0 | 1 => {
                        // mint by minters / strangers
                        let amt = *rng.pick(&[0u128, 1, 7, 1000]);
                        let dest = user(rng.below(6) as u8);
                        let c = holder(rng, &roles, 1);
                        sink.exec(&format!("tx {} {} mint 0 - {}", hex::encode(&c), hex::encode(&tm), args(&[dest, nat(amt)])));
                    }
                    2 => {
                        let amt = *rng.pick(&[0u64, 1, 7, 1000]);
                        let amt = if amt == 0 && tokname.starts_with("MTK") { 1 } else { amt };
                        let t = if rng.chance(1, 6) { OTHER.to_string() } else { tokname.clone() };
                        let c = holder(rng, &roles, 1);
                        if t == "EGLD" {
                            sink.exec(&format!("tx {} {} burn {} - -", hex::encode(&c), hex::encode(&tm), amt));
                        } else {
                            sink.exec(&format!("tx {} {} burn 0 {}:0:{} -", hex::encode(&c), hex::encode(&tm), t, amt));
                        }
                    }
                    3 | 4 => {
                        // deployInterchainToken (native managers): by service / minter / stranger
                        let minter: Vec<u8> = match rng.below(3) {
                            0 => vec![],
                            _ => {
                                let mut v = vec![1u8];
                                v.extend(user(rng.below(6) as u8));
                                v
                            }
                        };
                        let name = rng.pick(&[b"My Token!".to_vec(), b"ab".to_vec(), b"Tok".to_vec(), vec![], b"ABCDEFGHIJKLMNOPQRSTUVWXYZ0123".to_vec()]).clone();
                        let sym = rng.pick(&[b"mtk".to_vec(), b"x".to_vec(), b"T-1".to_vec(), vec![], b"long-symbol-name".to_vec()]).clone();
                        let egld = *rng.pick(&[0u64, 50000000000000000, 50000000000000000, 50000000000000000, 1]);
                        // callers: the service, a current minter (MINTER bit 1), or anyone
                        let caller_service = match rng.below(5) {
                            0 => holder(rng, &roles, 1),
                            // an operator / flow limiter that is neither the service nor a minter
                            1 => {
                                let bit = *rng.pick(&[2u8, 2, 4]);
                                holder(rng, &roles, bit)
                            }
                            _ => caller_service.clone(),
                        };
                        // once the token is recorded: a well-formed second deployment by a minter naming a new minter
                        let redeploy = ty == 0 && issued && rng.chance(1, 2);
                        let (caller_service, minter, name, sym, egld) = if redeploy {
                            let mut v = vec![1u8];
                            v.extend(user(rng.below(6) as u8));
                            (holder(rng, &roles, 1), v, b"My Token!".to_vec(), b"mtk".to_vec(), 50000000000000000u64)
                        } else {
                            (caller_service, minter, name, sym, egld)
                        };
                        let out = sink.exec(&format!(
                            "tx {} {} deployInterchainToken {} - {}",
                            hex::encode(&caller_service),
                            hex::encode(&tm),
                            egld,
                            args(&[minter, name, sym, vec![18]])
                        ));
                        if out.starts_with("ok") && out.contains("pend=") && !out.ends_with("pend=-") {
                            pending_issue = Some((next_pend, false));
                            next_pend += 1;
                        }
                        if out.starts_with("ok") {
                            refresh(sink, &mut roles);
                        }
                    }
                    5 | 6 => {
                        if let Some((id, delivered)) = pending_issue {
                            if !delivered {
                                let newtok = format!("MTK-{:06x}", rng.below(0xffffff));
                                let line = if rng.chance(3, 4) {
                                    format!("deliver {} ok {}", id, hex::encode(newtok.as_bytes()))
                                } else {
                                    format!("deliver {} fail {}", id, crate::enc::fail_code(rng))
                                };
                                let out = sink.exec(&line);
                                pending_issue = Some((id, true));
                                if out.starts_with("ok") {
                                    if rng.chance(9, 10) {
                                        sink.exec(&format!("roles {} {} ESDTRoleLocalMint,ESDTRoleLocalBurn", hex::encode(&tm), newtok));
                                    }
                                    tokname = newtok;
                                }
                            } else {
                                let out = sink.exec(&format!("cb {}", id));
                                pending_issue = None;
                                if out.starts_with("ok") {
                                    issued = true;
                                }
                            }
                        }
                    }
                    _ => {
                        sink.exec(&format!("query {} tokenIdentifier -", hex::encode(&tm)));
                        sink.exec(&format!("query {} invalidTokenIdentifier -", hex::encode(&tm)));
                        sink.exec(&format!("query {} isMinter {}", hex::encode(&tm), args(&[anyone.clone()])));
                    }
                }
            }
            let _ = issued;
            // balances: manager, service, a user
            let t = if tokname == "EGLD" { "EGLD".to_string() } else { tokname.clone() };
            sink.exec(&format!("bal {} {}", hex::encode(&tm), t));
            sink.exec(&format!("bal {} {}", hex::encode(&service), t));
            sink.exec(&format!("bal {} {}", hex::encode(user(rng.below(6) as u8)), t));
        }
    }
}
