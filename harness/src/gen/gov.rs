//! Generator for the governance properties (C11 time lock, C12 authentication, C16 refunds).
use crate::enc::*;
use crate::gen::gateway::{self, Gw, Msg, Slot};
use crate::rng::Rng;
use crate::Sink;

pub const GOV_CHAIN: &[u8] = b"axelarnet";
pub const GOV_ADDR: &[u8] = b"axelar10govaddress";
const TOKENS: [&str; 2] = ["TOK-aaaaaa", "OTH-bbbbbb"];
const SFT: &str = "SFT-dddddd";

#[derive(Clone)]
pub struct Proposal {
    pub target: Vec<u8>,
    pub call_data: Vec<u8>,
    pub value: u128,
    pub real: bool, // target is a deployed contract of the world: deliver for real
}

pub fn call_data(name: &[u8], a: &[Vec<u8>], min_gas: u64) -> Vec<u8> {
    let mut v = nest_buf(name);
    v.extend(u32be(a.len()));
    for x in a {
        v.extend(nest_buf(x));
    }
    v.extend(min_gas.to_be_bytes());
    v
}

pub fn execute_payload(cmd: u8, p: &Proposal, eta: u64) -> Vec<u8> {
    let mut v = vec![cmd];
    v.extend_from_slice(&p.target);
    v.extend(nest_buf(&p.call_data));
    v.extend(nest_big(p.value));
    v.extend(eta.to_be_bytes());
    v
}

pub struct Gov {
    pub addr: Vec<u8>,
    pub gw: Gw,
    pub next_msg: u64,
    /// the approval batches relayed so far (message id, batch, proof): relayers may send a batch again
    pub relayed: Vec<(Vec<u8>, Vec<u8>, Vec<u8>)>,
}

impl Gov {
    /// approve (optionally) a governance message at the gateway and call `execute`
    pub fn command(&mut self, rng: &mut Rng, sink: &mut Sink, payload: &[u8], approve: bool, chain: &[u8], src: &[u8], caller: &[u8], id: Option<Vec<u8>>) -> (String, Vec<u8>) {
        let id = id.unwrap_or_else(|| {
            self.next_msg += 1;
            format!("gov-{}", self.next_msg).into_bytes()
        });
        if approve {
            let m = Msg { chain: chain.to_vec(), id: id.clone(), src: src.to_vec(), contract: self.addr.clone(), ph: keccak(payload) };
            let raw = m.enc();
            let set = self.gw.sets.last().unwrap().clone();
            let slots = vec![Slot::Valid; set.keys.len()];
            let proof = self.gw.proof(rng, sink, &set, 0, &raw, &slots);
            self.gw.tx(sink, &user(0), "approveMessages", &[raw.clone(), proof.clone()]);
            self.relayed.push((id.clone(), raw, proof));
        }
        let out = sink.exec(&format!(
            "tx {} {} execute 0 - {}",
            hex::encode(caller),
            hex::encode(&self.addr),
            args(&[chain.to_vec(), id.clone(), src.to_vec(), payload.to_vec()])
        ));
        (out, id)
    }
}

fn token_arg(tok: &str, nonce: u64) -> Vec<u8> {
    let mut v = nest_buf(tok.as_bytes());
    v.extend(nonce.to_be_bytes());
    v
}

pub fn gen(rng: &mut Rng, n: usize, sink: &mut Sink, focus: &str) {
    while sink.count < n {
        let gw = gateway::setup_with_sets(rng, sink); // does `reset`, funds users 0..4, deploys the gateway
        for i in 0..6 {
            sink.exec(&format!("acct {} 1000000 {}:0:1000000,{}:0:1000000,{}:5:1000,{}:6:1000", hex::encode(user(i)), TOKENS[0], TOKENS[1], SFT, SFT));
        }
        let gaddr = sc("governance");
        let min_delay = if focus == "C16" { *rng.pick(&[0u64, 0, 0, 100]) } else { *rng.pick(&[0u64, 0, 100, 1000]) };
        let mut operator = user(2);
        let out = sink.exec(&format!(
            "deploy governance {} {} {}",
            hex::encode(user(0)),
            hex::encode(&gaddr),
            args(&[gw.addr.clone(), GOV_CHAIN.to_vec(), GOV_ADDR.to_vec(), nat(min_delay as u128), operator.clone()])
        ));
        if !out.starts_with("ok") {
            continue;
        }
        // the contract's own funds: modest, or (one run in three) far beyond 2^64 so that any value can be paid
        if rng.chance(1, 3) {
            sink.exec(&format!("acct {} 1000000000000000000000000 -", hex::encode(&gaddr)));
        } else {
            sink.exec(&format!("acct {} 5000 -", hex::encode(&gaddr)));
        }
        let mut now = gw.now;
        let mut g = Gov { addr: gaddr.clone(), gw, next_msg: 0, relayed: vec![] };
        // proposal pool
        let ext = user(5);
        let pool: Vec<Proposal> = vec![
            Proposal { target: ext.clone(), call_data: call_data(b"doSomething", &[vec![1, 2, 3]], 0), value: 0, real: false },
            Proposal { target: ext.clone(), call_data: call_data(b"pay", &[], 1000), value: 700, real: false },
            Proposal { target: ext.clone(), call_data: call_data(b"big", &[], 0), value: 9000, real: false }, // more than the balance
            Proposal { target: gaddr.clone(), call_data: call_data(b"withdraw", &[user(4), nat(300)], 0), value: 0, real: true },
            Proposal { target: gaddr.clone(), call_data: call_data(b"transferOperatorship", &[user(3)], 0), value: 0, real: true },
            Proposal { target: ext.clone(), call_data: vec![1, 2, 3], value: 0, real: false }, // undecodable call data
            Proposal { target: ext.clone(), call_data: call_data(b"gas", &[], u64::MAX - 5), value: 0, real: false },
        ];
        let mut etas: Vec<u64> = vec![0; pool.len()];
        let mut approved: Vec<bool> = vec![false; pool.len()];
        let mut pend: Vec<(usize, usize, bool)> = vec![]; // (id, proposal index, delivered)
        let mut next_pend = 0usize;
        let mut used_ids: Vec<(Vec<u8>, Vec<u8>)> = vec![]; // (id, payload) of processed commands
        let steps = rng.range(15, 45);
        for _ in 0..steps {
            // C16 concentrates on few proposals so that dispatches (and their failures) are frequent
            let mut k = if focus == "C16" { rng.below(2) as usize } else { rng.below(pool.len() as u64) as usize };
            let r = rng.below(100);
            let (w_cmd, w_exec, w_deliver) = match focus {
                "C11" => (30, 30, 20),
                "C12" => (40, 20, 15),
                _ => (20, 35, 25),
            };
            let operator_path = rng.chance(1, 3);
            if r >= w_cmd && r < w_cmd + w_exec && rng.chance(4, 5) {
                // prefer proposals that can actually be dispatched
                let live: Vec<usize> = (0..pool.len()).filter(|i| if operator_path { approved[*i] } else { etas[*i] > 0 }).collect();
                if !live.is_empty() {
                    k = *rng.pick(&live);
                }
            }
            let p = pool[k].clone();
            if focus == "C16" && pend.is_empty() && min_delay == 0 && rng.chance(1, 10) {
                // directed: a caller's failed dispatch leaves a large EGLD credit; then a proposal that goes through
                // spends most of the contract's pooled EGLD; then the caller withdraws — the credit must be paid in full
                // or (when the pool cannot cover it) stay untouched — and withdraws again after the pool is refilled
                let u = user(rng.below(2) as u8);
                let pa = pool[0].clone();
                let pb = pool[2].clone(); // value 9000: possible only while the failed dispatch's EGLD is in the pool
                let big = *rng.pick(&[6000u64, 6000, 4500]);
                g.command(rng, sink, &execute_payload(0, &pa, now), true, GOV_CHAIN, GOV_ADDR, &user(1), None);
                let out = sink.exec(&format!("tx {} {} executeProposal {} - {}", hex::encode(&u), hex::encode(&gaddr), big, args(&[pa.target.clone(), pa.call_data.clone(), nat(pa.value)])));
                if out.starts_with("ok") && !out.ends_with("pend=-") {
                    let id = next_pend;
                    next_pend += 1;
                    sink.exec(&format!("deliver {} fail {}", id, crate::enc::fail_code(rng)));
                    sink.exec(&format!("cb {}", id));
                    sink.exec(&format!("query {} getRefundToken {}", hex::encode(&gaddr), args(&[u.clone(), token_arg("EGLD", 0)])));
                    if rng.chance(1, 2) {
                        // "EGLD with a nonce" is another asset: nothing was credited under it, nothing is paid, the real credit stays
                        sink.exec(&format!("tx {} {} withdrawRefundToken 0 - {}", hex::encode(&u), hex::encode(&gaddr), args(&[token_arg("EGLD", 7)])));
                        sink.exec(&format!("bal {} EGLD", hex::encode(&u)));
                        sink.exec(&format!("query {} getRefundToken {}", hex::encode(&gaddr), args(&[u.clone(), token_arg("EGLD", 0)])));
                    }
                    g.command(rng, sink, &execute_payload(0, &pb, now), true, GOV_CHAIN, GOV_ADDR, &user(1), None);
                    let out = sink.exec(&format!("tx {} {} executeProposal 0 - {}", hex::encode(user(3)), hex::encode(&gaddr), args(&[pb.target.clone(), pb.call_data.clone(), nat(pb.value)])));
                    if out.starts_with("ok") && !out.ends_with("pend=-") {
                        let id2 = next_pend;
                        next_pend += 1;
                        sink.exec(&format!("deliver {} ok -", id2));
                        sink.exec(&format!("cb {}", id2));
                    }
                    sink.exec(&format!("bal {} EGLD", hex::encode(&gaddr)));
                    sink.exec(&format!("tx {} {} withdrawRefundToken 0 - {}", hex::encode(&u), hex::encode(&gaddr), args(&[token_arg("EGLD", 0)])));
                    sink.exec(&format!("query {} getRefundToken {}", hex::encode(&gaddr), args(&[u.clone(), token_arg("EGLD", 0)])));
                    sink.exec(&format!("bal {} EGLD", hex::encode(&u)));
                    if rng.chance(2, 3) {
                        // the pool is topped up again (environment move): now the credit is paid, in full, once
                        sink.exec(&format!("acct {} 20000 -", hex::encode(&gaddr)));
                        sink.exec(&format!("tx {} {} withdrawRefundToken 0 - {}", hex::encode(&u), hex::encode(&gaddr), args(&[token_arg("EGLD", 0)])));
                        sink.exec(&format!("query {} getRefundToken {}", hex::encode(&gaddr), args(&[u.clone(), token_arg("EGLD", 0)])));
                        sink.exec(&format!("bal {} EGLD", hex::encode(&u)));
                    }
                }
                continue;
            }
            if focus == "C16" && !p.real && etas[k] > 0 && rng.chance(1, 4) {
                // one caller fails the same matured proposal several times in a row (the failure callback restores
                // the time lock): credits of that caller pile up, with and without EGLD attached
                if etas[k] > now {
                    now = etas[k];
                    sink.exec(&format!("time {}", now));
                }
                let caller = user(rng.below(3) as u8);
                let rounds = rng.range(2, 3);
                for _ in 0..rounds {
                    let (egld, esdt) = match rng.below(5) {
                        0 | 1 => (rng.pick(&["25", "7", "100"]).to_string(), "-".to_string()),
                        2 => ("0".to_string(), "-".to_string()),
                        3 => ("0".to_string(), format!("{}:0:40", TOKENS[0])),
                        _ => ("0".to_string(), format!("{}:0:10,{}:0:5", TOKENS[0], TOKENS[0])),
                    };
                    let out = sink.exec(&format!(
                        "tx {} {} executeProposal {} {} {}",
                        hex::encode(&caller),
                        hex::encode(&gaddr),
                        egld,
                        esdt,
                        args(&[p.target.clone(), p.call_data.clone(), nat(p.value)])
                    ));
                    if out.starts_with("ok") && !out.ends_with("pend=-") {
                        let id = next_pend;
                        next_pend += 1;
                        let ok = rng.chance(1, 6);
                        sink.exec(&if ok { format!("deliver {} ok -", id) } else { format!("deliver {} fail {}", id, crate::enc::fail_code(rng)) });
                        if rng.chance(1, 4) {
                            sink.exec(&format!("tx {} {} withdrawRefundToken 0 - {}", hex::encode(&caller), hex::encode(&gaddr), args(&[token_arg("EGLD", 0)])));
                        }
                        sink.exec(&format!("cb {}", id));
                        sink.exec(&format!("query {} getRefundToken {}", hex::encode(&gaddr), args(&[caller.clone(), token_arg("EGLD", 0)])));
                        sink.exec(&format!("query {} getRefundToken {}", hex::encode(&gaddr), args(&[caller.clone(), token_arg(TOKENS[0], 0)])));
                    }
                }
                let e = sink.exec(&format!("query {} getProposalEta {}", hex::encode(&gaddr), args(&[p.target.clone(), p.call_data.clone(), nat(p.value)])));
                etas[k] = parse_hex_u64(&e);
                continue;
            }
            if r < w_cmd {
                // governance command through the gateway
                let cmd = match focus {
                    "C12" => rng.below(4) as u8,
                    "C16" => *rng.pick(&[0u8, 0, 2, 2, 1]),
                    _ => *rng.pick(&[0u8, 0, 0, 1, 2, 2, 3]),
                };
                let eta = if focus == "C16" { *rng.pick(&[0u64, now, now + 50]) } else { *rng.pick(&[0u64, now, now + 50, now + 100, now + 5000]) };
                let mut payload = execute_payload(cmd, &p, eta);
                let caller = user(rng.below(5) as u8);
                match if focus == "C16" { 7 + rng.below(7) } else { rng.below(14) } {
                    0 => {
                        // forged source
                        g.command(rng, sink, &payload, true, b"ethereum", GOV_ADDR, &caller, None);
                    }
                    1 => {
                        g.command(rng, sink, &payload, true, GOV_CHAIN, b"someone-else", &caller, None);
                    }
                    2 => {
                        // not approved by the gateway
                        g.command(rng, sink, &payload, false, GOV_CHAIN, GOV_ADDR, &caller, None);
                    }
                    3 => {
                        // replay of an already processed command
                        if let Some((id, pl)) = used_ids.last().cloned() {
                            if rng.chance(1, 2) {
                                // the relayer sends the very same batch and proof once more before the replay
                                if let Some((_, raw, proof)) = g.relayed.iter().rev().find(|(i, _, _)| *i == id).cloned() {
                                    g.gw.tx(sink, &user(3), "approveMessages", &[raw, proof]);
                                }
                            }
                            g.command(rng, sink, &pl, false, GOV_CHAIN, GOV_ADDR, &caller, Some(id));
                        }
                    }
                    4 => {
                        payload.pop(); // malformed
                        g.command(rng, sink, &payload, true, GOV_CHAIN, GOV_ADDR, &caller, None);
                    }
                    5 => {
                        let z = Proposal { target: vec![0u8; 32], ..p.clone() };
                        let pl = execute_payload(cmd, &z, eta);
                        g.command(rng, sink, &pl, true, GOV_CHAIN, GOV_ADDR, &caller, None);
                    }
                    6 => {
                        payload[0] = 4 + rng.below(3) as u8; // unknown command
                        g.command(rng, sink, &payload, true, GOV_CHAIN, GOV_ADDR, &caller, None);
                    }
                    _ => {
                        let (out, id) = g.command(rng, sink, &payload, true, GOV_CHAIN, GOV_ADDR, &caller, None);
                        if out.starts_with("ok") {
                            used_ids.push((id, payload.clone()));
                        }
                    }
                }
                let e = sink.exec(&format!("query {} getProposalEta {}", hex::encode(&gaddr), args(&[p.target.clone(), p.call_data.clone(), nat(p.value)])));
                etas[k] = parse_hex_u64(&e);
                let a = sink.exec(&format!("query {} isOperatorProposalApproved {}", hex::encode(&gaddr), args(&[p.target.clone(), p.call_data.clone(), nat(p.value)])));
                approved[k] = parse_hex_u64(&a) == 1;
            } else if r < w_cmd + w_exec {
                // dispatch attempt, at a time chosen relative to the eta; half of the time a proposal that is not live
                // yet is first scheduled / approved by a valid command, so that dispatches (and everything after
                // them: deliveries, callbacks, refunds, repeated dispatch) are frequent
                if rng.chance(1, 2) && ((operator_path && !approved[k]) || (!operator_path && etas[k] == 0)) {
                    let cmd = if operator_path { 2u8 } else { 0u8 };
                    let eta = *rng.pick(&[0u64, now, now + 50]);
                    let payload = execute_payload(cmd, &p, eta);
                    let (out, id) = g.command(rng, sink, &payload, true, GOV_CHAIN, GOV_ADDR, &user(1), None);
                    if out.starts_with("ok") {
                        used_ids.push((id, payload.clone()));
                    }
                    let e = sink.exec(&format!("query {} getProposalEta {}", hex::encode(&gaddr), args(&[p.target.clone(), p.call_data.clone(), nat(p.value)])));
                    etas[k] = parse_hex_u64(&e);
                    let a = sink.exec(&format!("query {} isOperatorProposalApproved {}", hex::encode(&gaddr), args(&[p.target.clone(), p.call_data.clone(), nat(p.value)])));
                    approved[k] = parse_hex_u64(&a) == 1;
                }
                if etas[k] > 0 && rng.chance(2, 3) {
                    let t = *rng.pick(&[etas[k].saturating_sub(1), etas[k], etas[k] + 1]);
                    if t >= now {
                        now = t;
                        sink.exec(&format!("time {}", now));
                    }
                }
                let (egld, esdt) = match rng.below(if focus == "C16" { 6 } else { 8 }) {
                    4 => ("0".to_string(), format!("{}:5:40", SFT)), // semi-fungible: non-zero nonce
                    5 => ("0".to_string(), format!("{}:5:3,{}:0:7,{}:6:2", SFT, TOKENS[0], SFT)),
                    0 => (rng.pick(&["25", "25", "7", "100"]).to_string(), "-".to_string()),
                    1 => ("0".to_string(), format!("{}:0:40", TOKENS[0])),
                    2 => ("0".to_string(), format!("{}:0:10,{}:0:20,{}:0:5", TOKENS[0], TOKENS[1], TOKENS[0])),
                    _ => ("0".to_string(), "-".to_string()),
                };
                let caller = if operator_path {
                    if rng.chance(4, 5) { operator.clone() } else { user(rng.below(6) as u8) }
                } else if focus == "C16" && rng.chance(2, 3) {
                    user(rng.below(2) as u8) // few callers: credits of one caller pile up over several failures
                } else {
                    user(rng.below(6) as u8)
                };
                let func = if operator_path { "executeOperatorProposal" } else { "executeProposal" };
                if rng.chance(1, 12) {
                    // the same bytes split differently between call data and value (and target): must be another proposal
                    let mut cd2 = p.call_data.clone();
                    cd2.extend(nat(p.value));
                    let out = sink.exec(&format!("tx {} {} {} 0 - {}", hex::encode(&caller), hex::encode(&gaddr), func, args(&[p.target.clone(), cd2, nat(0)])));
                    if out.starts_with("ok") && !out.ends_with("pend=-") {
                        pend.push((next_pend, k, false));
                        next_pend += 1;
                    }
                    if !p.call_data.is_empty() {
                        let (a, b) = p.call_data.split_at(p.call_data.len() - 1);
                        let out = sink.exec(&format!("tx {} {} {} 0 - {}", hex::encode(&caller), hex::encode(&gaddr), func, args(&[p.target.clone(), a.to_vec(), nat(b[0] as u128 * 256u128.pow(nat(p.value).len() as u32) + p.value)])));
                        if out.starts_with("ok") && !out.ends_with("pend=-") {
                            pend.push((next_pend, k, false));
                            next_pend += 1;
                        }
                    }
                }
                if rng.chance(1, 8) {
                    // the same target and call data with ANOTHER value that a sloppy hash preimage could confuse with the
                    // scheduled / approved one: shifted by whole bytes, beyond 64 bits, or the zero-value twin
                    let two64: u128 = 1u128 << 64;
                    let mut alts: Vec<u128> = vec![p.value + two64, p.value + two64 + 5];
                    if p.value > 0 {
                        alts.push(p.value * 256);
                        alts.push(p.value * 65536);
                        if p.value % 256 == 0 { alts.push(p.value / 256); }
                    } else {
                        alts.push(two64);
                        alts.push(two64 * 256);
                    }
                    let v2 = *rng.pick(&alts);
                    let out = sink.exec(&format!("tx {} {} {} 0 - {}", hex::encode(&caller), hex::encode(&gaddr), func, args(&[p.target.clone(), p.call_data.clone(), nat(v2)])));
                    if out.starts_with("ok") && !out.ends_with("pend=-") {
                        pend.push((next_pend, k, false));
                        next_pend += 1;
                    }
                }
                let out = sink.exec(&format!(
                    "tx {} {} {} {} {} {}",
                    hex::encode(&caller),
                    hex::encode(&gaddr),
                    func,
                    egld,
                    esdt,
                    args(&[p.target.clone(), p.call_data.clone(), nat(p.value)])
                ));
                if out.starts_with("ok") && !out.ends_with("pend=-") {
                    pend.push((next_pend, k, false));
                    next_pend += 1;
                }
                let e = sink.exec(&format!("query {} getProposalEta {}", hex::encode(&gaddr), args(&[p.target.clone(), p.call_data.clone(), nat(p.value)])));
                etas[k] = parse_hex_u64(&e);
                let a = sink.exec(&format!("query {} isOperatorProposalApproved {}", hex::encode(&gaddr), args(&[p.target.clone(), p.call_data.clone(), nat(p.value)])));
                approved[k] = parse_hex_u64(&a) == 1;
            } else if r < w_cmd + w_exec + w_deliver {
                // advance one pending dispatch by one step
                if !pend.is_empty() {
                    let i = rng.below(pend.len() as u64) as usize;
                    let (id, pk, delivered) = pend[i];
                    if !delivered {
                        let line = if pool[pk].real {
                            format!("deliver {} real", id)
                        } else if rng.chance(1, if focus == "C16" { 4 } else { 2 }) {
                            format!("deliver {} ok {}", id, if rng.chance(1, 2) { "-".to_string() } else { "aa,bb".to_string() })
                        } else {
                            format!("deliver {} fail {}", id, crate::enc::fail_code(rng))
                        };
                        sink.exec(&line);
                        pend[i].2 = true;
                    } else {
                        sink.exec(&format!("cb {}", id));
                        pend.remove(i);
                        if focus == "C16" {
                            for u in 0..2u8 {
                                sink.exec(&format!("query {} getRefundToken {}", hex::encode(&gaddr), args(&[user(u), token_arg("EGLD", 0)])));
                                sink.exec(&format!("query {} getRefundToken {}", hex::encode(&gaddr), args(&[user(u), token_arg(TOKENS[0], 0)])));
                            }
                        }
                        let p2 = pool[pk].clone();
                        let e = sink.exec(&format!("query {} getProposalEta {}", hex::encode(&gaddr), args(&[p2.target.clone(), p2.call_data.clone(), nat(p2.value)])));
                        etas[pk] = parse_hex_u64(&e);
                        let a = sink.exec(&format!("query {} isOperatorProposalApproved {}", hex::encode(&gaddr), args(&[p2.target.clone(), p2.call_data.clone(), nat(p2.value)])));
                        approved[pk] = parse_hex_u64(&a) == 1;
                        let o = sink.exec(&format!("query {} getOperator -", hex::encode(&gaddr)));
                        if let Some(pos) = o.find("r=") {
                            if let Ok(b) = hex::decode(o[pos + 2..].split_whitespace().next().unwrap_or("")) {
                                if b.len() == 32 {
                                    operator = b;
                                }
                            }
                        }
                    }
                }
            } else {
                match rng.below(7) {
                    0 | 1 => {
                        // withdraw a refund credit
                        let u = user(rng.below(6) as u8);
                        let tok = *rng.pick(&["EGLD", TOKENS[0], TOKENS[1], SFT, SFT]);
                        // (a nonce on EGLD or on a fungible token names a different, never credited, asset)
                        let nonce = if tok == SFT { *rng.pick(&[5u64, 6, 0]) } else if rng.chance(1, 5) { *rng.pick(&[7u64, 1]) } else { 0 };
                        if rng.chance(1, 6) {
                            // the endpoint takes ONE token: the same token twice, or two tokens, is not a withdrawal
                            let t2 = if rng.chance(1, 2) { token_arg(tok, nonce) } else { token_arg(TOKENS[1], 0) };
                            sink.exec(&format!("tx {} {} withdrawRefundToken 0 - {}", hex::encode(&u), hex::encode(&gaddr), args(&[token_arg(tok, nonce), t2])));
                        }
                        sink.exec(&format!("tx {} {} withdrawRefundToken 0 - {}", hex::encode(&u), hex::encode(&gaddr), args(&[token_arg(tok, nonce)])));
                    }
                    2 => {
                        let c = if rng.chance(1, 2) { operator.clone() } else { user(rng.below(6) as u8) };
                        let newop = if rng.chance(1, 8) { vec![0u8; 32] } else { user(rng.below(6) as u8) };
                        let out = sink.exec(&format!("tx {} {} transferOperatorship 0 - {}", hex::encode(&c), hex::encode(&gaddr), args(&[newop.clone()])));
                        if out.starts_with("ok") {
                            operator = newop;
                        }
                        sink.exec(&format!("query {} getOperator -", hex::encode(&gaddr)));
                    }
                    3 => {
                        // direct withdraw by anyone: only the contract itself may
                        let c = if rng.chance(1, 3) { operator.clone() } else { user(rng.below(6) as u8) };
                        sink.exec(&format!("tx {} {} withdraw 0 - {}", hex::encode(&c), hex::encode(&gaddr), args(&[c.clone(), nat(100)])));
                    }
                    4 if rng.chance(1, 3) => {
                        // the owner upgrades the contract (same code; `upgrade()` is empty): nothing may change,
                        // also while dispatches are in flight
                        if rng.chance(1, 2) {
                            sink.exec(&format!("wipe {}", hex::encode(&gaddr)));
                        }
                        sink.exec(&format!("tx {} {} upgradeContract 0 - {}", hex::encode(user(0)), hex::encode(&gaddr), args(&[b"governance".to_vec(), vec![5u8, 6u8]])));
                        let p2 = pool[k].clone();
                        sink.exec(&format!("query {} getProposalEta {}", hex::encode(&gaddr), args(&[p2.target.clone(), p2.call_data.clone(), nat(p2.value)])));
                        sink.exec(&format!("query {} isOperatorProposalApproved {}", hex::encode(&gaddr), args(&[p2.target.clone(), p2.call_data.clone(), nat(p2.value)])));
                        sink.exec(&format!("query {} getOperator -", hex::encode(&gaddr)));
                    }
                    _ => {
                        now += *rng.pick(&[1u64, 50, 99, 100, 101, 1000]);
                        sink.exec(&format!("time {}", now));
                    }
                }
            }
            // observations: refund credits and balances
            let u = user(rng.below(6) as u8);
            let tok = *rng.pick(&["EGLD", TOKENS[0], TOKENS[1], SFT]);
            let nonce = if tok == SFT { *rng.pick(&[5u64, 6, 0]) } else { 0 };
            sink.exec(&format!("query {} getRefundToken {}", hex::encode(&gaddr), args(&[u.clone(), token_arg(tok, nonce)])));
            let btok = if nonce == 0 { tok.to_string() } else { format!("{}/{}", tok, nonce) };
            sink.exec(&format!("bal {} {}", hex::encode(&u), btok));
            sink.exec(&format!("bal {} {}", hex::encode(&gaddr), btok));
        }
    }
}

fn parse_hex_u64(out: &str) -> u64 {
    if let Some(p) = out.find("r=") {
        let v = out[p + 2..].split_whitespace().next().unwrap_or(".");
        if v == "." || v == "-" {
            0
        } else {
            u64::from_str_radix(v, 16).unwrap_or(0)
        }
    } else {
        0
    }
}

/// Directed scenarios reproducing finding F3 (a cancel command processed between a dispatch and
/// its failure callback is lost), for the time lock (`operator_path = false`) and for operator
/// approvals (`true`).  Used to produce the committed corpus files.
pub fn scenario_f3(rng: &mut Rng, sink: &mut Sink, operator_path: bool) {
    let gw = gateway::setup_with_sets(rng, sink);
    for i in 0..6 {
        sink.exec(&format!("acct {} 1000000 -", hex::encode(user(i))));
    }
    let gaddr = sc("governance");
    let operator = user(2);
    sink.exec(&format!(
        "deploy governance {} {} {}",
        hex::encode(user(0)),
        hex::encode(&gaddr),
        args(&[gw.addr.clone(), GOV_CHAIN.to_vec(), GOV_ADDR.to_vec(), nat(0), operator.clone()])
    ));
    sink.exec(&format!("acct {} 5000 -", hex::encode(&gaddr)));
    let now = gw.now;
    let mut g = Gov { addr: gaddr.clone(), gw, next_msg: 0, relayed: vec![] };
    let p = Proposal { target: user(5), call_data: call_data(b"doSomething", &[vec![1]], 0), value: 0, real: false };
    let pa = [p.target.clone(), p.call_data.clone(), nat(p.value)];
    let (sched, cancel, func, caller) = if operator_path { (2u8, 3u8, "executeOperatorProposal", operator.clone()) } else { (0u8, 1u8, "executeProposal", user(3)) };
    g.command(rng, sink, &execute_payload(sched, &p, now), true, GOV_CHAIN, GOV_ADDR, &user(1), None);
    sink.exec(&format!("tx {} {} {} 0 - {}", hex::encode(&caller), hex::encode(&gaddr), func, args(&pa)));
    // the cancel command lands while the dispatched call is in flight
    g.command(rng, sink, &execute_payload(cancel, &p, now), true, GOV_CHAIN, GOV_ADDR, &user(1), None);
    sink.exec(&format!("query {} getProposalEta {}", hex::encode(&gaddr), args(&pa)));
    sink.exec(&format!("query {} isOperatorProposalApproved {}", hex::encode(&gaddr), args(&pa)));
    sink.exec("deliver 0 fail");
    sink.exec("cb 0");
    sink.exec(&format!("query {} getProposalEta {}", hex::encode(&gaddr), args(&pa)));
    sink.exec(&format!("query {} isOperatorProposalApproved {}", hex::encode(&gaddr), args(&pa)));
    // the cancelled proposal dispatches again
    sink.exec(&format!("tx {} {} {} 0 - {}", hex::encode(&caller), hex::encode(&gaddr), func, args(&pa)));
}
