pub mod abi;
pub mod gateway;
pub mod gas;
pub mod tm;
pub mod gov;
pub mod its;

use crate::rng::Rng;
use crate::Sink;

pub fn generate(prop: &str, rng: &mut Rng, n: usize, sink: &mut Sink) {
    match prop {
        "C06" => abi::gen_c06(rng, n, sink),
        "C07" => abi::gen_c07(rng, n, sink),
        "C01" | "C02" | "C03" => gateway::gen(rng, n, sink, prop),
        "C15" => gas::gen(rng, n, sink),
        "C09" | "C10" => tm::gen(rng, n, sink, prop),
        "C11" | "C12" | "C16" => gov::gen(rng, n, sink, prop),
        "C04" | "C05" | "C08" | "C13" | "C14" | "C17" | "C18" | "C19" | "C20" => its::gen(rng, n, sink, prop),
        "ITS-F1" | "ITS-F2a" | "ITS-F2b" | "ITS-F4" | "ITS-F5" | "ITS-F6" | "ITS-F7" => its::scenario(rng, sink, &prop[4..]),
        "C11F3" => gov::scenario_f3(rng, sink, false),
        "C12F3" => gov::scenario_f3(rng, sink, true),
        _ => panic!("no generator for {prop}"),
    }
}
