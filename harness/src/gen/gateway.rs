//! Generator for the gateway properties (C01 approvals, C02 lifecycle, C03 rotation).
use ed25519_dalek::{Keypair, PublicKey, SecretKey, Signer};

use crate::enc::*;
use crate::rng::Rng;
use crate::Sink;

#[derive(Clone)]
pub struct SignerSet {
    pub keys: Vec<usize>,    // indices into the key table, sorted by public key
    pub weights: Vec<u128>,
    pub threshold: u128,
    pub nonce: Vec<u8>,
    /// signer hash to sign over instead of the one computed here: the value the gateway itself
    /// reports for the registered set this one was taken (or derived) from
    pub claimed: Option<Vec<u8>>,
}

pub struct Keys {
    pub kps: Vec<Keypair>,
}

impl Keys {
    pub fn new(rng: &mut Rng, n: usize) -> Self {
        let mut kps: Vec<Keypair> = (0..n)
            .map(|_| {
                let seed = rng.bytes(32);
                let secret = SecretKey::from_bytes(&seed).unwrap();
                let public = PublicKey::from(&secret);
                Keypair { secret, public }
            })
            .collect();
        kps.sort_by(|a, b| a.public.as_bytes().cmp(b.public.as_bytes()));
        Keys { kps }
    }
    pub fn pk(&self, i: usize) -> Vec<u8> {
        self.kps[i].public.as_bytes().to_vec()
    }
    pub fn sign(&self, i: usize, msg: &[u8]) -> Vec<u8> {
        self.kps[i].sign(msg).to_bytes().to_vec()
    }
}

/// the same signer set written with NON-MINIMAL numbers: a leading zero byte in the threshold and / or in a weight.
/// It decodes to the same set (so it has the same canonical hash), but the bytes — and their keccak — differ.
pub fn enc_signers_padded(keys: &[Vec<u8>], weights: &[u128], threshold: u128, nonce: &[u8], pad_threshold: bool, pad_weight: Option<usize>) -> Vec<u8> {
    let padded = |n: u128| -> Vec<u8> {
        let mut b = vec![0u8];
        b.extend(nat(n));
        nest_buf(&b)
    };
    let mut v = u32be(keys.len());
    for (i, (k, w)) in keys.iter().zip(weights).enumerate() {
        v.extend_from_slice(k);
        if pad_weight == Some(i) { v.extend(padded(*w)) } else { v.extend(nest_big(*w)) }
    }
    if pad_threshold { v.extend(padded(threshold)) } else { v.extend(nest_big(threshold)) }
    v.extend_from_slice(nonce);
    v
}

pub fn enc_signers_raw(keys: &[Vec<u8>], weights: &[u128], threshold: u128, nonce: &[u8]) -> Vec<u8> {
    let mut v = u32be(keys.len());
    for (k, w) in keys.iter().zip(weights) {
        v.extend_from_slice(k);
        v.extend(nest_big(*w));
    }
    v.extend(nest_big(threshold));
    v.extend_from_slice(nonce);
    v
}

impl SignerSet {
    pub fn enc(&self, keys: &Keys) -> Vec<u8> {
        let ks: Vec<Vec<u8>> = self.keys.iter().map(|i| keys.pk(*i)).collect();
        enc_signers_raw(&ks, &self.weights, self.threshold, &self.nonce)
    }
    pub fn hash(&self, keys: &Keys) -> Vec<u8> {
        keccak(&self.enc(keys))
    }
    pub fn total(&self) -> u128 {
        self.weights.iter().sum()
    }
}

pub const PREFIX: &[u8] = b"\x19MultiversX Signed Message:\n";

pub fn digest(domain: &[u8], signers_hash: &[u8], tag: u8, raw: &[u8]) -> Vec<u8> {
    let mut d = vec![tag];
    d.extend_from_slice(raw);
    let data_hash = keccak(&d);
    keccak(&cat(&[PREFIX, domain, signers_hash, &data_hash]))
}

pub fn rand_set(rng: &mut Rng, nkeys: usize) -> SignerSet {
    let n = rng.range(1, 5.min(nkeys as u64)) as usize;
    let mut idx: Vec<usize> = (0..nkeys).collect();
    // choose n distinct indices, keep sorted (key table is sorted by public key)
    while idx.len() > n {
        let k = rng.below(idx.len() as u64) as usize;
        idx.remove(k);
    }
    let weights: Vec<u128> = (0..n).map(|_| *rng.pick(&[1u128, 1, 2, 3, 5, 10, 1 << 70])).collect();
    let total: u128 = weights.iter().sum();
    let threshold = match rng.below(5) {
        0 => total,
        1 => 1,
        2 => (total + 1) / 2,
        3 => weights[0],
        _ => 1 + (rng.next() as u128) % total,
    };
    SignerSet { keys: idx, weights, threshold, nonce: rng.bytes(32), claimed: None }
}

#[derive(Clone)]
pub struct Msg {
    pub chain: Vec<u8>,
    pub id: Vec<u8>,
    pub src: Vec<u8>,
    pub contract: Vec<u8>,
    pub ph: Vec<u8>,
}

impl Msg {
    pub fn enc(&self) -> Vec<u8> {
        cat(&[&nest_buf(&self.chain), &nest_buf(&self.id), &nest_buf(&self.src), &self.contract, &self.ph])
    }
}

pub struct Gw {
    pub keys: Keys,
    pub addr: Vec<u8>,
    pub owner: Vec<u8>,
    pub domain: Vec<u8>,
    pub sets: Vec<SignerSet>, // registered sets, oldest first
    pub operator: Vec<u8>,
    pub now: u64,
    pub msgs: Vec<Msg>,       // messages ever offered for approval
}

/// how one signature slot is filled
#[derive(Clone, Copy, PartialEq)]
pub enum Slot {
    Valid,
    None,
    OtherTag,
    OtherBatch,
    OtherDomain,
    OtherSet,
    OtherKey,
    Garbage,
}

impl Gw {
    /// proof bytes for `set` over (tag, raw) with the given slot fillings; emits `note sig` lines
    pub fn proof(&self, rng: &mut Rng, sink: &mut Sink, set: &SignerSet, tag: u8, raw: &[u8], slots: &[Slot]) -> Vec<u8> {
        let sh = set.claimed.clone().unwrap_or_else(|| set.hash(&self.keys));
        let d = digest(&self.domain, &sh, tag, raw);
        let mut out = set.enc(&self.keys);
        out.extend(u32be(slots.len()));
        for (pos, s) in slots.iter().enumerate() {
            let key = set.keys.get(pos).copied().unwrap_or(0);
            let (signer, msg): (usize, Vec<u8>) = match s {
                Slot::None => {
                    out.push(0);
                    continue;
                }
                Slot::Garbage => {
                    out.push(1);
                    out.extend(rng.bytes(64));
                    continue;
                }
                Slot::Valid => (key, d.clone()),
                Slot::OtherTag => (key, digest(&self.domain, &sh, 1 - tag, raw)),
                Slot::OtherBatch => {
                    let mut r = raw.to_vec();
                    if r.is_empty() {
                        r.push(0)
                    } else {
                        let k = rng.below(r.len() as u64) as usize;
                        r[k] ^= 1;
                    }
                    (key, digest(&self.domain, &sh, tag, &r))
                }
                Slot::OtherDomain => {
                    let mut dm = self.domain.clone();
                    dm[31] ^= 1;
                    (key, digest(&dm, &sh, tag, raw))
                }
                Slot::OtherSet => {
                    let mut s2 = set.clone();
                    s2.nonce[0] ^= 1;
                    (key, digest(&self.domain, &s2.hash(&self.keys), tag, raw))
                }
                Slot::OtherKey => ((key + 1) % self.keys.kps.len(), d.clone()),
            };
            let sig = self.keys.sign(signer, &msg);
            sink.exec(&format!("note sig {} {} {}", hex::encode(&sig), hex::encode(self.keys.pk(signer)), hex::encode(&msg)));
            out.push(1);
            out.extend(sig);
        }
        out
    }

    /// a slot assignment: mostly a sufficient valid subset, sometimes boundary / corrupted
    pub fn slots(&self, rng: &mut Rng, set: &SignerSet) -> Vec<Slot> {
        let n = set.keys.len();
        let mut slots = vec![Slot::None; n];
        match rng.below(10) {
            0..=4 => {
                // sign in random order until the threshold is reached
                let mut order: Vec<usize> = (0..n).collect();
                for i in (1..n).rev() {
                    order.swap(i, rng.below(i as u64 + 1) as usize);
                }
                let mut tot = 0u128;
                for i in order {
                    if tot >= set.threshold {
                        break;
                    }
                    slots[i] = Slot::Valid;
                    tot += set.weights[i];
                }
            }
            5 => {
                // everybody signs
                for s in slots.iter_mut() {
                    *s = Slot::Valid;
                }
            }
            6 => {
                // just below the threshold: drop signers until insufficient
                for s in slots.iter_mut() {
                    *s = Slot::Valid;
                }
                let mut tot = set.total();
                for i in 0..n {
                    if tot < set.threshold {
                        break;
                    }
                    slots[i] = Slot::None;
                    tot -= set.weights[i];
                }
            }
            7 => {
                // one corrupted slot among valid ones
                for s in slots.iter_mut() {
                    *s = Slot::Valid;
                }
                let k = rng.below(n as u64) as usize;
                slots[k] = *rng.pick(&[Slot::OtherTag, Slot::OtherBatch, Slot::OtherDomain, Slot::OtherSet, Slot::OtherKey, Slot::Garbage]);
            }
            8 => {
                // all slots signed over a digest that differs in one component
                let k = *rng.pick(&[Slot::OtherTag, Slot::OtherBatch, Slot::OtherDomain, Slot::OtherSet]);
                for s in slots.iter_mut() {
                    *s = k;
                }
            }
            _ => {
                for s in slots.iter_mut() {
                    *s = *rng.pick(&[Slot::Valid, Slot::Valid, Slot::None, Slot::OtherKey, Slot::Garbage, Slot::OtherTag]);
                }
            }
        }
        // misaligned lengths now and then
        match rng.below(25) {
            0 => {
                slots.pop();
            }
            1 => slots.push(Slot::Valid),
            2 => slots.clear(),
            _ => {}
        }
        slots
    }

    pub fn rand_msg(&self, rng: &mut Rng, dests: &[Vec<u8>]) -> Msg {
        // re-sent ids with altered fields are common
        if !self.msgs.is_empty() && rng.chance(1, 3) {
            let mut m = rng.pick(&self.msgs).clone();
            match rng.below(4) {
                0 => m.ph = rng.bytes(32),
                1 => m.src = b"other-src".to_vec(),
                2 => m.contract = rng.pick(dests).clone(),
                _ => {}
            }
            return m;
        }
        // the same bytes split differently between source chain and message id: (chain, id) pairs whose
        // concatenation — plain, or with a common separator — coincides with that of an existing message
        if !self.msgs.is_empty() && rng.chance(1, 6) {
            let m0 = rng.pick(&self.msgs).clone();
            let sep: Vec<u8> = rng.pick(&[b"_".to_vec(), b"_".to_vec(), vec![], b"-".to_vec(), b":".to_vec()]).clone();
            let full = cat(&[&m0.chain, &sep, &m0.id]);
            let mut cuts = vec![];
            for p in 0..=full.len().saturating_sub(sep.len()) {
                if full[p..p + sep.len()] == sep[..] && p != m0.chain.len() {
                    cuts.push(p);
                }
            }
            if !cuts.is_empty() {
                let p = *rng.pick(&cuts);
                let mut m = m0.clone();
                m.chain = full[..p].to_vec();
                m.id = full[p + sep.len()..].to_vec();
                return m;
            }
        }
        Msg {
            chain: rng.pick(&[b"ethereum".to_vec(), b"avalanche".to_vec(), b"a".to_vec(), vec![], b"avalanche_fuji".to_vec(), b"eth-2".to_vec()]).clone(),
            id: if rng.chance(1, 4) {
                format!("{}_0x{:x}-{}", rng.pick(&["fuji", "x", "0"]), rng.below(6), rng.below(3)).into_bytes()
            } else {
                format!("0x{:x}-{}", rng.below(6), rng.below(3)).into_bytes()
            },
            src: rng.pick(&[b"0xSender".to_vec(), b"src2".to_vec(), vec![]]).clone(),
            contract: rng.pick(dests).clone(),
            ph: if rng.chance(1, 2) { keccak(&[rng.below(4) as u8]) } else { rng.bytes(32) },
        }
    }

    /// the signer hash the gateway itself reports for an epoch (what a signer in the field signs over)
    pub fn impl_hash(&self, sink: &mut Sink, epoch: usize) -> Option<Vec<u8>> {
        let out = self.query(sink, "signerHashByEpoch", &[nat(epoch as u128)]);
        if !out.starts_with("ok") {
            return None;
        }
        let p = out.find("r=")?;
        let v = out[p + 2..].split_whitespace().next()?;
        let h = hex::decode(v.split(',').next()?).ok()?;
        if h.len() == 32 { Some(h) } else { None }
    }
    /// pick a registered set; now and then sign over the hash the gateway reports for it
    pub fn pick_registered(&self, rng: &mut Rng, sink: &mut Sink, latest: bool) -> SignerSet {
        let i = if latest { self.sets.len() - 1 } else { rng.below(self.sets.len() as u64) as usize };
        let mut s = self.sets[i].clone();
        if rng.chance(1, 3) {
            s.claimed = self.impl_hash(sink, i + 1);
        }
        s
    }
    pub fn tx(&self, sink: &mut Sink, from: &[u8], func: &str, a: &[Vec<u8>]) -> String {
        sink.exec(&format!("tx {} {} {} 0 - {}", hex::encode(from), hex::encode(&self.addr), func, args(a)))
    }
    pub fn query(&self, sink: &mut Sink, func: &str, a: &[Vec<u8>]) -> String {
        sink.exec(&format!("query {} {} {}", hex::encode(&self.addr), func, args(a)))
    }
}

/// like `setup`, but always with at least one registered signer set
pub fn setup_with_sets(rng: &mut Rng, sink: &mut Sink) -> Gw {
    setup_n(rng, sink, true)
}

/// deploy a gateway with a random configuration; returns the generator-side mirror
pub fn setup(rng: &mut Rng, sink: &mut Sink) -> Gw {
    setup_n(rng, sink, false)
}

fn setup_n(rng: &mut Rng, sink: &mut Sink, nonempty: bool) -> Gw {
    sink.exec("reset");
    let keys = Keys::new(rng, 6);
    let owner = user(0);
    for i in 0..5 {
        sink.exec(&format!("acct {} 1000000 -", hex::encode(user(i))));
    }
    let now = rng.below(1000);
    sink.exec(&format!("time {}", now));
    let retention = *rng.pick(&[0u128, 0, 1, 2, 3]);
    let domain = rng.bytes(32);
    let min_delay = *rng.pick(&[0u128, 0, 10, 100]);
    let operator = if rng.chance(1, 5) { vec![0u8; 32] } else { user(1) };
    // now and then a gateway with no signer set registered at all (epoch 0)
    let nsets = if !nonempty && rng.chance(1, 8) { 0 } else { rng.range(1, 2) as usize };
    let mut sets = vec![];
    let mut a = vec![nat(retention), domain.clone(), nat(min_delay), operator.clone()];
    for _ in 0..nsets {
        let s = rand_set(rng, 6);
        a.push(s.enc(&keys));
        sets.push(s);
    }
    let addr = sc("gateway");
    if !nonempty && rng.chance(1, 8) {
        // a deployment whose list of initial signer sets contains a malformed set, or the same set twice, at any
        // position: refused as a whole (the sets registered at deployment obey the rotation rules)
        let mut bad = a[..4].to_vec();
        let good = rand_set(rng, 6).enc(&keys);
        let evil = if rng.chance(1, 4) { good.clone() } else { malformed_set(rng, &keys) };
        match rng.below(3) {
            0 => bad.push(evil),
            1 => { bad.push(good); bad.push(evil) }
            _ => { bad.push(evil); bad.push(good) }
        }
        // (at an address of its own: the debug VM keeps the account of a failed deployment)
        sink.exec(&format!("deploy gateway {} {} {}", hex::encode(&owner), hex::encode(sc("gateway-bad")), args(&bad)));
    }
    let gw = Gw { keys, addr: addr.clone(), owner: owner.clone(), domain, sets, operator, now, msgs: vec![] };
    sink.exec(&format!("deploy gateway {} {} {}", hex::encode(&owner), hex::encode(&addr), args(&a)));
    gw
}

pub fn malformed_set(rng: &mut Rng, keys: &Keys) -> Vec<u8> {
    let k: Vec<Vec<u8>> = (0..keys.kps.len()).map(|i| keys.pk(i)).collect();
    let nonce = rng.bytes(32);
    match rng.below(8) {
        0 => enc_signers_raw(&[], &[], 1, &nonce),                                   // empty
        1 => enc_signers_raw(&[k[1].clone(), k[1].clone()], &[1, 1], 1, &nonce),     // equal keys
        2 => enc_signers_raw(&[k[2].clone(), k[1].clone()], &[1, 1], 1, &nonce),     // descending
        3 => enc_signers_raw(&[k[0].clone(), k[1].clone()], &[1, 0], 1, &nonce),     // zero weight
        4 => enc_signers_raw(&[k[0].clone(), k[1].clone()], &[1, 2], 0, &nonce),     // zero threshold
        5 => enc_signers_raw(&[k[0].clone(), k[1].clone()], &[1, 2], 4, &nonce),     // threshold > total
        6 => {
            let mut v = enc_signers_raw(&[k[0].clone()], &[1], 1, &nonce);
            v.pop();
            v
        } // truncated
        _ => {
            let mut v = enc_signers_raw(&[k[0].clone()], &[1], 1, &nonce);
            v.push(0);
            v
        } // trailing byte
    }
}

pub fn gen(rng: &mut Rng, n: usize, sink: &mut Sink, focus: &str) {
    while sink.count < n {
        let mut gw = setup(rng, sink);
        let dests = vec![user(2), user(3), sc("its")];
        let steps = rng.range(8, 30);
        for _ in 0..steps {
            let r = rng.below(100);
            let (w_approve, w_rotate, w_validate) = match focus {
                "C01" => (55, 15, 10),
                "C02" => (35, 5, 45),
                _ => (20, 50, 5),
            };
            if r < w_approve {
                // approveMessages
                let k = rng.range(0, 3) as usize;
                let mut batch = vec![];
                let mut raw = vec![];
                for _ in 0..k {
                    let m = gw.rand_msg(rng, &dests);
                    raw.extend(m.enc());
                    batch.push(m);
                }
                if rng.chance(1, 6) && !batch.is_empty() {
                    // duplicate id inside one batch, possibly with altered fields
                    let mut m = batch[0].clone();
                    if rng.chance(1, 2) {
                        m.ph = rng.bytes(32);
                    }
                    raw.extend(m.enc());
                    batch.push(m);
                }
                if rng.chance(1, 30) && !raw.is_empty() {
                    raw.pop(); // malformed batch
                }
                let set = if gw.sets.is_empty() || rng.chance(1, 20) { rand_set(rng, 6) } else { gw.pick_registered(rng, sink, false) }; // sometimes an unregistered set
                let set = if rng.chance(1, 7) { variant_of(rng, &set, gw.keys.kps.len()) } else { set };
                let slots = gw.slots(rng, &set);
                let mut proof = gw.proof(rng, sink, &set, 0, &raw, &slots);
                if rng.chance(1, 40) {
                    proof.push(7);
                }
                let caller = user(rng.below(4) as u8);
                let out = gw.tx(sink, &caller, "approveMessages", &[raw, proof]);
                if out.starts_with("ok") {
                    gw.msgs.extend(batch.clone());
                }
                for m in batch.iter().take(2) {
                    gw.query(sink, "isMessageApproved", &[m.chain.clone(), m.id.clone(), m.src.clone(), m.contract.clone(), m.ph.clone()]);
                    gw.query(sink, "messages", &[cat(&[&nest_buf(&m.chain), &nest_buf(&m.id)])]);
                }
            } else if r < w_approve + w_rotate {
                // rotateSigners
                let raw = if rng.chance(1, 5) {
                    malformed_set(rng, &gw.keys)
                } else if rng.chance(1, 8) && !gw.sets.is_empty() {
                    rng.pick(&gw.sets).enc(&gw.keys) // duplicate
                } else if rng.chance(1, 7) {
                    // a set written with non-minimal numbers: a registered one (still a duplicate) or a fresh one (registered
                    // under its canonical hash, found there afterwards)
                    let s0 = if rng.chance(1, 2) && !gw.sets.is_empty() { rng.pick(&gw.sets).clone() } else { rand_set(rng, 6) };
                    let ks: Vec<Vec<u8>> = s0.keys.iter().map(|i| gw.keys.pk(*i)).collect();
                    let pw = if rng.chance(1, 2) && !ks.is_empty() { Some(rng.below(ks.len() as u64) as usize) } else { None };
                    enc_signers_padded(&ks, &s0.weights, s0.threshold, &s0.nonce, pw.is_none() || rng.chance(1, 2), pw)
                } else {
                    rand_set(rng, 6).enc(&gw.keys)
                };
                let signing = if gw.sets.is_empty() {
                    rand_set(rng, 6)
                } else if rng.chance(1, 2) {
                    gw.pick_registered(rng, sink, true)
                } else {
                    gw.pick_registered(rng, sink, false)
                };
                let signing = if rng.chance(1, 8) { variant_of(rng, &signing, gw.keys.kps.len()) } else { signing };
                let slots = gw.slots(rng, &signing);
                let proof = gw.proof(rng, sink, &signing, 1, &raw, &slots);
                let caller = if rng.chance(1, 2) { gw.operator.clone() } else { user(rng.below(4) as u8) };
                let caller = if caller.iter().all(|b| *b == 0) { user(1) } else { caller };
                let out = gw.tx(sink, &caller, "rotateSigners", &[raw.clone(), proof]);
                if out.starts_with("ok") {
                    // mirror: decode our own encoding is not needed, keep a parsed copy
                    if let Some(s) = parse_set(&raw, &gw.keys) {
                        gw.sets.push(s);
                    }
                }
                gw.query(sink, "epoch", &[]);
                gw.query(sink, "lastRotationTimestamp", &[]);
                gw.query(sink, "epochBySignerHash", &[keccak(&raw)]);
                if let Some(s) = parse_set(&raw, &gw.keys) {
                    gw.query(sink, "epochBySignerHash", &[s.hash(&gw.keys)]);
                }
            } else if r < w_approve + w_rotate + w_validate {
                // validateMessage by right / wrong caller with right / wrong fields
                if gw.msgs.is_empty() {
                    continue;
                }
                let mut m = rng.pick(&gw.msgs).clone();
                let caller = if rng.chance(2, 3) { m.contract.clone() } else { rng.pick(&dests).clone() };
                match rng.below(8) {
                    0 => m.ph = rng.bytes(32),
                    1 => m.src = b"other-src".to_vec(),
                    2 => m.chain = b"zzz".to_vec(),
                    // the same source address / chain / id in another letter case is another address / chain / id
                    3 => m.src = crate::gen::its::flip_case(&m.src, rng.chance(1, 2)),
                    4 => {
                        if rng.chance(1, 2) { m.chain = crate::gen::its::flip_case(&m.chain, true) } else { m.id = crate::gen::its::flip_case(&m.id, true) }
                    }
                    _ => {}
                }
                gw.tx(sink, &caller, "validateMessage", &[m.chain.clone(), m.id.clone(), m.src.clone(), m.ph.clone()]);
                gw.query(sink, "isMessageExecuted", &[m.chain.clone(), m.id.clone()]);
                gw.query(sink, "isMessageApproved", &[m.chain.clone(), m.id.clone(), m.src.clone(), m.contract.clone(), m.ph.clone()]);
            } else {
                match rng.below(6) {
                    0 | 1 => {
                        gw.now += *rng.pick(&[0u64, 1, 9, 10, 11, 99, 100, 101, 1000]);
                        sink.exec(&format!("time {}", gw.now));
                    }
                    2 | 3 => {
                        let caller = match rng.below(3) {
                            0 => gw.operator.clone(),
                            1 => gw.owner.clone(),
                            _ => user(rng.below(5) as u8),
                        };
                        let caller = if caller.iter().all(|b| *b == 0) { user(4) } else { caller };
                        let new_op = match rng.below(6) {
                            0 => vec![0u8; 32],
                            1 => vec![1u8; 31],
                            _ => user(rng.below(4) as u8),
                        };
                        let out = gw.tx(sink, &caller, "transferOperatorship", &[new_op.clone()]);
                        if out.starts_with("ok") {
                            gw.operator = new_op;
                        }
                        gw.query(sink, "operator", &[]);
                    }
                    4 if rng.chance(1, 2) => {
                        // the owner upgrades the contract (same code): optional new operator, 0..2 new signer sets
                        // registered without a proof; now and then a duplicate or malformed set, or extra junk
                        let new_op = match rng.below(4) {
                            0 | 1 => vec![0u8; 32],
                            _ => user(rng.below(4) as u8),
                        };
                        let mut a = vec![b"gateway".to_vec(), vec![5u8, 6u8], new_op.clone()];
                        let mut added = vec![];
                        for _ in 0..rng.below(3) {
                            let raw = if rng.chance(1, 6) {
                                malformed_set(rng, &gw.keys)
                            } else if rng.chance(1, 6) && !gw.sets.is_empty() {
                                rng.pick(&gw.sets).enc(&gw.keys)
                            } else {
                                rand_set(rng, 6).enc(&gw.keys)
                            };
                            added.push(raw.clone());
                            a.push(raw);
                        }
                        if rng.chance(1, 2) {
                            sink.exec(&format!("wipe {}", hex::encode(&gw.addr)));
                        }
                        let out = gw.tx(sink, &gw.owner.clone(), "upgradeContract", &a);
                        if out.starts_with("ok") {
                            if !new_op.iter().all(|b| *b == 0) {
                                gw.operator = new_op;
                            }
                            for raw in &added {
                                if let Some(s) = parse_set(raw, &gw.keys) {
                                    gw.sets.push(s);
                                }
                            }
                        }
                        gw.query(sink, "epoch", &[]);
                        gw.query(sink, "operator", &[]);
                        gw.query(sink, "lastRotationTimestamp", &[]);
                        for raw in &added {
                            gw.query(sink, "epochBySignerHash", &[keccak(raw)]);
                        }
                    }
                    4 => {
                        let caller = user(rng.below(4) as u8);
                        let plen = rng.below(80) as usize;
                        let payload = rng.bytes(plen);
                        gw.tx(sink, &caller, "callContract", &[b"chain".to_vec(), b"addr".to_vec(), payload]);
                    }
                    _ => {
                        // validateProof view with a proof over an arbitrary data hash
                        let dh = rng.bytes(32);
                        let set = if gw.sets.is_empty() { rand_set(rng, 6) } else { rng.pick(&gw.sets).clone() };
                        let sh = set.hash(&gw.keys);
                        let d = keccak(&cat(&[PREFIX, &gw.domain, &sh, &dh]));
                        let mut proof = set.enc(&gw.keys);
                        proof.extend(u32be(set.keys.len()));
                        for k in &set.keys {
                            let sig = gw.keys.sign(*k, &d);
                            sink.exec(&format!("note sig {} {} {}", hex::encode(&sig), hex::encode(gw.keys.pk(*k)), hex::encode(&d)));
                            proof.push(1);
                            proof.extend(sig);
                        }
                        gw.query(sink, "validateProof", &[dh, proof]);
                    }
                }
            }
        }
    }
}

/// a registered set with exactly one component altered (threshold, one weight, nonce, membership):
/// its signatures are consistent with the altered set, which the gateway never registered
pub fn variant_of(rng: &mut Rng, set: &SignerSet, nkeys: usize) -> SignerSet {
    let mut s = set.clone();
    match rng.below(7) {
        0 => s.threshold = 1,
        1 => s.threshold = s.threshold.saturating_sub(1).max(1),
        2 => s.threshold += 1,
        3 => {
            if !s.weights.is_empty() {
                let k = rng.below(s.weights.len() as u64) as usize;
                s.weights[k] += *rng.pick(&[1u128, 1000]);
            }
        }
        4 => {
            if !s.nonce.is_empty() {
                let k = rng.below(s.nonce.len() as u64) as usize;
                s.nonce[k] ^= 1;
            }
        }
        5 => {
            if s.keys.len() > 1 {
                s.keys.pop();
                s.weights.pop();
                s.threshold = s.threshold.min(s.weights.iter().sum::<u128>()).max(1);
            }
        }
        _ => {
            // one more signer (keeps the ascending key order only by luck: both cases are of interest)
            let k = rng.below(nkeys as u64) as usize;
            if !s.keys.contains(&k) {
                s.keys.push(k);
                s.weights.push(1);
            }
        }
    }
    s
}

/// parse our own signer-set encoding back into a mirror (only for sets built from the key table)
pub fn parse_set(raw: &[u8], keys: &Keys) -> Option<SignerSet> {
    if raw.len() < 4 {
        return None;
    }
    let n = u32::from_be_bytes([raw[0], raw[1], raw[2], raw[3]]) as usize;
    let mut p = 4;
    let mut idx = vec![];
    let mut weights = vec![];
    let rd_big = |p: &mut usize| -> Option<u128> {
        if *p + 4 > raw.len() {
            return None;
        }
        let l = u32::from_be_bytes([raw[*p], raw[*p + 1], raw[*p + 2], raw[*p + 3]]) as usize;
        *p += 4;
        if *p + l > raw.len() || l > 16 {
            return None;
        }
        let mut v = 0u128;
        for b in &raw[*p..*p + l] {
            v = (v << 8) | *b as u128;
        }
        *p += l;
        Some(v)
    };
    for _ in 0..n {
        if p + 32 > raw.len() {
            return None;
        }
        let k = &raw[p..p + 32];
        p += 32;
        idx.push((0..keys.kps.len()).find(|i| keys.pk(*i) == k)?);
        weights.push(rd_big(&mut p)?);
    }
    let threshold = rd_big(&mut p)?;
    if p + 32 != raw.len() {
        return None;
    }
    Some(SignerSet { keys: idx, weights, threshold, nonce: raw[p..].to_vec(), claimed: None })
}
