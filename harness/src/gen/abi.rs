//! Generators for the ABI codec properties (C06, C07).
use crate::rng::Rng;
use crate::world::hx;
use crate::Sink;

pub fn h(b: &[u8]) -> String {
    if b.is_empty() {
        ".".into()
    } else {
        hx(b)
    }
}

const LENS: [usize; 14] = [0, 1, 2, 31, 32, 33, 63, 64, 65, 95, 96, 97, 128, 200];

pub fn rand_len(rng: &mut Rng) -> usize {
    match rng.below(10) {
        0..=5 => *rng.pick(&LENS),
        6..=8 => rng.below(70) as usize,
        _ => rng.below(600) as usize,
    }
}

pub fn rand_buf(rng: &mut Rng) -> Vec<u8> {
    let n = rand_len(rng);
    match rng.below(4) {
        0 => vec![0u8; n],
        1 => vec![0xffu8; n],
        _ => rng.bytes(n),
    }
}

/// big-endian minimal bytes of an interesting integer; `allow_big`: may exceed 2^256
pub fn rand_int(rng: &mut Rng, allow_big: bool) -> Vec<u8> {
    let mut v = match rng.below(12) {
        0 => vec![],
        1 => vec![1],
        2 => {
            let mut x = vec![0u8; 32];
            x[0] = 0x80;
            x
        } // 2^255
        3 => vec![0xff; 32], // 2^256-1
        4 => {
            if allow_big {
                let mut x = vec![0u8; 33];
                x[0] = 1;
                x
            } else {
                vec![0xff; 31]
            }
        } // 2^256
        5 => {
            if allow_big {
                let mut x = vec![0u8; 38];
                x[0] = 0x10;
                x
            } else {
                vec![7]
            }
        } // 2^300
        6 => rng.bytes(32),
        7 => {
            let n = rng.range(1, 8) as usize;
            rng.bytes(n)
        }
        8 => {
            let n = rng.range(1, 32) as usize;
            rng.bytes(n)
        }
        9 => {
            if allow_big {
                let n = rng.range(33, 40) as usize;
                rng.bytes(n)
            } else {
                rng.bytes(16)
            }
        }
        _ => {
            let n = rng.range(1, 4) as usize;
            rng.bytes(n)
        }
    };
    while !v.is_empty() && v[0] == 0 {
        v.remove(0);
    }
    v
}

pub const TYPES: [&str; 5] = ["transfer", "deploy", "hub", "metadata", "link"];

/// field kinds per type: 'I' uint256, 'A' bytes32, 'B' bytes/string, 'U' uint8, 'T' token manager type
pub fn kinds(ty: &str) -> &'static str {
    match ty {
        "transfer" => "IABBIB",
        "deploy" => "IABBUB",
        "hub" => "IBB",
        "metadata" => "IBU",
        "link" => "IATBBB",
        _ => unreachable!(),
    }
}

pub fn rand_fields(rng: &mut Rng, ty: &str, allow_big: bool) -> Vec<Vec<u8>> {
    kinds(ty)
        .chars()
        .map(|k| match k {
            'I' => rand_int(rng, allow_big),
            'A' => {
                if rng.chance(1, 4) {
                    vec![0u8; 32]
                } else {
                    rng.bytes(32)
                }
            }
            'B' => rand_buf(rng),
            'U' => vec![*rng.pick(&[0u8, 1, 6, 18, 127, 128, 255])],
            'T' => vec![rng.below(5) as u8],
            _ => unreachable!(),
        })
        .collect()
}

pub fn gen_c06(rng: &mut Rng, n: usize, sink: &mut Sink) {
    for _ in 0..n {
        let ty = *rng.pick(&TYPES);
        let fields = rand_fields(rng, ty, true);
        let line = format!("abi.enc {} {}", ty, fields.iter().map(|f| h(f)).collect::<Vec<_>>().join(" "));
        sink.exec(&line);
    }
}

/// Independent Solidity `abi.encode` for the harness (used to produce canonical inputs for the
/// decoder; never compared against as an oracle — the Lean spec is the oracle).
pub fn sol_enc(ty: &str, fields: &[Vec<u8>]) -> Vec<u8> {
    fn word(v: &[u8]) -> Vec<u8> {
        let mut w = vec![0u8; 32 - v.len().min(32)];
        w.extend_from_slice(&v[v.len().saturating_sub(32)..]);
        w
    }
    let ks: Vec<char> = kinds(ty).chars().collect();
    let mut heads: Vec<u8> = vec![];
    let mut tails: Vec<u8> = vec![];
    let head_len = 32 * ks.len();
    for (k, f) in ks.iter().zip(fields) {
        match k {
            'I' | 'U' | 'T' => heads.extend(word(f)),
            'A' => heads.extend(f.clone()),
            'B' => {
                heads.extend(word(&((head_len + tails.len()) as u64).to_be_bytes()));
                tails.extend(word(&(f.len() as u64).to_be_bytes()));
                tails.extend(f.clone());
                tails.extend(vec![0u8; (32 - f.len() % 32) % 32]);
            }
            _ => unreachable!(),
        }
    }
    heads.extend(tails);
    heads
}

fn set_word(bs: &mut Vec<u8>, slot_off: usize, v: &[u8]) {
    if slot_off + 32 > bs.len() {
        return;
    }
    for i in 0..32 {
        bs[slot_off + i] = 0;
    }
    let n = v.len().min(32);
    bs[slot_off + 32 - n..slot_off + 32].copy_from_slice(&v[v.len() - n..]);
}

pub fn mutate(rng: &mut Rng, ty: &str, canon: &[u8]) -> Vec<u8> {
    let mut bs = canon.to_vec();
    let nfields = kinds(ty).len();
    let dyn_slots: Vec<usize> = kinds(ty).chars().enumerate().filter(|(_, k)| *k == 'B').map(|(i, _)| i).collect();
    match rng.below(15) {
        14 => {
            // a word of 2^16 / 2^24 or more in an offset or length position, inside a buffer large
            // enough (70 KB of zero padding) that a decoder mis-assembling the four low bytes
            // would land in bounds
            if !dyn_slots.is_empty() {
                let s = *rng.pick(&dyn_slots);
                let target = if rng.chance(1, 2) {
                    s * 32
                } else if s * 32 + 32 <= bs.len() {
                    u32::from_be_bytes([bs[s * 32 + 28], bs[s * 32 + 29], bs[s * 32 + 30], bs[s * 32 + 31]]) as usize
                } else {
                    s * 32
                };
                if target + 32 <= bs.len() {
                    let which = 28 + rng.below(2) as usize;
                    bs[target + which] = *rng.pick(&[1u8, 1, 2, 0x80]);
                    bs.extend(vec![0u8; 70_000]);
                }
            }
        }
        0 => {
            // truncate
            let k = rng.below(bs.len() as u64 + 1) as usize;
            bs.truncate(k);
        }
        1 => {
            // truncate by a few bytes
            let k = rng.range(1, 33) as usize;
            let l = bs.len().saturating_sub(k);
            bs.truncate(l);
        }
        2 => {
            // extend
            let k = rng.range(1, 70) as usize;
            bs.extend(rng.bytes(k));
        }
        3 => {
            // rewrite an offset: aliasing another field's tail / backwards / into heads
            if !dyn_slots.is_empty() {
                let s = *rng.pick(&dyn_slots);
                let target = match rng.below(4) {
                    0 => rng.below(nfields as u64 + 3) * 32,
                    1 => rng.below(bs.len() as u64 + 40),
                    2 => 0,
                    _ => bs.len() as u64 - (rng.below(3) * 32).min(bs.len() as u64),
                };
                set_word(&mut bs, s * 32, &target.to_be_bytes());
            }
        }
        4 => {
            // huge offset / length (>= 2^32, or with dirty high bytes)
            if !dyn_slots.is_empty() {
                let s = *rng.pick(&dyn_slots);
                let mut w = vec![0u8; 32];
                let pos = rng.below(28) as usize;
                w[pos] = 1 + rng.below(255) as u8;
                // keep the low 4 bytes equal to the original so only the high bytes are dirty
                if s * 32 + 32 <= bs.len() {
                    let orig = bs[s * 32 + 28..s * 32 + 32].to_vec();
                    w[28..32].copy_from_slice(&orig);
                }
                set_word(&mut bs, s * 32, &w);
            }
        }
        5 => {
            // rewrite a length word
            if !dyn_slots.is_empty() {
                let s = *rng.pick(&dyn_slots);
                if s * 32 + 32 <= bs.len() {
                    let off = u32::from_be_bytes([bs[s * 32 + 28], bs[s * 32 + 29], bs[s * 32 + 30], bs[s * 32 + 31]]) as usize;
                    let newlen: u64 = match rng.below(5) {
                        0 => 0,
                        1 => bs.len() as u64,
                        2 => (bs.len() as u64).saturating_sub(off as u64 + 32),
                        3 => (bs.len() as u64).saturating_sub(off as u64 + 32) + 1,
                        _ => rng.below(100),
                    };
                    set_word(&mut bs, off, &newlen.to_be_bytes());
                    if rng.chance(1, 4) && off + 32 <= bs.len() {
                        bs[off + rng.below(28) as usize] = 0x01;
                    }
                }
            }
        }
        6 => {
            // dirty padding: flip a byte in the last word
            if bs.len() >= 32 {
                let l = bs.len();
                bs[l - 1 - rng.below(31) as usize] ^= 0x5a;
            }
        }
        7 => {
            // dirty high bytes of a static word (uint8 / type fields matter most)
            let stat: Vec<usize> = kinds(ty).chars().enumerate().filter(|(_, k)| *k == 'U' || *k == 'T' || *k == 'I').map(|(i, _)| i).collect();
            let s = *rng.pick(&stat);
            if s * 32 + 32 <= bs.len() {
                bs[s * 32 + rng.below(31) as usize] = 1 + rng.below(255) as u8;
            }
        }
        8 => {
            // uint8 / type value boundary
            let stat: Vec<usize> = kinds(ty).chars().enumerate().filter(|(_, k)| *k == 'U' || *k == 'T').map(|(i, _)| i).collect();
            if !stat.is_empty() {
                let s = *rng.pick(&stat);
                if s * 32 + 32 <= bs.len() {
                    bs[s * 32 + 31] = *rng.pick(&[0u8, 4, 5, 6, 255]);
                    if rng.chance(1, 3) {
                        bs[s * 32 + 30] = 1;
                    }
                }
            }
        }
        9 => {
            // random bytes of random length
            let n = rng.below(300) as usize;
            bs = rng.bytes(n);
        }
        10 => {
            // random words, small values (plausible offsets)
            let n = rng.range(1, 14) as usize;
            bs = vec![];
            for _ in 0..n {
                let v = rng.below((n as u64 + 2) * 32);
                let mut w = vec![0u8; 32];
                w[24..32].copy_from_slice(&v.to_be_bytes());
                bs.extend(w);
            }
        }
        11 => {
            // flip one random byte
            if !bs.is_empty() {
                let i = rng.below(bs.len() as u64) as usize;
                bs[i] ^= 1 << rng.below(8);
            }
        }
        12 => {
            // message type word: >= 2^64
            if bs.len() >= 32 {
                bs[rng.below(24) as usize] = 1 + rng.below(255) as u8;
            }
        }
        _ => {
            // two dynamic fields share a tail
            if dyn_slots.len() >= 2 {
                let a = dyn_slots[0];
                let b = dyn_slots[dyn_slots.len() - 1];
                if b * 32 + 32 <= bs.len() {
                    let w = bs[a * 32..a * 32 + 32].to_vec();
                    bs[b * 32..b * 32 + 32].copy_from_slice(&w);
                }
            }
        }
    }
    bs
}

pub fn gen_c07(rng: &mut Rng, n: usize, sink: &mut Sink) {
    for i in 0..n {
        let ty = *rng.pick(&TYPES);
        let fields = rand_fields(rng, ty, false);
        let canon = sol_enc(ty, &fields);
        let bs = if i % 3 == 0 { canon } else { mutate(rng, ty, &canon) };
        // the same bytes are also offered to another type's decoder now and then
        let ty2 = if rng.chance(1, 8) { *rng.pick(&TYPES) } else { ty };
        sink.exec(&format!("abi.dec {} {}", ty2, h(&bs)));
        if rng.chance(1, 3) {
            sink.exec(&format!("abi.msgtype {}", h(&bs)));
        }
        if rng.chance(1, 4) {
            // the real encoder followed by the real decoder, on values including the integer boundaries
            let f2 = rand_fields(rng, ty, true);
            sink.exec(&format!("abi.rt {} {}", ty, f2.iter().map(|f| h(f)).collect::<Vec<_>>().join(" ")));
        }
    }
}
