//! Generator for C15 (gas service custody).
use crate::enc::*;
use crate::rng::Rng;
use crate::Sink;

const TOKENS: [&str; 3] = ["GAS-aaaaaa", "TOK-bbbbbb", "WEGLD-cccccc"];
const PAY_ESDT: [&str; 4] = ["payGasForContractCall", "payGasForExpressCall", "addGas", "addExpressGas"];
const PAY_EGLD: [&str; 4] = ["payNativeGasForContractCall", "payNativeGasForExpressCall", "addNativeGas", "addNativeExpressGas"];

pub fn gen(rng: &mut Rng, n: usize, sink: &mut Sink) {
    while sink.count < n {
        sink.exec("reset");
        let owner = user(0);
        let gs = sc("gas-service");
        for i in 0..6 {
            sink.exec(&format!(
                "acct {} 1000000 {},{}:4:1000000",
                hex::encode(user(i)),
                TOKENS.iter().map(|t| format!("{}:0:1000000", t)).collect::<Vec<_>>().join(","),
                TOKENS[0]
            ));
        }
        // now and then the collector is the zero address (at deployment, or set later by collector / owner)
        let mut collector = if rng.chance(1, 8) { vec![0u8; 32] } else { user(1) };
        sink.exec(&format!("deploy gas-service {} {} {}", hex::encode(&owner), hex::encode(&gs), args(&[collector.clone()])));
        let steps = rng.range(10, 40);
        for _ in 0..steps {
            let caller = match rng.below(4) {
                0 | 1 => collector.clone(),
                2 => owner.clone(),
                _ => user(rng.below(6) as u8),
            };
            let caller = if caller.iter().all(|b| *b == 0) { user(rng.below(6) as u8) } else { caller };
            let r = rng.below(100);
            if r < 45 {
                // payments
                let esdt_ep = rng.chance(1, 2);
                let func = if esdt_ep { *rng.pick(&PAY_ESDT) } else { *rng.pick(&PAY_EGLD) };
                let amount = *rng.pick(&[0u64, 1, 1, 5, 100, 1000, 999_999, 1_000_001]);
                // payment shape: mostly the right one, sometimes the wrong kind / two payments / none
                let (egld, esdt) = match rng.below(12) {
                    0 => (amount.to_string(), "-".to_string()),
                    1 => ("0".to_string(), format!("{}:0:{}", rng.pick(&TOKENS), amount)),
                    2 => ("0".to_string(), format!("{}:0:{},{}:0:1", TOKENS[0], amount, TOKENS[1])),
                    3 => ("0".to_string(), "-".to_string()),
                    // a semi-fungible instance (non-zero nonce) of a gas token: never a fungible receipt
                    4 => ("0".to_string(), format!("{}:4:{}", TOKENS[0], amount.max(1))),
                    _ => {
                        if esdt_ep {
                            ("0".to_string(), format!("{}:0:{}", rng.pick(&TOKENS), amount))
                        } else {
                            (amount.to_string(), "-".to_string())
                        }
                    }
                };
                let refund = user(rng.below(6) as u8);
                let a = if func.starts_with("pay") {
                    let plen = rng.below(60) as usize;
                    vec![user(rng.below(6) as u8), b"ethereum".to_vec(), b"0xdest".to_vec(), rng.bytes(plen), refund]
                } else {
                    vec![b"0xtxhash".to_vec(), nat(rng.below(300) as u128), refund]
                };
                sink.exec(&format!("tx {} {} {} {} {} {}", hex::encode(&caller), hex::encode(&gs), func, egld, esdt, args(&a)));
            } else if r < 70 {
                // collectFees
                let k = rng.range(0, 4) as usize;
                let mut toks: Vec<Vec<u8>> = vec![];
                let mut amts: Vec<Vec<u8>> = vec![];
                if rng.chance(1, 2) {
                    // boundary mode: repeated entries of one token around the service's current balance
                    let t = *rng.pick(&["EGLD", TOKENS[0], TOKENS[1], TOKENS[2]]);
                    let out = sink.exec(&format!("bal {} {}", hex::encode(&gs), t));
                    let b: u128 = out.split("n=").nth(1).and_then(|v| v.trim().parse().ok()).unwrap_or(0);
                    let shapes: [Vec<u128>; 6] = [
                        vec![b, 1],
                        vec![b / 2 + 1, b / 2 + 1],
                        vec![b, b],
                        vec![b + 1, b],
                        vec![1, b],
                        vec![b.saturating_sub(1).max(1), 1, 1],
                    ];
                    for a in rng.pick(&shapes) {
                        toks.push(t.as_bytes().to_vec());
                        amts.push(nat(*a));
                    }
                    if rng.chance(1, 3) {
                        toks.push(rng.pick(&TOKENS).as_bytes().to_vec());
                        amts.push(nat(1));
                    }
                } else {
                    for _ in 0..k {
                        toks.push(if rng.chance(1, 3) { b"EGLD".to_vec() } else { rng.pick(&TOKENS).as_bytes().to_vec() });
                        amts.push(nat(*rng.pick(&[0u128, 1, 1, 3, 50, 100, 1000, 5_000_000])));
                    }
                }
                if rng.chance(1, 10) {
                    amts.pop();
                }
                let receiver = match rng.below(8) {
                    0 => vec![0u8; 32],
                    _ => user(rng.below(6) as u8),
                };
                let mut a = vec![receiver, nat(toks.len() as u128)];
                a.extend(toks);
                a.push(nat(amts.len() as u128));
                a.extend(amts);
                sink.exec(&format!("tx {} {} collectFees 0 - {}", hex::encode(&caller), hex::encode(&gs), args(&a)));
            } else if r < 88 {
                // refund
                let tok = if rng.chance(1, 3) { b"EGLD".to_vec() } else { rng.pick(&TOKENS).as_bytes().to_vec() };
                let receiver = match rng.below(8) {
                    0 => vec![0u8; 32],
                    _ => user(rng.below(6) as u8),
                };
                let amt = *rng.pick(&[1u128, 1, 2, 10, 100, 1000, 5_000_000]);
                let a = vec![b"0xtxhash".to_vec(), nat(rng.below(300) as u128), receiver, tok, nat(amt)];
                sink.exec(&format!("tx {} {} refund 0 - {}", hex::encode(&caller), hex::encode(&gs), args(&a)));
            } else if r < 91 {
                // the owner upgrades the contract (same code; `upgrade()` is empty): nothing may change
                let mut a = vec![b"gas-service".to_vec(), vec![5u8, 6u8]];
                if rng.chance(1, 6) {
                    a.push(user(2)); // surplus argument: refused
                }
                if rng.chance(1, 2) {
                    sink.exec(&format!("wipe {}", hex::encode(&gs)));
                }
                sink.exec(&format!("tx {} {} upgradeContract 0 - {}", hex::encode(&owner), hex::encode(&gs), args(&a)));
                sink.exec(&format!("query {} gas_collector -", hex::encode(&gs)));
            } else {
                let newc = if rng.chance(1, 6) { vec![0u8; 32] } else { user(rng.below(6) as u8) };
                let caller = if collector.iter().all(|b| *b == 0) && rng.chance(1, 2) { user(rng.below(6) as u8) } else { caller };
                let out = sink.exec(&format!("tx {} {} setGasCollector 0 - {}", hex::encode(&caller), hex::encode(&gs), args(&[newc.clone()])));
                if out.starts_with("ok") {
                    collector = newc;
                }
                sink.exec(&format!("query {} gas_collector -", hex::encode(&gs)));
            }
            // observe balances of the service and of one user
            let t = *rng.pick(&["EGLD", TOKENS[0], TOKENS[1], TOKENS[2]]);
            sink.exec(&format!("bal {} {}", hex::encode(&gs), t));
            sink.exec(&format!("bal {} {}", hex::encode(user(rng.below(6) as u8)), t));
        }
    }
}
