//! Generator for the Interchain Token Service properties
//! (C04, C05, C08, C13, C14, C17, C18, C19, C20): one world with all five contracts.
use crate::enc::*;
use crate::gen::abi::sol_enc;
use crate::gen::gateway::{self, Gw, Msg, Slot};
use crate::gen::tm::params;
use crate::rng::Rng;
use crate::Sink;

pub const TOK: &str = "TOK-aaaaaa"; // canonical, lock/unlock
pub const MB: &str = "MBT-bbbbbb"; // custom mint/burn
pub const OTH: &str = "OTH-cccccc"; // unregistered
pub const EGLD_ESDT: &str = "EGLD-000000";
pub const EGLX: &str = "EGLD-abcdef"; // an ordinary ESDT whose ticker happens to be EGLD
pub const CHAIN: &[u8] = b"multiversx";
pub const ETH: &[u8] = b"ethereum";
pub const ETH_ITS: &[u8] = b"0xEthereumItsAddress";
pub const AVA: &[u8] = b"avalanche"; // hub-routed
pub const HUB: &[u8] = b"axelar";
pub const HUB_ITS: &[u8] = b"axelar1hubitsaddress";

pub struct World {
    pub gw: Gw,
    pub its: Vec<u8>,
    pub gs: Vec<u8>,
    pub owner: Vec<u8>,
    pub operator: Vec<u8>,
    pub now: u64,
    pub next_msg: u64,
    pub next_pend: usize,
    pub next_tm: usize,
    pub paused: bool,
    /// token ids known to be registered: (token id, token identifier or "" if not yet issued, kind)
    pub tokens: Vec<(Vec<u8>, String, u8)>,
    /// pending async items: (id, kind, delivered)
    pub pend: Vec<(usize, PendK, bool)>,
    /// messages approved for ITS: (chain, id, src, payload)
    pub approved: Vec<(Vec<u8>, Vec<u8>, Vec<u8>, Vec<u8>)>,
    /// the batch and proof each of them was relayed with (same index): relayers may send a batch again
    pub relayed: Vec<(Vec<u8>, Vec<u8>)>,
    pub hub_set: bool,
    pub eth_set: bool,
    /// every token id a registration / deployment was attempted for (manager possibly without a token yet)
    pub ids: Vec<Vec<u8>>,
}

#[derive(Clone, PartialEq)]
pub enum PendK {
    Exec,   // transfer with data: external destination
    Props,  // getTokenProperties
    Issue,  // token issuance by a token manager (address index)
}

/// the same text with the case of its letters changed (all of them, or only the first)
pub fn flip_case(b: &[u8], first_only: bool) -> Vec<u8> {
    let mut out = b.to_vec();
    for c in out.iter_mut() {
        if c.is_ascii_alphabetic() {
            *c ^= 0x20;
            if first_only {
                break;
            }
        }
    }
    out
}

/// decimal text of a big-endian number
pub fn num_dec(be: &[u8]) -> String {
    multiversx_sc_scenario::num_bigint::BigUint::from_bytes_be(be).to_string()
}

fn word_nat(n: u128) -> Vec<u8> {
    nat(n)
}

pub fn transfer_payload(token_id: &[u8], src: &[u8], dst: &[u8], amount: u128, data: &[u8]) -> Vec<u8> {
    sol_enc("transfer", &[word_nat(0), token_id.to_vec(), src.to_vec(), dst.to_vec(), word_nat(amount), data.to_vec()])
}
pub fn deploy_payload(token_id: &[u8], name: &[u8], symbol: &[u8], decimals: u8, minter: &[u8]) -> Vec<u8> {
    sol_enc("deploy", &[word_nat(1), token_id.to_vec(), name.to_vec(), symbol.to_vec(), vec![decimals], minter.to_vec()])
}
pub fn link_payload(token_id: &[u8], ty: u8, src_tok: &[u8], dst_tok: &[u8], params: &[u8]) -> Vec<u8> {
    sol_enc("link", &[word_nat(5), token_id.to_vec(), vec![ty], src_tok.to_vec(), dst_tok.to_vec(), params.to_vec()])
}
pub fn hub_wrap(mt: u128, chain: &[u8], payload: &[u8]) -> Vec<u8> {
    sol_enc("hub", &[word_nat(mt), chain.to_vec(), payload.to_vec()])
}

pub fn tm_addr(k: usize) -> Vec<u8> {
    sc(&format!("tm{:03}", k))
}

impl World {
    pub fn tx(&self, sink: &mut Sink, from: &[u8], func: &str, egld: u128, esdt: &str, a: &[Vec<u8>]) -> String {
        sink.exec(&format!("tx {} {} {} {} {} {}", hex::encode(from), hex::encode(&self.its), func, egld, esdt, args(a)))
    }
    pub fn query(&self, sink: &mut Sink, func: &str, a: &[Vec<u8>]) -> String {
        sink.exec(&format!("query {} {} {}", hex::encode(&self.its), func, args(a)))
    }
    /// approve a message for ITS at the gateway
    pub fn approve(&mut self, rng: &mut Rng, sink: &mut Sink, chain: &[u8], src: &[u8], payload: &[u8], id: Option<Vec<u8>>) -> Vec<u8> {
        let id = id.unwrap_or_else(|| {
            self.next_msg += 1;
            format!("msg-{}", self.next_msg).into_bytes()
        });
        let m = Msg { chain: chain.to_vec(), id: id.clone(), src: src.to_vec(), contract: self.its.clone(), ph: keccak(payload) };
        let raw = m.enc();
        let set = self.gw.sets.last().unwrap().clone();
        let slots = vec![Slot::Valid; set.keys.len()];
        let proof = self.gw.proof(rng, sink, &set, 0, &raw, &slots);
        self.gw.tx(sink, &user(0), "approveMessages", &[raw.clone(), proof.clone()]);
        self.approved.push((chain.to_vec(), id.clone(), src.to_vec(), payload.to_vec()));
        self.relayed.push((raw, proof));
        id
    }
    pub fn execute(&mut self, sink: &mut Sink, caller: &[u8], chain: &[u8], id: &[u8], src: &[u8], payload: &[u8], egld: u128) -> String {
        let out = self.tx(sink, caller, "execute", egld, "-", &[chain.to_vec(), id.to_vec(), src.to_vec(), payload.to_vec()]);
        self.track(&out, PendK::Exec);
        out
    }
    /// remember pending calls announced by an outcome line
    pub fn track(&mut self, out: &str, default_kind: PendK) {
        if let Some(p) = out.find("pend=") {
            let pd = &out[p + 5..];
            if pd.trim() != "-" {
                for item in pd.split(';') {
                    let kind = if item.contains(":getTokenProperties:") {
                        PendK::Props
                    } else if item.contains(":registerAndSetAllRoles:") {
                        PendK::Issue
                    } else if item.contains(":executeWithInterchainToken:") {
                        PendK::Exec
                    } else {
                        default_kind.clone()
                    };
                    self.pend.push((self.next_pend, kind, false));
                    self.next_pend += 1;
                }
            }
        }
        // count token managers deployed in this outcome (token_manager_deployed_event)
        if out.starts_with("ok") {
            self.next_tm += out.matches("|token_manager_deployed_event|").count();
        }
    }
    pub fn observe(&self, rng: &mut Rng, sink: &mut Sink) {
        // balances of ITS, gas service, a user and one token manager in a random token
        let toks: Vec<String> = self.tokens.iter().map(|t| t.1.clone()).filter(|t| !t.is_empty()).collect();
        let t = if toks.is_empty() || rng.chance(1, 3) { "EGLD".to_string() } else { rng.pick(&toks).clone() };
        sink.exec(&format!("bal {} {}", hex::encode(&self.its), t));
        sink.exec(&format!("bal {} EGLD", hex::encode(&self.its)));
        sink.exec(&format!("bal {} {}", hex::encode(&self.gs), t));
        sink.exec(&format!("bal {} {}", hex::encode(user(rng.below(6) as u8)), t));
        if self.next_tm > 0 {
            let tm = tm_addr(rng.below(self.next_tm as u64) as usize);
            sink.exec(&format!("bal {} {}", hex::encode(&tm), t));
            sink.exec(&format!("query {} getImplementationTypeAndTokenIdentifier -", hex::encode(&tm)));
        }
    }
}

pub fn setup(rng: &mut Rng, sink: &mut Sink) -> World {
    let gw = gateway::setup_with_sets(rng, sink); // reset, users 0..4, gateway
    for i in 0..8 {
        sink.exec(&format!(
            "acct {} 10000000000000000000 {}:0:1000000,{}:0:1000000,{}:0:1000000,{}:0:1000000,{}:3:1000,{}:2:1000,{}:0:1000000",
            hex::encode(user(i)),
            TOK,
            MB,
            OTH,
            EGLD_ESDT,
            TOK,
            OTH,
            EGLX
        ));
    }
    // one holder of an astronomically large balance (amounts beyond 2^256)
    sink.exec(&format!("acct {} 10000000000000000000 {}:0:{},{}:0:{}", hex::encode(user(7)), TOK, num_dec(&[vec![0x10u8], vec![0u8; 40]].concat()), MB, num_dec(&[vec![0x10u8], vec![0u8; 40]].concat())));
    let owner = user(0);
    let gs = sc("gas-service");
    sink.exec(&format!("deploy gas-service {} {} {}", hex::encode(&owner), hex::encode(&gs), args(&[user(6)])));
    let tmpl = sc("tm-template");
    sink.exec(&format!(
        "deploy token-manager {} {} {}",
        hex::encode(&owner),
        hex::encode(&tmpl),
        args(&[user(7), vec![2], vec![9u8; 32], params(None, Some(TOK.as_bytes()))])
    ));
    let its = sc("its");
    for k in 0..30 {
        sink.exec(&format!("newaddr {} {} {}", hex::encode(&its), k, hex::encode(tm_addr(k))));
    }
    let operator = user(2);
    // trusted table: ethereum direct, avalanche via hub, hub itself — sometimes incomplete
    let hub_set = rng.chance(9, 10);
    let eth_set = rng.chance(9, 10);
    let mut names: Vec<Vec<u8>> = vec![AVA.to_vec(), b"polygon".to_vec()];
    let mut addrs: Vec<Vec<u8>> = vec![b"hub".to_vec(), b"hub".to_vec()];
    if eth_set {
        names.push(ETH.to_vec());
        addrs.push(ETH_ITS.to_vec());
    }
    if hub_set {
        names.push(HUB.to_vec());
        addrs.push(HUB_ITS.to_vec());
    }
    let mut a = vec![gw.addr.clone(), gs.clone(), tmpl.clone(), operator.clone(), CHAIN.to_vec(), nat(names.len() as u128)];
    a.extend(names);
    a.push(nat(addrs.len() as u128));
    a.extend(addrs);
    sink.exec(&format!("deploy its {} {} {}", hex::encode(&owner), hex::encode(&its), args(&a)));
    let now = gw.now;
    let mut w = World {
        gw,
        its,
        gs,
        owner,
        operator,
        now,
        next_msg: 0,
        next_pend: 0,
        next_tm: 0,
        paused: false,
        tokens: vec![],
        pend: vec![],
        approved: vec![],
        relayed: vec![],
        hub_set,
        eth_set,
        ids: vec![],
    };
    // the VM mock does not turn EGLD-000000 multi-transfers into native value: a service that holds some native
    // value lets the "gas as EGLD-in-ESDT" shape go through (both sides see the same balances)
    if rng.chance(3, 4) {
        sink.exec(&format!("acct {} 100000 -", hex::encode(&w.its)));
    }
    // canonical token (lock/unlock)
    let out = w.tx(sink, &user(1), "registerCanonicalInterchainToken", 0, "-", &[TOK.as_bytes().to_vec()]);
    w.track(&out, PendK::Exec);
    if let Some(tid) = result_bytes(&out) {
        w.tokens.push((tid, TOK.to_string(), 2));
        // give the manager some holdings so that inbound transfers can be paid out
        sink.exec(&format!("acct {} 0 {}:0:5000", hex::encode(tm_addr(w.next_tm - 1)), TOK));
    }
    // custom mint/burn token
    let out = w.tx(sink, &user(1), "registerCustomToken", 0, "-", &[vec![1u8; 32], MB.as_bytes().to_vec(), vec![4], user(3)]);
    w.track(&out, PendK::Exec);
    if let Some(tid) = result_bytes(&out) {
        w.tokens.push((tid, MB.to_string(), 4));
        sink.exec(&format!("roles {} {} ESDTRoleLocalMint,ESDTRoleLocalBurn", hex::encode(tm_addr(w.next_tm - 1)), MB));
    }
    // EGLD canonical (lock/unlock of the native coin) now and then
    if rng.chance(1, 2) {
        let out = w.tx(sink, &user(1), "registerCanonicalInterchainToken", 0, "-", &[b"EGLD".to_vec()]);
        w.track(&out, PendK::Exec);
        if let Some(tid) = result_bytes(&out) {
            w.tokens.push((tid, "EGLD".to_string(), 2));
            sink.exec(&format!("acct {} 5000 -", hex::encode(tm_addr(w.next_tm - 1))));
        }
    }
    w
}

pub fn result_bytes(out: &str) -> Option<Vec<u8>> {
    if !out.starts_with("ok") {
        return None;
    }
    let p = out.find("r=")?;
    let v = out[p + 2..].split_whitespace().next()?;
    let first = v.split(',').next()?;
    hex::decode(first).ok()
}

/// one native interchain token through the factory's three steps (steps may be interrupted)
pub fn factory_flow(rng: &mut Rng, sink: &mut Sink, w: &mut World, deployer: &[u8], salt: &[u8], supply: u128, minter: &[u8], complete: bool) {
    let a = vec![salt.to_vec(), b"My Token".to_vec(), b"MTK".to_vec(), vec![18], nat(supply), minter.to_vec()];
    // step 1: token manager
    let out = w.tx(sink, deployer, "deployInterchainToken", 0, "-", &a);
    w.track(&out, PendK::Issue);
    let tid = result_bytes(&out);
    if let Some(t) = tid.clone() {
        if !w.ids.contains(&t) {
            w.ids.push(t);
        }
    }
    if !complete && rng.chance(1, 3) {
        return;
    }
    // the later steps repeat the request — now and then with a changed supply / minter, which must be judged on
    // its own (a zero supply without a minter is refused on every step)
    let vary = |rng: &mut Rng, a: &Vec<Vec<u8>>| -> Vec<Vec<u8>> {
        let mut b = a.clone();
        if !complete && rng.chance(1, 4) {
            match rng.below(5) {
                0 => { b[4] = nat(0); b[5] = vec![0u8; 32] }
                1 => b[5] = vec![0u8; 32],
                2 => b[4] = nat(0),
                3 => b[4] = nat(777),
                _ => b[5] = user(rng.below(6) as u8),
            }
        }
        b
    };
    let a = vary(rng, &a);
    // step 2: issue (needs the issue cost)
    let out = w.tx(sink, deployer, "deployInterchainToken", *rng.pick(&[50000000000000000u128, 50000000000000000, 0]), "-", &a);
    w.track(&out, PendK::Issue);
    if !complete && rng.chance(1, 3) {
        return;
    }
    // deliver the issuance
    if let Some(i) = w.pend.iter().position(|p| p.1 == PendK::Issue && !p.2) {
        let id = w.pend[i].0;
        let newtok = format!("MTK-{:06x}", rng.below(0xffffff));
        let ok = complete || rng.chance(3, 4);
        let out = sink.exec(&if ok { format!("deliver {} ok {}", id, hex::encode(newtok.as_bytes())) } else { format!("deliver {} fail {}", id, crate::enc::fail_code(rng)) });
        w.pend[i].2 = true;
        if out.starts_with("ok") && w.next_tm > 0 {
            sink.exec(&format!("roles {} {} ESDTRoleLocalMint,ESDTRoleLocalBurn", hex::encode(tm_addr(w.next_tm - 1)), newtok));
        }
        let out2 = sink.exec(&format!("cb {}", id));
        w.pend.remove(i);
        if out.starts_with("ok") && out2.starts_with("ok") {
            if let Some(t) = tid.clone() {
                // other users get some of the new token so that transfers of it can be requested by anybody
                for k in [0u8, 2, 3, 4, 5] {
                    sink.exec(&format!("acct {} 10000000000000000000 {}:0:5000", hex::encode(user(k)), newtok));
                }
                w.tokens.push((t, newtok, 0));
            }
        }
    }
    if (!complete && rng.chance(1, 3)) || supply == 987 {
        return; // (supply 987 marks the directed flows that stop with the service still holding the roles)
    }
    // step 3: mint + hand-over
    let a = vary(rng, &a);
    let out = w.tx(sink, deployer, "deployInterchainToken", 0, "-", &a);
    w.track(&out, PendK::Issue);
}

/// directed (C18): the three local steps run with DIFFERENT arguments — manager created for a minter-only request
/// (the nominee becomes its operator), then issued and minted with a supply: the hand-over meets a nominee who already
/// holds a role; afterwards the service must hold none and the mint step must not be repeatable
fn factory_flow_changed_supply(rng: &mut Rng, sink: &mut Sink, w: &mut World) {
    let salt = vec![rng.below(3) as u8 + 130; 32];
    let d = user(1);
    let m = user(*rng.pick(&[4u8, 2, 5]));
    let a0 = vec![salt.clone(), b"My Token".to_vec(), b"MTK".to_vec(), vec![18], nat(0), m.clone()];
    let a1 = vec![salt.clone(), b"My Token".to_vec(), b"MTK".to_vec(), vec![18], nat(1000), m.clone()];
    let before_tm = w.next_tm;
    let out = w.tx(sink, &d, "deployInterchainToken", 0, "-", &a0);
    w.track(&out, PendK::Issue);
    if let Some(t) = result_bytes(&out) {
        if !w.ids.contains(&t) {
            w.ids.push(t);
        }
    }
    let out = w.tx(sink, &d, "deployInterchainToken", 50000000000000000, "-", &a1);
    w.track(&out, PendK::Issue);
    if let Some(i) = w.pend.iter().position(|p| p.1 == PendK::Issue && !p.2) {
        let id = w.pend[i].0;
        let newtok = format!("MTK-{:06x}", rng.below(0xffffff));
        let out = sink.exec(&format!("deliver {} ok {}", id, hex::encode(newtok.as_bytes())));
        w.pend[i].2 = true;
        if out.starts_with("ok") && w.next_tm > 0 {
            sink.exec(&format!("roles {} {} ESDTRoleLocalMint,ESDTRoleLocalBurn", hex::encode(tm_addr(w.next_tm - 1)), newtok));
        }
        sink.exec(&format!("cb {}", id));
        w.pend.remove(i);
    }
    for _ in 0..2 {
        let out = w.tx(sink, &d, "deployInterchainToken", 0, "-", &a1);
        w.track(&out, PendK::Issue);
    }
    if w.next_tm > before_tm {
        let tm = tm_addr(w.next_tm - 1);
        let its = w.its.clone();
        sink.exec(&format!("query {} getAccountRoles {}", hex::encode(&tm), args(&[its])));
        sink.exec(&format!("query {} getAccountRoles {}", hex::encode(&tm), args(&[m])));
    }
}

pub fn gen(rng: &mut Rng, n: usize, sink: &mut Sink, focus: &str) {
    while sink.count < n {
        let mut w = setup(rng, sink);
        if rng.chance(2, 3) {
            let minter = if rng.chance(3, 4) { user(4) } else { vec![0u8; 32] };
            let supply = *rng.pick(&[0u128, 1000, 1000]);
            let minter = if supply == 0 && minter.iter().all(|b| *b == 0) { user(4) } else { minter };
            factory_flow(rng, sink, &mut w, &user(1), &[7u8; 32], supply, &minter, true);
        }
        let steps = rng.range(12, 40);
        // one run in five: at some point the owner upgrades a service that was deployed by earlier code
        let upgrade_at = if rng.chance(1, 5) { rng.below(steps) } else { u64::MAX };
        for i in 0..steps {
            if i == upgrade_at {
                let owner = w.owner.clone();
                sink.exec(&format!("wipe {}", hex::encode(&w.its)));
                w.tx(sink, &owner, "upgradeContract", 0, "-", &[b"its".to_vec(), vec![5u8, 6u8]]);
                for q in ["interchainTokenId", "linkedTokenId"] {
                    w.query(sink, q, &[user(1), vec![7u8; 32]]);
                }
                w.query(sink, "canonicalInterchainTokenId", &[TOK.as_bytes().to_vec()]);
            }
            step(rng, sink, &mut w, focus);
            w.observe(rng, sink);
        }
    }
}

fn pick_token(rng: &mut Rng, w: &World) -> (Vec<u8>, String, u8) {
    if w.tokens.is_empty() || rng.chance(1, 12) {
        (rng.bytes(32), OTH.to_string(), 9) // unknown token id
    } else {
        rng.pick(&w.tokens).clone()
    }
}

fn inbound_source(rng: &mut Rng, payload: &[u8]) -> (Vec<u8>, Vec<u8>, Vec<u8>) {
    // (source chain, source address, payload as sent): direct from ethereum, or wrapped by the hub
    match rng.below(12) {
        10 => (b"nowhere".to_vec(), vec![], payload.to_vec()), // chain without a trusted address, empty source address
        11 => (rng.pick(&[ETH.to_vec(), b"polygon".to_vec(), b"nowhere".to_vec()]).clone(), rng.pick(&[vec![], b"hub".to_vec(), ETH_ITS.to_vec()]).clone(), payload.to_vec()),
        0..=4 => (ETH.to_vec(), ETH_ITS.to_vec(), payload.to_vec()),
        5..=7 => (HUB.to_vec(), HUB_ITS.to_vec(), hub_wrap(4, AVA, payload)),
        8 => (HUB.to_vec(), HUB_ITS.to_vec(), hub_wrap(4, ETH, payload)), // original chain not hub-routed
        _ => (HUB.to_vec(), HUB_ITS.to_vec(), payload.to_vec()),          // direct (unwrapped) from the hub chain
    }
}

/// inbound link-token / deploy-token messages, otherwise valid, with the route drawn like that of transfers — half of
/// the time straight (unwrapped) from the hub chain's trusted address, which no message type may use
fn inbound_other_types(rng: &mut Rng, sink: &mut Sink, w: &mut World, caller: &[u8]) {
    let tid = vec![rng.below(150) as u8 + 100; 32];
    let inner = if rng.chance(1, 2) {
        let (ty, tok) = *rng.pick(&[(2u8, TOK), (2, MB), (4, MB), (3, TOK), (1, MB)]);
        link_payload(&tid, ty, b"0xSrcToken", tok.as_bytes(), &[])
    } else {
        deploy_payload(&tid, b"Remote Token", b"RTK", 6, &[])
    };
    let (chain, src, payload) = if rng.chance(1, 2) { (HUB.to_vec(), HUB_ITS.to_vec(), inner.clone()) } else { inbound_source(rng, &inner) };
    let id = w.approve(rng, sink, &chain, &src, &payload, None);
    w.execute(sink, caller, &chain, &id, &src, &payload, 0);
    w.query(sink, "invalidTokenManagerAddress", &[tid]);
    sink.exec(&format!("query {} isMessageExecuted {}", hex::encode(&w.gw.addr), args(&[chain.clone(), id.clone()])));
}

fn step(rng: &mut Rng, sink: &mut Sink, w: &mut World, focus: &str) {
    if ["C04", "C08", "C18"].contains(&focus) && !w.approved.is_empty() && rng.chance(1, 25) {
        // a relayer sends an old batch (same bytes, same proof) once more, then somebody executes that message again:
        // whatever became of the message meanwhile (executed, in flight, still approved) stays as it is
        let i = rng.below(w.approved.len() as u64) as usize;
        let (chain, id, src, payload) = w.approved[i].clone();
        let (raw, proof) = w.relayed[i].clone();
        w.gw.tx(sink, &user(3), "approveMessages", &[raw, proof]);
        sink.exec(&format!("query {} isMessageExecuted {}", hex::encode(&w.gw.addr), args(&[chain.clone(), id.clone()])));
        let c = user(rng.below(6) as u8);
        w.execute(sink, &c, &chain, &id, &src, &payload, 0);
        return;
    }
    if focus == "C04" && w.next_tm > 0 && rng.chance(1, 30) {
        // every account in turn (operators and minters of the manager among them) asks a token manager directly to hand
        // out tokens: only the service may
        let tm = tm_addr(rng.below(w.next_tm as u64) as usize);
        let dest = user(rng.below(6) as u8);
        for i in 0..6u8 {
            let f = if rng.chance(3, 4) { "giveToken" } else { "mint" };
            sink.exec(&format!("tx {} {} {} 0 - {}", hex::encode(user(i)), hex::encode(&tm), f, args(&[dest.clone(), nat(7)])));
        }
        sink.exec(&format!("bal {} {}", hex::encode(&dest), TOK));
        return;
    }
    if focus == "C04" && rng.chance(1, 40) {
        // a transfer relayed BETWEEN the two steps of an inbound token deployment (the manager exists, its token does not
        // yet): nothing can be handed out, so the transfer must fail and its approval must stay — then the issuing step
        let tid = vec![rng.below(100) as u8 + 150; 32];
        if !w.ids.contains(&tid) {
            w.ids.push(tid.clone());
        }
        let dep = deploy_payload(&tid, b"Remote Token", b"RTK", 6, &[]);
        let did = w.approve(rng, sink, ETH, ETH_ITS, &dep, None);
        w.execute(sink, &user(2), ETH, &did, ETH_ITS, &dep, 0);
        let dest = user(rng.below(6) as u8);
        let tr = sol_enc("transfer", &[word_nat(0), tid.clone(), b"0xsrc".to_vec(), dest.clone(), word_nat(25), vec![]]);
        let trid = w.approve(rng, sink, ETH, ETH_ITS, &tr, None);
        w.execute(sink, &user(3), ETH, &trid, ETH_ITS, &tr, 0);
        sink.exec(&format!("query {} isMessageExecuted {}", hex::encode(&w.gw.addr), args(&[ETH.to_vec(), trid.clone()])));
        w.execute(sink, &user(2), ETH, &did, ETH_ITS, &dep, 50000000000000000);
        return;
    }
    if focus == "C17" && rng.chance(1, 30) {
        // a completed minter-only deployment, then the issuing call once more with the issue cost attached (a retry that
        // arrives late): the value must not stay in the service
        let salt = vec![rng.below(3) as u8 + 120; 32];
        let d = user(1);
        factory_flow(rng, sink, w, &d, &salt, 0, &user(4), true);
        let a = vec![salt.clone(), b"My Token".to_vec(), b"MTK".to_vec(), vec![18], nat(0), user(4)];
        let out = w.tx(sink, &d, "deployInterchainToken", 50000000000000000, "-", &a);
        w.track(&out, PendK::Issue);
        let its = w.its.clone();
        sink.exec(&format!("bal {} EGLD", hex::encode(&its)));
        return;
    }
    if focus == "C18" && rng.chance(1, 40) {
        factory_flow_changed_supply(rng, sink, w);
        return;
    }
    if focus == "C13" && rng.chance(1, 10) {
        let c = user(rng.below(6) as u8);
        inbound_other_types(rng, sink, w, &c);
        return;
    }
    // weights: inbound no-data, inbound with data, outbound, deliver/cb, admin(pause/trusted/flow), registration, remote deploy / metadata, minter approvals, time
    let wts: [u64; 9] = match focus {
        "C04" => [45, 5, 10, 5, 10, 10, 0, 0, 15],
        "C05" => [5, 0, 60, 0, 15, 10, 0, 0, 10],
        "C08" => [5, 35, 10, 30, 15, 0, 0, 0, 5],
        "C13" => [20, 5, 20, 12, 23, 4, 12, 0, 4],
        "C14" => [5, 0, 5, 10, 5, 55, 10, 5, 5],
        "C17" => [0, 0, 5, 35, 20, 5, 35, 0, 0],
        "C18" => [5, 0, 5, 25, 5, 50, 5, 0, 5],
        "C19" => [0, 0, 0, 15, 10, 15, 20, 40, 0],
        _ => [12, 8, 15, 12, 25, 10, 10, 4, 4], // C20
    };
    let total: u64 = wts.iter().sum();
    let mut r = rng.below(total);
    let mut kind = 0;
    for (i, x) in wts.iter().enumerate() {
        if r < *x {
            kind = i;
            break;
        }
        r -= x;
    }
    let caller = user(rng.below(6) as u8);
    match kind {
        0 | 1 => {
            // inbound transfer: a valid approved message over a trusted route with (mostly) zero or one fault
            // injected; the fully random mix now and then
            let known: Vec<(Vec<u8>, String, u8)> = w.tokens.iter().filter(|t| !t.1.is_empty()).cloned().collect();
            if known.is_empty() || rng.chance(1, 8) {
                inbound_random(rng, sink, w, &caller, kind);
            } else {
                let (mut tid, _tok, _k) = rng.pick(&known).clone();
                let fault = if rng.chance(1, 2) { 0 } else { rng.range(1, 24) };
                let mut dest = user(rng.below(6) as u8);
                let mut amount = *rng.pick(&[1u128, 5, 10, 100]);
                let dl = rng_len(rng);
                let data = if kind == 1 { rng.bytes(dl) } else { vec![] };
                let mut mt_word = word_nat(0);
                match fault {
                    1 => dest = vec![1u8; 31],
                    2 => dest = vec![1u8; 33],
                    3 => dest = vec![],
                    4 => tid = rng.bytes(32),
                    5 => amount = 6000,
                    6 => mt_word = word_nat(7),
                    7 => {
                        let mut x = vec![0u8; 32];
                        match rng.below(4) {
                            0 => x[24] = 0x80,
                            1 => x[23] = 1,
                            2 => x[0] = 0x80,
                            _ => { x[23] = 1; x[31] = 1 }
                        }
                        mt_word = x;
                    }
                    8 => mt_word = word_nat(*rng.pick(&[2u128, 3, 4, 6])),
                    _ => {}
                }
                let inner = sol_enc("transfer", &[mt_word, tid.clone(), b"0xsrc".to_vec(), dest.clone(), word_nat(amount), data.clone()]);
                // route
                let direct = if w.eth_set && w.hub_set { rng.chance(1, 2) } else { w.eth_set };
                let (mut chain, mut src, mut payload) = if direct {
                    (ETH.to_vec(), ETH_ITS.to_vec(), inner.clone())
                } else {
                    (HUB.to_vec(), HUB_ITS.to_vec(), hub_wrap(4, &rng.pick(&[AVA.to_vec(), b"polygon".to_vec()]).clone(), &inner))
                };
                match fault {
                    9 => { chain = b"nowhere".to_vec(); src = vec![]; payload = inner.clone() }
                    10 => { chain = HUB.to_vec(); src = HUB_ITS.to_vec(); payload = hub_wrap(4, ETH, &inner) }
                    11 => { chain = HUB.to_vec(); src = HUB_ITS.to_vec(); payload = inner.clone() }
                    12 => { chain = ETH.to_vec(); src = HUB_ITS.to_vec(); payload = inner.clone() }
                    13 => { chain = ETH.to_vec(); src = ETH_ITS.to_vec(); payload = hub_wrap(4, AVA, &inner) }
                    14 => { chain = HUB.to_vec(); src = HUB_ITS.to_vec(); payload = hub_wrap(*rng.pick(&[3u128, 0, 5]), AVA, &inner) }
                    15 => { chain = AVA.to_vec(); src = b"hub".to_vec(); payload = inner.clone() }
                    _ => {}
                }
                let mut exec_src = src.clone();
                let mut exec_payload = payload.clone();
                let mut egld = 0u128;
                let id = match fault {
                    16 => {
                        w.next_msg += 1;
                        format!("msg-{}", w.next_msg).into_bytes() // never approved
                    }
                    17 => {
                        let id = w.approve(rng, sink, &chain, &src, &payload, None);
                        let l = exec_payload.len();
                        exec_payload[l - 40] ^= 1; // approved, executed with a tampered payload
                        id
                    }
                    18 => {
                        // approved for another source address than the (trusted) one claimed at execution
                        let id = w.approve(rng, sink, &chain, b"0xEvil", &payload, None);
                        exec_src = src.clone();
                        id
                    }
                    19 => {
                        // approval addressed to another contract
                        w.next_msg += 1;
                        let id = format!("msg-{}", w.next_msg).into_bytes();
                        let m = Msg { chain: chain.clone(), id: id.clone(), src: src.clone(), contract: user(3), ph: keccak(&payload) };
                        let raw = m.enc();
                        let set = w.gw.sets.last().unwrap().clone();
                        let slots = vec![Slot::Valid; set.keys.len()];
                        let proof = w.gw.proof(rng, sink, &set, 0, &raw, &slots);
                        w.gw.tx(sink, &user(0), "approveMessages", &[raw, proof]);
                        id
                    }
                    20 => {
                        egld = 5;
                        w.approve(rng, sink, &chain, &src, &payload, None)
                    }
                    21 => {
                        // approved and executed under the wrong (untrusted) source address
                        exec_src = b"0xEvil".to_vec();
                        w.approve(rng, sink, &chain, b"0xEvil", &payload, None)
                    }
                    22 | 23 => {
                        // a look-alike of the trusted peer: the same address in another letter case (a different account
                        // on chains with case-sensitive addresses), approved by the gateway under that spelling
                        let alike = flip_case(&src, fault == 23);
                        exec_src = alike.clone();
                        w.approve(rng, sink, &chain, &alike, &payload, None)
                    }
                    _ => w.approve(rng, sink, &chain, &src, &payload, None),
                };
                w.execute(sink, &caller, &chain, &id, &exec_src, &exec_payload, egld);
                if rng.chance(1, 3) {
                    // immediate second attempt (with the genuine fields)
                    w.execute(sink, &caller, &chain, &id, &src, &payload, 0);
                }
                if rng.chance(1, 6) {
                    // replay of an earlier message
                    if let Some((c, i, s2, p)) = w.approved.get(rng.below(w.approved.len() as u64) as usize).cloned() {
                        w.execute(sink, &caller, &c, &i, &s2, &p, 0);
                    }
                }
                sink.exec(&format!("query {} isMessageExecuted {}", hex::encode(&w.gw.addr), args(&[chain.clone(), id.clone()])));
                w.query(sink, "transferWithDataLock", &[chain.clone(), id.clone()]);
            }
        }
        2 if rng.chance(1, 14) => {
            // a holder of an astronomically large balance sends an amount around 2^256: the message format cannot
            // carry 2^256 or more, so such a transfer must be refused as a whole (nothing taken into custody)
            let known: Vec<(Vec<u8>, String, u8)> = w.tokens.iter().filter(|t| !t.1.is_empty() && t.1 != "EGLD").cloned().collect();
            if let Some((tid, tok, _k)) = known.first().cloned() {
                let whale = user(7);
                let shapes: [Vec<u8>; 5] = [
                    { let mut v = vec![1u8]; v.extend(vec![0u8; 32]); v },                 // 2^256
                    { let mut v = vec![1u8]; v.extend(vec![0u8; 30]); v.extend([1, 2]); v }, // 2^256 + 258
                    vec![0xffu8; 32],                                                    // 2^256 - 1: the largest legal amount
                    { let mut v = vec![0x01u8, 0x02]; v.extend(vec![0u8; 38]); v },        // 40 bytes
                    { let mut v = vec![2u8]; v.extend(vec![0u8; 32]); v },                 // 2^257
                ];
                let amt = rng.pick(&shapes).clone();
                let dec = num_dec(&amt);
                let gas = *rng.pick(&[0u128, 0, 3]);
                let chain = rng.pick(&[ETH.to_vec(), AVA.to_vec()]).clone();
                let func = if rng.chance(1, 2) { "interchainTransfer" } else { "callContractWithInterchainToken" };
                let last = if func == "interchainTransfer" { vec![] } else { b"data".to_vec() };
                sink.exec(&format!(
                    "tx {} {} {} 0 {}:0:{} {}",
                    hex::encode(&whale), hex::encode(&w.its), func, tok, dec,
                    args(&[tid.clone(), chain, b"0xRecipient".to_vec(), last, nat(gas)])
                ));
                sink.exec(&format!("bal {} {}", hex::encode(&whale), tok));
            }
        }
        2 => {
            // outbound transfer: a valid request with (mostly) zero or one fault injected, so that every
            // refusal rule is met on an otherwise acceptable call; a fully random mix now and then
            let known: Vec<(Vec<u8>, String, u8)> = w.tokens.iter().filter(|t| !t.1.is_empty()).cloned().collect();
            if known.is_empty() || rng.chance(1, 10) {
                outbound_random(rng, sink, w, &caller);
            } else {
                let (tid, tok, _k) = rng.pick(&known).clone();
                let amount = *rng.pick(&[1u128, 2, 10, 100, 1000]);
                // fault: 0 = none
                let fault = if rng.chance(11, 20) { 0 } else { rng.range(1, 19) };
                let mut tid = tid;
                let mut amount = amount;
                let mut dest_chain = rng.pick(&[ETH.to_vec(), ETH.to_vec(), AVA.to_vec(), AVA.to_vec(), b"polygon".to_vec()]).clone();
                let mut dest_addr = rng.pick(&[b"0xRecipient".to_vec(), b"r".to_vec(), vec![0xab; 40]]).clone();
                // payment shape
                let shape = if tok == "EGLD" { 0 } else { rng.range(1, 5) as u64 };
                let mut gas = match shape {
                    0 | 1 => *rng.pick(&[0u128, 0, 1, amount - 1]).min(&(amount - 1)),
                    _ => *rng.pick(&[1u128, 5, amount, amount + 3]),
                };
                let mut first_tok = tok.clone();
                let mut first_nonce = 0u64;
                let mut second: Option<(String, u64, u128)> = match shape {
                    2 => Some((EGLD_ESDT.to_string(), 0, gas)),
                    3 => Some((OTH.to_string(), 0, gas)),
                    4 => Some((tok.clone(), 0, gas)),
                    5 => Some((EGLX.to_string(), 0, gas)), // gas in an ESDT that merely looks like EGLD
                    _ => None,
                };
                let mut third = false;
                match fault {
                    1 => amount = 0,
                    2 => { if second.is_none() { gas = amount } else { second.as_mut().unwrap().2 = gas + 1 } }
                    3 => { if second.is_none() { gas = amount + 1 } else { second.as_mut().unwrap().2 = gas.saturating_sub(1).max(1); gas += 1 } }
                    4 => third = true,
                    5 => { first_nonce = 3; first_tok = TOK.to_string() }
                    6 => { second = Some((OTH.to_string(), 2, gas.max(1))); gas = gas.max(1) }
                    7 => first_tok = if tok == OTH { TOK.to_string() } else { OTH.to_string() },
                    8 => tid = rng.bytes(32),
                    9 => dest_chain = b"nowhere".to_vec(),
                    10 => dest_chain = HUB.to_vec(),
                    11 => dest_chain = vec![],
                    12 => dest_chain = CHAIN.to_vec(),
                    13 => dest_addr = vec![],
                    _ => {}
                }
                let (egld, esdt) = if shape == 0 && fault != 5 && fault != 7 {
                    if fault == 4 {
                        (0u128, format!("{}:0:{},{}:0:1,{}:0:1", EGLD_ESDT, amount, OTH, OTH))
                    } else {
                        (amount, "-".to_string())
                    }
                } else {
                    let mut e = format!("{}:{}:{}", first_tok, first_nonce, amount);
                    if let Some((t, n, a)) = &second {
                        e += &format!(",{}:{}:{}", t, n, a);
                    }
                    if third {
                        if second.is_none() {
                            e += &format!(",{}:0:1", OTH);
                        }
                        e += &format!(",{}:0:1", OTH);
                    }
                    (0u128, e)
                };
                if rng.chance(1, 2) {
                    let metadata: Vec<u8> = match fault {
                        14 => cat(&[&[0, 0, 0, 1], &nest_buf(b"v1")]), // unsupported version
                        15 => vec![1, 2, 3],                          // too short to decode
                        16 => cat(&[&[0, 0, 0, 0], &[0, 0, 0, 9, 1]]), // truncated data
                        _ => match rng.below(3) {
                            0 => vec![],
                            1 => cat(&[&[0, 0, 0, 0], &nest_buf(b"hello-data")]),
                            _ => vec![0, 0, 0, 0],
                        },
                    };
                    w.tx(sink, &caller, "interchainTransfer", egld, &esdt, &[tid.clone(), dest_chain, dest_addr, metadata, nat(gas)]);
                } else {
                    let dl = rng_len(rng).max(1);
                    let data = if fault == 17 { vec![] } else { rng.bytes(dl) };
                    w.tx(sink, &caller, "callContractWithInterchainToken", egld, &esdt, &[tid.clone(), dest_chain, dest_addr, data, nat(gas)]);
                }
                // fault 18: the same request again while the balance may no longer cover it / flow limits bite
            }
        }
        3 => {
            // advance one pending asynchronous item by one step
            if !w.pend.is_empty() {
                let i = rng.below(w.pend.len() as u64) as usize;
                let (id, k, delivered) = w.pend[i].clone();
                if !delivered {
                    let line = match k {
                        PendK::Exec => {
                            if rng.chance(1, 2) {
                                // the destination contract may return values
                                format!("deliver {} ok {}", id, rng.pick(&["-", "-", "aa", "aa,bbcc"]))
                            } else {
                                format!("deliver {} fail {}", id, crate::enc::fail_code(rng))
                            }
                        }
                        PendK::Props => match rng.below(7) {
                            0 => format!("deliver {} fail {}", id, crate::enc::fail_code(rng)),
                            1 => format!("deliver {} ok {}", id, props(b"NonFungibleESDT", b"NumDecimals-0")),
                            2 => format!("deliver {} ok {}", id, props(b"FungibleESDT", b"NumDec")), // malformed reply
                            3 => format!("deliver {} ok {}", id, args(&[b"Name".to_vec(), b"FungibleESDT".to_vec()])), // short reply
                            4 => format!("deliver {} ok {}", id, props(b"FungibleESDT", b"NumDecimals-6")),
                            _ => format!("deliver {} ok {}", id, props(b"FungibleESDT", b"NumDecimals-18")),
                        },
                        PendK::Issue => {
                            let newtok = format!("NTK-{:06x}", rng.below(0xffffff));
                            if rng.chance(3, 4) {
                                format!("deliver {} ok {}", id, hex::encode(newtok.as_bytes()))
                            } else {
                                format!("deliver {} fail {}", id, crate::enc::fail_code(rng))
                            }
                        }
                    };
                    sink.exec(&line);
                    w.pend[i].2 = true;
                } else {
                    let out = sink.exec(&format!("cb {}", id));
                    w.pend.remove(i);
                    w.track(&out, PendK::Exec);
                }
            }
        }
        4 => {
            // administration: pause / trusted addresses / flow limits — by owner, operator or strangers
            let c = match rng.below(4) {
                0 | 1 => w.owner.clone(),
                2 => w.operator.clone(),
                _ => caller.clone(),
            };
            match rng.below(9) {
                0 => {
                    let out = w.tx(sink, &c, "pause", 0, "-", &[]);
                    if out.starts_with("ok") {
                        w.paused = true;
                    }
                }
                1 | 2 => {
                    let out = w.tx(sink, &c, "unpause", 0, "-", &[]);
                    if out.starts_with("ok") {
                        w.paused = false;
                    }
                }
                3 => {
                    let (ch, ad) = rng
                        .pick(&[(ETH.to_vec(), ETH_ITS.to_vec()), (HUB.to_vec(), HUB_ITS.to_vec()), (AVA.to_vec(), b"hub".to_vec()), (ETH.to_vec(), b"hub".to_vec()), (b"nowhere".to_vec(), b"0xN".to_vec()), (vec![], b"x".to_vec()),
                            // direct peers whose address merely begins with / contains the routing marker, or is the marker in another case
                            (b"polygon".to_vec(), b"hub1qxyzdirectpeer".to_vec()), (ETH.to_vec(), b"hubble".to_vec()), (AVA.to_vec(), b"HUB".to_vec()), (b"polygon".to_vec(), b"xhub".to_vec()), (AVA.to_vec(), b"hu".to_vec())])
                        .clone();
                    w.tx(sink, &c, "setTrustedAddress", 0, "-", &[ch, ad]);
                }
                4 => {
                    let ch = rng.pick(&[ETH.to_vec(), HUB.to_vec(), AVA.to_vec(), b"nowhere".to_vec()]).clone();
                    w.tx(sink, &c, "removeTrustedAddress", 0, "-", &[ch]);
                }
                5 | 6 => {
                    let c = if rng.chance(2, 3) { w.operator.clone() } else { c };
                    let (tid, _t, _k) = pick_token(rng, w);
                    let lim = *rng.pick(&[0u128, 0, 5, 50, 500]);
                    w.tx(sink, &c, "setFlowLimits", 0, "-", &[nat(1), tid.clone(), nat(1), nat(lim)]);
                    w.query(sink, "flowLimit", &[tid]);
                }
                7 if rng.chance(1, 2) => {
                    // two-step hand-over of the service's operator role: propose, (the proposer may give the role away
                    // or propose to somebody else in between), accept — by the proposed account or by somebody else
                    let op = w.operator.clone();
                    let b = user(rng.below(6) as u8);
                    w.tx(sink, &op, "proposeOperatorship", 0, "-", &[b.clone()]);
                    match rng.below(4) {
                        0 => {
                            let c3 = user(rng.below(6) as u8);
                            let out = w.tx(sink, &op, "transferOperatorship", 0, "-", &[c3.clone()]);
                            if out.starts_with("ok") {
                                w.operator = c3;
                            }
                        }
                        1 => {
                            let c3 = user(rng.below(6) as u8);
                            w.tx(sink, &op, "proposeOperatorship", 0, "-", &[c3.clone()]);
                            let out = w.tx(sink, &c3, "acceptOperatorship", 0, "-", &[op.clone()]);
                            if out.starts_with("ok") {
                                w.operator = c3;
                            }
                        }
                        _ => {}
                    }
                    let acceptor = if rng.chance(3, 4) { b.clone() } else { user(rng.below(6) as u8) };
                    // the acceptor names the proposer — or whoever holds the role NOW, who never proposed anything
                    let named = if rng.chance(1, 3) { w.operator.clone() } else { op.clone() };
                    let out = w.tx(sink, &acceptor, "acceptOperatorship", 0, "-", &[named]);
                    if out.starts_with("ok") {
                        w.operator = acceptor.clone();
                    }
                    // whoever went through the hand-over tries to use the role
                    let (tid, _t, _k) = pick_token(rng, w);
                    w.tx(sink, &acceptor, "setFlowLimits", 0, "-", &[nat(1), tid.clone(), nat(1), nat(*rng.pick(&[0u128, 7, 70]))]);
                    w.query(sink, "flowLimit", &[tid]);
                    w.query(sink, "isOperator", &[acceptor]);
                    w.query(sink, "isOperator", &[op]);
                }
                7 => {
                    let newop = user(rng.below(6) as u8);
                    let c = if rng.chance(1, 2) { w.operator.clone() } else { c };
                    let out = w.tx(sink, &c, "transferOperatorship", 0, "-", &[newop.clone()]);
                    if out.starts_with("ok") {
                        w.operator = newop;
                    }
                }
                8 if rng.chance(1, 2) => {
                    // the owner upgrades the service (same code; `upgrade()` is empty): nothing may change
                    let owner = w.owner.clone();
                    if rng.chance(1, 2) {
                        // … of a service that was deployed before the code under test was written
                        sink.exec(&format!("wipe {}", hex::encode(&w.its)));
                    }
                    w.tx(sink, &owner, "upgradeContract", 0, "-", &[b"its".to_vec(), vec![5u8, 6u8]]);
                    for q in ["interchainTokenId", "linkedTokenId"] {
                        w.query(sink, q, &[user(1), vec![7u8; 32]]);
                    }
                    w.query(sink, "canonicalInterchainTokenId", &[TOK.as_bytes().to_vec()]);
                    w.query(sink, "isPaused", &[]);
                    w.query(sink, "trustedAddress", &[ETH.to_vec()]);
                }
                _ => {
                    w.query(sink, "isPaused", &[]);
                    w.query(sink, "trustedAddress", &[ETH.to_vec()]);
                    w.query(sink, "trustedAddress", &[HUB.to_vec()]);
                }
            }
        }
        5 if w.next_tm > 0 && rng.chance(1, 6) => {
            // somebody calls a token manager directly (not through the service): the issuing endpoint, naming
            // himself, somebody else or nobody as minter; a manager's own role endpoints
            let tm = tm_addr(rng.below(w.next_tm as u64) as usize);
            let who = if rng.chance(1, 4) { w.its.clone() } else { caller.clone() };
            match rng.below(4) {
                0 | 1 | 2 => {
                    let minter: Vec<u8> = match rng.below(4) {
                        0 => vec![],
                        1 => {
                            let mut v = vec![1u8];
                            v.extend(user(rng.below(6) as u8));
                            v
                        }
                        _ => {
                            let mut v = vec![1u8];
                            v.extend(who.clone());
                            v
                        }
                    };
                    let egld = *rng.pick(&[50000000000000000u128, 50000000000000000, 0]);
                    let out = sink.exec(&format!(
                        "tx {} {} deployInterchainToken {} - {}",
                        hex::encode(&who),
                        hex::encode(&tm),
                        egld,
                        args(&[minter, b"Direct Token".to_vec(), b"DTK".to_vec(), vec![18]])
                    ));
                    w.track(&out, PendK::Issue);
                }
                _ if rng.chance(1, 2) => {
                    // custody endpoints called directly by somebody who is not the service (an operator of the manager,
                    // a minter, a stranger): giveToken / mint must hand out nothing
                    let dest = user(rng.below(6) as u8);
                    let amt = *rng.pick(&[1u128, 10, 100]);
                    if rng.chance(2, 3) {
                        sink.exec(&format!("tx {} {} giveToken 0 - {}", hex::encode(&who), hex::encode(&tm), args(&[dest.clone(), nat(amt)])));
                    } else {
                        sink.exec(&format!("tx {} {} mint 0 - {}", hex::encode(&who), hex::encode(&tm), args(&[dest.clone(), nat(amt)])));
                    }
                    sink.exec(&format!("bal {} {}", hex::encode(&dest), TOK));
                    sink.exec(&format!("bal {} {}", hex::encode(&tm), TOK));
                }
                _ => {
                    let f = *rng.pick(&["transferMintership", "proposeMintership", "acceptMintership", "transferOperatorship", "addFlowLimiter"]);
                    sink.exec(&format!("tx {} {} {} 0 - {}", hex::encode(&who), hex::encode(&tm), f, args(&[user(rng.below(6) as u8)])));
                }
            }
            sink.exec(&format!("query {} getImplementationTypeAndTokenIdentifier -", hex::encode(&tm)));
            sink.exec(&format!("query {} isMinter {}", hex::encode(&tm), args(&[caller.clone()])));
        }
        5 => {
            // registrations / deployments aimed at the same or colliding ids
            match rng.below(11) {
                10 => {
                    // a second registration aimed at a token id that already has a manager — with or without a token
                    // recorded — over a route that is otherwise valid
                    if rng.chance(1, 2) || w.ids.is_empty() {
                        let salt = vec![rng.below(3) as u8 + 30; 32];
                        let d = user(rng.below(3) as u8 + 1);
                        let a = vec![salt, b"My Token".to_vec(), b"MTK".to_vec(), vec![18], nat(500), user(4)];
                        let out = w.tx(sink, &d, "deployInterchainToken", 0, "-", &a);
                        w.track(&out, PendK::Issue);
                        if let Some(t) = result_bytes(&out) {
                            if !w.ids.contains(&t) {
                                w.ids.push(t);
                            }
                        }
                    }
                    if !w.ids.is_empty() {
                        let tid = rng.pick(&w.ids).clone();
                        w.query(sink, "invalidTokenManagerAddress", &[tid.clone()]);
                        let inner = if rng.chance(2, 3) {
                            let ty = *rng.pick(&[1u8, 2, 3, 4]);
                            let dst_tok: Vec<u8> = rng.pick(&[TOK.as_bytes().to_vec(), MB.as_bytes().to_vec(), OTH.as_bytes().to_vec()]).clone();
                            let lp = if rng.chance(1, 2) { vec![] } else { user(3) };
                            link_payload(&tid, ty, b"0xSrcToken", &dst_tok, &lp)
                        } else {
                            deploy_payload(&tid, b"Remote Token", b"RTK", 6, &[])
                        };
                        let (chain, src, payload) = if rng.chance(1, 2) { (ETH.to_vec(), ETH_ITS.to_vec(), inner.clone()) } else { (HUB.to_vec(), HUB_ITS.to_vec(), hub_wrap(4, AVA, &inner)) };
                        let id = w.approve(rng, sink, &chain, &src, &payload, None);
                        w.execute(sink, &caller, &chain, &id, &src, &payload, 0);
                        w.query(sink, "invalidTokenManagerAddress", &[tid.clone()]);
                        w.query(sink, "deployedTokenManager", &[tid]);
                    }
                }
                9 => {
                    // several issuances in flight on one manager, delivered with mixed outcomes
                    let salt = vec![rng.below(3) as u8 + 20; 32];
                    let d = user(rng.below(3) as u8 + 1);
                    let minter = user(rng.below(6) as u8);
                    let a = vec![salt.clone(), b"My Token".to_vec(), b"MTK".to_vec(), vec![18], nat(*rng.pick(&[0u128, 500])), minter];
                    let out = w.tx(sink, &d, "deployInterchainToken", 0, "-", &a);
                    w.track(&out, PendK::Issue);
                    let tid = result_bytes(&out);
                    let tm = if out.starts_with("ok") && w.next_tm > 0 { Some(tm_addr(w.next_tm - 1)) } else { None };
                    let k = rng.range(2, 3);
                    let mut mine = vec![];
                    for _ in 0..k {
                        let before = w.next_pend;
                        let out = w.tx(sink, &d, "deployInterchainToken", 50000000000000000, "-", &a);
                        w.track(&out, PendK::Issue);
                        for id in before..w.next_pend {
                            mine.push(id);
                        }
                    }
                    if rng.chance(3, 4) {
                        // deliver and call back in a random order
                        let mut order = mine.clone();
                        if rng.chance(1, 2) {
                            order.reverse();
                        }
                        for id in order.iter() {
                            let newtok = format!("DTK-{:06x}", rng.below(0xffffff));
                            let line = if rng.chance(2, 3) { format!("deliver {} ok {}", id, hex::encode(newtok.as_bytes())) } else { format!("deliver {} fail {}", id, crate::enc::fail_code(rng)) };
                            sink.exec(&line);
                        }
                        if rng.chance(1, 2) {
                            order.reverse();
                        }
                        for id in order.iter() {
                            sink.exec(&format!("cb {}", id));
                            if let Some(tm) = tm.clone() {
                                sink.exec(&format!("query {} tokenIdentifier -", hex::encode(&tm)));
                            }
                            if let Some(t) = tid.clone() {
                                w.query(sink, "registeredTokenIdentifier", &[t]);
                            }
                        }
                        w.pend.retain(|p| !mine.contains(&p.0));
                        // the third transaction of the flow (mint + hand-over) and one more attempt
                        let out = w.tx(sink, &d, "deployInterchainToken", 0, "-", &a);
                        w.track(&out, PendK::Issue);
                    }
                }
                0 if rng.chance(1, 3) => {
                    // identifiers of the extreme lengths (3- and 10-character tickers) and siblings that differ only in
                    // their last character: every one has an id of its own and gets a manager of its own
                    let fam = rng.pick(&[["ABCDEFGHIJ-12345a", "ABCDEFGHIJ-12345b"], ["ABC-12345a", "ABC-12345b"], ["ABCDEFGHIJ-00000f", "ABCDEFGHI-00000f"]]).clone();
                    for t in fam.iter() {
                        w.query(sink, "canonicalInterchainTokenId", &[t.as_bytes().to_vec()]);
                        w.query(sink, "canonicalInterchainTokenDeploySalt", &[t.as_bytes().to_vec()]);
                    }
                    for t in fam.iter() {
                        let out = w.tx(sink, &caller, "registerCanonicalInterchainToken", 0, "-", &[t.as_bytes().to_vec()]);
                        w.track(&out, PendK::Exec);
                        if let Some(tid) = result_bytes(&out) {
                            w.query(sink, "registeredTokenIdentifier", &[tid.clone()]);
                            w.query(sink, "deployedTokenManager", &[tid]);
                        }
                    }
                }
                0 => {
                    let t = rng.pick(&[TOK, MB, OTH, "EGLD", "bad"]).as_bytes().to_vec();
                    let out = w.tx(sink, &caller, "registerCanonicalInterchainToken", 0, "-", &[t.clone()]);
                    w.track(&out, PendK::Exec);
                    if let Some(tid) = result_bytes(&out) {
                        w.tokens.push((tid, String::from_utf8_lossy(&t).to_string(), 2));
                    }
                    w.query(sink, "canonicalInterchainTokenId", &[t]);
                }
                1 => {
                    let salt = vec![rng.below(3) as u8; 32];
                    let ty = rng.below(6) as u8;
                    let t = rng.pick(&[TOK, MB, OTH]).as_bytes().to_vec();
                    let op = if rng.chance(1, 2) { vec![0u8; 32] } else { user(rng.below(6) as u8) };
                    let out = w.tx(sink, &caller, "registerCustomToken", 0, "-", &[salt.clone(), t.clone(), if ty == 0 { vec![] } else { vec![ty] }, op]);
                    w.track(&out, PendK::Exec);
                    if let Some(tid) = result_bytes(&out) {
                        w.tokens.push((tid, String::from_utf8_lossy(&t).to_string(), ty));
                        if ty == 1 || ty == 4 {
                            sink.exec(&format!("roles {} {} ESDTRoleLocalMint,ESDTRoleLocalBurn", hex::encode(tm_addr(w.next_tm - 1)), String::from_utf8_lossy(&t)));
                        }
                    }
                    w.query(sink, "linkedTokenId", &[caller.clone(), salt]);
                }
                2 | 3 => {
                    let salt = vec![rng.below(3) as u8 + 10; 32];
                    let supply = *rng.pick(&[0u128, 0, 500]);
                    let minter = match rng.below(4) {
                        0 => vec![0u8; 32],
                        1 => w.its.clone(),
                        _ => user(rng.below(6) as u8),
                    };
                    let d = user(rng.below(3) as u8 + 1);
                    factory_flow(rng, sink, w, &d, &salt, supply, &minter, false);
                    w.query(sink, "interchainTokenId", &[d, salt]);
                }
                4 | 5 => {
                    // inbound deploy-token message: two executes with the same message
                    let tid = if rng.chance(1, 3) && !w.tokens.is_empty() { rng.pick(&w.tokens).0.clone() } else { vec![rng.below(4) as u8 + 40; 32] };
                    let minter = match rng.below(3) {
                        0 => vec![],
                        1 => user(4),
                        _ => vec![1, 2, 3],
                    };
                    if !w.ids.contains(&tid) {
                        w.ids.push(tid.clone());
                    }
                    let inner = deploy_payload(&tid, b"Remote Token", b"RTK", 6, &minter);
                    let (chain, src, payload) = inbound_source(rng, &inner);
                    let id = if rng.chance(1, 8) {
                        w.next_msg += 1;
                        format!("msg-{}", w.next_msg).into_bytes()
                    } else {
                        w.approve(rng, sink, &chain, &src, &payload, None)
                    };
                    if rng.chance(1, 5) {
                        // somebody executes a DIFFERENT, well-formed deploy message under the approved id (same route and
                        // source address): nothing is approved for that payload
                        let tid2 = vec![rng.below(4) as u8 + 90; 32];
                        let forged_inner = deploy_payload(&tid2, b"Forged Token", b"FTK", 6, &user(5));
                        let forged = if payload == inner { forged_inner.clone() } else { hub_wrap(4, AVA, &forged_inner) };
                        w.execute(sink, &user(5), &chain, &id, &src, &forged, 0);
                        w.query(sink, "invalidTokenManagerAddress", &[tid2]);
                    }
                    let out = w.execute(sink, &caller, &chain, &id, &src, &payload, 0);
                    let _ = out;
                    sink.exec(&format!("query {} isMessageExecuted {}", hex::encode(&w.gw.addr), args(&[chain.clone(), id.clone()])));
                    if rng.chance(3, 4) {
                        w.execute(sink, &caller, &chain, &id, &src, &payload, *rng.pick(&[50000000000000000u128, 50000000000000000, 0]));
                        sink.exec(&format!("query {} isMessageExecuted {}", hex::encode(&w.gw.addr), args(&[chain.clone(), id.clone()])));
                    }
                    if rng.chance(1, 3) {
                        w.execute(sink, &caller, &chain, &id, &src, &payload, 50000000000000000);
                    }
                    w.query(sink, "invalidTokenManagerAddress", &[tid]);
                }
                6 => {
                    // inbound link-token message
                    let tid = if !w.ids.is_empty() && rng.chance(1, 2) {
                        rng.pick(&w.ids).clone() // a token id that already has a manager (possibly without a token yet)
                    } else if !w.tokens.is_empty() && rng.chance(1, 4) {
                        rng.pick(&w.tokens).0.clone()
                    } else {
                        vec![rng.below(4) as u8 + 60; 32]
                    };
                    let ty = rng.below(6) as u8;
                    let dst_tok: Vec<u8> = rng.pick(&[TOK.as_bytes().to_vec(), b"bad-token".to_vec(), MB.as_bytes().to_vec()]).clone();
                    let lp = if rng.chance(1, 2) { vec![] } else { user(3) };
                    let inner = link_payload(&tid, ty, b"0xSrcToken", &dst_tok, &lp);
                    let (chain, src, payload) = inbound_source(rng, &inner);
                    let id = w.approve(rng, sink, &chain, &src, &payload, None);
                    w.execute(sink, &caller, &chain, &id, &src, &payload, 0);
                    w.query(sink, "invalidTokenManagerAddress", &[tid]);
                }
                7 => {
                    // linkToken outbound: the custom token registered at set-up (deployer user 1, salt 01..01) with
                    // zero or one fault
                    let fault = if rng.chance(1, 2) { 0 } else { rng.range(1, 8) };
                    let salt = if fault == 1 { vec![rng.below(3) as u8 + 2; 32] } else { vec![1u8; 32] };
                    let ty = if fault == 2 { 0 } else { rng.range(1, 4) as u8 };
                    let chain = match fault {
                        3 => CHAIN.to_vec(),
                        4 => vec![],
                        5 => b"nowhere".to_vec(),
                        _ => rng.pick(&[ETH.to_vec(), AVA.to_vec()]).clone(),
                    };
                    let dst = if fault == 6 { vec![] } else { b"0xRemoteToken".to_vec() };
                    let c = if fault == 7 { user(2) } else { user(1) };
                    let lp = if rng.chance(1, 2) { vec![] } else { b"0xRemoteOperator".to_vec() };
                    w.tx(sink, &c, "linkToken", *rng.pick(&[0u128, 7]), "-", &[salt, chain, dst, if ty == 0 { vec![] } else { vec![ty] }, lp]);
                }
                _ => {
                    if !w.tokens.is_empty() {
                        let tid = rng.pick(&w.tokens).0.clone();
                        w.query(sink, "deployedTokenManager", &[tid.clone()]);
                        w.query(sink, "registeredTokenIdentifier", &[tid]);
                    }
                    w.query(sink, "chainNameHash", &[]);
                }
            }
        }
        6 => {
            // metadata registration and remote deployments (async getTokenProperties)
            let gas = *rng.pick(&[0u128, 0, 7, 77]);
            match rng.below(6) {
                0 | 1 => {
                    let t = rng.pick(&[TOK, MB, OTH, "bad"]).as_bytes().to_vec();
                    // the cross-chain gas of these operations is EGLD; now and then it is (wrongly) attached as a token
                    let (e, es) = if rng.chance(1, 8) { (0u128, format!("{}:0:{}", rng.pick(&[OTH, TOK, EGLD_ESDT]), gas.max(3))) } else { (gas, "-".to_string()) };
                    let out = w.tx(sink, &caller, "registerTokenMetadata", e, &es, &[t]);
                    w.track(&out, PendK::Props);
                }
                2 | 3 => {
                    let t = rng.pick(&[TOK, TOK, TOK, "EGLD", OTH, MB]).as_bytes().to_vec();
                    let chain = rng.pick(&[ETH.to_vec(), AVA.to_vec(), ETH.to_vec(), AVA.to_vec(), ETH.to_vec(), b"polygon".to_vec(), b"nowhere".to_vec(), CHAIN.to_vec(), vec![], HUB.to_vec()]).clone();
                    let (e, es) = if rng.chance(1, 10) { (0u128, format!("{}:0:{}", rng.pick(&[OTH, TOK]), gas.max(3))) } else { (gas, "-".to_string()) };
                    let out = w.tx(sink, &caller, "deployRemoteCanonicalInterchainToken", e, &es, &[t, chain]);
                    w.track(&out, PendK::Props);
                }
                _ => {
                    let salt = if rng.chance(4, 5) { vec![7u8; 32] } else { vec![rng.below(3) as u8 + 10; 32] };
                    let chain = rng.pick(&[ETH.to_vec(), AVA.to_vec(), ETH.to_vec(), AVA.to_vec(), b"nowhere".to_vec(), CHAIN.to_vec()]).clone();
                    let d = if rng.chance(4, 5) { user(1) } else { caller.clone() };
                    let out = w.tx(sink, &d, "deployRemoteInterchainToken", gas, "-", &[salt, chain]);
                    w.track(&out, PendK::Props);
                }
            }
            // now and then the owner pauses inside the window of the lookup just registered, the reply arrives
            // (any kind), the callback runs, and the service is unpaused again
            if rng.chance(1, 4) {
                if let Some(i) = w.pend.iter().rposition(|p| p.1 == PendK::Props && !p.2) {
                    let id = w.pend[i].0;
                    let owner = w.owner.clone();
                    // what the owner does inside the window: pause, or change the trusted table under the message
                    // that is about to leave (entry removed, peer replaced, direct chain turned hub-routed or back)
                    let action = rng.below(6);
                    let mut restore: Option<(Vec<u8>, Vec<u8>)> = None;
                    match action {
                        0 | 1 => {
                            let out = w.tx(sink, &owner, "pause", 0, "-", &[]);
                            if out.starts_with("ok") {
                                w.paused = true;
                            }
                        }
                        2 => {
                            let ch = rng.pick(&[ETH.to_vec(), AVA.to_vec(), HUB.to_vec()]).clone();
                            let back = if ch == ETH { ETH_ITS.to_vec() } else if ch == HUB { HUB_ITS.to_vec() } else { b"hub".to_vec() };
                            w.tx(sink, &owner, "removeTrustedAddress", 0, "-", &[ch.clone()]);
                            restore = Some((ch, back));
                        }
                        3 => {
                            w.tx(sink, &owner, "setTrustedAddress", 0, "-", &[ETH.to_vec(), b"0xNewEthereumPeer".to_vec()]);
                            restore = Some((ETH.to_vec(), ETH_ITS.to_vec()));
                        }
                        4 => {
                            w.tx(sink, &owner, "setTrustedAddress", 0, "-", &[ETH.to_vec(), b"hub".to_vec()]);
                            restore = Some((ETH.to_vec(), ETH_ITS.to_vec()));
                        }
                        _ => {
                            w.tx(sink, &owner, "setTrustedAddress", 0, "-", &[AVA.to_vec(), b"0xAvalancheDirect".to_vec()]);
                            restore = Some((AVA.to_vec(), b"hub".to_vec()));
                        }
                    }
                    let line = match rng.below(4) {
                        0 => format!("deliver {} fail {}", id, crate::enc::fail_code(rng)),
                        1 => format!("deliver {} ok {}", id, props(b"NonFungibleESDT", b"NumDecimals-0")),
                        _ => format!("deliver {} ok {}", id, props(b"FungibleESDT", b"NumDecimals-18")),
                    };
                    sink.exec(&line);
                    let out = sink.exec(&format!("cb {}", id));
                    w.pend.remove(i);
                    w.track(&out, PendK::Exec);
                    if action <= 1 && rng.chance(3, 4) {
                        let out = w.tx(sink, &owner, "unpause", 0, "-", &[]);
                        if out.starts_with("ok") {
                            w.paused = false;
                        }
                    }
                    if let Some((ch, back)) = restore {
                        if rng.chance(3, 4) {
                            w.tx(sink, &owner, "setTrustedAddress", 0, "-", &[ch, back]);
                        }
                    }
                }
            }
        }
        7 => {
            // destination-minter approvals
            let salt = vec![7u8; 32];
            let deployer = if rng.chance(3, 4) { user(1) } else { caller.clone() };
            let minter = if rng.chance(2, 3) { user(4) } else { caller.clone() };
            let chain = rng.pick(&[ETH.to_vec(), ETH.to_vec(), AVA.to_vec(), b"nowhere".to_vec()]).clone();
            // the destination minter: a remote address — or, now and then, the 32 bytes of a LOCAL account (the deployer
            // himself, the local minter, the caller): naming yourself needs an approval like any other name
            let dm = match rng.below(8) {
                0 => deployer.clone(),
                1 => caller.clone(),
                2 => minter.clone(),
                _ => rng.pick(&[b"0xRemoteMinter".to_vec(), b"0xOther".to_vec()]).clone(),
            };
            match rng.below(13) {
                11 | 12 => {
                    // the service itself is the minter (factory flow with a supply, stopped before the mint / hand-over
                    // step, or mintership handed to the service): it must never be accepted as the minter of a remote
                    // deployment, with or without a destination minter
                    let salt = vec![rng.below(2) as u8 + 80; 32];
                    let d = user(1);
                    let good_chain = rng.pick(&[ETH.to_vec(), AVA.to_vec()]).clone();
                    if rng.chance(2, 3) {
                        factory_flow(rng, sink, w, &d, &salt, 987, &user(4), true);
                    } else {
                        // token of the set-up flow: its minter hands the role to the service
                        let tid_out = w.query(sink, "interchainTokenId", &[user(1), vec![7u8; 32]]);
                        if let Some(tid) = result_bytes(&tid_out) {
                            let tm_out = w.query(sink, "deployedTokenManager", &[tid]);
                            if let Some(tm) = result_bytes(&tm_out) {
                                sink.exec(&format!("tx {} {} transferMintership 0 - {}", hex::encode(user(4)), hex::encode(&tm), args(&[w.its.clone()])));
                            }
                        }
                    }
                    let salt = if rng.chance(2, 3) { salt } else { vec![7u8; 32] };
                    let mut a = vec![salt.clone(), w.its.clone(), good_chain.clone()];
                    if rng.chance(1, 2) {
                        a.push(dm.clone());
                    }
                    let out = w.tx(sink, &d, "deployRemoteInterchainTokenWithMinter", *rng.pick(&[0u128, 9]), "-", &a);
                    w.track(&out, PendK::Props);
                    let its = w.its.clone();
                    w.tx(sink, &its, "approveDeployRemoteInterchainToken", 0, "-", &[d.clone(), salt.clone(), good_chain.clone(), dm.clone()]);
                }
                7..=10 => {
                    // directed: the current minter approves, the deployer uses the approval — with zero or one
                    // departure from the approved combination — then tries to use it a second time
                    let fault = if rng.chance(1, 2) { 0 } else { rng.range(1, 11) };
                    let good_chain = rng.pick(&[ETH.to_vec(), AVA.to_vec()]).clone();
                    // fault 9: a second trusted chain whose name differs from the approved one only in letter case
                    let sibling = flip_case(&good_chain, rng.chance(1, 2));
                    if fault == 9 {
                        let owner = w.owner.clone();
                        w.tx(sink, &owner, "setTrustedAddress", 0, "-", &[sibling.clone(), b"0xSiblingPeer".to_vec()]);
                    }
                    let author = if fault == 1 { user(*rng.pick(&[2u8, 3, 5])) } else { user(4) };
                    let appr_chain = if fault == 2 { b"nowhere".to_vec() } else { good_chain.clone() };
                    w.tx(sink, &author, "approveDeployRemoteInterchainToken", 0, "-", &[user(1), salt.clone(), appr_chain, dm.clone()]);
                    if fault == 3 {
                        w.tx(sink, &author, "revokeDeployRemoteInterchainToken", 0, "-", &[user(1), salt.clone(), good_chain.clone()]);
                    }
                    // variant 10 (no fault): the author changes his mind — a second approval for the same combination names
                    // another destination minter; the LATEST approval is the one that counts
                    let replaced = if dm == b"0xOther".to_vec() { b"0xRemoteMinter".to_vec() } else { b"0xOther".to_vec() };
                    if fault == 10 {
                        w.tx(sink, &author, "approveDeployRemoteInterchainToken", 0, "-", &[user(1), salt.clone(), good_chain.clone(), replaced.clone()]);
                        if rng.chance(1, 2) {
                            // the replaced one no longer authorises anything
                            let out = w.tx(sink, &user(1), "deployRemoteInterchainTokenWithMinter", 0, "-", &[salt.clone(), user(4), good_chain.clone(), dm.clone()]);
                            w.track(&out, PendK::Props);
                        }
                    }
                    if fault == 4 {
                        // somebody else "revokes": must not touch the author's approval
                        w.tx(sink, &user(5), "revokeDeployRemoteInterchainToken", 0, "-", &[user(1), salt.clone(), good_chain.clone()]);
                    }
                    let use_chain = if fault == 5 { if good_chain == ETH.to_vec() { AVA.to_vec() } else { ETH.to_vec() } } else if fault == 9 { sibling.clone() } else { good_chain.clone() };
                    let use_dm = if fault == 6 { if dm == b"0xOther".to_vec() { b"0xRemoteMinter".to_vec() } else { b"0xOther".to_vec() } } else if fault == 10 { replaced.clone() } else { dm.clone() };
                    let use_deployer = if fault == 7 { user(2) } else { user(1) };
                    let use_minter = if fault == 8 { user(5) } else { user(4) };
                    let windowed = rng.chance(1, 3);
                    let uses = if windowed || rng.chance(1, 2) { 2 } else { 1 };
                    for u in 0..uses {
                        let before = w.pend.len();
                        let out = w.tx(sink, &use_deployer, "deployRemoteInterchainTokenWithMinter", *rng.pick(&[0u128, 9]), "-", &[salt.clone(), use_minter.clone(), use_chain.clone(), use_dm.clone()]);
                        w.track(&out, PendK::Props);
                        if windowed && u == 0 && w.pend.len() > before {
                            // while the token lookup of the first use is in flight its author revokes, or approves another
                            // destination minter; then the lookup comes back (any outcome) and the callback runs: whatever
                            // the outcome, the used approval stays used and the later decision of the author stands
                            let i = w.pend.len() - 1;
                            let id = w.pend[i].0;
                            match rng.below(3) {
                                0 => {
                                    w.tx(sink, &author, "revokeDeployRemoteInterchainToken", 0, "-", &[user(1), salt.clone(), good_chain.clone()]);
                                }
                                1 => {
                                    let other = if dm == b"0xOther".to_vec() { b"0xRemoteMinter".to_vec() } else { b"0xOther".to_vec() };
                                    w.tx(sink, &author, "approveDeployRemoteInterchainToken", 0, "-", &[user(1), salt.clone(), good_chain.clone(), other]);
                                }
                                _ => {}
                            }
                            let line = match rng.below(4) {
                                0 | 1 => format!("deliver {} fail {}", id, crate::enc::fail_code(rng)),
                                2 => format!("deliver {} ok {}", id, props(b"NonFungibleESDT", b"NumDecimals-0")),
                                _ => format!("deliver {} ok {}", id, props(b"FungibleESDT", b"NumDecimals-18")),
                            };
                            sink.exec(&line);
                            let out = sink.exec(&format!("cb {}", id));
                            w.pend.remove(i);
                            w.track(&out, PendK::Exec);
                        }
                    }
                }
                6 => {
                    // an approval outlives its author's minter role: approve, hand the role over, then use
                    let author = user(4);
                    w.tx(sink, &author, "approveDeployRemoteInterchainToken", 0, "-", &[user(1), salt.clone(), chain.clone(), dm.clone()]);
                    let tid_out = w.query(sink, "interchainTokenId", &[user(1), salt.clone()]);
                    if let Some(tid) = result_bytes(&tid_out) {
                        let tm_out = w.query(sink, "deployedTokenManager", &[tid]);
                        if let Some(tm) = result_bytes(&tm_out) {
                            let heir = user(*rng.pick(&[5u8, 3, 2]));
                            if rng.chance(3, 4) {
                                sink.exec(&format!("tx {} {} transferMintership 0 - {}", hex::encode(&author), hex::encode(&tm), args(&[heir.clone()])));
                            }
                            sink.exec(&format!("query {} isMinter {}", hex::encode(&tm), args(&[author.clone()])));
                            let named = if rng.chance(3, 4) { author.clone() } else { heir };
                            let out = w.tx(sink, &user(1), "deployRemoteInterchainTokenWithMinter", *rng.pick(&[0u128, 9]), "-", &[salt.clone(), named, chain.clone(), dm.clone()]);
                            w.track(&out, PendK::Props);
                        }
                    }
                }
                0 | 1 => {
                    w.tx(sink, &minter, "approveDeployRemoteInterchainToken", 0, "-", &[deployer.clone(), salt.clone(), chain.clone(), dm.clone()]);
                }
                2 => {
                    w.tx(sink, &minter, "revokeDeployRemoteInterchainToken", 0, "-", &[deployer.clone(), salt.clone(), chain.clone()]);
                }
                3 => {
                    // mintership moves: ex-minters
                    if w.next_tm > 0 {
                        let tm = tm_addr(rng.below(w.next_tm as u64) as usize);
                        sink.exec(&format!("tx {} {} transferMintership 0 - {}", hex::encode(&minter), hex::encode(&tm), args(&[user(rng.below(6) as u8)])));
                    }
                }
                _ => {
                    let m = match rng.below(5) {
                        0 => vec![0u8; 32],
                        1 => w.its.clone(),
                        _ => minter.clone(),
                    };
                    let mut a = vec![salt.clone(), m, chain.clone()];
                    if rng.chance(3, 4) {
                        a.push(dm.clone());
                    }
                    let out = w.tx(sink, &deployer, "deployRemoteInterchainTokenWithMinter", *rng.pick(&[0u128, 9]), "-", &a);
                    w.track(&out, PendK::Props);
                }
            }
        }
        _ => {
            w.now += *rng.pick(&[1u64, 1000, 21599, 21600, 21601, 50000]);
            sink.exec(&format!("time {}", w.now));
        }
    }
}

/// the fully random outbound request (several faults may stack)
fn outbound_random(rng: &mut Rng, sink: &mut Sink, w: &mut World, caller: &[u8]) {
    let caller = caller.to_vec();
    let (tid, tok, _k) = pick_token(rng, w);
    let tok = if tok.is_empty() { OTH.to_string() } else { tok };
    let tok = if rng.chance(1, 12) { OTH.to_string() } else { tok }; // token not matching the id
    let amount = *rng.pick(&[0u128, 1, 10, 100, 1000]);
    let gas = *rng.pick(&[0u128, 0, 1, 5, amount.saturating_sub(1), amount, amount + 1]);
    let (egld, esdt) = if tok == "EGLD" {
        match rng.below(4) {
            0 => (0u128, format!("{}:0:{},{}:0:{}", EGLD_ESDT, amount, EGLD_ESDT, gas)),
            _ => (amount, "-".to_string()),
        }
    } else {
        match rng.below(8) {
            0 | 1 => (0u128, format!("{}:0:{},{}:0:{}", tok, amount, EGLD_ESDT, gas)), // gas as EGLD-in-ESDT
            2 => (0u128, format!("{}:0:{},{}:0:{}", tok, amount, OTH, gas)),            // gas in another ESDT
            3 => (0u128, format!("{}:0:{},{}:0:{}", tok, amount, tok, gas + 1)),          // second payment != gas
            4 => (0u128, format!("{}:0:{},{}:0:1,{}:0:1", tok, amount, OTH, OTH)),        // three payments
            _ => (0u128, format!("{}:0:{}", tok, amount)),
        }
    };
    let dest_chain = rng.pick(&[ETH.to_vec(), ETH.to_vec(), AVA.to_vec(), AVA.to_vec(), b"nowhere".to_vec(), HUB.to_vec(), vec![]]).clone();
    let dest_addr = if rng.chance(1, 10) { vec![] } else { b"0xRecipient".to_vec() };
    if rng.chance(1, 2) {
        let metadata: Vec<u8> = match rng.below(6) {
            0 => vec![],
            1 => cat(&[&[0, 0, 0, 0], &nest_buf(b"hello-data")]),
            2 => vec![0, 0, 0, 0],
            3 => cat(&[&[0, 0, 0, 1], &nest_buf(b"v1")]), // unsupported version
            4 => vec![1, 2, 3],                          // too short to decode
            _ => cat(&[&[0, 0, 0, 0], &[0, 0, 0, 9, 1]]), // truncated data
        };
        w.tx(sink, &caller, "interchainTransfer", egld, &esdt, &[tid.clone(), dest_chain, dest_addr, metadata, nat(gas)]);
    } else {
        let dl = rng_len(rng).max(1);
        let data = if rng.chance(1, 8) { vec![] } else { rng.bytes(dl) };
        w.tx(sink, &caller, "callContractWithInterchainToken", egld, &esdt, &[tid.clone(), dest_chain, dest_addr, data, nat(gas)]);
    }
}

/// the fully random inbound transfer (several faults may stack)
fn inbound_random(rng: &mut Rng, sink: &mut Sink, w: &mut World, caller: &[u8], kind: usize) {
    let caller = caller.to_vec();
    let (tid, _tok, _k) = pick_token(rng, w);
    let dest = match rng.below(12) {
        0 => vec![1u8; 31], // malformed recipient
        _ => user(rng.below(6) as u8),
    };
    let amount = *rng.pick(&[1u128, 5, 10, 100, 1000, 6000]);
    let dl = rng_len(rng);
    let data = if kind == 1 { rng.bytes(dl) } else { vec![] };
    let inner = match rng.below(16) {
        0 => sol_enc("transfer", &[word_nat(7), tid.clone(), b"0xsrc".to_vec(), dest.clone(), word_nat(amount), data.clone()]), // unknown message type
        1 => {
            // message-type word beyond every integer width the code converts through
            let mut w = vec![0u8; 32];
            match rng.below(4) {
                0 => w[24] = 0x80,                 // 2^63
                1 => w[23] = 1,                    // 2^64
                2 => w[0] = 0x80,                  // 2^255
                _ => { w[23] = 1; w[31] = 1 }      // 2^64 + 1
            }
            sol_enc("transfer", &[w, tid.clone(), b"0xsrc".to_vec(), dest.clone(), word_nat(amount), data.clone()])
        }
        _ => transfer_payload(&tid, b"0xsrc", &dest, amount, &data),
    };
    let (chain, src, payload) = inbound_source(rng, &inner);
    match rng.below(12) {
        0 => {
            // not approved
            w.next_msg += 1;
            let id = format!("msg-{}", w.next_msg).into_bytes();
            w.execute(sink, &caller, &chain, &id, &src, &payload, 0);
        }
        1 => {
            // approved, executed with a tampered payload
            let id = w.approve(rng, sink, &chain, &src, &payload, None);
            let mut p2 = payload.clone();
            let l = p2.len();
            p2[l - 40] ^= 1;
            w.execute(sink, &caller, &chain, &id, &src, &p2, 0);
        }
        2 => {
            // wrong source address
            let id = w.approve(rng, sink, &chain, b"0xEvil", &payload, None);
            w.execute(sink, &caller, &chain, &id, b"0xEvil", &payload, 0);
        }
        3 => {
            // replay of an earlier message
            if let Some((c, i, s, p)) = w.approved.last().cloned() {
                w.execute(sink, &caller, &c, &i, &s, &p, 0);
            }
        }
        _ => {
            let id = w.approve(rng, sink, &chain, &src, &payload, None);
            w.execute(sink, &caller, &chain, &id, &src, &payload, if rng.chance(1, 15) { 5 } else { 0 });
            if rng.chance(1, 3) {
                // immediate second attempt
                w.execute(sink, &caller, &chain, &id, &src, &payload, 0);
            }
            sink.exec(&format!("query {} isMessageExecuted {}", hex::encode(&w.gw.addr), args(&[chain.clone(), id.clone()])));
            w.query(sink, "transferWithDataLock", &[chain.clone(), id.clone()]);
        }
    }
}

fn rng_len(rng: &mut Rng) -> usize {
    *rng.pick(&[1usize, 5, 31, 32, 33, 64])
}

fn props(ty: &[u8], dec: &[u8]) -> String {
    args(&[b"TokenName".to_vec(), ty.to_vec(), b"owner".to_vec(), b"0".to_vec(), b"0".to_vec(), dec.to_vec(), b"IsPaused-false".to_vec()])
}

/// Directed scenarios reproducing findings on the unchanged contracts (and, after a repair,
/// showing that the repaired behaviour is in place).  Used to produce committed corpus files.
pub fn scenario(rng: &mut Rng, sink: &mut Sink, which: &str) {
    let mut w = setup(rng, sink);
    let tok_tid = w.tokens.iter().find(|t| t.1 == TOK).map(|t| t.0.clone()).unwrap_or(vec![0u8; 32]);
    match which {
        // F1: the failure callback of a transfer with data cannot take the tokens back
        "F1" => {
            let op = w.operator.clone();
            w.tx(sink, &op, "setFlowLimits", 0, "-", &[nat(1), tok_tid.clone(), nat(1), nat(50)]);
            let payload = transfer_payload(&tok_tid, b"0xsrc", &user(5), 30, b"hello");
            let id = w.approve(rng, sink, ETH, ETH_ITS, &payload, None);
            w.execute(sink, &user(3), ETH, &id, ETH_ITS, &payload, 0);
            // inside the window the limit is lowered below the amount in flight
            w.tx(sink, &op, "setFlowLimits", 0, "-", &[nat(1), tok_tid.clone(), nat(1), nat(10)]);
            sink.exec("deliver 0 fail");
            sink.exec("cb 0");
            sink.exec(&format!("bal {} {}", hex::encode(&w.its), TOK));
            w.query(sink, "transferWithDataLock", &[ETH.to_vec(), id.clone()]);
            // the message can never be retried: the lock stays set
            w.execute(sink, &user(3), ETH, &id, ETH_ITS, &payload, 0);
        }
        // F2: gas value stranded when the callback's checks fail
        "F2a" => {
            w.tx(sink, &user(3), "deployRemoteCanonicalInterchainToken", 77, "-", &[TOK.as_bytes().to_vec(), b"nowhere".to_vec()]);
            sink.exec(&format!("deliver 0 ok {}", props(b"FungibleESDT", b"NumDecimals-18")));
            sink.exec("cb 0");
            sink.exec(&format!("bal {} EGLD", hex::encode(&w.its)));
        }
        "F2b" => {
            let o = w.owner.clone();
            w.tx(sink, &o, "removeTrustedAddress", 0, "-", &[HUB.to_vec()]);
            w.tx(sink, &user(3), "registerTokenMetadata", 33, "-", &[TOK.as_bytes().to_vec()]);
            sink.exec(&format!("deliver 0 ok {}", props(b"FungibleESDT", b"NumDecimals-18")));
            sink.exec("cb 0");
            sink.exec(&format!("bal {} EGLD", hex::encode(&w.its)));
        }
        // F4: two issuances in flight for one native token manager
        "F4" => {
            let a = vec![vec![7u8; 32], b"My Token".to_vec(), b"MTK".to_vec(), vec![18], nat(1000), vec![0u8; 32]];
            w.tx(sink, &user(1), "deployInterchainToken", 0, "-", &a);
            w.tx(sink, &user(1), "deployInterchainToken", 50000000000000000, "-", &a);
            w.tx(sink, &user(1), "deployInterchainToken", 50000000000000000, "-", &a);
            let tm = tm_addr(w.tokens.len()); // managers deployed so far: one per registered token
            sink.exec(&format!("deliver 0 ok {}", hex::encode(b"MTK-111111")));
            sink.exec(&format!("deliver 1 ok {}", hex::encode(b"MTK-222222")));
            sink.exec("cb 0");
            sink.exec(&format!("query {} tokenIdentifier -", hex::encode(&tm)));
            sink.exec("cb 1");
            sink.exec(&format!("query {} tokenIdentifier -", hex::encode(&tm)));
        }
        // F5: remote deployment goes through while the service is paused
        "F5" => {
            let o = w.owner.clone();
            w.tx(sink, &o, "pause", 0, "-", &[]);
            w.tx(sink, &user(3), "deployRemoteCanonicalInterchainToken", 7, "-", &[TOK.as_bytes().to_vec(), ETH.to_vec()]);
            sink.exec(&format!("bal {} EGLD", hex::encode(&w.its)));
        }
        // F6: the third factory step (mint and role hand-over) goes through while paused
        "F6" => {
            factory_flow_until_issued(rng, sink, &mut w);
            let o = w.owner.clone();
            w.tx(sink, &o, "pause", 0, "-", &[]);
            let a = vec![vec![7u8; 32], b"My Token".to_vec(), b"MTK".to_vec(), vec![18], nat(1000), user(4)];
            w.tx(sink, &user(1), "deployInterchainToken", 0, "-", &a);
            sink.exec(&format!("bal {} MTK-abcdef", hex::encode(user(1))));
        }
        // F7: with the service itself nominated as minter the third factory step can be repeated: the initial
        // supply is minted again (and again)
        "F7" => {
            let its = w.its.clone();
            let a = vec![vec![9u8; 32], b"My Token".to_vec(), b"MTK".to_vec(), vec![18], nat(1000), its.clone()];
            let out = w.tx(sink, &user(1), "deployInterchainToken", 0, "-", &a);
            w.track(&out, PendK::Issue);
            let out = w.tx(sink, &user(1), "deployInterchainToken", 50000000000000000, "-", &a);
            w.track(&out, PendK::Issue);
            let id = w.pend.last().map(|p| p.0).unwrap_or(0);
            sink.exec(&format!("deliver {} ok {}", id, hex::encode(b"MTK-abcdef")));
            sink.exec(&format!("roles {} MTK-abcdef ESDTRoleLocalMint,ESDTRoleLocalBurn", hex::encode(tm_addr(w.next_tm - 1))));
            sink.exec(&format!("cb {}", id));
            w.tx(sink, &user(1), "deployInterchainToken", 0, "-", &a);
            sink.exec(&format!("bal {} MTK-abcdef", hex::encode(user(1))));
            // the same request again: the supply is minted a second time
            w.tx(sink, &user(1), "deployInterchainToken", 0, "-", &a);
            sink.exec(&format!("bal {} MTK-abcdef", hex::encode(user(1))));
            // … and a third time with another amount
            let a2 = vec![vec![9u8; 32], b"My Token".to_vec(), b"MTK".to_vec(), vec![18], nat(5000000), its.clone()];
            w.tx(sink, &user(1), "deployInterchainToken", 0, "-", &a2);
            sink.exec(&format!("bal {} MTK-abcdef", hex::encode(user(1))));
        }
        _ => panic!("unknown scenario"),
    }
}

fn factory_flow_until_issued(_rng: &mut Rng, sink: &mut Sink, w: &mut World) {
    let a = vec![vec![7u8; 32], b"My Token".to_vec(), b"MTK".to_vec(), vec![18], nat(1000), user(4)];
    let out = w.tx(sink, &user(1), "deployInterchainToken", 0, "-", &a);
    w.track(&out, PendK::Issue);
    let out = w.tx(sink, &user(1), "deployInterchainToken", 50000000000000000, "-", &a);
    w.track(&out, PendK::Issue);
    sink.exec(&format!("deliver 0 ok {}", hex::encode(b"MTK-abcdef")));
    sink.exec(&format!("roles {} MTK-abcdef ESDTRoleLocalMint,ESDTRoleLocalBurn", hex::encode(tm_addr(w.next_tm - 1))));
    sink.exec("cb 0");
}
