//! Pure ABI codec operations on the real `interchain_token_service::{abi, abi_types}` library API.
//!
//! `abi.enc <type> <fields...>`   fields in struct order; integers as big-endian hex (`.` = 0 / empty)
//! `abi.dec <type> <hex>`
//! `abi.msgtype <hex>`            (the service's own `get_message_type`)

use std::panic::{catch_unwind, AssertUnwindSafe};

use interchain_token_service::abi::AbiEncodeDecode;
use interchain_token_service::abi_types::*;
use multiversx_sc::types::{BigUint, ManagedBuffer, ManagedByteArray};
use multiversx_sc_scenario::api::StaticApi;
use token_manager::constants::TokenManagerType;

use crate::world::{hx, unhx};

type A = StaticApi;

fn field(s: &str) -> Vec<u8> {
    if s == "." {
        vec![]
    } else {
        unhx(s)
    }
}
fn out(b: &[u8]) -> String {
    if b.is_empty() {
        ".".into()
    } else {
        hx(b)
    }
}
fn big(s: &str) -> BigUint<A> {
    BigUint::from_bytes_be(&field(s))
}
fn buf(s: &str) -> ManagedBuffer<A> {
    ManagedBuffer::from(&field(s)[..])
}
fn arr32(s: &str) -> ManagedByteArray<A, 32> {
    let v = field(s);
    let mut a = [0u8; 32];
    a.copy_from_slice(&v);
    ManagedByteArray::from(&a)
}
fn u8f(s: &str) -> u8 {
    let v = field(s);
    if v.is_empty() {
        0
    } else {
        v[0]
    }
}
fn big_out(b: &BigUint<A>) -> String {
    out(b.to_bytes_be().as_slice())
}
fn buf_out(b: &ManagedBuffer<A>) -> String {
    out(b.to_boxed_bytes().as_slice())
}

pub fn exec(line: &str) -> String {
    let f: Vec<String> = line.split_whitespace().map(|s| s.to_string()).collect();
    let r = catch_unwind(AssertUnwindSafe(|| run(&f)));
    StaticApi::reset();
    match r {
        Ok(s) => s,
        Err(e) => {
            let msg = if let Some(s) = e.downcast_ref::<String>() {
                s.clone()
            } else if let Some(s) = e.downcast_ref::<&str>() {
                s.to_string()
            } else {
                "panic".into()
            };
            format!("fail # {}", msg.replace('\n', " "))
        }
    }
}

fn encode(f: &[String]) -> ManagedBuffer<A> {
    let bytes: ManagedBuffer<A> = match f[1].as_str() {
                "transfer" => InterchainTransferPayload::<A> {
                    message_type: big(&f[2]),
                    token_id: arr32(&f[3]),
                    source_address: buf(&f[4]),
                    destination_address: buf(&f[5]),
                    amount: big(&f[6]),
                    data: buf(&f[7]),
                }
                .abi_encode(),
                "deploy" => DeployInterchainTokenPayload::<A> {
                    message_type: big(&f[2]),
                    token_id: arr32(&f[3]),
                    name: buf(&f[4]),
                    symbol: buf(&f[5]),
                    decimals: u8f(&f[6]),
                    minter: buf(&f[7]),
                }
                .abi_encode(),
                "hub" => SendToHubPayload::<A> {
                    message_type: big(&f[2]),
                    destination_chain: buf(&f[3]),
                    payload: buf(&f[4]),
                }
                .abi_encode(),
                "metadata" => RegisterTokenMetadataPayload::<A> {
                    message_type: big(&f[2]),
                    token_identifier: buf(&f[3]),
                    decimals: u8f(&f[4]),
                }
                .abi_encode(),
                "link" => LinkTokenPayload::<A> {
                    message_type: big(&f[2]),
                    token_id: arr32(&f[3]),
                    token_manager_type: TokenManagerType::from(u8f(&f[4])),
                    source_token_address: buf(&f[5]),
                    destination_token_address: buf(&f[6]),
                    link_params: buf(&f[7]),
                }
                .abi_encode(),
                t => panic!("unknown type {t}"),
            };
    bytes
}

fn decode(ty: &str, payload: ManagedBuffer<A>) -> String {
            match ty {
                "transfer" => {
                    let p = InterchainTransferPayload::<A>::abi_decode(payload);
                    format!(
                        "ok r={},{},{},{},{},{}",
                        big_out(&p.message_type),
                        out(p.token_id.to_byte_array().as_slice()),
                        buf_out(&p.source_address),
                        buf_out(&p.destination_address),
                        big_out(&p.amount),
                        buf_out(&p.data)
                    )
                }
                "deploy" => {
                    let p = DeployInterchainTokenPayload::<A>::abi_decode(payload);
                    format!(
                        "ok r={},{},{},{},{},{}",
                        big_out(&p.message_type),
                        out(p.token_id.to_byte_array().as_slice()),
                        buf_out(&p.name),
                        buf_out(&p.symbol),
                        out(&[p.decimals]),
                        buf_out(&p.minter)
                    )
                }
                "hub" => {
                    let p = SendToHubPayload::<A>::abi_decode(payload);
                    format!("ok r={},{},{}", big_out(&p.message_type), buf_out(&p.destination_chain), buf_out(&p.payload))
                }
                "metadata" => {
                    let p = RegisterTokenMetadataPayload::<A>::abi_decode(payload);
                    format!("ok r={},{},{}", big_out(&p.message_type), buf_out(&p.token_identifier), out(&[p.decimals]))
                }
                "link" => {
                    let p = LinkTokenPayload::<A>::abi_decode(payload);
                    let ty: u8 = p.token_manager_type.into();
                    format!(
                        "ok r={},{},{},{},{},{}",
                        big_out(&p.message_type),
                        out(p.token_id.to_byte_array().as_slice()),
                        out(&[ty]),
                        buf_out(&p.source_token_address),
                        buf_out(&p.destination_token_address),
                        buf_out(&p.link_params)
                    )
                }
                t => panic!("unknown type {t}"),
            }
}

fn run(f: &[String]) -> String {
    match f[0].as_str() {
        "abi.enc" => {
            let bytes = encode(f);
            format!("ok r={}", buf_out(&bytes))
        }
        "abi.dec" => decode(f[1].as_str(), buf(&f[2])),
        // round trip through the real encoder and the real decoder
        "abi.rt" => {
            let bytes = encode(f);
            decode(f[1].as_str(), bytes)
        }
        "abi.msgtype" => {
            // the REAL `ExecutableModule::get_message_type` of the service, on a contract object over the static API
            use interchain_token_service::executable::ExecutableModule;
            let payload = buf(&f[1]);
            let sc = interchain_token_service::contract_obj::<A>();
            let v = sc.get_message_type(&payload);
            format!("ok n={}", v)
        }
        _ => panic!("unknown abi op"),
    }
}
