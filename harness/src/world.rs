//! Step-by-step executor of the REAL contracts (path dependencies on /repo) in the MultiversX
//! Rust VM.  One op line in, one canonical outcome line out.  Pending asynchronous calls
//! (promises, legacy async calls) are NOT run by the VM: they are kept in `pending` and
//! delivered only when an op line says so, with the outcome the op line dictates for external
//! targets.  This makes every schedule an operation sequence.

use std::collections::BTreeMap;

use multiversx_chain_vm::tx_execution::execute_current_tx_context_input;
use multiversx_chain_vm::tx_mock::{
    async_call_tx_input, async_callback_tx_input, async_promise_callback_tx_input,
    AsyncCallTxData, CallType, Promise, TxFunctionName, TxInput, TxLog, TxResult, TxTokenTransfer,
};
use multiversx_chain_vm::types::{VMAddress, VMCodeMetadata, H256};
use multiversx_chain_vm::world_mock::{AccountData, BlockchainMock};
use multiversx_sc::contract_base::CallableContractBuilder;
use multiversx_sc_scenario::api::DebugApi;
use multiversx_sc_scenario::debug_executor::{ContractContainer, ContractMapRef};
use multiversx_sc_scenario::num_bigint::BigUint;

pub const GAS: u64 = 100_000_000_000;
pub const ESDT_SYSTEM_SC: [u8; 32] = multiversx_chain_vm::tx_execution::ESDT_SYSTEM_SC_ADDRESS_ARRAY;

pub fn hx(b: &[u8]) -> String {
    hex::encode(b)
}
pub fn unhx(s: &str) -> Vec<u8> {
    hex::decode(s).unwrap_or_else(|_| panic!("bad hex: {s}"))
}
pub fn arg_list(s: &str) -> Vec<Vec<u8>> {
    if s == "-" {
        return vec![];
    }
    s.split(',').map(|a| if a == "." { vec![] } else { unhx(a) }).collect()
}
pub fn fmt_args(args: &[Vec<u8>]) -> String {
    if args.is_empty() {
        return "-".into();
    }
    args.iter().map(|a| if a.is_empty() { ".".to_string() } else { hx(a) }).collect::<Vec<_>>().join(",")
}
pub fn fmt_esdt(v: &[(Vec<u8>, u64, BigUint)]) -> String {
    if v.is_empty() {
        return "-".into();
    }
    v.iter().map(|(t, n, a)| format!("{}:{}:{}", String::from_utf8_lossy(t), n, a)).collect::<Vec<_>>().join(",")
}
pub fn parse_esdt(s: &str) -> Vec<TxTokenTransfer> {
    if s == "-" {
        return vec![];
    }
    s.split(',')
        .map(|p| {
            let f: Vec<&str> = p.split(':').collect();
            TxTokenTransfer {
                token_identifier: f[0].as_bytes().to_vec(),
                nonce: f[1].parse().unwrap(),
                value: f[2].parse::<BigUint>().unwrap(),
            }
        })
        .collect()
}

pub enum PendKind {
    Promise(Promise),
    Legacy(AsyncCallTxData),
}

pub struct Pending {
    pub id: usize,
    pub kind: PendKind,
    pub result: Option<TxResult>,
}

impl Pending {
    fn call(&self) -> &AsyncCallTxData {
        match &self.kind {
            PendKind::Promise(p) => &p.call,
            PendKind::Legacy(c) => c,
        }
    }
}

pub struct World {
    pub bm: BlockchainMock,
    pub map: ContractMapRef,
    pub pending: Vec<Pending>,
    pub next_pending: usize,
    /// contract kind name by address (for `deliver real`)
    pub kinds: BTreeMap<Vec<u8>, String>,
    /// every top-level transaction gets its own hash (legacy async callbacks store their
    /// closure in contract storage keyed by the transaction hash)
    pub tx_counter: u64,
}

fn addr(b: &[u8]) -> VMAddress {
    assert!(b.len() == 32, "address must be 32 bytes");
    VMAddress::from_slice(b)
}

impl World {
    pub fn new() -> Self {
        let map = ContractMapRef::new();
        {
            let mut m = map.lock();
            m.register_contract(
                b"gateway".to_vec(),
                ContractContainer::new(gateway::ContractBuilder.new_contract_obj::<DebugApi>(), None, false),
            );
            m.register_contract(
                b"gas-service".to_vec(),
                ContractContainer::new(gas_service::ContractBuilder.new_contract_obj::<DebugApi>(), None, false),
            );
            m.register_contract(
                b"governance".to_vec(),
                ContractContainer::new(governance::ContractBuilder.new_contract_obj::<DebugApi>(), None, false),
            );
            m.register_contract(
                b"token-manager".to_vec(),
                ContractContainer::new(token_manager::ContractBuilder.new_contract_obj::<DebugApi>(), None, false),
            );
            m.register_contract(
                b"its".to_vec(),
                ContractContainer::new(
                    interchain_token_service::ContractBuilder.new_contract_obj::<DebugApi>(),
                    None,
                    false,
                ),
            );
        }
        let mut bm = BlockchainMock::new(Box::new(map.clone()));
        // the ESDT system SC must exist as an account before callbacks from it are delivered
        bm.state.accounts.insert(addr(&ESDT_SYSTEM_SC), AccountData::new_empty(addr(&ESDT_SYSTEM_SC)));
        World { bm, map, pending: vec![], next_pending: 0, kinds: BTreeMap::new(), tx_counter: 0 }
    }

    fn ensure_account(&mut self, a: &VMAddress) {
        if !self.bm.state.accounts.contains_key(a) {
            self.bm.state.accounts.insert(a.clone(), AccountData::new_empty(a.clone()));
        }
    }

    pub fn create_account(&mut self, a: &[u8]) {
        let a = addr(a);
        self.ensure_account(&a);
    }

    fn logs_str(logs: &[TxLog]) -> String {
        let mut out = vec![];
        for l in logs {
            // chain-level logs of built-in functions are not contract events
            let ep = l.endpoint.as_str();
            if ep == "transferValueOnly" || ep.starts_with("ESDT") || ep.starts_with("MultiESDT") || ep == "SCDeploy" || ep == "SCUpgrade" {
                continue;
            }
            if l.topics.is_empty() {
                out.push(format!("{}|?{}|-|-", hx(l.address.as_bytes()), ep));
                continue;
            }
            let name = String::from_utf8_lossy(&l.topics[0]).to_string();
            // builtin-function logs (ESDTTransfer etc.) are chain-level, not contract events
            if name.starts_with("ESDT") || name.starts_with("MultiESDT") || name == "SCDeploy" || name == "SCUpgrade" {
                continue;
            }
            let mut topics = l.topics[1..].iter().map(|t| if t.is_empty() { ".".into() } else { hx(t) }).collect::<Vec<_>>().join(",");
            let mut data = l.data.iter().map(|t| if t.is_empty() { ".".into() } else { hx(t) }).collect::<Vec<_>>().join(",");
            // error events carry the callee's status code and message text, which are not part of
            // any property: only the first topic (the proposal hash) is kept
            if name.ends_with("error_event") {
                topics = l.topics.get(1).map(|t| hx(t)).unwrap_or_default();
                data = String::new();
            }
            out.push(format!("{}|{}|{}|{}", hx(l.address.as_bytes()), name, if topics.is_empty() { "-".into() } else { topics }, if data.is_empty() { "-".into() } else { data }));
        }
        if out.is_empty() {
            "-".into()
        } else {
            out.join(";")
        }
    }

    fn describe_call(&self, c: &AsyncCallTxData) -> String {
        let input = async_call_tx_input(c, CallType::AsyncCall);
        let info = self.bm.vm.builtin_functions.extract_token_transfers(&input);
        let (func, args): (String, Vec<Vec<u8>>) = if info.is_empty() {
            (c.endpoint_name.as_str().to_string(), c.arguments.clone())
        } else {
            // ESDTTransfer: token, amount, func, args... ; MultiESDTNFTTransfer: dest, n, (tok, nonce, amt)*, func, args...
            let name = c.endpoint_name.as_str();
            let skip = if name == "ESDTTransfer" {
                2
            } else if name == "MultiESDTNFTTransfer" {
                2 + 3 * info.transfers.len()
            } else if name == "ESDTNFTTransfer" {
                4
            } else {
                0
            };
            let f = c.arguments.get(skip).map(|v| String::from_utf8_lossy(v).to_string()).unwrap_or_default();
            let a = if c.arguments.len() > skip + 1 { c.arguments[skip + 1..].to_vec() } else { vec![] };
            (f, a)
        };
        let transfers: Vec<(Vec<u8>, u64, BigUint)> =
            info.transfers.iter().map(|t| (t.token_identifier.clone(), t.nonce, t.value.clone())).collect();
        format!(
            "{}:{}:{}:{}:{}",
            hx(info.real_recipient.as_bytes()),
            if func.is_empty() { "-".to_string() } else { func },
            c.call_value,
            fmt_esdt(&transfers),
            fmt_args(&args)
        )
    }

    /// canonical outcome of one executed transaction; registers its pending calls
    fn outcome(&mut self, mut res: TxResult) -> String {
        if res.result_status != 0 {
            return format!("fail # {} {}", res.result_status, res.result_message.replace('\n', " "));
        }
        let mut pend = vec![];
        let promises = std::mem::take(&mut res.pending_calls.promises);
        let legacy = res.pending_calls.async_call.take();
        if let Some(c) = legacy {
            let id = self.next_pending;
            self.next_pending += 1;
            pend.push(format!("{}={}", id, self.describe_call(&c)));
            self.pending.push(Pending { id, kind: PendKind::Legacy(c), result: None });
        }
        for p in promises {
            let id = self.next_pending;
            self.next_pending += 1;
            pend.push(format!("{}={}", id, self.describe_call(&p.call)));
            self.pending.push(Pending { id, kind: PendKind::Promise(p), result: None });
        }
        format!(
            "ok r={} ev={} pend={}",
            fmt_args(&res.result_values),
            Self::logs_str(&res.result_logs),
            if pend.is_empty() { "-".to_string() } else { pend.join(";") }
        )
    }

    fn run_tx(&mut self, input: TxInput) -> TxResult {
        self.ensure_account(&input.from.clone());
        self.bm.vm.execute_sc_call_lambda(input, &mut self.bm.state, execute_current_tx_context_input)
    }

    pub fn exec(&mut self, line: &str) -> String {
        let f: Vec<&str> = line.split_whitespace().collect();
        match f[0] {
            // acct <addr> <egld> <esdt|->
            "acct" => {
                let a = addr(&unhx(f[1]));
                self.ensure_account(&a);
                let acc = self.bm.state.accounts.get_mut(&a).unwrap();
                acc.egld_balance = f[2].parse::<BigUint>().unwrap();
                for t in parse_esdt(f[3]) {
                    acc.esdt.set_esdt_balance(t.token_identifier, t.nonce, &t.value, Default::default());
                }
                "ok".into()
            }
            // roles <addr> <token> <role,role>
            "roles" => {
                let a = addr(&unhx(f[1]));
                self.ensure_account(&a);
                let acc = self.bm.state.accounts.get_mut(&a).unwrap();
                let roles: Vec<Vec<u8>> = f[3].split(',').map(|r| r.as_bytes().to_vec()).collect();
                acc.esdt.set_roles(f[2].as_bytes().to_vec(), roles);
                "ok".into()
            }
            // wipe <addr>: emulate a contract that was deployed BEFORE the code under test was written — every storage
            // entry whose key does not belong to a storage mapper of the reference sources is deleted (an upgrade runs
            // `upgrade`, never `init`, so state that only the new `init` writes does not exist on such a contract).
            // On the unchanged sources nothing is deleted.
            "wipe" => {
                let a = addr(&unhx(f[1]));
                let kind = self.kinds.get(&a.to_vec()).cloned().unwrap_or_default();
                let known: &[&str] = match kind.as_str() {
                    "gateway" => &["domain_separator", "epoch", "epoch_by_signer_hash", "last_rotation_timestamp", "messages",
                        "minimum_rotation_delay", "operator", "previous_signers_retention", "signer_hash_by_epoch"],
                    "gas-service" => &["gas_collector"],
                    "governance" => &["gateway", "governance_address", "governance_chain", "minimum_time_lock_delay", "operator",
                        "operator_approvals", "refund_token", "time_lock_eta"],
                    "token-manager" => &["account_roles", "flow_in_amount", "flow_limit", "flow_out_amount", "implementation_type",
                        "interchain_token_id", "interchain_token_service", "proposed_roles", "token_identifier"],
                    "its" => &["account_roles", "approved_destination_minters", "chain_name", "chain_name_hash", "gas_service",
                        "gateway", "proposed_roles", "token_manager", "token_manager_address", "transfer_with_data_lock",
                        "trusted_address", "pause_module:paused"],
                    _ => &[],
                };
                let mut removed = 0usize;
                if !known.is_empty() {
                    if let Some(acc) = self.bm.state.accounts.get_mut(&a) {
                        let before = acc.storage.len();
                        acc.storage.retain(|k, _| {
                            k.starts_with(b"CB_CLOSURE") || k.starts_with(b"ELROND") || known.iter().any(|p| k.starts_with(p.as_bytes()))
                        });
                        removed = before - acc.storage.len();
                    }
                }
                format!("ok # wiped {}", removed)
            }
            // time <n>
            "time" => {
                self.bm.state.current_block_info.block_timestamp = f[1].parse().unwrap();
                "ok".into()
            }
            // newaddr <creator> <nonce> <addr>
            "newaddr" => {
                self.bm.state.new_addresses.insert((addr(&unhx(f[1])), f[2].parse().unwrap()), addr(&unhx(f[3])));
                "ok".into()
            }
            // deploy <kind> <owner> <addr> <args>
            "deploy" => {
                let owner = addr(&unhx(f[2]));
                let new = addr(&unhx(f[3]));
                self.ensure_account(&owner);
                let nonce = self.bm.state.accounts.get(&owner).unwrap().nonce;
                self.bm.state.new_addresses.insert((owner.clone(), nonce), new.clone());
                let input = TxInput {
                    from: owner,
                    to: VMAddress::zero(),
                    func_name: TxFunctionName::INIT,
                    args: arg_list(f[4]),
                    gas_limit: GAS,
                    ..Default::default()
                };
                let (_a, res) = self.bm.vm.sc_create(
                    input,
                    f[1].as_bytes(),
                    VMCodeMetadata::all(),
                    &mut self.bm.state,
                    execute_current_tx_context_input,
                );
                if res.result_status == 0 {
                    self.kinds.insert(new.to_vec(), f[1].to_string());
                }
                self.outcome(res)
            }
            // tx <from> <to> <func> <egld> <esdt|-> <args|->
            "tx" => {
                self.tx_counter += 1;
                let mut h = [0u8; 32];
                h[24..32].copy_from_slice(&self.tx_counter.to_be_bytes());
                let input = TxInput {
                    tx_hash: H256::from(h),
                    from: addr(&unhx(f[1])),
                    to: addr(&unhx(f[2])),
                    func_name: f[3].into(),
                    egld_value: f[4].parse::<BigUint>().unwrap(),
                    esdt_values: parse_esdt(f[5]),
                    args: arg_list(f[6]),
                    gas_limit: GAS,
                    ..Default::default()
                };
                let res = self.run_tx(input);
                self.outcome(res)
            }
            // query <to> <func> <args|->   (no state change is committed)
            "query" => {
                let to = addr(&unhx(f[1]));
                let input = TxInput {
                    from: to.clone(),
                    to,
                    func_name: f[2].into(),
                    args: arg_list(f[3]),
                    gas_limit: GAS,
                    ..Default::default()
                };
                let res = self.bm.vm.execute_sc_query_lambda(input, &mut self.bm.state, execute_current_tx_context_input);
                if res.result_status != 0 {
                    format!("fail # {} {}", res.result_status, res.result_message.replace('\n', " "))
                } else {
                    format!("ok r={}", fmt_args(&res.result_values))
                }
            }
            // bal <addr> <EGLD|token>
            "bal" => {
                let a = addr(&unhx(f[1]));
                let v = match self.bm.state.accounts.get(&a) {
                    None => BigUint::from(0u32),
                    Some(acc) => {
                        if f[2] == "EGLD" {
                            acc.egld_balance.clone()
                        } else {
                            // `TOKEN` or `TOKEN/nonce`
                            let mut it = f[2].split('/');
                            let t = it.next().unwrap();
                            let n: u64 = it.next().map(|x| x.parse().unwrap()).unwrap_or(0);
                            acc.esdt.get_esdt_balance(t.as_bytes(), n)
                        }
                    }
                };
                format!("ok n={}", v)
            }
            // deliver <id> real | ok <values|-> | fail
            "deliver" => self.deliver(f[1].parse().unwrap(), &f[2..]),
            // cb <id>
            "cb" => self.callback(f[1].parse().unwrap()),
            _ => panic!("unknown op: {line}"),
        }
    }

    fn deliver(&mut self, id: usize, how: &[&str]) -> String {
        let idx = match self.pending.iter().position(|p| p.id == id && p.result.is_none()) {
            Some(i) => i,
            None => return "nopending".into(),
        };
        let call = self.pending[idx].call().clone();
        let input = async_call_tx_input(&call, CallType::AsyncCall);
        let info = self.bm.vm.builtin_functions.extract_token_transfers(&input);
        let recipient = info.real_recipient.clone();
        let res: TxResult = match how[0] {
            "real" => {
                let mut input = input;
                input.gas_limit = GAS;
                self.ensure_account(&recipient);
                let r = self.bm.vm.execute_sc_call_lambda(input, &mut self.bm.state, execute_current_tx_context_input);
                r
            }
            "ok" => {
                // synthetic success of an external callee: it keeps the value / tokens
                self.ensure_account(&recipient);
                let enough = {
                    let from = self.bm.state.accounts.get(&call.from).unwrap();
                    // several transfers of the same token are checked cumulatively below
                    from.egld_balance >= call.call_value
                };
                let mut ok = enough;
                if ok {
                    let snapshot = self.bm.state.accounts.get(&call.from).unwrap().clone();
                    let from = self.bm.state.accounts.get_mut(&call.from).unwrap();
                    from.egld_balance -= &call.call_value;
                    for t in &info.transfers {
                        let bal = from.esdt.get_esdt_balance(&t.token_identifier, t.nonce);
                        if bal < t.value {
                            ok = false;
                            break;
                        }
                        from.esdt.set_esdt_balance(t.token_identifier.clone(), t.nonce, &(bal - &t.value), Default::default());
                    }
                    if !ok {
                        *from = snapshot;
                    }
                }
                if ok {
                    let to = self.bm.state.accounts.get_mut(&recipient).unwrap();
                    to.egld_balance += &call.call_value;
                    for t in &info.transfers {
                        to.esdt.increase_balance(t.token_identifier.clone(), t.nonce, &t.value, Default::default());
                    }
                    TxResult { result_status: 0, result_values: arg_list(how.get(1).copied().unwrap_or("-")), ..Default::default() }
                } else {
                    TxResult { result_status: 7, result_message: "insufficient funds".into(), ..Default::default() }
                }
            }
            // fail [code]: the callee fails with the given VM return code (1 function not found, 2 wrong signature,
            // 3 contract not found, 4 user error, 5 out of gas, 9 contract invalid, 10 execution failed)
            "fail" => {
                let code: u64 = how.get(1).and_then(|c| c.parse().ok()).unwrap_or(4);
                TxResult { result_status: code, result_message: "synthetic failure".into(), ..Default::default() }
            }
            other => panic!("deliver: unknown outcome {other}"),
        };
        let line = if res.result_status == 0 {
            format!("ok r={} ev={}", fmt_args(&res.result_values), Self::logs_str(&res.result_logs))
        } else {
            format!("fail # {} {}", res.result_status, res.result_message.replace('\n', " "))
        };
        // nested asyncs of the callee are not supported by the chain for promises either
        let mut res = res;
        res.pending_calls.promises.clear();
        res.pending_calls.async_call = None;
        self.pending[idx].result = Some(res);
        line
    }

    fn callback(&mut self, id: usize) -> String {
        let idx = match self.pending.iter().position(|p| p.id == id && p.result.is_some()) {
            Some(i) => i,
            None => return "nopending".into(),
        };
        let p = self.pending.remove(idx);
        let res = p.result.unwrap();
        let mut input = match &p.kind {
            PendKind::Promise(pr) => async_promise_callback_tx_input(pr, &res, &self.bm.vm.builtin_functions),
            PendKind::Legacy(c) => async_callback_tx_input(c, &res, &self.bm.vm.builtin_functions),
        };
        input.gas_limit = GAS;
        self.ensure_account(&input.from.clone());
        let r = self.bm.vm.execute_sc_call_lambda(input, &mut self.bm.state, execute_current_tx_context_input);
        self.outcome(r)
    }
}
