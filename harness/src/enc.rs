//! The harness's own (independent) MultiversX codec helpers and hash derivations, used to
//! build well-formed arguments, signatures and expected identifiers.
use sha3::{Digest, Keccak256};

pub fn keccak(b: &[u8]) -> Vec<u8> {
    let mut h = Keccak256::new();
    h.update(b);
    h.finalize().to_vec()
}
pub fn u32be(n: usize) -> Vec<u8> {
    (n as u32).to_be_bytes().to_vec()
}
pub fn nest_buf(b: &[u8]) -> Vec<u8> {
    let mut v = u32be(b.len());
    v.extend_from_slice(b);
    v
}
/// minimal big-endian bytes
pub fn nat(n: u128) -> Vec<u8> {
    let b = n.to_be_bytes();
    let k = b.iter().position(|x| *x != 0).unwrap_or(16);
    b[k..].to_vec()
}
pub fn nest_big(n: u128) -> Vec<u8> {
    nest_buf(&nat(n))
}
pub fn cat(parts: &[&[u8]]) -> Vec<u8> {
    let mut v = vec![];
    for p in parts {
        v.extend_from_slice(p);
    }
    v
}
/// user (EOA) address
pub fn user(i: u8) -> Vec<u8> {
    let mut a = vec![0xAAu8; 32];
    a[1] = i;
    a
}
/// smart-contract address (8 leading zero bytes)
pub fn sc(tag: &str) -> Vec<u8> {
    let mut a = vec![0u8; 8];
    a.extend_from_slice(&[5, 0]);
    let mut t = tag.as_bytes().to_vec();
    t.resize(22, b'_');
    a.extend(t);
    a
}
pub fn arg(b: &[u8]) -> String {
    if b.is_empty() {
        ".".into()
    } else {
        hex::encode(b)
    }
}
pub fn args(v: &[Vec<u8>]) -> String {
    if v.is_empty() {
        "-".into()
    } else {
        v.iter().map(|a| arg(a)).collect::<Vec<_>>().join(",")
    }
}

/// the VM return code of a failing asynchronous call: mostly a user error, now and then one of the others
pub fn fail_code(rng: &mut crate::rng::Rng) -> u64 {
    *rng.pick(&[4u64, 4, 4, 1, 2, 3, 5, 9, 10, 12])
}
