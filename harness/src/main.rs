mod abiops;
mod enc;
mod gen;
mod rng;
mod world;

use std::fs::File;
use std::io::{BufRead, BufReader, BufWriter, Write};

/// Executes op lines on the real code; `reset` starts a fresh VM world.
pub struct Exec {
    pub world: world::World,
}

impl Exec {
    pub fn new() -> Self {
        Exec { world: world::World::new() }
    }
    pub fn exec(&mut self, line: &str) -> String {
        let line = line.trim();
        if line.starts_with("abi.") {
            return abiops::exec(line);
        }
        if line == "reset" {
            self.world = world::World::new();
            return "ok".into();
        }
        if line.starts_with("note ") {
            return "ok".into();
        }
        // a panic inside the VM itself (not a contract panic, which the VM turns into a failed transaction) must
        // not end the run.  The debug VM panics when value is sent to an address that has no account yet (on the
        // real chain receiving creates the account): create it and run the operation again — the VM commits
        // nothing before a transaction completes.  Any other VM panic is reported as the outcome `crash`.
        for _ in 0..4 {
            let r = std::panic::catch_unwind(std::panic::AssertUnwindSafe(|| self.world.exec(line)));
            match r {
                Ok(out) => return out,
                Err(e) => {
                    let msg = if let Some(s) = e.downcast_ref::<String>() {
                        s.clone()
                    } else if let Some(s) = e.downcast_ref::<&str>() {
                        s.to_string()
                    } else {
                        "panic".to_string()
                    };
                    if let Some(rest) = msg.strip_prefix("Account ") {
                        if let Some(hexaddr) = rest.strip_suffix(" not found") {
                            if let Ok(b) = hex::decode(hexaddr.trim_start_matches("0x")) {
                                if b.len() == 32 {
                                    self.world.create_account(&b);
                                    continue;
                                }
                            }
                        }
                    }
                    return format!("crash # {}", msg.replace('\n', " "));
                }
            }
        }
        "crash # account creation did not help".into()
    }
}

/// Records every op line and the implementation's outcome.
pub struct Sink {
    pub ex: Exec,
    pub ops: BufWriter<File>,
    pub imp: BufWriter<File>,
    pub count: usize,
}

impl Sink {
    pub fn exec(&mut self, line: &str) -> String {
        let out = self.ex.exec(line);
        writeln!(self.ops, "{}", line).unwrap();
        writeln!(self.imp, "{}", out).unwrap();
        self.count += 1;
        out
    }
}

fn main() {
    // contract panics are expected outcomes: keep stderr quiet
    std::panic::set_hook(Box::new(|_| {}));
    let args: Vec<String> = std::env::args().collect();
    match args.get(1).map(|s| s.as_str()) {
        Some("run") => {
            let f = BufReader::new(File::open(&args[2]).expect("ops file"));
            let mut ex = Exec::new();
            // outcomes go to a file: the VM prints panic texts on stdout
            let mut w = BufWriter::new(File::create(&args[3]).expect("impl output file"));
            for line in f.lines() {
                let line = line.unwrap();
                if line.trim().is_empty() {
                    continue;
                }
                writeln!(w, "{}", ex.exec(&line)).unwrap();
            }
        }
        Some("genrun") => {
            let prop = &args[2];
            let seed: u64 = args[3].parse().unwrap();
            let n: usize = args[4].parse().unwrap();
            let mut sink = Sink {
                ex: Exec::new(),
                ops: BufWriter::new(File::create(&args[5]).unwrap()),
                imp: BufWriter::new(File::create(&args[6]).unwrap()),
                count: 0,
            };
            let mut rng = rng::Rng::new(seed);
            // a generator that trips over a state it did not expect (the implementation accepted something the
            // generator's mirror cannot follow) must not lose the operations already executed: they are analysed
            let r = std::panic::catch_unwind(std::panic::AssertUnwindSafe(|| gen::generate(prop, &mut rng, n, &mut sink)));
            sink.ops.flush().unwrap();
            sink.imp.flush().unwrap();
            if r.is_err() {
                println!("generator stopped early after {} ops", sink.count);
            } else {
                println!("generated {} ops", sink.count);
            }
        }
        _ => {
            eprintln!("usage: harness run <ops> <impl_out> | genrun <prop> <seed> <n> <ops_out> <impl_out>");
            std::process::exit(2);
        }
    }
}
