#!/usr/bin/env python3
"""reseed_all.py [name-prefix ...] — re-runs every stored seeded change (seeded/*/patch.diff) through the quick check of
the property it breaks (tools/seed_check.py) and prints which are detected.  /repo is restored after each one."""
import json, os, subprocess, sys
root = "/verif/seeded"
names = sorted(os.listdir(root))
if len(sys.argv) > 1:
    names = [n for n in names if any(n.startswith(p) for p in sys.argv[1:])]
if os.environ.get("RESEED_NEWEST_FIRST"):
    names = names[::-1]
bad = []
for n in names:
    mp = os.path.join(root, n, "meta.json")
    if not os.path.exists(mp):
        print(n, "no meta.json"); continue
    m = json.load(open(mp))
    p = subprocess.run(["python3", "/verif/tools/seed_check.py", n, m["breaks_property"], m["needs_to_manifest"]],
                       stdout=subprocess.PIPE, stderr=subprocess.STDOUT, text=True)
    m2 = json.load(open(mp))
    status = "DETECTED" if m2["detected_with_failing_input"] else ("detected-no-input" if m2["detected"] else "MISSED")
    print(n, m["breaks_property"], status, flush=True)
    if status != "DETECTED":
        bad.append(n)
print("not detected with failing input:", bad)
