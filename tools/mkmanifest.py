#!/usr/bin/env python3
"""Writes /verif/MANIFEST.json from the table below (kept next to checklib.PROPS)."""
import json
import os
import sys

sys.path.insert(0, os.path.dirname(os.path.abspath(__file__)))
import checklib  # noqa: E402

VERIF = checklib.VERIF
ALL = ["C%02d" % i for i in range(1, 21)]

# property -> (technique, level text, level note, design ref)
CLAIMS = {
    "C06": ("Lean 4 theorem: model of raw_abi_encode = independent Solidity abi.encode spec, for all token lists; tied to source by regenerated field tables + differential run on the real abi_encode",
            "Machine-checked proof (Lean 4 kernel) that the model of the Rust encoder equals a Solidity-ABI spec for every value (all lengths, all integers < 2^256), and rejects every integer >= 2^256; the model is tied to /repo by regenerated field lists (proof obligations) and by running the real `abi_encode` of all five payload structs against the model and against the spec on generated values.",
            "Assumes: total encoding < 2^32 bytes (u32 arithmetic in abi.rs; unreachable for buffers the VM can hold); bytes32 fields are 32 bytes (Rust type). Trusted: Lean kernel, hand-written model/spec, extractor, harness, Rust debug VM managed-type API.",
            "DESIGN.md §3 C06"),
    "C07": ("Lean 4 theorem: model decoder succeeds iff the in-bounds Solidity layout assigns exactly those fields (arbitrary bytes) + round trip; differential run with mutation stream on the real abi_decode",
            "Machine-checked proof that the model of `raw_abi_decode` returns `ts` iff the ABI layout read with all accesses in bounds, offset/length words < 2^32 and u8 words < 256 assigns exactly `ts` (for ALL byte strings), that canonical encodings round-trip for the five message types, and that link-type bytes > 4 and message types >= 2^63 are rejected; the real decoders are run against the model and judged by the layout relation on canonical, mutated and random byte strings.",
            "Harness runs the decoder natively (64-bit usize); wasm32 wrap-around of `offset + 32` is excluded by the VM's own bounds check on the preceding load (DESIGN §5). Trusted: as C06.",
            "DESIGN.md §3 C07"),
}

NOT_YET = "check not yet built in this session (model/harness under construction, see DESIGN.md §6); not claimed until its proof and correspondence run"


def main():
    checks = []
    for p in ALL:
        if p not in CLAIMS or p not in checklib.PROPS:
            continue
        tech, text, note, ref = CLAIMS[p]
        checks.append({
            "property_id": p,
            "quick_cmd": f"./check {p} --tier quick",
            "thorough_cmd": f"./check {p} --tier thorough",
            "evidence_file": f"/verif/evidence/{p}.json",
            "replay_cmd_template": f"./check {p} --replay {{path}}",
            "engine": "lean4-proof+correspondence",
            "level_claimed": {"category": "proof", "text": text, "design_ref": ref},
            "level_note": note,
            "technique": tech,
        })
    m = {
        "version": 1,
        "setup_cmd": "python3 tools/extract.py && (cd lean && lake build) && (cd harness && cargo build --offline)",
        "hooks": {
            "guard": "multiversx_sc_axelar_cgp_rs_verif",
            "enable": "no source hooks are needed: the harness links the unmodified crates by path and drives them through the VM",
            "baseline_off_cmd": "cd /repo && cargo test --workspace --no-fail-fast --offline",
            "source_commits": [],
            "add_only": True,
        },
        "engines": [{
            "name": "lean4-proof+correspondence",
            "path": "/verif/check",
            "serves_properties": [c["property_id"] for c in checks],
            "kind_free_text": "Lean 4 theorems about a hand-written executable model (lean/Axelar), regenerated source tables (tools/extract.py), Rust VM scheduler harness (harness/) for differential execution of the real contracts vs the compiled model, Lean property judges on implementation traces",
        }],
        "checks": checks,
        "not_applicable": [{"property_id": p, "reason": NOT_YET} for p in ALL if p not in CLAIMS],
        "notes": "All checks rebuild from /repo's working tree (cargo path dependencies; extractor re-reads the sources). See DESIGN.md.",
    }
    with open(os.path.join(VERIF, "MANIFEST.json"), "w") as f:
        json.dump(m, f, indent=1)
    try:
        import jsonschema
        jsonschema.validate(m, json.load(open("/root/.vp/MANIFEST.schema.json")))
        print("MANIFEST.json valid;", len(checks), "checks")
    except ImportError:
        print("MANIFEST.json written (jsonschema not available)")


if __name__ == "__main__":
    main()
