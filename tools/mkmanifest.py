#!/usr/bin/env python3
"""Writes /verif/MANIFEST.json from the table below (kept next to checklib.PROPS)."""
import json
import os
import sys

sys.path.insert(0, os.path.dirname(os.path.abspath(__file__)))
import checklib  # noqa: E402

VERIF = checklib.VERIF
ALL = ["C%02d" % i for i in range(1, 21)]

# property -> (technique, level text, level note, design ref)
GW_NOTE = ("Cryptography is a parameter: theorems quantify over every hash function H and every verify predicate; binding results are "
           "collision-or-equal. Trusted: Lean kernel, hand-written gateway model (tied to /repo by differential execution of the real "
           "gateway in the Rust VM with real ed25519 signatures, and by extracted constants), harness, debug VM; block time monotone.")

CLAIMS = {
    "C01": ("Lean 4 theorems over all configurations/histories: accepted approval => in-window registered set + valid positional signatures reaching threshold over the 4-fold digest; completeness; registry invariant by induction over call lists; digest binding (collision-or-equal); differential run of the real gateway vs compiled model with real ed25519 proofs",
            "Machine-checked proofs (for every hash function, verify predicate, configuration and call history) of soundness and completeness of approveMessages w.r.t. a declarative quorum spec, of the registry invariant over all histories, of digest binding, and that approvals write nothing before validation; the model is run against the real gateway crate on generated proofs (valid, boundary-weight, one-component-altered digests, misaligned, garbage) and the same spec predicates judge every implementation outcome.",
            GW_NOTE, "DESIGN.md §3 C01"),
    "C02": ("Lean 4 theorems: per-step transition relation (none->approved->executed only), lifted by induction to all histories; validateMessage characterisation; at-most-one true validation per id over every history; message-hash binding; the life cycle also holds in the composed world (every operation of every schedule, any contract calling the gateway: lifecycle_in_the_whole_world); differential run + lifecycle judge on the real gateway",
            "Machine-checked proofs that every endpoint call moves each message entry only along non-existent -> approved -> executed, that existing entries are untouched by later batches (incl. duplicates and altered contents), that validateMessage returns true iff the entry is the approval binding caller/source/payload hash and then executes it, and that over every history at most one validation per id returns true; the real gateway is run against the model and judged by the same predicates.",
            GW_NOTE, "DESIGN.md §3 C02"),
    "C03": ("Lean 4 theorems: rotation effect (epoch+1, fresh hash, well-formed set <-> declarative wfSigners), non-operator latest+delay, operator any in-window set, out-of-window rejected for every command, registry entries permanent, operator changes only by operator/owner (transferOperatorship or the owner's upgrade); the owner's upgrade(operator, signers…) is an operation of the histories and registers only fresh well-formed sets, one epoch each; differential run + judge on the real gateway (rotations, upgrades, time, operatorship)",
            "Machine-checked proofs of the exact effect and preconditions of every successful rotation, equivalence of validate_signers with the declarative well-formedness predicate, the operator/non-operator rules, rejection of out-of-window sets by both commands, permanence of registry entries over all histories, and that operatorship changes only by operator or owner; the real gateway is run against the model over rotation/time/operatorship histories.",
            GW_NOTE, "DESIGN.md §3 C03"),
    "C15": ("Lean 4 theorems: outflow only via collectFees/refund by the current collector to a non-zero receiver within balance; payment endpoints emit exactly one event built from the received value; collector changes only by collector/owner; conservation (balance = initial + receipts - outflows) by induction over all call histories; differential run + judge on the real gas service",
            "Machine-checked proofs over all histories of the eight payment endpoints, collectFees, refund and setGasCollector: who can move funds, to whom and how much, the exact event of every accepted payment, and the per-token conservation law by induction over arbitrary call lists; the real gas service is run in the Rust VM against the compiled model (balances compared after every operation) and judged by the same rules.",
            "Payments are fungible (nonce 0) ESDT or EGLD as the endpoints require; balances are unbounded naturals (BigUint). Trusted: Lean kernel, model, harness, debug VM balance/transfer semantics.",
            "DESIGN.md §3 C15"),
    "C09": ("Lean 4 theorems: accepted give/take under limit L>0 has amount<=L and net flow<=L; net-flow bound preserved by every endpoint and lifted by induction to all call histories under a constant limit; counters touched only in the current epoch; zero limit never rejects; limit changes only by a flow limiter; differential run with boundary-directed amounts + judge on the real token manager",
            "Machine-checked proofs about the model of add_flow / giveToken / takeToken / setFlowLimit and of every other token-manager endpoint (frame), lifted to all histories; the real token-manager crate is run in the Rust VM against the compiled model with amounts chosen around the limit and the current net flow and with epoch roll-overs, and judged by the bound itself.",
            "Time is the block timestamp supplied per transaction (monotone); EPOCH_TIME extracted from the source. Trusted: Lean kernel, model, harness, debug VM.",
            "DESIGN.md §3 C09"),
    "C10": ("Lean 4 theorems: token-moving effects only via giveToken/takeToken by the bound service or mint/burn by a minter of a native manager with token set; exact custody shapes for lock/unlock and mint/burn kinds; transfer_role/accept_role effects (role leaves the old holder, proposal single-use, exact roles); characterisation of every role change over all endpoints; differential run + judge on the real token manager and roles module",
            "Machine-checked proofs over a complete case analysis of the token-manager endpoints (call_cases): gating of custody and mint/burn, exact effects per manager kind, and that any change of an account's roles is one of the nine guarded role operations or the issuance step; the real crates are run against the compiled model (balances, roles and proposals compared after every operation).",
            "ESDT local mint/burn roles are protocol state set by the harness (`roles` op) as the system contract would; the debug VM's role check is the one exercised. Trusted: Lean kernel, model, harness, debug VM.",
            "DESIGN.md §3 C10"),
    "C11": ("Lean 4 theorems: dispatch requires a non-zero matured eta and clears it; schedule refuses a set slot and stores max(eta, now+minDelay); callback effects; proposal-hash binding (collision-or-equal); OVER EVERY HISTORY successful dispatches + dispatches in flight + live time locks never exceed accepted schedulings per proposal, and a never-scheduled proposal is never dispatched (Proofs/GovHistory); the full-strength 'not cancelled since' is REFUTED by a general theorem (finding F3) and the part that holds is proved as _partial; differential run with the three dispatch steps scheduled separately + ghost-history judge on the real governance and gateway",
            "Machine-checked proofs about every step of the time-lock life cycle for all states, times and arguments, including a proof that a cancel landing between dispatch and failure callback is lost on the unchanged code (known finding F3, replayed on the real contracts from corpus/C11 on every run); the real contracts are run against the model with other transactions placed between dispatch, target call and callback.",
            "The dispatched target is external code: its outcome is chosen by the schedule; gas exhaustion inside the callback is outside the model. Trusted: Lean kernel, model, harness (delivers promises step by step through the VM's own promise/callback input builders), debug VM.",
            "DESIGN.md §3 C11, §4 F3"),
    "C12": ("Lean 4 theorems: execute succeeds only with configured source and a gateway approval addressed to governance for H(payload), which becomes executed so a replay fails; forged/unapproved rejected; eta/approval maps framed for all other endpoints; operator dispatch needs operator+approval and consumes it; approval life cycle; operator change and fund outflow gated; differential run + judge on real governance+gateway",
            "Machine-checked proofs of authentication and non-replay of governance commands (using the gateway lifecycle theorems), of the frame of all other endpoints, and of the operator-proposal rules; the cancel-in-window loss for operator approvals is a recorded known finding (F3) replayed from corpus/C12 on every run.",
            "As C11. Cryptography is a parameter (hash collisions appear only in binding statements).",
            "DESIGN.md §3 C12, §4 F3"),
    "C16": ("Lean 4 theorems: failure callback credits exactly the attached payments per (caller, token, nonce), additively, to the dispatching caller only; success credits nothing; withdrawRefundToken pays the whole credit to the caller once and zeroes it; no other endpoint touches credits; OVER EVERY HISTORY (credits_ledger_over_histories: any list of endpoint calls through the model's dispatcher, commands against any gateway state, callbacks of dispatches in flight in any order with any outcome) outstanding credit + withdrawn = attached to failed dispatches, per (user, token, nonce); differential run (credits and balances compared after every step) on the real governance contract",
            "Machine-checked proofs of the exact credit arithmetic (including repeated tokens in one multi-transfer and repeated failures) and of the frame; the real contract is driven through dispatch / delivery / callback / withdrawal interleavings and compared with the model on getRefundToken and balances.",
            "Gas exhaustion of the callback and the gas reservation constants cannot be exhibited by the model. Trusted: Lean kernel, model, harness, debug VM.",
            "DESIGN.md §3 C16"),
    "C06": ("Lean 4 theorem: model of raw_abi_encode = independent Solidity abi.encode spec, for all token lists; tied to source by regenerated field tables + differential run on the real abi_encode",
            "Machine-checked proof (Lean 4 kernel) that the model of the Rust encoder equals a Solidity-ABI spec for every value (all lengths, all integers < 2^256), and rejects every integer >= 2^256; the model is tied to /repo by regenerated field lists (proof obligations) and by running the real `abi_encode` of all five payload structs against the model and against the spec on generated values.",
            "Assumes: total encoding < 2^32 bytes (u32 arithmetic in abi.rs; unreachable for buffers the VM can hold); bytes32 fields are 32 bytes (Rust type). Trusted: Lean kernel, hand-written model/spec, extractor, harness, Rust debug VM managed-type API.",
            "DESIGN.md §3 C06"),
    "C07": ("Lean 4 theorem: model decoder succeeds iff the in-bounds Solidity layout assigns exactly those fields (arbitrary bytes) + round trip; differential run with mutation stream on the real abi_decode",
            "Machine-checked proof that the model of `raw_abi_decode` returns `ts` iff the ABI layout read with all accesses in bounds, offset/length words < 2^32 and u8 words < 256 assigns exactly `ts` (for ALL byte strings), that canonical encodings round-trip for the five message types, and that link-type bytes > 4 and message types >= 2^63 are rejected; the real decoders are run against the model and judged by the layout relation on canonical, mutated and random byte strings.",
            "Harness runs the decoder natively (64-bit usize); wasm32 wrap-around of `offset + 32` is excluded by the VM's own bounds check on the preceding load (DESIGN §5). Trusted: as C06.",
            "DESIGN.md §3 C07"),
}

ITS_NOTE = ("The ITS theorems are about the world-level model (Axelar/Model/ItsWorld.lean: the service, its calls into gateway, gas service and token managers, "
            "with failure = none); asynchronous steps are separate transitions whose order the schedule chooses. Parts of the property that are proved only "
            "at component level (not end-to-end over all histories) are named *_partial in the Props file and are decided on the implementation by the Lean judge "
            "over generated schedules. Trusted: Lean kernel, hand-written model (tied to /repo by differential execution of the real ITS, token-manager, gateway "
            "and gas-service crates in the Rust VM, by the regenerated endpoint table and constants), harness (holds back promises / legacy async calls and "
            "delivers them step by step), debug VM incl. ESDT system-contract stand-ins for issue / getTokenProperties chosen by the schedule.")

CLAIMS.update({
    "C04": ("Lean 4 theorems: a release of tokens by processInterchainTransfer (no data) implies a true validateMessage for exactly (source chain, id, source address, payload hash) addressed to the service, which executes the approval; AT MOST ONCE OVER EVERY SCHEDULE: a release leaves the message executed at the end of its transaction, executed is absorbing under every operation of the world model (transactions to any contract, deliveries, callbacks: Proofs/GwHistory.step_life by induction over operation lists), and for an executed message the release step fails; execute refuses untrusted sources; unknown token id / malformed recipient / unknown message type fail; EXACT RELEASE (release_pays_exactly_the_amount): a ledger equation over EVERY account and EVERY asset — the recipient gains exactly the payload amount of the manager's token, a lock/unlock manager loses exactly that, a mint/burn manager mints it, nothing else moves; differential run of the real ITS+gateway+token manager vs the compiled model + Lean judge on every inbound execute",
            "Machine-checked proofs for all states, callers and payloads of the gating of an inbound release on gateway validation and trusted source, and of the failure cases; at-most-once is proved over all histories of the composed world (no_second_release), not only of the gateway alone; the exact amount / recipient / custody clause is a theorem too (ledger equations of Proofs/Ledger + ItsLedger through gateway validation and the manager's giveToken). The real contracts are run against the model on approved / unapproved / replayed / wrong-source / unknown-token / malformed messages, hub-wrapped and direct, and judged by the property (recipient balance delta = payload amount, message executed, replays fail).",
            ITS_NOTE, "DESIGN.md §3 C04"),
    "C05": ("Lean 4 theorems: get_transfer_and_gas_tokens returns exactly the three shapes of the property and conserves value (transfer + gas = attached); transmit refuses zero amount / empty destination / untrusted chain; the emitted payload is the ABI encoding of exactly (type, token id, sender, destination, amount, data) (round trip by C06/C07); for EGLD / zero gas the complete event list of a successful transmission is proved (at most one gas-paid event with the sender as refund address, exactly one gateway contract-call event to the destination the trusted table prescribes carrying the routed payload and its hash, then the service's transfer event) together with the EGLD movement service -> gas service of exactly the gas value (outbound_message_events); VALUE CONSERVATION OF THE WHOLE TRANSACTION for every payment shape and gas token (outbound_transaction_ledger: the sender loses exactly the attached payments, the manager receives — or burns — exactly the transfer amount, the gas service exactly the gas value, for every account and asset; service_balances_unchanged); differential run (all balances compared after every step) + Lean judge on every outbound transfer of the real ITS",
            "Machine-checked proofs of the payment split (all payment lists, all gas values), of the refusal cases and of the payload contents; conservation across sender / token manager / gas service / service is proved as a ledger equation over all accounts and assets (ESDT and EGLD, custody and burn kinds) and, in addition, decided on the real contracts by comparing every account's balances with the model after each operation and by the judge (sender delta = payments, custody or burn = transfer amount, one contract_call event with the payload hash, gas forwarded with sender as refund address, service balances unchanged).",
            ITS_NOTE, "DESIGN.md §3 C05"),
    "C08": ("Lean 4 theorems: a locked (in-flight) message cannot start another delivery; starting needs the exact gateway approval and sets the lock; OVER EVERY SCHEDULE the lock is cleared by nothing but the callback of that very delivery (frame of the whole dispatcher for the lock table, Proofs/ItsLock.step_lock), a successful delivery ends with the message executed, and an executed message can never start again (no schedule delivers twice); exact shape of the success and failure callbacks; REFUTATION: if the token manager rejects the take-back (flow limit) the failure callback fails and the tokens stay in the service (finding F1), with the part that holds proved as _partial; differential run with execute / destination call / callback scheduled separately among other transactions + Lean judge on the real contracts",
            "Machine-checked proofs of the single-shot lock and of the callback effects for all states; the full-strength 'never left behind in the service' is false on the unchanged code (known finding F1: flow-limit rejection of the take-back, replayed on the real contracts from corpus/C08 on every run). The real ITS, gateway and token manager are driven through all three steps with other transactions (including second executes of the same message, flow-limit changes, pauses) in between and judged on deliveries, custody and message state.",
            ITS_NOTE, "DESIGN.md §3 C08, §4 F1"),
    "C13": ("Lean 4 theorems over every trusted-address table and payload: get_execute_params unwraps only RECEIVE_FROM_HUB from the hub chain naming a hub-routed original chain and rejects direct messages from the hub chain; get_call_params sends to the trusted address, wraps for hub-routed chains to the hub's trusted address, refuses missing trust and the hub chain as destination; is_trusted_address characterisation; hub constants; execute / route_message use exactly these decisions; OVER EVERY SCHEDULE the trusted table changes only through the owner endpoints called by the owner (frame of the whole dispatcher, Proofs/ItsFrame.call_allowed, lifted to all operations by ItsHistory.step_change); differential run + judge on the real ITS",
            "Machine-checked proofs of the complete decision logic of inbound and outbound routing for all tables, chains, addresses and payloads; the real service is run against the model on trusted / untrusted / removed chains, hub-routed and direct, wrapped and non-wrapped payloads, and judged by the routing rules on every accepted inbound message and every emitted gateway call.",
            ITS_NOTE, "DESIGN.md §3 C13"),
    "C14": ("Lean 4 theorems: the three id derivations are the published hash shapes with the published prefixes (regenerated constants), depend only on (kind, chain-name hash, deployer, salt / token), bind their inputs (collision-or-equal), and are domain-separated between kinds; deploy_token_manager_raw refuses a token id that already has a manager and records exactly the manager created with the requested type/token/operator; init records its arguments; custom registration forbids the native type; OVER EVERY SCHEDULE a bound token id keeps its manager (binding_is_forever) and the stored inputs of the derivations never change (ids_are_stable_over_histories), by a frame proof over the whole endpoint dispatcher and induction over operation lists; differential run + judge on the real ITS",
            "Machine-checked proofs (for every hash function) of determinism, binding and domain separation of token ids, and that a token id gets at most one manager which is never replaced; the real service is run against the model (executable Keccak-256) so every id and every manager address the implementation computes is compared, including registrations by different deployers with equal salts.",
            ITS_NOTE, "DESIGN.md §3 C14"),
    "C17": ("Lean 4 theorems: both getTokenProperties callbacks return the whole gas value to the original caller when the query failed or the token is not fungible; exact refund; a successful metadata callback moves exactly the gas value out of the service, to the caller or to the gas service, nobody else's EGLD balance changes and the service keeps nothing (EGLD balance lemmas through payments, sends and sub-calls: Proofs/Balances); REFUTATION: when the callback itself fails (hub / route removed in between, or payload refused) the gas value stays in the service (finding F2, two call sites), with the part that holds proved as _partial; differential run with the callbacks scheduled separately + Lean judge 'service holds nothing of the user value after the last step' on the real contracts",
            "Machine-checked proofs of the refund and forward branches of the two asynchronous flows that carry user EGLD, and proofs that on the unchanged code a failing callback strands that EGLD (known findings F2a/F2b, replayed on the real contracts from corpus/C17 on every run). All user operations of the real service are run to completion under generated schedules and the service's balances are compared with their values before the operation.",
            ITS_NOTE, "DESIGN.md §3 C17, §4 F2"),
    "C18": ("Lean 4 theorems: a token manager's recorded token survives every endpoint call and every later issuance callback (after fix aeb366e); the issuance callback records exactly the returned identifier or nothing; step 1 of an inbound deploy message reads exactly the approval for its fields and leaves the gateway unchanged, step 2 consumes it, an executed message drives neither step, and executed is absorbing over every schedule (one_issuance_per_message); zero-supply deployment without minter, or with the service as minter (any supply, after fix b2e025b), is refused; THE MINT STEP (mint_step_mints_the_supply_and_hands_over, mint_step_cannot_be_repeated): the deployer receives exactly the requested supply and no other balance changes, the service ends with no role on the manager and the nominated minter with all three, and the step cannot be repeated; differential run with issue calls / callbacks scheduled separately + Lean judge on the real ITS and token manager",
            "Machine-checked proofs of 'never replaced' over a complete case analysis of the token-manager endpoints and its callback, of the two-step use of the gateway approval, and of the refusal cases; the two-issuances-in-flight defect found by this check (F4) was repaired in /repo (fix: aeb366e); proving mint-exactly-once exposed a second defect (F7: with the service nominated as minter the mint step could be repeated without bound), repaired by fix: b2e025b; both witnesses in corpus/C18 run first on every run. The real contracts are driven through the multi-call deployment flows (inbound and local) with system-contract outcomes chosen by the schedule and judged on approvals consumed, tokens recorded, supply minted and roles handed over.",
            ITS_NOTE, "DESIGN.md §3 C18, §4 F4"),
    "C19": ("Lean 4 theorems: use_deploy_approval succeeds iff an approval is present for exactly (minter, token id, destination chain) and equals the hash of the requested destination minter, and then clears it (single use); approval-key binding (collision-or-equal); revoke clears only the caller's own key; approve needs a caller the manager reports as minter (never the service itself) and a trusted chain; no local minter ⇒ no destination minter; OVER EVERY SCHEDULE an approval entry is only ever written under a key derived from the address of the account that makes the call, or cleared (Proofs/ItsApprovals.step_approvals); differential run + Lean judge on approve / revoke / deployRemote…WithMinter of the real ITS",
            "Machine-checked proofs for all states of the exactness and single use of destination-minter approvals and of key binding; the real service is run against the model over approve / revoke / deploy sequences by minters, former minters, non-minters and the service address, with matching and non-matching chains and minters, and judged by the rules of the property.",
            ITS_NOTE, "DESIGN.md §3 C19"),
    "C20": ("Lean 4 theorems: while paused each of the ten pausable endpoints of the model's dispatcher fails for every caller / argument list / payment (call_paused) and the whole transaction leaves the world unchanged (paused_transaction_changes_nothing); owner operations need the owner, setFlowLimits needs the operator role; OVER EVERY SCHEDULE the pause flag and trusted table change only by the owner endpoints called by the owner; pause then unpause restores the storage; sub-calls never touch the service's own storage; proof obligations over the table regenerated from the source on every run: every pausable endpoint reaches require_not_paused before any state change or external call, privileged endpoints carry only_owner / only_operator; differential run with pause / unpause interleaved + Lean judge on the real ITS",
            "Machine-checked proofs of pause effectiveness for each pausable flow of the model plus proof obligations discharged over the endpoint table that tools/extract.py regenerates from interchain-token-service/src on every run (so moving or dropping a pause check breaks the build); two ungated flows found by this check (F5, F6) were repaired in /repo (fix: 7a3e60f, b8528bf). The real service is run against the model with pauses placed between the steps of multi-call flows and with non-owner / non-operator callers of the privileged operations.",
            ITS_NOTE, "DESIGN.md §3 C20, §4 F5/F6"),
})

NOT_YET = "check not yet built in this session (model/harness under construction, see DESIGN.md §6); not claimed until its proof and correspondence run"


def main():
    checks = []
    for p in ALL:
        if p not in CLAIMS or p not in checklib.PROPS:
            continue
        tech, text, note, ref = CLAIMS[p]
        if checklib.SURFACE.get(p):
            tech += ("; surface obligations re-proved on every run over the table regenerated from the sources: the exported "
                     "state-changing entry points (annotations, arities) of the anchored contract(s) are exactly those of the model's "
                     "dispatcher, and no two storage mappers can alias (Proofs/Surface*.lean)")
        checks.append({
            "property_id": p,
            "quick_cmd": f"./check {p} --tier quick",
            "thorough_cmd": f"./check {p} --tier thorough",
            "evidence_file": f"/verif/evidence/{p}.json",
            "replay_cmd_template": f"./check {p} --replay {{path}}",
            "engine": "lean4-proof+correspondence",
            "level_claimed": {"category": "proof", "text": text, "design_ref": ref},
            "level_note": note,
            "technique": tech,
        })
    m = {
        "version": 1,
        "setup_cmd": "python3 tools/extract.py && (cd lean && lake build) && (cd harness && cargo build --offline)",
        "hooks": {
            "guard": "multiversx_sc_axelar_cgp_rs_verif",
            "enable": "no source hooks are needed: the harness links the unmodified crates by path and drives them through the VM",
            "baseline_off_cmd": "cd /repo && cargo test --workspace --no-fail-fast --offline",
            "source_commits": [],
            "add_only": True,
        },
        "engines": [{
            "name": "lean4-proof+correspondence",
            "path": "/verif/check",
            "serves_properties": [c["property_id"] for c in checks],
            "kind_free_text": "Lean 4 theorems about a hand-written executable model (lean/Axelar), regenerated source tables (tools/extract.py), Rust VM scheduler harness (harness/) for differential execution of the real contracts vs the compiled model, Lean property judges on implementation traces",
        }],
        "checks": checks,
        "not_applicable": [{"property_id": p, "reason": NOT_YET} for p in ALL if p not in CLAIMS],
        "notes": "All checks rebuild from /repo's working tree (cargo path dependencies; extractor re-reads the sources). See DESIGN.md.",
    }
    with open(os.path.join(VERIF, "MANIFEST.json"), "w") as f:
        json.dump(m, f, indent=1)
    try:
        import jsonschema
        jsonschema.validate(m, json.load(open("/root/.vp/MANIFEST.schema.json")))
        print("MANIFEST.json valid;", len(checks), "checks")
    except ImportError:
        print("MANIFEST.json written (jsonschema not available)")


if __name__ == "__main__":
    main()
