"""Check driver for the Lean-4 proof + correspondence machinery (see /verif/DESIGN.md)."""
import collections
import fcntl
import hashlib
import json
import os
import re
import shutil
import subprocess
import sys
import time

VERIF = os.path.dirname(os.path.dirname(os.path.abspath(__file__)))
LEAN = os.path.join(VERIF, "lean")
HARNESS = os.path.join(VERIF, "harness")
WORK = os.path.join(VERIF, ".work")
REPLAYS = os.path.join(VERIF, "replays")
EVIDENCE = os.path.join(VERIF, "evidence")
# runs against deliberately modified trees (tools/seed_check.py) must not overwrite the committed evidence
if os.environ.get("VERIF_EVIDENCE_DIR"):
    EVIDENCE = os.environ["VERIF_EVIDENCE_DIR"]
CORPUS = os.path.join(VERIF, "corpus")
KNOWN = os.path.join(VERIF, "known_findings.json")

ALLOWED_AXIOMS = {"propext", "Classical.choice", "Quot.sound"}
FORBIDDEN = re.compile(r"\b(sorry|admit|native_decide|bv_decide|implemented_by|unsafe)\b|^\s*axiom\s|maxHeartbeats 0")

ENV = dict(os.environ, CARGO_NET_OFFLINE="true")

# Per-property configuration: generator sizes (ops per run), which events are compared.
# `events`: None = compare all events; otherwise only events with these identifiers
# (the property's own observables), so that unrelated behaviour does not raise this alarm.
PROPS = {
    "C06": dict(quick=3000, thorough=1440000, events=None, runs_thorough=112),
    "C07": dict(quick=7000, thorough=1920000, events=None, runs_thorough=112),
    "C01": dict(quick=7000, thorough=2880000, events=None, runs_thorough=112),
    "C02": dict(quick=7000, thorough=2880000, events=None, runs_thorough=112),
    "C03": dict(quick=7000, thorough=2880000, events=None, runs_thorough=112),
    "C15": dict(quick=7000, thorough=2880000, events=None, runs_thorough=112),
    "C04": dict(quick=12000, thorough=3840000, events=None, runs_thorough=112),
    "C05": dict(quick=12000, thorough=3840000, events=None, runs_thorough=112),
    "C08": dict(quick=12000, thorough=3840000, events=None, runs_thorough=112),
    "C13": dict(quick=12000, thorough=3840000, events=None, runs_thorough=112),
    "C14": dict(quick=12000, thorough=3840000, events=None, runs_thorough=112),
    "C17": dict(quick=12000, thorough=3840000, events=None, runs_thorough=112),
    "C18": dict(quick=12000, thorough=3840000, events=None, runs_thorough=112),
    "C19": dict(quick=12000, thorough=3840000, events=None, runs_thorough=112),
    "C20": dict(quick=12000, thorough=3840000, events=None, runs_thorough=112),
    "C11": dict(quick=9000, thorough=3600000, events=None, runs_thorough=112),
    "C12": dict(quick=9000, thorough=3600000, events=None, runs_thorough=112),
    "C16": dict(quick=9000, thorough=3600000, events=None, runs_thorough=112),
    "C09": dict(quick=9000, thorough=3600000, events=None, runs_thorough=112),
    "C10": dict(quick=9000, thorough=3600000, events=None, runs_thorough=112),
}

# Surface obligations (Axelar/Proofs/Surface<Contract>.lean): the regenerated table of entry points,
# annotations, arities and storage keys of the contract(s) a property is anchored in must be the surface the
# model implements.  One Lean module per contract, so that a change to one contract breaks only its own
# properties' obligations.
_GW, _GS, _GOV, _TM, _ITS = "Gateway", "GasService", "Governance", "TokenManager", "Its"
SURFACE = {
    "C01": [_GW], "C02": [_GW], "C03": [_GW], "C15": [_GS],
    "C11": [_GOV], "C12": [_GOV], "C16": [_GOV], "C09": [_TM], "C10": [_TM],
    "C04": [_ITS, _TM], "C05": [_ITS, _TM], "C08": [_ITS, _TM], "C13": [_ITS], "C14": [_ITS],
    "C17": [_ITS], "C18": [_ITS, _TM], "C19": [_ITS], "C20": [_ITS],
    "C06": [], "C07": [],
}
SURFACE_THEOREMS = {
    _GW: ["gateway_surface", "gateway_storage_no_alias", "gateway_storage_keys", "gateway_state_changes_only_through_surface"],
    _GS: ["gasService_surface", "gasService_storage_no_alias", "gasService_storage_keys", "gasService_effects_only_through_surface"],
    _GOV: ["governance_surface", "governance_storage_no_alias", "governance_storage_keys", "governance_effects_only_through_surface",
           "governance_execute_in_surface", "governance_callback_gas_reserved"],
    _TM: ["tokenManager_surface", "tokenManager_storage_no_alias", "tokenManager_storage_keys", "tokenManager_effects_only_through_surface"],
    _ITS: ["its_surface", "its_storage_no_alias", "its_storage_keys", "its_callback_gas_reserved"],
}


def surface_modules(prop):
    return [f"Axelar.Proofs.Surface{c}" for c in SURFACE.get(prop, [])]


def surface_theorems(prop):
    return [f"Axelar.Surface.{t}" for c in SURFACE.get(prop, []) for t in SURFACE_THEOREMS[c]]


TRUSTED_BASE = [
    "Lean 4.33.0 kernel (theorems re-checked by `lake build`; thorough tier also leanchecker)",
    "axioms: propext, Classical.choice, Quot.sound only (audited per theorem by #print axioms)",
    "hand-written Lean model Axelar/Model/* and specs Axelar/Spec/*; tied to /repo by tools/extract.py (tables/constants) and by differential execution against the real crates",
    "tools/extract.py, harness/ (Rust VM scheduler harness), tools/checklib.py, line protocol",
    "multiversx-chain-vm 0.8.4 debug VM as stand-in for the production VM (storage, revert on panic, balances, ESDT built-ins, deploy_from_source)",
    "ed25519 and Keccak-256 are parameters of the model (no theorem assumes injectivity); driver instantiates Keccak-256 executable, symbolic signatures",
]


def log(msg):
    print(msg, flush=True)


def sh(cmd, cwd=None, timeout=None, env=None):
    p = subprocess.run(cmd, cwd=cwd, stdout=subprocess.PIPE, stderr=subprocess.STDOUT, text=True,
                       timeout=timeout, env=env or ENV)
    return p.returncode, p.stdout


class Lock:
    def __init__(self, name):
        os.makedirs(WORK, exist_ok=True)
        self.path = os.path.join(WORK, name + ".lock")

    def __enter__(self):
        self.f = open(self.path, "w")
        fcntl.flock(self.f, fcntl.LOCK_EX)

    def __exit__(self, *a):
        fcntl.flock(self.f, fcntl.LOCK_UN)
        self.f.close()


# ------------------------------------------------------------------------------------------
# build steps
# ------------------------------------------------------------------------------------------

def run_extract():
    rc, out = sh([sys.executable, os.path.join(VERIF, "tools", "extract.py")])
    return rc == 0, out.strip()


def lake_build(targets):
    with Lock("lake"):
        rc, out = sh(["lake", "build"] + targets, cwd=LEAN, timeout=3600)
    return rc == 0, out


def prop_modules(prop):
    """the property's theorem files: Props/<prop>.lean and any Props/<prop><Suffix>.lean (same namespace)"""
    d = os.path.join(LEAN, "Axelar", "Props")
    files = sorted(f for f in os.listdir(d) if re.fullmatch(re.escape(prop) + r"[A-Za-z]*\.lean", f))
    return [f[:-5] for f in files]


def prop_theorems(prop):
    names, bad = [], []
    for mod in prop_modules(prop):
        path = os.path.join(LEAN, "Axelar", "Props", mod + ".lean")
        src = open(path).read()
        for i, line in enumerate(src.split("\n"), 1):
            code = line.split("--")[0]
            if FORBIDDEN.search(code):
                bad.append(f"{path}:{i}: {line.strip()}")
        names += re.findall(r"^theorem\s+([A-Za-z0-9_'.]+)", src, re.M)
    return names, bad


def forbidden_grep():
    bad = []
    for root, _d, files in os.walk(os.path.join(LEAN, "Axelar")):
        for f in files:
            if not f.endswith(".lean"):
                continue
            p = os.path.join(root, f)
            in_block = False
            for i, line in enumerate(open(p), 1):
                s = line
                if "/-" in s:
                    in_block = True
                if in_block:
                    if "-/" in s:
                        in_block = False
                    continue
                code = s.split("--")[0]
                if FORBIDDEN.search(code):
                    bad.append(f"{p}:{i}: {s.strip()}")
    return bad


def audit(prop):
    """#print axioms on every theorem of the property file."""
    names, bad = prop_theorems(prop)
    os.makedirs(WORK, exist_ok=True)
    path = os.path.join(WORK, f"Audit_{prop}.lean")
    extra = surface_theorems(prop)
    with open(path, "w") as f:
        for m in prop_modules(prop):
            f.write(f"import Axelar.Props.{m}\n")
        for m in surface_modules(prop):
            f.write(f"import {m}\n")
        for n in names:
            f.write(f"#print axioms Axelar.Props.{prop}.{n}\n")
        for n in extra:
            f.write(f"#print axioms {n}\n")
    rc, out = sh(["lake", "env", "lean", path], cwd=LEAN, timeout=1200)
    results = {}
    # "'X' depends on axioms: [a, b]"  /  "'X' does not depend on any axioms"
    for m in re.finditer(r"'([^']+)' depends on axioms: \[([^\]]*)\]", out):
        results[m.group(1)] = [a.strip() for a in m.group(2).replace("\n", " ").split(",") if a.strip()]
    for m in re.finditer(r"'([^']+)' does not depend on any axioms", out):
        results[m.group(1)] = []
    failures = list(bad)
    discharged = 0
    for full in [f"Axelar.Props.{prop}.{n}" for n in names] + extra:
        if full not in results:
            failures.append(f"theorem {full}: no axiom report (does it still build?)")
            continue
        bad_ax = [a for a in results[full] if a not in ALLOWED_AXIOMS]
        if bad_ax:
            failures.append(f"theorem {full}: disallowed axioms {bad_ax}")
        else:
            discharged += 1
    if rc != 0:
        failures.append("axiom audit file did not elaborate: " + out[-500:])
    names = names + ["(surface) " + n for n in extra]
    return names, discharged, failures, results


def cargo_build():
    with Lock("cargo"):
        lock_src = "/repo/Cargo.lock"
        lock_dst = os.path.join(HARNESS, "Cargo.lock")
        if os.path.exists(lock_src) and not os.path.exists(lock_dst):
            shutil.copy(lock_src, lock_dst)
        rc, out = sh(["cargo", "build", "--offline"], cwd=HARNESS, timeout=3600)
    return rc == 0, out


# ------------------------------------------------------------------------------------------
# differential runs
# ------------------------------------------------------------------------------------------

def norm_outcome(line, events):
    """canonical comparison form of an outcome line"""
    s = line.split(" # ")[0].strip()
    parts = s.split(" ")
    status = parts[0]
    fields = {"r": "-", "ev": "-", "pend": "-", "n": None}
    for p in parts[1:]:
        if "=" in p:
            k, v = p.split("=", 1)
            fields[k] = v
    ev = fields["ev"]
    if events is not None and ev != "-":
        kept = [e for e in ev.split(";") if e.split("|")[1] in events]
        ev = ";".join(kept) if kept else "-"
    return (status, fields["r"], ev, fields["pend"], fields["n"])


def run_pair(prop, seed, n, tag):
    """harness genrun + driver; returns list of (op, impl, model, verdict)"""
    d = os.path.join(WORK, f"{prop}_{tag}")
    os.makedirs(d, exist_ok=True)
    ops, imp, mod = (os.path.join(d, x) for x in ("ops.txt", "impl.txt", "model.txt"))
    rc, out = sh([os.path.join(HARNESS, "target", "debug", "harness"), "genrun", prop, str(seed), str(n), ops, imp],
                 timeout=3600)
    if rc != 0:
        raise RuntimeError("harness genrun failed: " + out[-2000:])
    return run_driver(prop, ops, imp, mod)


def run_driver(prop, ops, imp, mod):
    rc, out = sh([os.path.join(LEAN, ".lake", "build", "bin", "driver"), prop, ops, imp, mod], timeout=3600)
    if rc != 0:
        raise RuntimeError("driver failed: " + out[-2000:])
    recs = []
    with open(ops) as fo, open(imp) as fi, open(mod) as fm:
        ol = [l.rstrip("\n") for l in fo if l.strip()]
        il = [l.rstrip("\n") for l in fi]
        ml = [l.rstrip("\n") for l in fm]
    if not (len(ol) == len(il) == len(ml)):
        raise RuntimeError(f"line count mismatch ops={len(ol)} impl={len(il)} model={len(ml)}")
    for o, i, m in zip(ol, il, ml):
        mo, _, v = m.partition("\t")
        recs.append((o, i, mo, v or "ok"))
    return recs


def replay_ops(prop, opsfile, tag):
    d = os.path.join(WORK, f"replay_{tag}")
    os.makedirs(d, exist_ok=True)
    imp, mod = os.path.join(d, "impl.txt"), os.path.join(d, "model.txt")
    ops_clean = os.path.join(d, "ops.txt")
    with open(opsfile) as f, open(ops_clean, "w") as g:
        for l in f:
            if l.strip() and not l.startswith("#"):
                g.write(l)
    rc, out = sh([os.path.join(HARNESS, "target", "debug", "harness"), "run", ops_clean, imp], timeout=3600)
    if rc != 0:
        raise RuntimeError("harness run failed: " + out[-2000:])
    return run_driver(prop, ops_clean, imp, mod)


def sequence_of(recs, idx):
    """op lines from the last `reset` (inclusive) up to idx"""
    start = 0
    for j in range(idx, -1, -1):
        if recs[j][0].strip() == "reset":
            start = j
            break
    return [r[0] for r in recs[start:idx + 1]]


def analyse(recs, events):
    disagreements, violations = [], []
    for k, (o, i, m, v) in enumerate(recs):
        if norm_outcome(i, events) != norm_outcome(m, events):
            disagreements.append(k)
        if v != "ok":
            violations.append((k, v))
    return disagreements, violations


def op_class(op, impl):
    f = op.split()
    kind = f[0]
    if kind in ("tx", "query") and len(f) > 3:
        kind = f"{kind}:{f[3] if f[0] == 'tx' else f[2]}"
    elif kind.startswith("abi.") and len(f) > 1 and kind != "abi.msgtype":
        kind = f"{kind}:{f[1]}"
    elif kind == "deliver" and len(f) > 2:
        kind = f"deliver:{f[2]}"
    status = impl.split(" ")[0]
    return kind, status


def load_known():
    if not os.path.exists(KNOWN):
        return []
    with open(KNOWN) as f:
        return json.load(f).get("findings", [])


def write_replay(prop, name, lines, header):
    os.makedirs(REPLAYS, exist_ok=True)
    path = os.path.join(REPLAYS, f"{prop}-{name}.ops")
    with open(path, "w") as f:
        for h in header:
            f.write("# " + h + "\n")
        for l in lines:
            f.write(l + "\n")
    return path


def shrink(prop, lines, key, events):
    """delta-debug the op sequence: drop lines while the same judge verdict key still appears"""
    def still_fails(cand):
        p = os.path.join(WORK, f"{prop}_shrink.ops")
        with open(p, "w") as f:
            f.write("\n".join(cand) + "\n")
        try:
            recs = replay_ops(prop, p, f"{prop}_shrink")
        except Exception:
            return False
        return any(v.split(" ")[0] == key for (_o, _i, _m, v) in recs)

    cur = list(lines)
    if len(cur) <= 1 or len(cur) > 400:
        return cur
    chunk = max(1, len(cur) // 2)
    budget = 120
    while chunk >= 1 and budget > 0:
        i = 0
        changed = False
        while i < len(cur) and budget > 0:
            # `note sig` lines declare which signatures are genuine: never dropped, or the
            # shrunk replay would misjudge a valid proof as forged
            cand = cur[:i] + [l for l in cur[i:i + chunk] if l.startswith("note ")] + cur[i + chunk:]
            budget -= 1
            if len(cand) == len(cur):
                i += chunk
                continue
            # never drop the leading reset
            if cand and (not cur[0].startswith("reset") or cand[0].startswith("reset")) and still_fails(cand):
                cur = cand
                changed = True
            else:
                i += chunk
        if not changed:
            chunk //= 2
    return cur


# ------------------------------------------------------------------------------------------
# main
# ------------------------------------------------------------------------------------------

def main(argv):
    t0 = time.time()
    if not argv:
        print(__doc__)
        return 2
    prop = argv[0]
    tier = os.environ.get("VERIF_TIER", "quick")
    replay = None
    i = 1
    while i < len(argv):
        if argv[i] == "--tier":
            tier = argv[i + 1]
            i += 2
        elif argv[i] == "--replay":
            replay = argv[i + 1]
            i += 2
        else:
            i += 1
    seed = int(os.environ.get("VERIF_SEED", "1"))
    if prop not in PROPS:
        print(f"unknown property {prop}")
        return 2
    cfg = PROPS[prop]
    events = cfg["events"]
    os.makedirs(WORK, exist_ok=True)

    broken = []          # proof obligations / ties that no longer check (strings)
    notes = []

    ok, out = run_extract()
    if not ok:
        broken.append("translator tools/extract.py cannot follow the source: " + out)
    ok_build, out = lake_build([f"Axelar.Props.{m}" for m in prop_modules(prop)] + surface_modules(prop) + ["driver"])
    if not ok_build:
        errs = [l for l in out.split("\n") if l.startswith("error")]
        broken.append("lake build Axelar.Props.%s failed: %s" % (prop, " | ".join(errs[:6])))
        # the driver may still be buildable from the previous state of the model; try it alone
        ok_drv, _ = lake_build(["driver"])
    else:
        ok_drv = True
    names, discharged, failures = [], 0, []
    if ok_build:
        names, discharged, failures, _ = audit(prop)
        for f in failures:
            broken.append("audit: " + f)
        bad = forbidden_grep()
        for b in bad:
            broken.append("forbidden token: " + b)
    else:
        try:
            names, _bad = prop_theorems(prop)
        except OSError:
            names = []
    if tier == "thorough" and ok_build:
        with Lock("lake"):
            rc, out = sh(["lake", "env", "leanchecker"] + [f"Axelar.Props.{m}" for m in prop_modules(prop)], cwd=LEAN, timeout=3600)
        if rc != 0:
            broken.append("leanchecker rejected Axelar.Props.%s: %s" % (prop, out[-300:]))
        else:
            notes.append("leanchecker accepted Axelar.Props." + prop)

    ok_cargo, out = cargo_build()
    if not ok_cargo:
        errs = [l for l in out.split("\n") if l.startswith("error")]
        broken.append("harness does not build against /repo: " + " | ".join(errs[:6]))

    stats = {"n": 0, "classes": collections.Counter(), "nontrivial": set(), "samples": [], "seen_cls": set()}
    violations = []      # (verdict, sequence lines)
    disagreements = []   # (index description, sequence lines)
    can_run = ok_cargo and ok_drv and os.path.exists(os.path.join(LEAN, ".lake", "build", "bin", "driver"))

    def safe_pair(*a):
        """a crashing harness or driver is a broken tie, not a crash of the check"""
        try:
            return run_pair(*a)
        except Exception as e:  # noqa: BLE001
            broken.append("differential run could not complete: " + str(e)[-300:].replace("\n", " "))
            return []

    def consume(recs, label):
        dis, vio = analyse(recs, events)
        for k in dis[:20]:
            disagreements.append((f"{label}: op {k}: impl `{recs[k][1][:160]}` model `{recs[k][2][:160]}`",
                                  sequence_of(recs, k)))
        for k, v in vio[:20]:
            violations.append((v, sequence_of(recs, k)))
        stats["n"] += len(recs)
        for (o, i_, m, v) in recs:
            c = op_class(o, i_)
            stats["classes"][c] += 1
            if i_.startswith("ok") and not o.startswith(("reset", "acct", "time", "newaddr", "roles", "note")):
                stats["nontrivial"].add(hashlib.sha1(o.encode()).digest()[:8])
            if c not in stats["seen_cls"] and len(stats["samples"]) < 12:
                stats["seen_cls"].add(c)
                stats["samples"].append({"op": o[:400], "impl": i_[:300], "model": m[:300], "judge": v})
        return len(dis), len(vio)

    if replay:
        recs = replay_ops(prop, replay, prop + "_user")
        consume(recs, "replay")
        for o, i_, m, v in recs:
            log(f"{o[:100]}\n   impl : {i_[:200]}\n   model: {m[:200]}\n   judge: {v}")
    elif can_run:
        # corpus first
        cdir = os.path.join(CORPUS, prop)
        if os.path.isdir(cdir):
            for fn in sorted(os.listdir(cdir)):
                if fn.endswith(".ops"):
                    recs = replay_ops(prop, os.path.join(cdir, fn), f"{prop}_corpus")
                    consume(recs, "corpus/" + fn)
        # independent seeded runs executed on all cores (quick: 8 runs of cfg["quick"] operations;
        # thorough: cfg["runs_thorough"] runs sharing cfg["thorough"] operations)
        import concurrent.futures
        if tier == "quick":
            runs = cfg.get("runs_quick", 8)
            per = cfg["quick"]
            base = seed * 100
            tagp = "q"
        else:
            runs = cfg.get("runs_thorough", 4)
            per = cfg["thorough"] // runs
            base = seed * 1000
            tagp = "t"
        workers = min(14, os.cpu_count() or 4, runs)
        with concurrent.futures.ThreadPoolExecutor(max_workers=workers) as ex:
            for b in range(0, runs, workers):
                batch = list(range(b, min(runs, b + workers)))
                futs = {r: ex.submit(safe_pair, prop, base + r, per, f"{tagp}{r % workers}") for r in batch}
                for r in batch:
                    consume(futs[r].result(), f"seed {base + r}")
                    futs[r] = None

    # directed search when a proof or the correspondence broke and no failing input is known yet
    searched = 0
    known_keys = {k["key"] for k in load_known() if k.get("property") == prop and k.get("status", "open") == "open"}

    def unknown_violations():
        return [v for v in violations if v[0].split(" ")[0] not in known_keys]

    if (broken or disagreements) and not unknown_violations() and can_run and not replay:
        budget = 60 if tier == "quick" else 300
        ts = time.time()
        r = 0
        while time.time() - ts < budget and not unknown_violations():
            r += 1
            recs = safe_pair(prop, seed * 7919 + r, max(cfg["quick"], 2000) * 3, "search")
            if not recs:
                break
            searched += len(recs)
            _d, _v = consume(recs, f"search seed {seed * 7919 + r}")

    # ---------------- verdict ----------------
    known = [k for k in load_known() if k.get("property") == prop and k.get("status", "open") == "open"]
    exit_code = 0
    out_lines = []
    reported = set()
    for v, seq in violations:
        key = v.split(" ")[0]
        if key in reported:
            continue
        reported.add(key)
        kf = next((k for k in known if k["key"] == key), None)
        if kf:
            out_lines.append(f"KNOWN-FINDING: property={prop} {kf['what']}")
            continue
        seq2 = shrink(prop, seq, key, events) if can_run else seq
        path = write_replay(prop, re.sub(r"[^A-Za-z0-9_-]", "_", key)[:60] + f"-{seed}", seq2,
                            [f"property {prop}: judge verdict {v}", "replay: ./check %s --replay <this file>" % prop])
        out_lines.append(f"VIOLATION property={prop} replay={path}")
        exit_code = 1
    if not any(l.startswith("VIOLATION") for l in out_lines) and (broken or disagreements):
        header = [f"property {prop}: no longer shown to hold; no failing input found "
                  f"(searched {searched} further operations)"]
        for b in broken:
            header.append("BROKEN: " + b)
        seq = []
        if disagreements:
            header.append("CORRESPONDENCE: " + disagreements[0][0])
            header.append(f"({len(disagreements)} disagreeing operations recorded; first sequence follows)")
            seq = disagreements[0][1]
        path = write_replay(prop, f"unproved-{seed}", seq, header)
        out_lines.append(f"VIOLATION property={prop} replay={path} no-failing-input-found")
        exit_code = 1

    # ---------------- evidence ----------------
    classes = stats["classes"]
    nontrivial = stats["nontrivial"]
    samples = stats["samples"]
    obligations = len(names)
    ev = {
        "property_id": prop,
        "tier": tier,
        "seed": seed,
        "level": "proof",
        "coverage": {
            "obligations": obligations,
            "discharged": discharged if not broken else min(discharged, max(0, obligations - 1)),
            "checker_cmd": f"cd {LEAN} && lake build Axelar.Props.{prop} && lake env lean .work/Audit_{prop}.lean (#print axioms)"
                           + (" && lake env leanchecker Axelar.Props." + prop if tier == "thorough" else ""),
            "trusted_base": TRUSTED_BASE,
            "theorems": [n[10:] if n.startswith("(surface) ") else f"Axelar.Props.{prop}.{n}" for n in names],
            "evaluations": stats["n"],
            "distinct_nontrivial": len(nontrivial),
            "rule": "operations generated from one seeded PRNG by harness/src/gen (mostly-valid + malformed streams), executed on "
                    "the real crates in the Rust VM and on the compiled Lean model; non-trivial = distinct op lines whose "
                    "implementation outcome is a success (state change, returned value or accepted input)",
            "samples": samples or [{"note": "no differential run was possible", "broken": broken[:3]}],
            "traces_validated_against_impl": stats["n"],
            "disagreements": len(disagreements),
            "judge_violations": len(violations),
            "outcome_histogram": {f"{k[0]}/{k[1]}": n for k, n in sorted(classes.items())},
            "broken_obligations": broken,
            "notes": notes,
        },
        "assumptions": TRUSTED_BASE,
        "wall_s": round(time.time() - t0, 2),
        "violations": sum(1 for l in out_lines if l.startswith("VIOLATION")),
    }
    os.makedirs(EVIDENCE, exist_ok=True)
    with open(os.path.join(EVIDENCE, prop + ".json"), "w") as f:
        json.dump(ev, f, indent=1)

    for l in out_lines:
        log(l)
    log(f"[{prop}] tier={tier} seed={seed} theorems={discharged}/{obligations} ops={stats['n']} "
        f"disagreements={len(disagreements)} judge_violations={len(violations)} broken={len(broken)} "
        f"wall={time.time() - t0:.1f}s exit={exit_code}")
    for b in broken[:8]:
        log("  broken: " + b[:300])
    for d in disagreements[:3]:
        log("  disagreement: " + d[0][:400])
    return exit_code
