#!/usr/bin/env python3
"""harmless_all.py [name ...] — applies each behaviour-preserving rewrite (harmless/*/patch.diff) to /repo, runs the quick
check of every property, reverts, and prints which checks raised an alarm (none should).  Mutates /repo while it runs."""
import os, subprocess, sys
root = "/verif/harmless"
names = sorted(os.listdir(root))
if len(sys.argv) > 1:
    names = [n for n in names if n in sys.argv[1:]]
props = [f"C{i:02d}" for i in range(1, 21)]
alarms = []
for n in names:
    patch = os.path.join(root, n, "patch.diff")
    subprocess.run(["git", "-C", "/repo", "checkout", "--", "."], check=True)
    subprocess.run(["git", "-C", "/repo", "apply", patch], check=True)
    try:
        env = dict(os.environ, VERIF_EVIDENCE_DIR="/verif/.work/seed_evidence")
        for p in props:
            r = subprocess.run(["./check", p, "--tier", "quick"], cwd="/verif", stdout=subprocess.PIPE, stderr=subprocess.STDOUT, text=True, env=env)
            bad = r.returncode != 0 or any(l.startswith("VIOLATION") for l in r.stdout.split("\n"))
            if bad:
                alarms.append((n, p))
                print(n, p, "ALARM", [l for l in r.stdout.split("\n") if l.startswith("VIOLATION") or "broken:" in l][:3], flush=True)
    finally:
        subprocess.run(["git", "-C", "/repo", "checkout", "--", "."], check=True)
    print(n, "done", flush=True)
print("false alarms:", alarms)
