#!/bin/bash
# confirm_seed.sh <ID> <crate> <test-name> <demo-src-relative-to-deliver> <demo-dst-dir> [setup-diff]
# Confirms a sub-agent's seeded change in its scratch worktree /tmp/wt-<ID>:
#   demo passes unpatched, demo fails patched, baseline suite passes patched;
# then stores it under /verif/seeded/<ID>/ and writes the log there.
set -u
ID=$1; CRATE=$2; TEST=$3; DEMO=$4; DST=$5; SETUP=${6:-}
WT=/tmp/wt-$ID
OUT=/verif/seeded/$ID
mkdir -p "$OUT"
LOG=$OUT/confirm.log
export CARGO_NET_OFFLINE=true CARGO_TARGET_DIR=$WT/target
cd "$WT" || exit 2
git checkout -- . 2>/dev/null
{
echo "== confirm $ID $(date -u +%FT%TZ)"
[ -n "$SETUP" ] && git apply "deliver/$SETUP"
mkdir -p "$DST" && cp "deliver/$DEMO" "$DST/"
echo "-- unpatched: demo must pass"
cargo test --offline -p "$CRATE" --test "$TEST" 2>&1 | grep -E "^test |test result|error" | head -20
U=${PIPESTATUS[0]}
git apply deliver/patch.diff
echo "-- patched: demo must fail"
cargo test --offline -p "$CRATE" --test "$TEST" 2>&1 | grep -E "^test |test result|error" | head -20
P=${PIPESTATUS[0]}
rm -f "$DST/$(basename "$DEMO")"
[ -n "$SETUP" ] && git apply -R "deliver/$SETUP"
echo "-- patched: baseline suite must pass"
cargo test --workspace --no-fail-fast --offline 2>&1 | grep -E "test result|FAILED|failed" | head -20
B=${PIPESTATUS[0]}
git apply -R deliver/patch.diff
echo "RESULT unpatched_demo_rc=$U patched_demo_rc=$P patched_baseline_rc=$B"
} > "$LOG" 2>&1
cp deliver/patch.diff "$OUT/patch.diff"
cp -r deliver "$OUT/demo"
rm -f "$OUT/demo/patch.diff"
rm -rf "$WT/target"
tail -1 "$LOG"
