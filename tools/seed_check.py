#!/usr/bin/env python3
"""seed_check.py <seed-dir-name> <property> "<needs>" — applies /verif/seeded/<name>/patch.diff to /repo,
runs the property's quick check, reverts, and records the outcome in meta.json."""
import json, os, subprocess, sys, re
name, prop, needs = sys.argv[1], sys.argv[2], sys.argv[3]
d = f"/verif/seeded/{name}"
patch = os.path.join(d, "patch.diff")
subprocess.run(["git", "-C", "/repo", "checkout", "--", "."], check=True)
subprocess.run(["git", "-C", "/repo", "apply", patch], check=True)
try:
    env = dict(os.environ, VERIF_EVIDENCE_DIR="/verif/.work/seed_evidence")
    p = subprocess.run(["./check", prop, "--tier", "quick"], cwd="/verif", stdout=subprocess.PIPE, stderr=subprocess.STDOUT, text=True, env=env)
finally:
    subprocess.run(["git", "-C", "/repo", "checkout", "--", "."], check=True)
lines = [l for l in p.stdout.split("\n") if l.startswith("VIOLATION") or l.startswith("[" + prop)]
confirm = ""
cl = os.path.join(d, "confirm.log")
if os.path.exists(cl):
    confirm = open(cl).read().strip().split("\n")[-1]
meta = {
    "breaks_property": prop,
    "needs_to_manifest": needs,
    "origin": "independent sub-agent working only from the property text in its own scratch worktree",
    "confirmed_by_me": confirm,
    "ran": [f"git -C /repo apply seeded/{name}/patch.diff", f"./check {prop} --tier quick", "git -C /repo checkout -- ."],
    "check_exit": p.returncode,
    "check_output": lines,
    "detected": p.returncode == 1 and any(l.startswith("VIOLATION") for l in lines),
    "detected_with_failing_input": any(l.startswith("VIOLATION") and "no-failing-input-found" not in l for l in lines),
}
json.dump(meta, open(os.path.join(d, "meta.json"), "w"), indent=1)
print(name, prop, "exit", p.returncode, lines[:2])
