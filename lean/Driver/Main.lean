/-
  driver <prop> <ops> <impl> <out>
  Reads op lines and the implementation's outcome lines in lockstep; for every op writes
     <model outcome>\t<verdict of the property judge on the implementation outcome>
-/
import Axelar.Driver.AbiOps
import Axelar.Driver.WorldOps
import Axelar.Driver.Judge
open Axelar Axelar.Driver

structure RunSt where
  d : DState := {}
  /-- the implementation and the model disagreed earlier in this sequence -/
  diverged : Bool := false

def stepLine (prop : String) (rs : RunSt) (line : String) (impl : Option Outcome) (implMsg : String) :
    RunSt × Outcome × String :=
  let fields := (line.trimAscii.toString.splitOn " ").filter (· ≠ "")
  match fields with
  | f :: _ =>
    if f.startsWith "abi." then
      let (o, v) := abiOp fields impl
      (rs, o, v)
    else
      let (d', o) := worldOp rs.d fields
      let verdict := if rs.diverged then "ok" else judge prop rs.d fields impl o implMsg
      -- the judge reads the model's pre-state: it stays on while model and implementation accept
      -- and reject the same state-changing operations (differing VALUES are reported as
      -- disagreements by the caller, but both sides are still in corresponding states as far as
      -- "which operations took effect" goes); it goes silent once a status differs
      let stateOp := ["tx", "deliver", "cb", "deploy"].contains f
      -- resynchronisation: when the implementation REJECTED an operation the model accepts, the
      -- implementation's state is its old state (revert on failure is a VM guarantee), so the model
      -- is put in the corresponding state — the failure path of the same operation — and the judge
      -- stays on.  (The operation itself is still reported as a disagreement.)
      let implFailed := match impl with | some .fail => true | _ => false
      let modelOk := match o with | .fail => false | .nopending => false | _ => true
      let resync := stateOp && implFailed && modelOk
      let d' : DState := if !resync then d' else
        match fields with
        | ["cb", id] =>
          (match id.toNat? with
           | some n => { rs.d with world := { rs.d.world with pending := rs.d.world.pending.filter (·.desc.id != n) } }
           | none => rs.d)
        | "deliver" :: id :: _ =>
          (match id.toNat? with
           | some n => { rs.d with world := { rs.d.world with pending := World.setResult rs.d.world.pending n (false, []) } }
           | none => rs.d)
        | _ => rs.d
      let div := if f == "reset" then false else rs.diverged || (stateOp && !resync && !(statusAgree impl o))
      -- the ghost history survives the model step (worldOp keeps unknown fields) and is updated
      -- from the implementation's outcome
      let d'' := if f == "reset" then d' else
        ghostUpdate d' rs.d fields impl
      ({ d := d'', diverged := div }, o, verdict)
  | [] => (rs, .okPlain, "ok")

partial def loop (prop : String) (ops impl : IO.FS.Stream) (out : IO.FS.Handle) (st : RunSt) : IO Unit := do
  let line ← ops.getLine
  if line.isEmpty then return ()
  let il ← impl.getLine
  if line.trimAscii.toString.isEmpty then
    loop prop ops impl out st
  else
    let io := if il.isEmpty then none else parseOutcome il.trimAscii.toString
    let msg := match il.splitOn " # " with | _ :: m :: _ => m | _ => ""
    let (st', o, v) := stepLine prop st line io msg
    out.putStrLn s!"{fmtOutcome o}\t{v}"
    loop prop ops impl out st'

def main (args : List String) : IO UInt32 := do
  match args with
  | [prop, ops, impl, out] =>
    let oh ← IO.FS.Handle.mk ops .read
    let ih ← IO.FS.Handle.mk impl .read
    let wh ← IO.FS.Handle.mk out .write
    loop prop (IO.FS.Stream.ofHandle oh) (IO.FS.Stream.ofHandle ih) wh {}
    wh.flush
    return 0
  | _ =>
    IO.eprintln "usage: driver <prop> <ops> <impl> <out>"
    return 2
