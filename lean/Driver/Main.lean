/-
  driver <ops> <impl> <out>
  Reads op lines and the implementation's outcome lines in lockstep; for every op writes
     <model outcome>\t<verdict of the property judge on the implementation outcome>
-/
import Axelar.Driver.AbiOps
open Axelar Axelar.Driver

structure St where
  dummy : Unit := ()

def stepLine (st : St) (line : String) (impl : Option Outcome) : St × Outcome × String :=
  let fields := (line.trimAscii.toString.splitOn " ").filter (· ≠ "")
  match fields with
  | f :: _ =>
    if f.startsWith "abi." then
      let (o, v) := abiOp fields impl
      (st, o, v)
    else (st, .okPlain, "ok")
  | [] => (st, .okPlain, "ok")

partial def loop (ops impl : IO.FS.Stream) (out : IO.FS.Handle) (st : St) : IO Unit := do
  let line ← ops.getLine
  if line.isEmpty then return ()
  let il ← impl.getLine
  if line.trimAscii.toString.isEmpty then
    loop ops impl out st
  else
    let io := if il.isEmpty then none else parseOutcome il.trimAscii.toString
    let (st', o, v) := stepLine st line io
    out.putStrLn s!"{o.fmt}\t{v}"
    loop ops impl out st'

def main (args : List String) : IO UInt32 := do
  match args with
  | [ops, impl, out] =>
    let oh ← IO.FS.Handle.mk ops .read
    let ih ← IO.FS.Handle.mk impl .read
    let wh ← IO.FS.Handle.mk out .write
    loop (IO.FS.Stream.ofHandle oh) (IO.FS.Stream.ofHandle ih) wh {}
    wh.flush
    return 0
  | _ =>
    IO.eprintln "usage: driver <ops> <impl> <out>"
    return 2
