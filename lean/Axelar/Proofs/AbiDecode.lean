import Axelar.Proofs.AbiEncode
namespace Axelar

theorem foldl_beNat (bs : Bytes) (acc : Nat) :
    bs.foldl (fun acc b => acc * 256 + b.toNat) acc = acc * 256 ^ bs.length + beNat bs := by
  induction bs generalizing acc with
  | nil => simp [beNat]
  | cons b bs ih =>
    have h2 : beNat (b :: bs) = (0 * 256 + b.toNat) * 256 ^ bs.length + beNat bs := by
      simp only [beNat, List.foldl_cons]; exact ih _
    rw [List.foldl_cons, ih, h2, List.length_cons, Nat.pow_succ]
    grind

theorem beNat_cons (b : UInt8) (bs : Bytes) :
    beNat (b :: bs) = b.toNat * 256 ^ bs.length + beNat bs := by
  have := foldl_beNat bs (0 * 256 + b.toNat)
  simp only [beNat, List.foldl_cons] at *
  simpa using this

theorem beNat_append (a b : Bytes) : beNat (a ++ b) = beNat a * 256 ^ b.length + beNat b := by
  induction a with
  | nil => simp [beNat_nil]
  | cons x a ih =>
    rw [List.cons_append, beNat_cons, ih, beNat_cons, List.length_append, Nat.pow_add]
    grind

theorem beNat_lt (b : Bytes) : beNat b < 256 ^ b.length := by
  induction b with
  | nil => simp [beNat_nil]
  | cons x b ih =>
    rw [beNat_cons, List.length_cons, Nat.pow_succ]
    have hx : x.toNat ≤ 255 := by have := x.toNat_lt; omega
    have := Nat.mul_le_mul_right (256 ^ b.length) hx
    omega

theorem beNat_zero_iff (a : Bytes) : beNat a = 0 ↔ a.all (· == 0) = true := by
  induction a with
  | nil => simp [beNat_nil]
  | cons x a ih =>
    rw [beNat_cons, List.all_cons, Bool.and_eq_true, ← ih]
    have hp : 0 < 256 ^ a.length := Nat.pow_pos (by omega)
    constructor
    · intro h
      have h1 : x.toNat * 256 ^ a.length = 0 := by omega
      have h2 : x.toNat = 0 := by
        rcases Nat.mul_eq_zero.mp h1 with h | h
        · exact h
        · omega
      refine ⟨?_, by omega⟩
      have : x = 0 := UInt8.toNat_inj.mp (by simpa using h2)
      simp [this]
    · rintro ⟨h1, h2⟩
      have : x = 0 := by simpa using h1
      subst this; simp [h2]

/-- the `k` high bytes are zero iff the value fits the remaining bytes; the value is then
    that of the low bytes. -/
theorem high_zero (w : Bytes) (k : Nat) (_hk : k ≤ w.length) :
    ((w.take k).all (· == 0) = true ↔ beNat w < 256 ^ (w.length - k)) ∧
    ((w.take k).all (· == 0) = true → beNat (w.drop k) = beNat w) := by
  have hsplit : beNat w = beNat (w.take k) * 256 ^ (w.length - k) + beNat (w.drop k) := by
    conv => lhs; rw [← List.take_append_drop k w]
    rw [beNat_append, List.length_drop]
  have hlt : beNat (w.drop k) < 256 ^ (w.length - k) := by
    have := beNat_lt (w.drop k); rwa [List.length_drop] at this
  have hp : 0 < 256 ^ (w.length - k) := Nat.pow_pos (by omega)
  rw [← beNat_zero_iff]
  refine ⟨⟨fun h => by rw [hsplit, h]; omega, fun h => ?_⟩, fun h => by rw [hsplit, h]; omega⟩
  rcases Nat.eq_zero_or_pos (beNat (w.take k)) with h0 | h0
  · exact h0
  · have := Nat.mul_le_mul_right (256 ^ (w.length - k)) h0
    omega

namespace Abi
open Axelar.Sol

theorem peek32_ok (bs : Bytes) (off : Nat) (w : Bytes) :
    peek32 bs off = .ok w ↔ off + 32 ≤ bs.length ∧ w = slice bs off 32 := by
  unfold peek32 slice
  split
  · simp_all [eq_comm]
  · simp only [reduceCtorEq, false_iff]; omega

theorem slice_length (bs : Bytes) (off len : Nat) (h : off + len ≤ bs.length) :
    (slice bs off len).length = len := by
  simp [slice]; omega

theorem takeUsize_ok (w : Bytes) (h : w.length = 32) (n : Nat) :
    takeUsize w = .ok n ↔ beNat w = n ∧ n < 2 ^ 32 := by
  obtain ⟨h1, h2⟩ := high_zero w 28 (by omega)
  have e : (256 : Nat) ^ (w.length - 28) = 2 ^ 32 := by rw [h]
  rw [e] at h1
  unfold takeUsize
  by_cases hz : (w.take 28).all (· == 0) = true
  · rw [if_pos hz]
    have := h1.mp hz
    have := h2 hz
    constructor
    · intro hh; cases hh; omega
    · rintro ⟨rfl, _⟩; congr 1
  · rw [if_neg hz]
    constructor
    · intro hh; cases hh
    · rintro ⟨rfl, hlt⟩; exact absurd (h1.mpr hlt) hz

theorem takeU8_ok (w : Bytes) (h : w.length = 32) (v : UInt8) :
    takeU8 w = .ok v ↔ beNat w = v.toNat := by
  obtain ⟨h1, h2⟩ := high_zero w 31 (by omega)
  have e : (256 : Nat) ^ (w.length - 31) = 256 := by rw [h]
  rw [e] at h1
  have hdrop : w.drop 31 = [w.getD 31 0] := by
    have : w.drop 31 = (w.drop 31).take 1 := by
      rw [List.take_of_length_le]; simp; omega
    rw [List.drop_eq_getElem_cons (by omega)] at this ⊢
    simp only [List.getD_eq_getElem?_getD, List.getElem?_eq_getElem (by omega : 31 < w.length),
      Option.getD_some]
    have hnil : w.drop 32 = [] := List.drop_of_length_le (by omega)
    simp [hnil]
  have hval : beNat (w.drop 31) = (w.getD 31 0).toNat := by
    rw [hdrop, beNat_cons]; simp [beNat_nil]
  unfold takeU8
  by_cases hz : (w.take 31).all (· == 0) = true
  · rw [if_pos hz]
    have := h2 hz
    constructor
    · intro hh; cases hh; omega
    · intro hh
      congr 1
      exact UInt8.toNat_inj.mp (by omega)
  · rw [if_neg hz]
    constructor
    · intro hh; cases hh
    · intro hh
      have := v.toNat_lt
      exact absurd (h1.mpr (by omega)) hz

theorem wordAt_some (bs : Bytes) (off n : Nat) :
    wordAt bs off = some n ↔ off + 32 ≤ bs.length ∧ beNat (slice bs off 32) = n := by
  unfold wordAt
  split
  · simp_all
  · simp only [reduceCtorEq, false_iff]; omega

theorem takeBytes_ok (bs : Bytes) (off len : Nat) (v : Bytes) :
    takeBytes bs off len = .ok v ↔ off + len ≤ bs.length ∧ v = slice bs off len := by
  unfold takeBytes slice
  split
  · simp_all [eq_comm]
  · simp only [reduceCtorEq, false_iff]; omega

theorem decodeDyn_ok (bs : Bytes) (i : Nat) (v : Bytes) :
    decodeDyn bs (32 * i) = .ok v ↔
      ∃ off len, wordAt bs (32 * i) = some off ∧ off < 2 ^ 32 ∧ wordAt bs off = some len ∧
        len < 2 ^ 32 ∧ off + 32 + len ≤ bs.length ∧ v = slice bs (off + 32) len := by
  unfold decodeDyn
  constructor
  · intro h
    cases h0 : peek32 bs (32 * i) with
    | error e => simp [h0] at h
    | ok w0 =>
      obtain ⟨hb0, rfl⟩ := (peek32_ok _ _ _).mp h0
      simp only [h0] at h
      cases h1 : takeUsize (slice bs (32 * i) 32) with
      | error e => simp [h1] at h
      | ok off =>
        obtain ⟨e1, l1⟩ := (takeUsize_ok _ (slice_length _ _ _ hb0) _).mp h1
        simp only [h1] at h
        cases h2 : peek32 bs off with
        | error e => simp [h2] at h
        | ok w1 =>
          obtain ⟨hb1, rfl⟩ := (peek32_ok _ _ _).mp h2
          simp only [h2] at h
          cases h3 : takeUsize (slice bs off 32) with
          | error e => simp [h3] at h
          | ok len =>
            obtain ⟨e3, l3⟩ := (takeUsize_ok _ (slice_length _ _ _ hb1) _).mp h3
            simp only [h3] at h
            obtain ⟨hb, rfl⟩ := (takeBytes_ok _ _ _ _).mp h
            exact ⟨off, len, (wordAt_some _ _ _).mpr ⟨hb0, e1⟩, l1,
              (wordAt_some _ _ _).mpr ⟨hb1, e3⟩, l3, hb, rfl⟩
  · rintro ⟨off, len, w0, l0, w1, l1, hb, rfl⟩
    obtain ⟨hb0, e0⟩ := (wordAt_some _ _ _).mp w0
    obtain ⟨hb1, e1⟩ := (wordAt_some _ _ _).mp w1
    have p0 := (peek32_ok bs (32 * i) _).mpr ⟨hb0, rfl⟩
    have u0 := (takeUsize_ok _ (slice_length _ _ _ hb0) off).mpr ⟨e0, l0⟩
    have p1 := (peek32_ok bs off _).mpr ⟨hb1, rfl⟩
    have u1 := (takeUsize_ok _ (slice_length _ _ _ hb1) len).mpr ⟨e1, l1⟩
    simp only [p0, u0, p1, u1]
    exact (takeBytes_ok _ _ _ _).mpr ⟨hb, rfl⟩

/-- **Decoder = layout reader, one field.** -/
theorem decodeParam_iff (ty : Ty) (bs : Bytes) (i : Nat) (t : Tok) :
    decodeParam ty bs (32 * i) = .ok t ↔ Reads bs i ty t := by
  cases ty with
  | uint256 =>
    constructor
    · intro h
      unfold decodeParam at h
      cases h0 : peek32 bs (32 * i) with
      | error e => simp [h0] at h
      | ok w =>
        obtain ⟨hb, rfl⟩ := (peek32_ok _ _ _).mp h0
        simp only [h0] at h
        cases h
        exact .uint256 _ ((wordAt_some _ _ _).mpr ⟨hb, rfl⟩)
    · intro h
      cases h with
      | uint256 n hw =>
        obtain ⟨hb, e⟩ := (wordAt_some _ _ _).mp hw
        unfold decodeParam
        simp only [(peek32_ok bs (32 * i) _).mpr ⟨hb, rfl⟩, e]
  | bytes32 =>
    constructor
    · intro h
      unfold decodeParam at h
      cases h0 : peek32 bs (32 * i) with
      | error e => simp [h0] at h
      | ok w =>
        obtain ⟨hb, rfl⟩ := (peek32_ok _ _ _).mp h0
        simp only [h0] at h
        cases h
        exact .bytes32 hb
    · intro h
      cases h with
      | bytes32 hb =>
        unfold decodeParam
        simp only [(peek32_ok bs (32 * i) _).mpr ⟨hb, rfl⟩]
  | uint8 =>
    constructor
    · intro h
      unfold decodeParam at h
      cases h0 : peek32 bs (32 * i) with
      | error e => simp [h0] at h
      | ok w =>
        obtain ⟨hb, rfl⟩ := (peek32_ok _ _ _).mp h0
        simp only [h0] at h
        cases h1 : takeU8 (slice bs (32 * i) 32) with
        | error e => simp [h1] at h
        | ok v =>
          simp only [h1] at h
          cases h
          have e := (takeU8_ok _ (slice_length _ _ _ hb) v).mp h1
          have := Reads.uint8 (bs := bs) (i := i) v.toNat
            ((wordAt_some _ _ _).mpr ⟨hb, e⟩) v.toNat_lt
          simpa using this
    · intro h
      cases h with
      | uint8 n hw hn =>
        obtain ⟨hb, e⟩ := (wordAt_some _ _ _).mp hw
        unfold decodeParam
        have : takeU8 (slice bs (32 * i) 32) = .ok (UInt8.ofNat n) :=
          (takeU8_ok _ (slice_length _ _ _ hb) _).mpr (by
            rw [e, UInt8.toNat_ofNat']; omega)
        simp only [(peek32_ok bs (32 * i) _).mpr ⟨hb, rfl⟩, this]
  | bytes =>
    constructor
    · intro h
      unfold decodeParam at h
      cases h0 : decodeDyn bs (32 * i) with
      | error e => simp [h0] at h
      | ok v =>
        simp only [h0] at h
        cases h
        obtain ⟨off, len, a, b, c, d, e, rfl⟩ := (decodeDyn_ok _ _ _).mp h0
        exact .bytes off len a b c d e
    · intro h
      cases h with
      | bytes off len a b c d e =>
        unfold decodeParam
        simp only [(decodeDyn_ok bs i _).mpr ⟨off, len, a, b, c, d, e, rfl⟩]
  | string =>
    constructor
    · intro h
      unfold decodeParam at h
      cases h0 : decodeDyn bs (32 * i) with
      | error e => simp [h0] at h
      | ok v =>
        simp only [h0] at h
        cases h
        obtain ⟨off, len, a, b, c, d, e, rfl⟩ := (decodeDyn_ok _ _ _).mp h0
        exact .string off len a b c d e
    · intro h
      cases h with
      | string off len a b c d e =>
        unfold decodeParam
        simp only [(decodeDyn_ok bs i _).mpr ⟨off, len, a, b, c, d, e, rfl⟩]

/-- **Decoder = layout reader, whole tuple.** -/
theorem rawDecodeGo_iff (tys : List Ty) (bs : Bytes) (i : Nat) (ts : List Tok) :
    rawDecodeGo tys bs (32 * i) = .ok ts ↔ ReadsAll bs i tys ts := by
  induction tys generalizing i ts with
  | nil =>
    constructor
    · intro h; simp [rawDecodeGo] at h; subst h; exact .nil i
    · intro h; cases h; rfl
  | cons ty tys ih =>
    have hoff : 32 * i + 32 = 32 * (i + 1) := by omega
    constructor
    · intro h
      unfold rawDecodeGo at h
      cases h0 : decodeParam ty bs (32 * i) with
      | error e => simp [h0] at h
      | ok t =>
        simp only [h0, hoff] at h
        cases h1 : rawDecodeGo tys bs (32 * (i + 1)) with
        | error e => simp [h1] at h
        | ok ts' =>
          simp only [h1] at h
          cases h
          exact .cons i ty tys t ts' ((decodeParam_iff _ _ _ _).mp h0) ((ih _ _).mp h1)
    · intro h
      cases h with
      | cons _ _ _ t ts' hr hrest =>
        unfold rawDecodeGo
        simp only [(decodeParam_iff _ _ _ _).mpr hr, hoff, (ih _ _).mpr hrest]

end Abi
end Axelar

namespace Axelar.Abi
open Axelar Axelar.Sol

theorem slice_of_drop (l m r : Bytes) (a : Nat) (h : l.drop a = m ++ r) :
    slice l a m.length = m ∧ l.length - a = m.length + r.length := by
  refine ⟨by simp [slice, h], ?_⟩
  have := congrArg List.length h
  simpa using this

theorem drop_add_of_drop (l m r : Bytes) (a : Nat) (h : l.drop a = m ++ r) :
    l.drop (a + m.length) = r := by
  rw [← List.drop_drop, h]; simp

theorem beNat_word (n : Nat) (h : n < 2 ^ 256) : beNat (word n) = n := by
  rw [word, beNat_natBEw]
  exact Nat.mod_eq_of_lt (by simpa using h)

theorem head_length (t : Tok) (off : Nat) (hf : Tok.fits t) : (Sol.head t off).length = 32 := by
  cases t with
  | bytes32 b => exact hf
  | _ => simp [Sol.head, word_length]

/-- Spec-level: in a byte string that contains `heads ts off` at slot `i` and `tails ts` at
    offset `off`, the layout reader finds exactly `ts`. -/
theorem readsAll_of_layout (full : Bytes) (hfull : full.length < 2 ^ 32)
    (ts : List Tok) (i off : Nat) (restA restB : Bytes)
    (hA : full.drop (32 * i) = heads ts off ++ restA)
    (hB : full.drop off = tails ts ++ restB)
    (hoff : off ≤ full.length)
    (hf : ∀ t ∈ ts, Tok.fits t) :
    ReadsAll full i (ts.map Tok.ty) ts := by
  induction ts generalizing i off with
  | nil => exact .nil i
  | cons t ts ih =>
    have hft := hf t (by simp)
    simp only [heads, List.append_assoc] at hA
    rw [tails_cons, List.append_assoc] at hB
    obtain ⟨hs, hl⟩ := slice_of_drop _ _ _ _ hA
    rw [head_length t off hft] at hs hl
    have hb32 : 32 * i + 32 ≤ full.length := by omega
    have hA' := drop_add_of_drop _ _ _ _ hA
    rw [head_length t off hft] at hA'
    have hB' := drop_add_of_drop _ _ _ _ hB
    obtain ⟨_, hlB⟩ := slice_of_drop _ _ _ _ hB
    have hrest := ih (i + 1) (off + (Sol.tail t).length) (by rw [← hA']; congr 1) hB'
      (by omega) (fun t' h => hf t' (by simp [h]))
    refine .cons i _ _ t ts ?_ hrest
    cases t with
    | uint256 n =>
      refine .uint256 n ((wordAt_some _ _ _).mpr ⟨hb32, ?_⟩)
      rw [hs]; exact beNat_word n hft
    | bytes32 b =>
      have := Reads.bytes32 (bs := full) (i := i) hb32
      rw [hs] at this; exact this
    | uint8 v =>
      have hv : v.toNat < 2 ^ 256 := by have := v.toNat_lt; omega
      have := Reads.uint8 (bs := full) (i := i) v.toNat
        ((wordAt_some _ _ _).mpr ⟨hb32, by rw [hs]; exact beNat_word _ hv⟩) v.toNat_lt
      simpa [Tok.ty] using this
    | bytes b =>
      have hoff32 : off < 2 ^ 256 := by omega
      simp only [Sol.tail, padRight, List.append_assoc] at hB
      obtain ⟨hs1, hl1⟩ := slice_of_drop _ _ _ _ hB
      rw [word_length] at hs1 hl1
      have hB1 := drop_add_of_drop _ _ _ _ hB
      rw [word_length] at hB1
      obtain ⟨hs2, hl2⟩ := slice_of_drop _ _ _ _ hB1
      have hlen : b.length < 2 ^ 256 := by omega
      have := Reads.bytes (bs := full) (i := i) off b.length
        ((wordAt_some _ _ _).mpr ⟨hb32, by rw [hs]; exact beNat_word _ hoff32⟩) (by omega)
        ((wordAt_some _ _ _).mpr ⟨by omega, by rw [hs1]; exact beNat_word _ hlen⟩) (by omega)
        (by omega)
      rw [hs2] at this; exact this
    | string b =>
      have hoff32 : off < 2 ^ 256 := by omega
      simp only [Sol.tail, padRight, List.append_assoc] at hB
      obtain ⟨hs1, hl1⟩ := slice_of_drop _ _ _ _ hB
      rw [word_length] at hs1 hl1
      have hB1 := drop_add_of_drop _ _ _ _ hB
      rw [word_length] at hB1
      obtain ⟨hs2, hl2⟩ := slice_of_drop _ _ _ _ hB1
      have hlen : b.length < 2 ^ 256 := by omega
      have := Reads.string (bs := full) (i := i) off b.length
        ((wordAt_some _ _ _).mpr ⟨hb32, by rw [hs]; exact beNat_word _ hoff32⟩) (by omega)
        ((wordAt_some _ _ _).mpr ⟨by omega, by rw [hs1]; exact beNat_word _ hlen⟩) (by omega)
        (by omega)
      rw [hs2] at this; exact this

/-- Spec-level: a canonical encoding is read back as the encoded values. -/
theorem enc_readsAll (ts : List Tok) (hf : ∀ t ∈ ts, Tok.fits t)
    (hlen : (enc ts).length < 2 ^ 32) :
    ReadsAll (enc ts) 0 (ts.map Tok.ty) ts := by
  have hh := heads_length ts (32 * ts.length) hf
  refine readsAll_of_layout (enc ts) hlen ts 0 (32 * ts.length) (tails ts) [] ?_ ?_ ?_ hf
  · simp [enc]
  · simp only [enc]
    rw [List.drop_left' hh]; simp
  · simp [enc, hh]

end Axelar.Abi
