/-
  All-histories life cycle of gateway message entries at the level of the whole world: whatever
  contract is called by whomever, whatever asynchronous step is delivered, `executed` is
  absorbing and an approval is only ever replaced by `executed`.
-/
import Axelar.Proofs.ItsHistory
namespace Axelar.World
open Axelar

/-- only account balances differ -/
def BalOnly (w w' : World) : Prop := w' = { w with accts := w'.accts }

theorem BalOnly.refl (w : World) : BalOnly w w := rfl
theorem BalOnly.trans {a b c : World} (h1 : BalOnly a b) (h2 : BalOnly b c) : BalOnly a c := by
  unfold BalOnly at *; rw [h2, h1]
theorem BalOnly.gw {w w' : World} (h : BalOnly w w') : w'.gw = w.gw := by rw [h]
theorem BalOnly.kind {w w' : World} (h : BalOnly w w') : w'.kind = w.kind := by rw [h]
theorem BalOnly.mintRole {w w' : World} (h : BalOnly w w') : w'.mintRole = w.mintRole := by rw [h]
theorem BalOnly.burnRole {w w' : World} (h : BalOnly w w') : w'.burnRole = w.burnRole := by rw [h]

theorem subEgld_bal (w w' : World) (a : Bytes) (n : Nat) (h : subEgld w a n = some w') : BalOnly w w' := by
  simp only [subEgld] at h
  split at h
  · cases h; rfl
  · cases h
theorem subEsdt_bal (w w' : World) (a t : Bytes) (n : Nat) (h : subEsdt w a t n = some w') : BalOnly w w' := by
  simp only [subEsdt] at h
  split at h
  · cases h; rfl
  · cases h
theorem addEgld_bal (w : World) (a : Bytes) (n : Nat) : BalOnly w (addEgld w a n) := rfl
theorem addEsdt_bal (w : World) (a t : Bytes) (n : Nat) : BalOnly w (addEsdt w a t n) := rfl

theorem pay_bal (src dst : Bytes) (e : Nat) (l : List (Bytes × Nat × Nat)) (w w' : World)
    (h : pay w src dst e l = some w') : BalOnly w w' := by
  induction l generalizing w with
  | nil =>
    simp only [pay] at h
    split at h
    · rename_i w1 hs
      cases h
      exact (subEgld_bal _ _ _ _ hs).trans (addEgld_bal _ _ _)
    · cases h
  | cons x l ih =>
    obtain ⟨tok, n, amt⟩ := x
    simp only [pay] at h
    split at h
    · rename_i w1 hs
      exact ((subEsdt_bal _ _ _ _ _ hs).trans (addEsdt_bal _ _ _ _)).trans (ih _ h)
    · cases h

theorem send_bal (w w' : World) (src dst : Bytes) (tok : Option Bytes) (n : Nat)
    (h : send w src dst tok n = some w') : BalOnly w w' := by
  cases tok with
  | none =>
    simp only [send, Option.map_eq_some_iff] at h
    obtain ⟨w0, h0, rfl⟩ := h
    exact (subEgld_bal _ _ _ _ h0).trans (addEgld_bal _ _ _)
  | some t =>
    simp only [send, Option.map_eq_some_iff] at h
    obtain ⟨w0, h0, rfl⟩ := h
    exact (subEsdt_bal _ _ _ _ _ h0).trans (addEsdt_bal _ _ _ _)

theorem applySends_bal (l : List GasService.Send) (a b : World) (x : Bytes)
    (h : applySends a x l = some b) : BalOnly a b := by
  induction l generalizing a with
  | nil => simp [applySends] at h; rw [h]; exact .refl _
  | cons s l ih =>
    simp only [applySends] at h
    split at h
    · rename_i w1 hs
      exact (send_bal _ _ _ _ _ _ hs).trans (ih _ h)
    · cases h

theorem applyEffects_bal (l : List TokenManager.Eff) (a b : World) (x : Bytes)
    (h : applyEffects a x l = some b) : BalOnly a b := by
  induction l generalizing a with
  | nil => simp [applyEffects] at h; rw [h]; exact .refl _
  | cons s l ih =>
    cases s with
    | send to tok amt =>
      simp only [applyEffects] at h
      split at h
      · rename_i w1 hs
        exact (send_bal _ _ _ _ _ _ hs).trans (ih _ h)
      · cases h
    | mint tok amt =>
      simp only [applyEffects] at h
      split at h
      · exact (addEsdt_bal _ _ _ _).trans (ih _ h)
      · cases h
    | burn tok amt =>
      simp only [applyEffects] at h
      split at h
      · cases h
      · split at h
        · rename_i w1 hs
          exact (subEsdt_bal _ _ _ _ _ hs).trans (ih _ h)
        · cases h

/-! ### life cycle -/

/-- `executed` is absorbing; an approval is only ever replaced by `executed` -/
def Life (g g' : Gateway.State) : Prop :=
  ∀ k, (g.messages k = .executed → g'.messages k = .executed) ∧
       (∀ h, g.messages k = .approved h → g'.messages k = .approved h ∨ g'.messages k = .executed)

theorem Life.refl (g : Gateway.State) : Life g g := fun _ => ⟨id, fun _ h => Or.inl h⟩
theorem Life.of_eq {g g' : Gateway.State} (h : g' = g) : Life g g' := h ▸ Life.refl g
theorem Life.trans {a b c : Gateway.State} (h1 : Life a b) (h2 : Life b c) : Life a c := by
  intro k
  refine ⟨fun h => (h2 k).1 ((h1 k).1 h), fun hh h => ?_⟩
  rcases (h1 k).2 hh h with h' | h'
  · exact (h2 k).2 hh h'
  · exact Or.inr ((h2 k).1 h')

theorem Life.of_trans {g g' : Gateway.State} (h : ∀ k, Gateway.Trans (g.messages k) (g'.messages k)) :
    Life g g' := by
  intro k
  refine ⟨fun he => ?_, fun hh ha => ?_⟩
  · have := h k; rw [he] at this; exact this.executed
  · have := h k; rw [ha] at this; exact this.approved

theorem tmFinish_gw (w : World) (dst : Bytes) (out : TokenManager.Out) (w' : World) (rs : List Bytes)
    (evs : List Event) (pd : List PendDesc) (h : tmFinish w dst out = some (w', rs, evs, pd)) :
    w'.gw = w.gw := by
  unfold tmFinish at h
  split at h
  · cases h
  · rename_i w1 he
    have h1 := (applyEffects_bal _ _ _ _ he).gw
    split at h
    · cases h; exact h1
    · cases h; simp only [addPending]; exact h1

theorem govFinish_gw (w : World) (dst : Bytes) (out : Governance.Out) (pre : List Event) (w' : World)
    (rs : List Bytes) (evs : List Event) (pd : List PendDesc)
    (h : govFinish w dst out pre = some (w', rs, evs, pd)) : w'.gw = w.gw := by
  unfold govFinish at h
  split at h
  · cases h
  · rename_i w1 hs
    have h1 := (applySends_bal _ _ _ _ hs).gw
    split at h
    · cases h; exact h1
    · cases h; simp only [addPending]; exact h1

theorem governance_execute_life (C : Crypto) (st : Governance.State) (gw : Gateway.State) (ctx : Governance.Ctx)
    (a b c d : Bytes) (st' : Governance.State) (gw' : Gateway.State) (e1 e2 : List Ev)
    (h : Governance.execute C st gw ctx a b c d = .ok (st', gw', e1, e2)) : Life gw gw' := by
  unfold Governance.execute at h
  split at h
  · cases h
  · have hs := Gateway.validateMessage_spec C gw ctx.self a b c (C.H d)
    simp only at h hs
    split at h
    · cases h
    · rename_i hv
      have hv' : (Gateway.validateMessage C gw ctx.self a b c (C.H d)).2.1 = true := by simpa using hv
      split at h
      · cases h
      · split at h
        · cases h
        · split at h
          · cases h
          · simp only [Except.ok.injEq, Prod.mk.injEq] at h
            obtain ⟨_, rfl, _, _⟩ := h
            rw [hs.2.1 hv']
            intro k
            by_cases hk : k = (a, b)
            · subst hk
              refine ⟨fun _ => by simp [upd], fun _ _ => Or.inr (by simp [upd])⟩
            · refine ⟨fun he => by simpa [upd, hk] using he, fun _ ha => Or.inl (by simpa [upd, hk] using ha)⟩

/-- a call to any contract other than the token service -/
theorem callOther_life (C : Crypto) (w : World) (src dst : Bytes) (f : String) (e : Nat)
    (es : List (Bytes × Nat × Nat)) (args : List Bytes) (w' : World) (rs : List Bytes)
    (evs : List Event) (pd : List PendDesc)
    (h : callOther C w src dst f e es args = some (w', rs, evs, pd)) : Life w.gw w'.gw := by
  unfold callOther at h
  split at h
  · -- gateway
    split at h
    · cases h
    · split at h
      · rename_i gw' rs1 evs1 hg
        cases h
        exact Life.of_trans (fun k => Gateway.call_trans C _ _ _ _ _ _ _ hg k)
      · cases h
  · -- gas service
    split at h
    · split at h
      · rename_i out _ w1 hs
        cases h
        exact Life.of_eq (applySends_bal _ _ _ _ hs).gw
      · cases h
    · cases h
  · -- token manager
    split at h
    · exact Life.of_eq (tmFinish_gw _ _ _ _ _ _ _ h)
    · cases h
  · -- governance
    split at h
    · split at h
      · cases h; exact Life.of_eq rfl
      · cases h
    · split at h
      · split at h
        · cases h
        · split at h
          · split at h
            · cases h
            · split at h
              · rename_i gov' gw' gwEvs evs1 hx
                cases h
                exact governance_execute_life C _ _ _ _ _ _ _ _ _ _ _ hx
              · cases h
          · cases h
      · split at h
        · exact Life.of_eq (govFinish_gw _ _ _ _ _ _ _ _ h)
        · cases h
  · cases h

end Axelar.World

namespace Axelar.ItsW
open Axelar Codec Its World

/-- `m` moves gateway message entries only along their life cycle -/
class GwL {α : Type} (m : M α) : Prop where
  h : ∀ t a t', m t = some (a, t') → Life t.w.gw t'.w.gw

/-- `m` does not touch the gateway at all -/
class GwSame {α : Type} (m : M α) : Prop where
  h : ∀ t a t', m t = some (a, t') → t'.w.gw = t.w.gw

instance GwSame.gwl {α : Type} {m : M α} [hs : GwSame m] : GwL m := ⟨fun t a t' h => Life.of_eq (hs.h t a t' h)⟩

instance gws_pure {α : Type} (a : α) : GwSame (pure a : M α) := by
  refine ⟨?_⟩; intro t b t' h; simp only [run_pure, Option.some.injEq, Prod.mk.injEq] at h; rw [← h.2]
instance gws_fail {α : Type} : GwSame (fail : M α) := by
  refine ⟨?_⟩; intro t b t' h; simp at h
instance gws_require (b : Bool) : GwSame (require b) := by
  refine ⟨?_⟩
  intro t a t' h
  simp only [run_require] at h
  split at h
  · simp only [Option.some.injEq, Prod.mk.injEq] at h; rw [← h.2]
  · cases h
instance gws_getI : GwSame getI := by
  refine ⟨?_⟩; intro t a t' h; simp only [run_getI, Option.some.injEq, Prod.mk.injEq] at h; rw [← h.2]
instance gws_getW : GwSame getW := by
  refine ⟨?_⟩; intro t a t' h; simp only [run_getW, Option.some.injEq, Prod.mk.injEq] at h; rw [← h.2]
instance gws_get : GwSame (get : M Tx) := by
  refine ⟨?_⟩
  intro t a t' h
  have : (get : M Tx) t = some (t, t) := rfl
  rw [this] at h; simp only [Option.some.injEq, Prod.mk.injEq] at h; rw [← h.2]
instance gws_emit (cx : ICtx) (n : String) (a b : List Bytes) : GwSame (emit cx n a b) := by
  refine ⟨?_⟩; intro t x t' h; simp only [run_emit, Option.some.injEq, Prod.mk.injEq] at h; rw [← h.2]
instance gws_setI (s : Its.State) : GwSame (setI s) := by
  refine ⟨?_⟩; intro t x t' h; simp only [run_setI, Option.some.injEq, Prod.mk.injEq] at h; rw [← h.2]
instance gws_addPend (cx : ICtx) (dst : Bytes) (func : String) (egld : Nat) (esdt : List (String × Nat × Nat))
    (args : List Bytes) (kind : PendKind) : GwSame (addPend cx dst func egld esdt args kind) := by
  refine ⟨?_⟩
  intro t x t' h
  have : addPend cx dst func egld esdt args kind t =
      some ((), { t with w := (World.addPending t.w cx.self dst func egld esdt args kind).1,
                         pend := t.pend ++ [(World.addPending t.w cx.self dst func egld esdt args kind).2] }) := rfl
  rw [this] at h
  simp only [Option.some.injEq, Prod.mk.injEq] at h
  rw [← h.2]; rfl
instance gws_refundGas (cx : ICtx) (caller : Bytes) (g : Nat) : GwSame (refundGas cx caller g) := by
  refine ⟨?_⟩
  intro t a t' h
  unfold refundGas at h
  split at h
  · simp only [Option.some.injEq, Prod.mk.injEq] at h; rw [← h.2]
  · split at h
    · rename_i w' hs
      simp only [Option.some.injEq, Prod.mk.injEq] at h
      rw [← h.2]
      exact (World.send_bal _ _ _ _ _ _ hs).gw
    · cases h

theorem gwl_bind {α β : Type} {m : M α} {f : α → M β} (hm : GwL m) (hf : ∀ a, GwL (f a)) : GwL (m >>= f) := by
  refine ⟨?_⟩
  intro t b t' h
  simp only [run_bind] at h
  cases hx : m t with
  | none => simp [hx] at h
  | some x =>
    obtain ⟨a, t1⟩ := x
    simp only [hx] at h
    exact (hm.h t a t1 hx).trans ((hf a).h t1 b t' h)

instance gwl_bind_inst {α β : Type} {m : M α} {f : α → M β} [hm : GwL m] [hf : ∀ a, GwL (f a)] : GwL (m >>= f) :=
  gwl_bind hm hf

instance gwl_subcall (C : Crypto) (cx : ICtx) (dst : Bytes) (f : String) (e : Nat)
    (es : List (Bytes × Nat × Nat)) (args : List Bytes) : GwL (subcall C cx dst f e es args) := by
  refine ⟨?_⟩
  intro t rs t' h
  unfold subcall at h
  cases hp : World.pay t.w cx.self dst e es with
  | none => simp [hp] at h
  | some w1 =>
    simp only [hp] at h
    cases hc : World.callOther C w1 cx.self dst f e es args with
    | none => simp [hc] at h
    | some r =>
      obtain ⟨w2, rs2, evs, pd⟩ := r
      simp only [hc, Option.some.injEq, Prod.mk.injEq] at h
      obtain ⟨_, rfl⟩ := h
      have h1 := (World.pay_bal _ _ _ _ _ _ hp).gw
      have h2 := World.callOther_life C w1 cx.self dst f e es args w2 rs2 evs pd hc
      rw [h1] at h2
      exact h2

/-- structural descent -/
macro "gwl" : tactic => `(tactic| repeat' (first
  | exact inferInstance | assumption | apply gwl_bind | intro _ | split | (dsimp only; split)))

instance gwl_requireNotPaused : GwL requireNotPaused := by unfold requireNotPaused; gwl
instance gwl_gatewayValidate (C : Crypto) (cx : ICtx) (a b c d : Bytes) : GwL (gatewayValidate C cx a b c d) := by
  unfold gatewayValidate; gwl
instance gwl_gatewayIsApproved (C : Crypto) (cx : ICtx) (a b c d : Bytes) : GwL (gatewayIsApproved C cx a b c d) := by
  unfold gatewayIsApproved; gwl
instance gwl_callContract (C : Crypto) (cx : ICtx) (a b c : Bytes) (g : Its.Tok) (n : Nat) :
    GwL (ItsW.callContract C cx a b c g n) := by
  unfold ItsW.callContract; gwl
instance gwl_routeMessage (C : Crypto) (cx : ICtx) (a b : Bytes) (g : Its.Tok) (n : Nat) :
    GwL (routeMessage C cx a b g n) := by
  unfold routeMessage; gwl
instance gwl_deployedTokenManager (tid : Bytes) : GwL (deployedTokenManager tid) := by
  unfold deployedTokenManager; gwl
instance gwl_tmTakeToken (C : Crypto) (cx : ICtx) (tid : Bytes) (tok : Its.Tok) (n : Nat) :
    GwL (tmTakeToken C cx tid tok n) := by
  unfold tmTakeToken; gwl
instance gwl_tmGiveToken (C : Crypto) (cx : ICtx) (tid dest : Bytes) (n : Nat) :
    GwL (tmGiveToken C cx tid dest n) := by
  unfold tmGiveToken; gwl
instance gwl_tmDeployInterchainToken (C : Crypto) (cx : ICtx) (tid : Bytes) (m : Option Bytes) (a b : Bytes) (d : Nat) :
    GwL (tmDeployInterchainToken C cx tid m a b d) := by
  unfold tmDeployInterchainToken; gwl
instance gwl_registeredTokenIdentifier (C : Crypto) (cx : ICtx) (tid : Bytes) :
    GwL (registeredTokenIdentifier C cx tid) := by
  unfold registeredTokenIdentifier; gwl

end Axelar.ItsW

namespace Axelar.ItsW
open Axelar Codec Its World

instance gws_deployTokenManagerRaw (C : Crypto) (cx : ICtx) (tokenId : Bytes) (ty : Nat) (token : Option Bytes)
    (opRaw : Bytes) : GwSame (deployTokenManagerRaw C cx tokenId ty token opRaw) :=
  ⟨fun t addr t' h => (deployTokenManagerRaw_spec C cx tokenId ty token opRaw t t' addr h).2.2.2.1⟩

instance gwl_executeWithToken (C : Crypto) (cx : ICtx) (a b c d e f g h i : Bytes) (n : Nat) :
    GwL (executeWithToken C cx a b c d e f g h i n) := by
  unfold executeWithToken; gwl
instance gwl_processInterchainTransfer (C : Crypto) (cx : ICtx) (a b c d e f : Bytes) :
    GwL (processInterchainTransfer C cx a b c d e f) := by
  unfold processInterchainTransfer; gwl
instance gwl_processLinkToken (C : Crypto) (cx : ICtx) (a : Bytes) : GwL (processLinkToken C cx a) := by
  unfold processLinkToken; gwl
instance gwl_processDeployInterchainToken (C : Crypto) (cx : ICtx) (a b c d e : Bytes) :
    GwL (processDeployInterchainToken C cx a b c d e) := by
  unfold processDeployInterchainToken; gwl
instance gwl_execute (C : Crypto) (cx : ICtx) (a b c d : Bytes) : GwL (execute C cx a b c d) := by
  unfold execute; gwl
instance gwl_transmitInterchainTransfer (C : Crypto) (cx : ICtx) (a b c d : Bytes) (tg : TransferAndGas) (e : Bytes) :
    GwL (transmitInterchainTransfer C cx a b c d tg e) := by
  unfold transmitInterchainTransfer; gwl
instance gwl_deployRemoteBase (C : Crypto) (cx : ICtx) (a b c : Bytes) (d : Nat) (e f : Bytes) (g : Nat) :
    GwL (deployRemoteBase C cx a b c d e f g) := by
  unfold deployRemoteBase; gwl
instance gwl_deployInterchainTokenRaw (C : Crypto) (cx : ICtx) (a b c d : Bytes) (n : Nat) (m : Bytes) (e : Nat) :
    GwL (deployInterchainTokenRaw C cx a b c d n m e) := by
  unfold deployInterchainTokenRaw; gwl
instance gwl_registerCustomTokenRaw (C : Crypto) (cx : ICtx) (a b : Bytes) (ty : Nat) (lp : Bytes) :
    GwL (registerCustomTokenRaw C cx a b ty lp) := by
  unfold registerCustomTokenRaw; gwl
instance gwl_linkTokenRaw (C : Crypto) (cx : ICtx) (a b c : Bytes) (ty : Nat) (lp : Bytes) (g : Nat) :
    GwL (linkTokenRaw C cx a b c ty lp g) := by
  unfold linkTokenRaw; gwl
instance gwl_interchainTransfer (C : Crypto) (cx : ICtx) (a b c : Bytes) (d : Option Bytes) (g : Nat) :
    GwL (interchainTransfer C cx a b c d g) := by
  unfold interchainTransfer; gwl
instance gwl_registerTokenMetadataRaw (C : Crypto) (cx : ICtx) (a : Bytes) (d g : Nat) :
    GwL (registerTokenMetadataRaw C cx a d g) := by
  unfold registerTokenMetadataRaw; gwl
instance gwl_checkTokenMinter (C : Crypto) (cx : ICtx) (a b : Bytes) : GwL (checkTokenMinter C cx a b) := by
  unfold checkTokenMinter; gwl
instance gwl_deployRemoteInterchainTokenRaw (C : Crypto) (cx : ICtx) (a b c d : Bytes) :
    GwL (deployRemoteInterchainTokenRaw C cx a b c d) := by
  unfold deployRemoteInterchainTokenRaw; gwl
instance gwl_factoryDeployInterchainToken (C : Crypto) (cx : ICtx) (a b c : Bytes) (d s : Nat) (m : Bytes) :
    GwL (factoryDeployInterchainToken C cx a b c d s m) := by
  unfold factoryDeployInterchainToken; gwl
instance gwl_approveDeployRemote (C : Crypto) (cx : ICtx) (a b c d : Bytes) : GwL (approveDeployRemote C cx a b c d) := by
  unfold approveDeployRemote; gwl
instance gwl_revokeDeployRemote (C : Crypto) (cx : ICtx) (a b c : Bytes) : GwL (revokeDeployRemote C cx a b c) := by
  unfold revokeDeployRemote; gwl
instance gwl_deployRemoteWithMinter (C : Crypto) (cx : ICtx) (a b c : Bytes) (dm : Option Bytes) :
    GwL (deployRemoteWithMinter C cx a b c dm) := by
  unfold deployRemoteWithMinter; gwl
instance gwl_executeWithTokenCallback (C : Crypto) (cx : ICtx) (a b c d e f : Bytes) (n : Nat) (ok : Bool) :
    GwL (executeWithTokenCallback C cx a b c d e f n ok) := by
  unfold executeWithTokenCallback; gwl
instance gwl_registerTokenMetadataCallback (C : Crypto) (cx : ICtx) (a : Bytes) (g : Nat) (c : Bytes) (ok : Bool)
    (vals : List Bytes) : GwL (registerTokenMetadataCallback C cx a g c ok vals) := by
  unfold registerTokenMetadataCallback; gwl
instance gwl_deployRemoteTokenCallback (C : Crypto) (cx : ICtx) (a b c d : Bytes) (g : Nat) (caller : Bytes)
    (ok : Bool) (vals : List Bytes) : GwL (deployRemoteTokenCallback C cx a b c d g caller ok vals) := by
  unfold deployRemoteTokenCallback; gwl
instance gwl_retUnlessAsync (m : M Bytes) [GwL m] : GwL (retUnlessAsync m) := by
  unfold retUnlessAsync; gwl
instance gwl_unit (m : M Unit) [GwL m] : GwL (ItsW.unit m) := by
  unfold ItsW.unit; gwl
instance gws_ret (b : Bytes) : GwSame (ret b) := by unfold ret; exact inferInstance
instance gwl_setFlowLimitsLoop (C : Crypto) (cx : ICtx) (l : List (Bytes × Bytes)) :
    GwL (setFlowLimitsLoop C cx l) := by
  induction l with
  | nil => unfold setFlowLimitsLoop; exact inferInstance
  | cons x l ih =>
    obtain ⟨tid, lim⟩ := x
    unfold setFlowLimitsLoop; gwl
instance gws_roleOp (cx : ICtx) (f : TokenManager.State → Except TokenManager.Err (TokenManager.State × List Ev)) :
    GwSame (roleOp cx f) := by
  refine ⟨?_⟩
  intro t r t' h
  simp only [roleOp, run_bind, run_getI] at h
  cases hf : f { roles := t.w.its.roles, proposed := t.w.its.proposed } with
  | error e => simp [hf] at h
  | ok v =>
    obtain ⟨ts, evs⟩ := v
    simp only [hf, run_setI, run_pure, modify, modifyGet, MonadStateOf.modifyGet, StateT.modifyGet,
      Option.some.injEq, Prod.mk.injEq] at h
    obtain ⟨_, rfl⟩ := h
    rfl

set_option maxRecDepth 4000 in
/-- the whole dispatcher -/
instance gwl_call (C : Crypto) (cx : ICtx) (func : String) (args : List Bytes) : GwL (call C cx func args) := by
  unfold call; gwl

end Axelar.ItsW

namespace Axelar.World
open Axelar ItsW

theorem runIts_life {α : Type} (w : World) (m : M α) [hp : GwL m] (a : α) (w' : World) (evs : List Event)
    (pd : List PendDesc) (h : runIts w m = some (a, w', evs, pd)) : Life w.gw w'.gw := by
  obtain ⟨t', hm, rfl⟩ := runIts_allowed _ _ _ _ _ _ h
  exact hp.h _ _ _ hm

theorem callContract_life (C : Crypto) (w : World) (src dst : Bytes) (func : String) (egld : Nat)
    (esdt : List (Bytes × Nat × Nat)) (args : List Bytes) (w' : World) (rs : List Bytes) (evs : List Event)
    (pd : List PendDesc) (h : callContract C w src dst func egld esdt args = some (w', rs, evs, pd)) :
    Life w.gw w'.gw := by
  unfold callContract at h
  split at h
  · split at h
    · rename_i rs1 w1 evs1 pd1 hr
      simp only [Option.some.injEq, Prod.mk.injEq] at h
      obtain ⟨rfl, _⟩ := h
      exact runIts_life _ _ _ _ _ _ hr
    · cases h
  · exact callOther_life C w src dst func egld esdt args w' rs evs pd h

/-- **Every operation of every schedule** moves gateway message entries only along their life
    cycle: `executed` is absorbing, an approval is only ever replaced by `executed`. -/
theorem step_life (C : Crypto) (w : World) (op : Op) : Life w.gw (step C w op).gw := by
  cases op with
  | env now accts mr br na => exact .refl _
  | tx src dst func egld esdt args =>
    simp only [step, tx]
    split
    · exact .refl _
    · rename_i w1 hp
      have hg := (pay_bal _ _ _ _ _ _ hp).gw
      split
      · split
        · exact .of_eq hg
        · exact .refl _
      · split
        · rename_i w2 rs evs pd hc
          have := callContract_life C w1 src dst func egld esdt args w2 rs evs pd hc
          rw [hg] at this
          exact this
        · exact .refl _
  | deliver id how =>
    simp only [step, deliver]
    split
    · exact .refl _
    · rename_i p hfp
      split
      · exact .refl _
      · cases how with
        | fail => exact .refl _
        | ok vals =>
          simp only
          split
          · exact .refl _
          · rename_i w1 hp
            have h1 := (pay_bal _ _ _ _ _ _ hp).gw
            exact .of_eq h1
        | real =>
          simp only
          split
          · exact .refl _
          · rename_i w1 hp
            have hg := (pay_bal _ _ _ _ _ _ hp).gw
            split
            · rename_i w2 rs evs pd hc
              have := callContract_life C w1 _ _ _ _ _ _ w2 rs evs pd hc
              rw [hg] at this
              exact this
            · split
              · exact .of_eq hg
              · exact .refl _
  | callback id =>
    simp only [step, callback]
    split
    · exact .refl _
    · rename_i p hfp
      split
      · exact .refl _
      · rename_i okFlag vals hres
        split
        · split
          · exact .refl _
          · split
            · rename_i w1 rs evs pd hf
              have h1 := tmFinish_gw _ _ _ _ _ _ _ hf
              exact .of_eq h1
            · exact .refl _
        · split
          · rename_i w1 rs evs pd hf
            have h1 := govFinish_gw _ _ _ _ _ _ _ _ hf
            exact .of_eq h1
          · exact .refl _
        · split
          · rename_i u w1 evs pd hr
            have h1 := runIts_life _ _ _ _ _ _ hr
            exact h1
          · exact .refl _
        · split
          · rename_i u w1 evs pd hr
            have h1 := runIts_life _ _ _ _ _ _ hr
            exact h1
          · exact .refl _
        · split
          · rename_i u w1 evs pd hr
            have h1 := runIts_life _ _ _ _ _ _ hr
            exact h1
          · exact .refl _

theorem run_life (C : Crypto) (ops : List Op) (w : World) : Life w.gw (run C w ops).gw := by
  induction ops generalizing w with
  | nil => exact .refl _
  | cons op ops ih =>
    simp only [run, List.foldl_cons]
    have h2 := ih (step C w op)
    simp only [run] at h2
    exact (step_life C w op).trans h2

end Axelar.World

namespace Axelar.Gateway
open Axelar Codec

/-- the `isMessageApproved` view: no state change, result = the comparison with the approval hash -/
theorem isMessageApproved_call (C : Crypto) (gw gw' : State) (ctx : Ctx) (a b c s d : Bytes) (rs : List Bytes)
    (evs : List Ev) (hg : call C gw ctx "isMessageApproved" [a, b, c, s, d] = .ok (gw', rs, evs)) :
    gw' = gw ∧ rs = [encBool (isMessageApproved C gw a b c s d)] := by
  unfold call at hg
  simp only at hg
  split at hg
  all_goals (first | (cases hg; done) | skip)
  rename_i ca ph hca hph
  simp only [topFixed] at hca hph
  split at hca <;> try (cases hca)
  split at hph <;> try (cases hph)
  simp only [Except.ok.injEq, Prod.mk.injEq] at hg
  obtain ⟨rfl, rfl, _⟩ := hg
  exact ⟨rfl, rfl⟩

end Axelar.Gateway

namespace Axelar.ItsW
open Axelar Codec Its World

/-- completeness of the gateway validation as the service sees it: when the entry is the approval
    for exactly these fields addressed to the service, a validation that runs returns `true`
    and leaves the entry executed -/
theorem gatewayValidate_of_approved (C : Crypto) (cx : ICtx) (chain id src ph : Bytes) (t t1 : Tx) (b : Bool)
    (hk : t.w.kind t.w.its.gateway = some .gateway)
    (ha : t.w.gw.messages (chain, id) = .approved (Gateway.messageHash C chain id src cx.self ph))
    (h : gatewayValidate C cx chain id src ph t = some (b, t1)) :
    b = true ∧ t1.w.gw.messages (chain, id) = .executed := by
  simp only [gatewayValidate, run_bind, run_getI] at h
  cases hs : subcall C cx t.w.its.gateway "validateMessage" 0 [] [chain, id, src, ph] t with
  | none => simp [hs] at h
  | some x =>
    obtain ⟨rs, tt⟩ := x
    simp only [hs, run_pure, Option.some.injEq, Prod.mk.injEq] at h
    obtain ⟨hrs, rfl⟩ := h
    unfold subcall at hs
    cases hp : World.pay t.w cx.self t.w.its.gateway 0 [] with
    | none => simp [hp] at hs
    | some w1 =>
      simp only [hp] at hs
      obtain ⟨g1, g2, g3, g4⟩ := World.pay_gw _ _ _ _ _ _ hp
      cases hc : World.callOther C w1 cx.self t.w.its.gateway "validateMessage" 0 [] [chain, id, src, ph] with
      | none => simp [hc] at hs
      | some r =>
        obtain ⟨w2, rs2, evs, pd⟩ := r
        simp only [hc, Option.some.injEq, Prod.mk.injEq] at hs
        obtain ⟨rfl, rfl⟩ := hs
        unfold World.callOther at hc
        rw [g2, hk] at hc
        simp only [ne_eq, not_true_eq_false, decide_false, List.isEmpty_nil, Bool.not_true, Bool.or_self,
          Bool.false_eq_true, if_false] at hc
        cases hg : Gateway.call C w1.gw ⟨cx.self, w1.owner t.w.its.gateway, w1.now⟩ "validateMessage" [chain, id, src, ph] with
        | error e => simp [hg] at hc
        | ok v =>
          obtain ⟨gw', rs3, evs3⟩ := v
          simp only [hg, Option.some.injEq, Prod.mk.injEq] at hc
          obtain ⟨rfl, rfl, _, _⟩ := hc
          obtain ⟨c', i', s', p', hargs, _, hv, hres⟩ := Gateway.validate_call_inv C w1.gw gw' _ _ _ evs3 hg
          simp only [List.cons.injEq, and_true] at hargs
          obtain ⟨rfl, rfl, rfl, rfl⟩ := hargs
          have hspec := Gateway.validateMessage_spec C w1.gw cx.self chain id src ph
          simp only at hspec
          have htrue : (Gateway.validateMessage C w1.gw cx.self chain id src ph).2.1 = true :=
            hspec.1.mpr (by rw [g1]; exact ha)
          rw [htrue] at hres
          refine ⟨by rw [← hrs, hres]; simp, ?_⟩
          have h1 := hspec.2.1 htrue
          rw [hv] at h1
          simp only at h1 ⊢
          rw [h1]; simp [upd]

end Axelar.ItsW
