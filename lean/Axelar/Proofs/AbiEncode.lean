import Axelar.Proofs.BytesLemmas
import Axelar.Spec.SolAbi
import Axelar.Model.AbiTypes
namespace Axelar.Abi
open Axelar Axelar.Sol

theorem padRight_length (b : Bytes) :
    (padRight b).length = (b.length + 31) / 32 * 32 := by
  simp [padRight]; omega

theorem padRight_nil : padRight [] = [] := by simp [padRight, zeros]

theorem word_length (n : Nat) : (word n).length = 32 := by simp [word]

theorem tail_length (t : Tok) : (Sol.tail t).length = tailLen t := by
  cases t <;> simp [Sol.tail, tailLen, padBytesLen, padRight_length, word_length] <;> omega

theorem fixedBytesGo_spec (fuel : Nat) (rest acc : Bytes) (h : rest.length < fuel) :
    fixedBytesGo fuel rest acc = acc ++ padRight rest := by
  induction fuel generalizing rest acc with
  | zero => omega
  | succ fuel ih =>
    unfold fixedBytesGo
    by_cases he : rest.isEmpty
    · simp only [he, if_true]
      have : rest = [] := by simpa using he
      subst this; simp [padRight_nil]
    · simp only [he]
      have hne : rest ≠ [] := by simpa using he
      have hpos : 0 < rest.length := List.length_pos_iff.mpr hne
      by_cases h32 : (rest.take 32).length = 32
      · simp only [h32, if_true, Bool.false_eq_true, if_false]
        have hlen : 32 ≤ rest.length := by
          rw [List.length_take] at h32; omega
        rw [ih _ _ (by simp; omega)]
        have hsplit : rest = rest.take 32 ++ rest.drop 32 := (List.take_append_drop 32 rest).symm
        simp only [padRight, List.length_drop, List.append_assoc]
        have hmod : (rest.length - 32) % 32 = rest.length % 32 := by omega
        rw [hmod]
        rw [← List.append_assoc (rest.take 32), List.take_append_drop]
      · simp only [h32, if_false, Bool.false_eq_true]
        have hlen : rest.length < 32 := by
          rw [List.length_take] at h32; omega
        have htake : rest.take 32 = rest := List.take_of_length_le (by omega)
        simp only [htake, padRight, List.append_assoc]
        have : (32 - rest.length % 32) % 32 = 32 - rest.length := by
          rw [Nat.mod_eq_of_lt hlen]; omega
        rw [this]

theorem fixedBytesAppend_spec (acc data : Bytes) :
    fixedBytesAppend acc data = acc ++ padRight data :=
  fixedBytesGo_spec _ _ _ (by omega)

theorem padRight_of_32 (b : Bytes) (h : b.length = 32) : padRight b = b := by
  simp [padRight, h, zeros]

theorem padU32_eq_word (v : Nat) (h : v < 2 ^ 32) : padU32 v = word v := by
  have := natBEw_widen 28 4 v (by simpa using h)
  simpa [padU32, word, u32be] using this.symm

theorem padBigUint_fits (n : Nat) (h : n < 2 ^ 256) : padBigUint n = .ok (word n) := by
  have h' : n < 256 ^ 32 := by simpa using h
  obtain ⟨h1, h2⟩ := pad_natBE 32 n h'
  simp only [padBigUint, word]
  rw [if_neg (by omega), h1]

theorem padBigUint_too_big (n : Nat) (h : 2 ^ 256 ≤ n) :
    padBigUint n = .error .unsupportedNumberSize := by
  simp only [padBigUint]
  have : ¬ (natBE n).length ≤ 32 := fun hle => by
    have := natBE_length_lt 32 n hle
    have e : (256 : Nat) ^ 32 = 2 ^ 256 := by decide
    omega
  rw [if_pos (by omega)]

theorem headAppend_spec (t : Tok) (acc : Bytes) (off : Nat)
    (hf : Tok.fits t) (hoff : off < 2 ^ 32) :
    headAppend t acc off = .ok (acc ++ Sol.head t off) := by
  cases t with
  | uint256 n =>
    simp only [Tok.fits] at hf
    simp [headAppend, padBigUint_fits n hf, Sol.head, bind, Except.bind, pure, Except.pure]
  | bytes32 b =>
    simp only [Tok.fits] at hf
    simp [headAppend, fixedBytesAppend_spec, padRight_of_32 b hf, Sol.head, pure, Except.pure]
  | bytes b => simp [headAppend, padU32_eq_word off hoff, Sol.head, pure, Except.pure]
  | string b => simp [headAppend, padU32_eq_word off hoff, Sol.head, pure, Except.pure]
  | uint8 n =>
    have : n.toNat < 2 ^ 32 := by have := n.toNat_lt; omega
    simp [headAppend, padU32_eq_word _ this, Sol.head, pure, Except.pure]

theorem tails_cons (t : Tok) (ts : List Tok) : tails (t :: ts) = Sol.tail t ++ tails ts := by
  simp [tails]

theorem headPass_spec (ts : List Tok) (acc : Bytes) (off : Nat)
    (hf : ∀ t ∈ ts, Tok.fits t) (hoff : off + (tails ts).length < 2 ^ 32) :
    headPass ts acc off = .ok (acc ++ heads ts off) := by
  induction ts generalizing acc off with
  | nil => simp [headPass, heads]
  | cons t ts ih =>
    rw [tails_cons, List.length_append] at hoff
    unfold headPass
    rw [headAppend_spec t acc off (hf t (by simp)) (by omega)]
    simp only []
    rw [ih _ _ (fun t' h => hf t' (by simp [h])) (by rw [← tail_length]; omega)]
    simp [heads, tail_length]

theorem tailAppend_spec (t : Tok) (acc : Bytes) (h : (Sol.tail t).length < 2 ^ 32) :
    tailAppend t acc = acc ++ Sol.tail t := by
  cases t with
  | bytes b =>
    have hb : b.length < 2 ^ 32 := by
      simp [Sol.tail, word_length, padRight] at h; omega
    simp [tailAppend, padBytesAppend, fixedBytesAppend_spec, padU32_eq_word _ hb, Sol.tail]
  | string b =>
    have hb : b.length < 2 ^ 32 := by
      simp [Sol.tail, word_length, padRight] at h; omega
    simp [tailAppend, padBytesAppend, fixedBytesAppend_spec, padU32_eq_word _ hb, Sol.tail]
  | _ => simp [tailAppend, Sol.tail]

theorem tailPass_spec (ts : List Tok) (acc : Bytes) (h : (tails ts).length < 2 ^ 32) :
    tailPass ts acc = acc ++ tails ts := by
  induction ts generalizing acc with
  | nil => simp [tailPass, tails]
  | cons t ts ih =>
    rw [tails_cons, List.length_append] at h
    unfold tailPass
    rw [tailAppend_spec t acc (by omega), ih _ (by omega), tails_cons, List.append_assoc]

theorem headsLen_eq (ts : List Tok) (a : Nat) :
    ts.foldl (fun a t => a + headLen t) a = a + 32 * ts.length := by
  induction ts generalizing a with
  | nil => simp
  | cons t ts ih =>
    simp only [List.foldl_cons, List.length_cons]
    rw [ih]; simp only [headLen]; omega

theorem heads_length (ts : List Tok) (off : Nat) (hf : ∀ t ∈ ts, Tok.fits t) :
    (heads ts off).length = 32 * ts.length := by
  induction ts generalizing off with
  | nil => simp [heads]
  | cons t ts ih =>
    have h1 : (Sol.head t off).length = 32 := by
      cases t with
      | bytes32 b => exact hf (.bytes32 b) (by simp)
      | _ => simp [Sol.head, word_length]
    simp [heads, h1, ih _ (fun t' h => hf t' (by simp [h]))]; omega

theorem headPass_error (ts : List Tok) (acc : Bytes) (off : Nat) (n : Nat)
    (hmem : Tok.uint256 n ∈ ts) (hn : 2 ^ 256 ≤ n) :
    ∃ e, headPass ts acc off = .error e := by
  induction ts generalizing acc off with
  | nil => simp at hmem
  | cons t ts ih =>
    unfold headPass
    cases hh : headAppend t acc off with
    | error e => exact ⟨e, rfl⟩
    | ok acc' =>
      simp only []
      rcases List.mem_cons.mp hmem with h | h
      · subst h
        simp [headAppend, padBigUint_too_big n hn, bind, Except.bind] at hh
      · exact ih _ _ h

end Axelar.Abi
