/-
  The exported surface of a contract, regenerated from the sources on every run
  (`Generated/Surface.lean`), against the surface the model implements — see SurfaceDefs.lean.
-/
import Axelar.Proofs.SurfaceDefs
import Axelar.Proofs.GatewayProofs
namespace Axelar.Surface
open Axelar Generated

def gatewayExpected : List (String × String × Bool × String × Nat) := [
  ("endpoint", "approveMessages", false, "", 2),
  ("endpoint", "callContract", false, "", 3),
  ("endpoint", "rotateSigners", false, "", 2),
  ("endpoint", "transferOperatorship", false, "", 1),
  ("endpoint", "validateMessage", false, "", 4),
  ("init", "init", false, "", 5),
  ("upgrade", "upgrade", false, "", 2)]

theorem gateway_surface : gatewaySurface.map sig = gatewayExpected := by decide

theorem gateway_storage_no_alias : noAlias gatewayStorage = true ∧ keysNodup gatewayStorage = true := by decide

/-- the storage mappers of the contract are exactly the fields the model's state has (a mapper the model does not know
    is state the theorems do not cover; the harness emulates its absence on contracts deployed by earlier code: `wipe`) -/
theorem gateway_storage_keys : gatewayStorage.map (·.key) = ["domain_separator", "epoch", "epoch_by_signer_hash", "last_rotation_timestamp", "messages", "minimum_rotation_delay", "operator", "previous_signers_retention", "signer_hash_by_epoch"] := by decide


end Axelar.Surface

namespace Axelar.Surface
open Axelar Gateway

/-- **The model changes gateway storage only through an entry point of the regenerated surface**: every
    call of the model's dispatcher that changes the state is one of the exported endpoints (or the
    protocol's `upgradeContract`, which runs the exported `upgrade`). -/
theorem gateway_state_changes_only_through_surface (C : Crypto) (st st' : State) (ctx : Ctx) (func : String)
    (args rs : List Bytes) (evs : List Ev) (h : call C st ctx func args = .ok (st', rs, evs)) (hne : st' ≠ st) :
    (∃ e ∈ Generated.gatewaySurface, e.kind = "endpoint" ∧ e.name = func) ∨
    (func = "upgradeContract" ∧ ∃ e ∈ Generated.gatewaySurface, e.kind = "upgrade") := by
  rcases call_cases C st ctx func args st' rs evs h with
    ⟨_, _, hf, _⟩ | ⟨_, _, hf, _⟩ | ⟨_, _, _, _, _, hf, _⟩ | ⟨_, hf, _⟩ | ⟨_, _, _, _, _, hf, _⟩ | rfl
  · left; subst hf; decide
  · left; subst hf; decide
  · left; subst hf; decide
  · left; subst hf; decide
  · right; exact ⟨hf, by decide⟩
  · exact absurd rfl hne

end Axelar.Surface
