/-
  The exported surface of every contract, regenerated from the sources on every run
  (`Generated/Surface.lean`), against the surface the model implements.

  * `*_surface`: the state-changing entry points of a contract (init, upgrade, endpoints, callbacks) with
    their `only_owner` / `payable` annotations and arities are exactly the ones the model's dispatcher
    implements.  An entry point added to, removed from or re-annotated in the Rust breaks this obligation.
  * `*_storage_no_alias`: within one contract no two storage mappers can address the same storage key
    (different base keys, and a base key that is a proper prefix of another takes no arguments) — the
    model keeps every mapper in a field of its own, which is sound only if this holds.
  One module per contract, so that a change to one contract breaks only the obligations of the
  properties anchored in that contract.
-/
import Axelar.Generated.Surface
namespace Axelar.Surface
open Axelar Generated

/-- what is compared: kind, exported name, `only_owner`, `payable`, number of arguments
    (the name of the Rust function is free to change, and so is the closure a callback receives:
    it is private to the contract, so the arity of callbacks is not compared) -/
def sig (e : Entry) : String × String × Bool × String × Nat :=
  (e.kind, e.name, e.onlyOwner, e.payable, if e.kind = "callback" then 0 else e.nargs)

/-- no two mappers of one contract can produce the same storage key -/
def noAlias (ms : List Mapper) : Bool :=
  ms.all fun a => ms.all fun b =>
    (a.key == b.key && a.arity == b.arity) ||
    (a.key != b.key && !(a.key.toList.isPrefixOf b.key.toList && a.arity > 0))

def keysNodup (ms : List Mapper) : Bool := (ms.map (·.key)).Nodup

end Axelar.Surface
