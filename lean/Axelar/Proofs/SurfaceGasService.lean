/-
  The exported surface of a contract, regenerated from the sources on every run
  (`Generated/Surface.lean`), against the surface the model implements — see SurfaceDefs.lean.
-/
import Axelar.Proofs.SurfaceDefs
import Axelar.Model.GasService
namespace Axelar.Surface
open Axelar Generated

def gasServiceExpected : List (String × String × Bool × String × Nat) := [
  ("endpoint", "addExpressGas", false, "*", 3),
  ("endpoint", "addGas", false, "*", 3),
  ("endpoint", "addNativeExpressGas", false, "EGLD", 3),
  ("endpoint", "addNativeGas", false, "EGLD", 3),
  ("endpoint", "collectFees", false, "", 3),
  ("endpoint", "payGasForContractCall", false, "*", 5),
  ("endpoint", "payGasForExpressCall", false, "*", 5),
  ("endpoint", "payNativeGasForContractCall", false, "EGLD", 5),
  ("endpoint", "payNativeGasForExpressCall", false, "EGLD", 5),
  ("endpoint", "refund", false, "", 5),
  ("endpoint", "setGasCollector", false, "", 1),
  ("init", "init", false, "", 1),
  ("upgrade", "upgrade", false, "", 0)]

theorem gasService_surface : gasServiceSurface.map sig = gasServiceExpected := by decide

theorem gasService_storage_no_alias : noAlias gasServiceStorage = true ∧ keysNodup gasServiceStorage = true := by decide

/-- the storage mappers of the contract are exactly the fields the model's state has (a mapper the model does not know
    is state the theorems do not cover; the harness emulates its absence on contracts deployed by earlier code: `wipe`) -/
theorem gasService_storage_keys : gasServiceStorage.map (·.key) = ["gas_collector"] := by decide


end Axelar.Surface

namespace Axelar.Surface
open Axelar GasService

/-- **The model changes the gas service's storage, emits events or moves funds only through an endpoint of the
    regenerated surface.** -/
theorem gasService_effects_only_through_surface (C : Crypto) (st : State) (ctx : Ctx) (func : String)
    (args : List Bytes) (out : Out) (h : call C st ctx func args = .ok out)
    (hne : out.st ≠ st ∨ out.sends ≠ [] ∨ out.events ≠ []) :
    ∃ e ∈ Generated.gasServiceSurface, e.kind = "endpoint" ∧ e.name = func := by
  unfold call at h
  split at h
  all_goals first
    | decide
    | skip
  · -- the `gas_collector` view
    exfalso
    repeat' (first | (cases h; done) | split at h)
    all_goals (cases h; simp at hne)
  · -- upgradeContract: nothing changes
    exfalso
    repeat' (first | (cases h; done) | split at h)
    all_goals (cases h; simp at hne)
  · cases h

end Axelar.Surface
