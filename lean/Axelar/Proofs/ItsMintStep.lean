/-
  The third transaction of the factory's `deployInterchainToken` flow: mint of the initial
  supply and hand-over of the roles, followed through the five calls to the token manager.
-/
import Axelar.Proofs.ItsLedger
namespace Axelar.ItsW
open Axelar Codec Its World TokenManager

/-- the manager call of one role endpoint: result state by cases -/
theorem call_transferMintership (st : TokenManager.State) (s tm : Bytes) (now : Nat) (a : Bytes) (out : Out)
    (h : TokenManager.call st ⟨s, tm, now, 0, []⟩ "transferMintership" [a] = .ok out) :
    (st.roles s).minter = true ∧
    out.st.roles = upd (upd st.roles s (remove (st.roles s) MINTER)) a
      (insert (upd st.roles s (remove (st.roles s) MINTER) a) MINTER) ∧
    out.st.implType = st.implType ∧ out.st.tokenIdentifier = st.tokenIdentifier ∧ out.effects = [] := by
  have e : TokenManager.call st ⟨s, tm, now, 0, []⟩ "transferMintership" [a] =
      (match topFixed 32 a with
       | some a => if onlyRole st ⟨s, tm, now, 0, []⟩ MINTER then roleOut (transferRole st s a MINTER) else .error .missingRoles
       | none => .error .args) := rfl
  rw [e] at h
  cases ha : topFixed 32 a with
  | none => simp [ha] at h
  | some a' =>
    have : a' = a := by unfold topFixed at ha; split at ha <;> simp_all
    subst this
    simp only [ha] at h
    split at h
    · rename_i hr
      cases ht : transferRole st s a' MINTER with
      | error e => simp [ht, roleOut] at h
      | ok v =>
        obtain ⟨st', evs⟩ := v
        simp only [ht, roleOut, Except.ok.injEq] at h
        subst h
        obtain ⟨_, h2, _⟩ := transferRole_ok _ _ _ _ _ _ ht
        have hsame := transferRole_same _ _ _ _ _ _ ht
        refine ⟨?_, h2, hsame.implType, hsame.tokenIdentifier, rfl⟩
        simpa [onlyRole, intersects, MINTER] using hr
    · cases h

theorem call_transferOperatorship (st : TokenManager.State) (s tm : Bytes) (now : Nat) (a : Bytes) (out : Out)
    (h : TokenManager.call st ⟨s, tm, now, 0, []⟩ "transferOperatorship" [a] = .ok out) :
    out.st.roles = upd (upd st.roles s (remove (st.roles s) OPERATOR)) a
      (insert (upd st.roles s (remove (st.roles s) OPERATOR) a) OPERATOR) ∧
    out.st.tokenIdentifier = st.tokenIdentifier ∧ out.effects = [] := by
  have e : TokenManager.call st ⟨s, tm, now, 0, []⟩ "transferOperatorship" [a] =
      (match topFixed 32 a with
       | some a => if onlyRole st ⟨s, tm, now, 0, []⟩ OPERATOR then roleOut (transferRole st s a OPERATOR) else .error .missingRoles
       | none => .error .args) := rfl
  rw [e] at h
  cases ha : topFixed 32 a with
  | none => simp [ha] at h
  | some a' =>
    have : a' = a := by unfold topFixed at ha; split at ha <;> simp_all
    subst this
    simp only [ha] at h
    split at h
    · cases ht : transferRole st s a' OPERATOR with
      | error e => simp [ht, roleOut] at h
      | ok v =>
        obtain ⟨st', evs⟩ := v
        simp only [ht, roleOut, Except.ok.injEq] at h
        subst h
        exact ⟨(transferRole_ok _ _ _ _ _ _ ht).2.1, (transferRole_same _ _ _ _ _ _ ht).tokenIdentifier, rfl⟩
    · cases h

theorem call_removeFlowLimiter (st : TokenManager.State) (s tm : Bytes) (now : Nat) (a : Bytes) (out : Out)
    (h : TokenManager.call st ⟨s, tm, now, 0, []⟩ "removeFlowLimiter" [a] = .ok out) :
    out.st.roles = upd st.roles a (remove (st.roles a) FLOW_LIMITER) ∧
    out.st.tokenIdentifier = st.tokenIdentifier ∧ out.effects = [] := by
  have e : TokenManager.call st ⟨s, tm, now, 0, []⟩ "removeFlowLimiter" [a] =
      (match topFixed 32 a with
       | some a => if onlyRole st ⟨s, tm, now, 0, []⟩ OPERATOR then roleOut (.ok (removeRole st a FLOW_LIMITER)) else .error .missingRoles
       | none => .error .args) := rfl
  rw [e] at h
  cases ha : topFixed 32 a with
  | none => simp [ha] at h
  | some a' =>
    have : a' = a := by unfold topFixed at ha; split at ha <;> simp_all
    subst this
    simp only [ha] at h
    split at h
    · simp only [roleOut, Except.ok.injEq] at h
      subst h
      exact ⟨rfl, rfl, rfl⟩
    · cases h

theorem call_addFlowLimiter (st : TokenManager.State) (s tm : Bytes) (now : Nat) (a : Bytes) (out : Out)
    (h : TokenManager.call st ⟨s, tm, now, 0, []⟩ "addFlowLimiter" [a] = .ok out) :
    out.st.roles = upd st.roles a (insert (st.roles a) FLOW_LIMITER) ∧
    out.st.tokenIdentifier = st.tokenIdentifier ∧ out.effects = [] := by
  have e : TokenManager.call st ⟨s, tm, now, 0, []⟩ "addFlowLimiter" [a] =
      (match topFixed 32 a with
       | some a => if onlyRole st ⟨s, tm, now, 0, []⟩ OPERATOR then roleOut (.ok (addRole st a FLOW_LIMITER)) else .error .missingRoles
       | none => .error .args) := rfl
  rw [e] at h
  cases ha : topFixed 32 a with
  | none => simp [ha] at h
  | some a' =>
    have : a' = a := by unfold topFixed at ha; split at ha <;> simp_all
    subst this
    simp only [ha] at h
    split at h
    · simp only [roleOut, Except.ok.injEq] at h
      subst h
      exact ⟨rfl, rfl, rfl⟩
    · cases h

theorem call_mint (st : TokenManager.State) (s tm : Bytes) (now : Nat) (a amt : Bytes) (out : Out)
    (h : TokenManager.call st ⟨s, tm, now, 0, []⟩ "mint" [a, amt] = .ok out) :
    out.st = st ∧ (st.roles s).minter = true ∧ st.implType = 0 ∧
    ∃ t, tokOfBytes st.tokenIdentifier = some t ∧ out.effects = [.mint t (topBig amt), .send a (some t) (topBig amt)] := by
  have e : TokenManager.call st ⟨s, tm, now, 0, []⟩ "mint" [a, amt] =
      (match topFixed 32 a with
       | some a => TokenManager.mint st ⟨s, tm, now, 0, []⟩ a (topBig amt)
       | none => .error .args) := rfl
  rw [e] at h
  cases ha : topFixed 32 a with
  | none => simp [ha] at h
  | some a' =>
    have : a' = a := by unfold topFixed at ha; split at ha <;> simp_all
    subst this
    simp only [ha] at h
    unfold TokenManager.mint at h
    split at h
    · cases h
    · rename_i hty
      split at h
      · cases h
      · rename_i hr
        split at h
        · cases h
        · split at h
          · cases h
          · rename_i t ht
            cases h
            refine ⟨rfl, ?_, by simpa using hty, t, ht, rfl⟩
            simpa [onlyRole, intersects, MINTER] using hr

/-- **The mint step hands everything over.**  After a successful third factory transaction for
    a nominated minter other than the service itself, on the token manager of that token: the
    service holds NONE of the minter, operator and flow-limiter roles any more, and the
    nominated minter holds all three.  (The service did hold the minter role before: that is
    what let it mint.) -/
theorem factoryMintStep_roles (C : Crypto) (cx : ICtx) (tm minter : Bytes) (supply : Nat) (t t' : Tx)
    (hk : t.w.kind tm = some .tokenManager) (hne : minter ≠ cx.self)
    (h : factoryMintStep C cx tm minter supply t = some ((), t')) :
    ((t.w.tms tm).roles cx.self).minter = true ∧
    (t'.w.tms tm).roles cx.self = {} ∧
    (t'.w.tms tm).roles minter = ⟨true, true, true⟩ ∧
    (t'.w.tms tm).tokenIdentifier = (t.w.tms tm).tokenIdentifier ∧ t'.w.kind = t.w.kind ∧ t'.w.its = t.w.its ∧
    ∃ tk, tokOfBytes (t.w.tms tm).tokenIdentifier = some tk ∧ Led t.w t'.w nil (pt cx.caller (some tk) supply) := by
  simp only [factoryMintStep, run_bind] at h
  -- 1. mint
  cases h1 : subcall C cx tm "mint" 0 [] [cx.caller, encNat supply] t with
  | none => simp [h1] at h
  | some x1 =>
    obtain ⟨r1, t1⟩ := x1
    simp only [h1] at h
    obtain ⟨o1, c1, tms1, k1, i1, n1, _, wb1, ef1, ac1⟩ := subcall_tm_call C cx tm _ _ t t1 r1 hk h1
    obtain ⟨e1, hmint, _, tk, htk, fx1⟩ := call_mint _ _ _ _ _ _ _ c1
    have s1 : t1.w.tms tm = t.w.tms tm := by rw [tms1, e1]; simp [upd]
    have hk1 : t1.w.kind tm = some .tokenManager := by rw [k1]; exact hk
    -- 2. transferMintership
    cases h2 : subcall C cx tm "transferMintership" 0 [] [minter] t1 with
    | none => simp [h2] at h
    | some x2 =>
      obtain ⟨r2, t2⟩ := x2
      simp only [h2] at h
      obtain ⟨o2, c2, tms2, k2, i2, n2, _, wb2, ef2, ac2⟩ := subcall_tm_call C cx tm _ _ t1 t2 r2 hk1 h2
      obtain ⟨_, ro2, _, tok2, fx2⟩ := call_transferMintership _ _ _ _ _ _ c2
      have s2 : t2.w.tms tm = o2.st := by rw [tms2]; simp [upd]
      have hk2 : t2.w.kind tm = some .tokenManager := by rw [k2]; exact hk1
      -- 3. removeFlowLimiter
      cases h3 : subcall C cx tm "removeFlowLimiter" 0 [] [cx.self] t2 with
      | none => simp [h3] at h
      | some x3 =>
        obtain ⟨r3, t3⟩ := x3
        simp only [h3] at h
        obtain ⟨o3, c3, tms3, k3, i3, n3, _, wb3, ef3, ac3⟩ := subcall_tm_call C cx tm _ _ t2 t3 r3 hk2 h3
        obtain ⟨ro3, tok3, fx3⟩ := call_removeFlowLimiter _ _ _ _ _ _ c3
        have s3 : t3.w.tms tm = o3.st := by rw [tms3]; simp [upd]
        have hk3 : t3.w.kind tm = some .tokenManager := by rw [k3]; exact hk2
        -- 4. addFlowLimiter
        cases h4 : subcall C cx tm "addFlowLimiter" 0 [] [minter] t3 with
        | none => simp [h4] at h
        | some x4 =>
          obtain ⟨r4, t4⟩ := x4
          simp only [h4] at h
          obtain ⟨o4, c4, tms4, k4, i4, n4, _, wb4, ef4, ac4⟩ := subcall_tm_call C cx tm _ _ t3 t4 r4 hk3 h4
          obtain ⟨ro4, tok4, fx4⟩ := call_addFlowLimiter _ _ _ _ _ _ c4
          have s4 : t4.w.tms tm = o4.st := by rw [tms4]; simp [upd]
          have hk4 : t4.w.kind tm = some .tokenManager := by rw [k4]; exact hk3
          -- 5. transferOperatorship
          cases h5 : subcall C cx tm "transferOperatorship" 0 [] [minter] t4 with
          | none => simp [h5] at h
          | some x5 =>
            obtain ⟨r5, t5⟩ := x5
            simp only [h5, run_pure, Option.some.injEq, Prod.mk.injEq, true_and] at h
            subst h
            obtain ⟨o5, c5, tms5, k5, i5, n5, _, wb5, ef5, ac5⟩ := subcall_tm_call C cx tm _ _ t4 t5 r5 hk4 h5
            obtain ⟨ro5, tok5, fx5⟩ := call_transferOperatorship _ _ _ _ _ _ c5
            have s5 : t5.w.tms tm = o5.st := by rw [tms5]; simp [upd]
            -- the role map at the end
            rw [s4, s3, s2] at *
            have hne' : cx.self ≠ minter := Ne.symm hne
            -- balances: the mint, then four calls without effects
            have hamt : topBig (encNat supply) = supply := by simp [topBig, encNat, beNat_natBE]
            have L1 : Led t.w t1.w nil (pt cx.caller (some tk) supply) := by
              rw [fx1, hamt] at ef1
              obtain ⟨_, hl⟩ := led_effects_mint_send _ _ _ _ _ _ ef1
              have a0 : Led t.w { t.w with tms := upd t.w.tms tm o1.st } nil nil := Led.of_accts rfl
              exact ((a0.trans hl).trans (Led.of_accts ac1)).conv (by intro x k; simp only [plus, nil]; omega)
            have Lnil : ∀ (ta tb : Tx) (o : Out) (wb : World), o.effects = [] →
                applyEffects { ta.w with tms := upd ta.w.tms tm o.st } tm o.effects = some wb → tb.w.accts = wb.accts →
                Led ta.w tb.w nil nil := by
              intro ta tb o wb hfx hef hac
              rw [hfx] at hef
              have a0 : Led ta.w { ta.w with tms := upd ta.w.tms tm o.st } nil nil := Led.of_accts rfl
              exact ((a0.trans (led_effects_nil _ _ _ hef)).trans (Led.of_accts hac)).conv
                (by intro x k; simp only [plus, nil])
            have L2 := Lnil t1 t2 o2 wb2 fx2 ef2 ac2
            have L3 := Lnil t2 t3 o3 wb3 fx3 ef3 ac3
            have L4 := Lnil t3 t4 o4 wb4 fx4 ef4 ac4
            have L5 := Lnil t4 t5 o5 wb5 fx5 ef5 ac5
            have Lall : Led t.w t5.w nil (pt cx.caller (some tk) supply) :=
              ((((L1.trans L2).trans L3).trans L4).trans L5).conv (by intro x k; simp only [plus, nil]; omega)
            refine ⟨hmint, ?_, ?_, ?_, by rw [k5, k4, k3, k2, k1], by rw [i5, i4, i3, i2, i1], tk, htk, Lall⟩
            · rw [s5, ro5, ro4, ro3, ro2, s1]
              simp [upd, hne', TokenManager.remove, TokenManager.insert, MINTER, OPERATOR, FLOW_LIMITER]
            · rw [s5, ro5, ro4, ro3, ro2, s1]
              simp [upd, hne, hne', TokenManager.remove, TokenManager.insert, MINTER, OPERATOR, FLOW_LIMITER]
            · rw [s5, tok5, tok4, tok3, tok2, s1]

end Axelar.ItsW
