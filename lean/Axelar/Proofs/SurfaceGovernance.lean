/-
  The exported surface of a contract, regenerated from the sources on every run
  (`Generated/Surface.lean`), against the surface the model implements — see SurfaceDefs.lean.
-/
import Axelar.Proofs.SurfaceDefs
namespace Axelar.Surface
open Axelar Generated

def governanceExpected : List (String × String × Bool × String × Nat) := [
  ("callback", "execute_operator_proposal_callback", false, "", 0),
  ("callback", "execute_proposal_callback", false, "", 0),
  ("endpoint", "execute", false, "", 4),
  ("endpoint", "executeOperatorProposal", false, "*", 3),
  ("endpoint", "executeProposal", false, "*", 3),
  ("endpoint", "transferOperatorship", false, "", 1),
  ("endpoint", "withdraw", false, "", 2),
  ("endpoint", "withdrawRefundToken", false, "", 1),
  ("init", "init", false, "", 5),
  ("upgrade", "upgrade", false, "", 0)]

theorem governance_surface : governanceSurface.map sig = governanceExpected := by decide

theorem governance_storage_no_alias : noAlias governanceStorage = true ∧ keysNodup governanceStorage = true := by decide

end Axelar.Surface
