/-
  The exported surface of a contract, regenerated from the sources on every run
  (`Generated/Surface.lean`), against the surface the model implements — see SurfaceDefs.lean.
-/
import Axelar.Proofs.SurfaceDefs
import Axelar.Model.Governance
namespace Axelar.Surface
open Axelar Generated

def governanceExpected : List (String × String × Bool × String × Nat) := [
  ("callback", "execute_operator_proposal_callback", false, "", 0),
  ("callback", "execute_proposal_callback", false, "", 0),
  ("endpoint", "execute", false, "", 4),
  ("endpoint", "executeOperatorProposal", false, "*", 3),
  ("endpoint", "executeProposal", false, "*", 3),
  ("endpoint", "transferOperatorship", false, "", 1),
  ("endpoint", "withdraw", false, "", 2),
  ("endpoint", "withdrawRefundToken", false, "", 1),
  ("init", "init", false, "", 5),
  ("upgrade", "upgrade", false, "", 0)]

theorem governance_surface : governanceSurface.map sig = governanceExpected := by decide

theorem governance_storage_no_alias : noAlias governanceStorage = true ∧ keysNodup governanceStorage = true := by decide

/-- the storage mappers of the contract are exactly the fields the model's state has (a mapper the model does not know
    is state the theorems do not cover; the harness emulates its absence on contracts deployed by earlier code: `wipe`) -/
theorem governance_storage_keys : governanceStorage.map (·.key) = ["gateway", "governance_address", "governance_chain", "minimum_time_lock_delay", "operator", "operator_approvals", "refund_token", "time_lock_eta"] := by decide


end Axelar.Surface

namespace Axelar.Surface
open Axelar Governance

/-- **The model changes the governance contract's storage, moves funds or dispatches a call only through an
    endpoint of the regenerated surface** (`execute`, the command endpoint, is modelled next to the gateway:
    `Governance.execute`; it is in the surface as well). -/
theorem governance_effects_only_through_surface (C : Crypto) (st : State) (ctx : Ctx) (func : String)
    (args : List Bytes) (out : Out) (h : call C st ctx func args = .ok out)
    (hne : out.st ≠ st ∨ out.sends ≠ [] ∨ out.dispatch ≠ none) :
    ∃ e ∈ Generated.governanceSurface, e.kind = "endpoint" ∧ e.name = func := by
  unfold call at h
  split at h
  · decide
  · decide
  · split at h
    · cases h
    · split at h
      all_goals first
        | decide
        | (exfalso
           repeat' (first | (cases h; done) | split at h)
           all_goals (cases h; simp at hne))

theorem governance_execute_in_surface :
    ∃ e ∈ Generated.governanceSurface, e.kind = "endpoint" ∧ e.name = "execute" ∧ e.payable = "" := by decide

end Axelar.Surface

namespace Axelar.Surface
/-- **Gas reserved for the callbacks** (C11, C12, C16: the failure callback restores the proposal and credits the
    refund — it must not run out of gas; the debug VM does not meter gas, so this is tied statically): the constants
    regenerated from the source are at least the reservations the deployed contract makes. -/
theorem governance_callback_gas_reserved :
    Generated.GOV_EXECUTE_PROPOSAL_CALLBACK_GAS ≥ 10000000 ∧
    Generated.GOV_EXECUTE_PROPOSAL_CALLBACK_GAS_PER_PAYMENT ≥ 2000000 ∧
    Generated.GOV_KEEP_EXTRA_GAS ≥ 15000000 := by decide
end Axelar.Surface
