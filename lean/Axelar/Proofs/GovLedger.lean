/-
  All-histories ledger of the governance refund credits (C16): over every sequence of endpoint calls,
  authenticated commands and callbacks of registered dispatches (one per dispatch, any order, any
  outcome), for every (user, token, nonce):

      outstanding credit + everything withdrawn  =  everything attached to dispatches that failed.

  The history is concrete: `GOp.call` is the model's endpoint dispatcher (`Governance.call`), `GOp.command`
  is `Governance.execute` against an arbitrary gateway state, `GOp.cb` is the promise callback of a
  dispatch that is in flight.  Ghost state (what was attached at dispatch time, what was sent out by
  withdrawals) is recorded next to the contract state and never read by it.
-/
import Axelar.Props.C16
namespace Axelar.Governance
open Axelar Codec Axelar.Props.C16

inductive GOp
  /-- any endpoint other than `execute` -/
  | call (ctx : Ctx) (func : String) (args : List Bytes)
  /-- `execute` (a governance command) against the gateway state of that moment -/
  | command (gw : Gateway.State) (ctx : Ctx) (chain id src payload : Bytes)
  /-- the callback of a dispatch in flight, with the outcome the schedule dictates -/
  | cb (d : Dispatch) (ok : Bool) (rs : List Bytes)

structure Led where
  st : State
  /-- dispatches registered and not yet called back, each with the caller of the dispatching transaction
      and the payments attached to it (`call_value().any_payment()` of that transaction) -/
  inflight : List (Dispatch × Bytes × Payments) := []
  /-- ghost: per key, everything attached (at dispatch time) to dispatches whose call failed -/
  failedAttached : RefundKey → Nat := fun _ => 0
  /-- ghost: per key, everything sent out by withdrawals -/
  withdrawn : RefundKey → Nat := fun _ => 0

def sentTotal (l : List GasService.Send) : Nat := (l.map (·.amount)).sum

/-- the (user, token, nonce) a successful call withdraws for, if it is a withdrawal -/
def withdrawKey (ctx : Ctx) (func : String) (args : List Bytes) : Option RefundKey :=
  if func = "withdrawRefundToken" then
    match args with
    | [t] => match top decToken t with
      | some (tok, nonce) => some (ctx.caller, tok, nonce)
      | none => none
    | _ => none
  else none

def stepLed (C : Crypto) (h : Led) : GOp → Led
  | .call ctx func args =>
    match call C h.st ctx func args with
    | .error _ => h
    | .ok out =>
      { h with st := out.st,
               inflight := (match out.dispatch with | some d => [(d, ctx.caller, anyPayment ctx)] | none => []) ++ h.inflight,
               withdrawn := match withdrawKey ctx func args with
                 | some k => upd h.withdrawn k (h.withdrawn k + sentTotal out.sends)
                 | none => h.withdrawn }
  | .command gw ctx chain id src payload =>
    match execute C h.st gw ctx chain id src payload with
    | .error _ => h
    | .ok (st', _, _, _) => { h with st := st' }
  | .cb d ok rs =>
    match h.inflight.find? (fun p => p.1 == d) with
    | none => h
    | some (d', who, paid) =>
      { h with st := (callback h.st d' ok rs).st,
               inflight := h.inflight.erase (d', who, paid),
               failedAttached := fun key =>
                 h.failedAttached key +
                   (if !ok ∧ key.1 = who then attached paid key.2.1 key.2.2 else 0) }

def runLed (C : Crypto) (h : Led) (ops : List GOp) : Led := ops.foldl (stepLed C) h

/-- the ledger equation and the fact that every dispatch in flight remembers exactly what its caller attached -/
structure LedInv (h : Led) : Prop where
  eq : ∀ key, h.st.refunds key + h.withdrawn key = h.failedAttached key
  mem : ∀ p ∈ h.inflight, p.1.payments = p.2.2 ∧ p.1.caller = p.2.1

theorem processCommand_refunds (C : Crypto) (st : State) (now : Nat) (cmd : Command) (t cd : Bytes) (v eta : Nat)
    (st' : State) (evs : List Ev) (hp : processCommand C st now cmd t cd v eta = .ok (st', evs)) :
    st'.refunds = st.refunds := by
  unfold processCommand at hp
  cases cmd with
  | schedule =>
    simp only at hp
    cases hs : scheduleTimeLock st now (proposalHash C t cd v) eta with
    | error e => simp [hs] at hp
    | ok r =>
      obtain ⟨s2, eta'⟩ := r
      simp only [hs, Except.ok.injEq, Prod.mk.injEq] at hp
      obtain ⟨rfl, _⟩ := hp
      simp only [scheduleTimeLock] at hs
      split at hs
      · cases hs
      · split at hs
        · cases hs; rfl
        · cases hs
  | cancel => simp only [Except.ok.injEq, Prod.mk.injEq] at hp; obtain ⟨rfl, _⟩ := hp; rfl
  | approveOperator => simp only [Except.ok.injEq, Prod.mk.injEq] at hp; obtain ⟨rfl, _⟩ := hp; rfl
  | cancelOperator => simp only [Except.ok.injEq, Prod.mk.injEq] at hp; obtain ⟨rfl, _⟩ := hp; rfl

theorem execute_refunds (C : Crypto) (st : State) (gw : Gateway.State) (ctx : Ctx) (a b c d : Bytes)
    (st' : State) (gw' : Gateway.State) (e1 e2 : List Ev)
    (h : execute C st gw ctx a b c d = .ok (st', gw', e1, e2)) : st'.refunds = st.refunds := by
  unfold execute at h
  repeat' (first | (cases h; done) | split at h)
  all_goals (
    rename_i hp
    cases h
    exact processCommand_refunds C st _ _ _ _ _ _ _ _ hp)

theorem call_dispatch (C : Crypto) (st : State) (ctx : Ctx) (func : String) (args : List Bytes) (out : Out)
    (d : Dispatch) (h : call C st ctx func args = .ok out) (hd : out.dispatch = some d) :
    d.payments = anyPayment ctx ∧ d.caller = ctx.caller := by
  unfold call at h
  split at h
  · split at h
    · exact dispatch_remembers_payments C st ctx _ _ _ out d (Or.inl h) hd
    · cases h
  · split at h
    · exact dispatch_remembers_payments C st ctx _ _ _ out d (Or.inr h) hd
    · cases h
  · split at h
    · cases h
    · split at h
      all_goals (
        repeat' (first
          | (cases h; done)
          | (cases h; simp [withdrawRefundToken] at hd; done)
          | split at h))

theorem step_ledInv (C : Crypto) (h : Led) (op : GOp) (hi : LedInv h) : LedInv (stepLed C h op) := by
  cases op with
  | call ctx func args =>
    simp only [stepLed]
    cases hc : call C h.st ctx func args with
    | error e => exact hi
    | ok out =>
      simp only
      constructor
      · intro key
        cases hk : withdrawKey ctx func args with
        | none =>
          simp only
          have hf : func ≠ "withdrawRefundToken" ∨ withdrawKey ctx func args = none := Or.inr hk
          by_cases hfn : func = "withdrawRefundToken"
          · -- a withdrawal whose argument does not decode fails, so this case is void
            subst hfn
            exfalso
            unfold call at hc
            split at hc
            · rename_i hx; simp at hx
            · rename_i hx; simp at hx
            · split at hc
              · cases hc
              · split at hc
                all_goals (first
                  | (rename_i hx; simp at hx; done)
                  | skip)
                all_goals (
                  simp only [withdrawKey, if_true] at hk
                  repeat' (first | (cases hc; done) | (simp_all; done) | split at hc))
          · rw [credits_untouched_elsewhere C h.st ctx func args out hc hfn]; exact hi.eq key
        | some k =>
          simp only
          -- a withdrawal: `withdraw_exact`
          have hw : func = "withdrawRefundToken" ∧ ∃ t tok nonce, args = [t] ∧ top decToken t = some (tok, nonce) ∧
              k = (ctx.caller, tok, nonce) := by
            simp only [withdrawKey] at hk
            split at hk
            · rename_i hfn
              refine ⟨hfn, ?_⟩
              split at hk
              · rename_i t
                split at hk
                · rename_i tok nonce hdec
                  cases hk
                  exact ⟨t, tok, nonce, rfl, hdec, rfl⟩
                · cases hk
              · cases hk
            · cases hk
          obtain ⟨hfn, t, tok, nonce, rfl, hdec, rfl⟩ := hw
          subst hfn
          have hout : out = withdrawRefundToken h.st ctx tok nonce := by
            unfold call at hc
            split at hc
            · rename_i hx; simp at hx
            · rename_i hx; simp at hx
            · split at hc
              · cases hc
              · split at hc
                all_goals (first
                  | (rename_i hx; simp at hx; done)
                  | skip)
                all_goals (
                  repeat' (first | (cases hc; done) | (simp_all; done) | split at hc))
          subst hout
          obtain ⟨w1, w2, w3, w4, _, _⟩ := withdraw_exact h.st ctx tok nonce
          have he := hi.eq key
          by_cases hkey : key = (ctx.caller, tok, nonce)
          · subst hkey
            simp only [upd, if_true] at *
            rw [w1]
            by_cases hz : h.st.refunds (ctx.caller, tok, nonce) = 0
            · rw [w3 hz]; simp [sentTotal]; omega
            · rw [w4 hz]; simp [sentTotal]; omega
          · rw [w2 key hkey]
            simp only [upd, hkey, if_false]
            exact he
      · intro p hp
        rcases List.mem_append.mp hp with h1 | h2
        · cases hd : out.dispatch with
          | none => simp [hd] at h1
          | some d =>
            simp only [hd, List.mem_singleton] at h1
            subst h1
            exact call_dispatch C h.st ctx func args out d hc hd
        · exact hi.mem p h2
  | command gw ctx chain id src payload =>
    simp only [stepLed]
    cases hc : execute C h.st gw ctx chain id src payload with
    | error e => exact hi
    | ok r =>
      obtain ⟨st', gw', e1, e2⟩ := r
      simp only
      exact ⟨fun key => by rw [execute_refunds C h.st gw ctx _ _ _ _ st' gw' e1 e2 hc]; exact hi.eq key, hi.mem⟩
  | cb d ok rs =>
    simp only [stepLed]
    cases hf : h.inflight.find? (fun p => p.1 == d) with
    | none => exact hi
    | some p =>
      obtain ⟨d', cx, paid⟩ := p
      have hmem : (d', cx, paid) ∈ h.inflight := List.mem_of_find?_eq_some hf
      obtain ⟨hp1, hp2⟩ := hi.mem _ hmem
      simp only at hp1 hp2
      constructor
      · intro key
        obtain ⟨c1, c2⟩ := callback_credits h.st d' rs key
        have he := hi.eq key
        cases ok with
        | true => simp only [c1]; simpa using he
        | false =>
          simp only [c2, hp1, hp2]
          simp only [Bool.not_false, true_and]
          omega
      · intro p hp
        exact hi.mem p (List.mem_of_mem_erase hp)

theorem run_ledInv (C : Crypto) (ops : List GOp) (h : Led) (hi : LedInv h) : LedInv (runLed C h ops) := by
  induction ops generalizing h with
  | nil => exact hi
  | cons op ops ih => exact ih _ (step_ledInv C h op hi)

end Axelar.Governance
