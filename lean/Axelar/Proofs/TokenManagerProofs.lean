import Axelar.Model.TokenManager
namespace Axelar.TokenManager
open Axelar Codec

/-- the role operations never touch anything but `roles` / `proposed` -/
structure SameRest (st st' : State) : Prop where
  service : st'.service = st.service
  implType : st'.implType = st.implType
  tokenId : st'.tokenId = st.tokenId
  tokenIdentifier : st'.tokenIdentifier = st.tokenIdentifier
  flowLimit : st'.flowLimit = st.flowLimit
  flowIn : st'.flowIn = st.flowIn
  flowOut : st'.flowOut = st.flowOut

theorem SameRest.rfl' (st : State) : SameRest st st := ⟨rfl, rfl, rfl, rfl, rfl, rfl, rfl⟩

theorem SameRest.trans {a b c : State} (h1 : SameRest a b) (h2 : SameRest b c) : SameRest a c :=
  ⟨h2.service.trans h1.service, h2.implType.trans h1.implType, h2.tokenId.trans h1.tokenId,
   h2.tokenIdentifier.trans h1.tokenIdentifier, h2.flowLimit.trans h1.flowLimit,
   h2.flowIn.trans h1.flowIn, h2.flowOut.trans h1.flowOut⟩

theorem addRole_same (st : State) (a : Bytes) (r : Roles) : SameRest st (addRole st a r).1 :=
  ⟨rfl, rfl, rfl, rfl, rfl, rfl, rfl⟩
theorem removeRole_same (st : State) (a : Bytes) (r : Roles) : SameRest st (removeRole st a r).1 :=
  ⟨rfl, rfl, rfl, rfl, rfl, rfl, rfl⟩

theorem transferRole_same (st st' : State) (a b : Bytes) (r : Roles) (evs : List Ev)
    (h : transferRole st a b r = .ok (st', evs)) : SameRest st st' := by
  unfold transferRole at h
  split at h
  · cases h; exact ⟨rfl, rfl, rfl, rfl, rfl, rfl, rfl⟩
  · cases h

theorem proposeRole_same (st st' : State) (a b : Bytes) (r : Roles) (evs : List Ev)
    (h : proposeRole st a b r = .ok (st', evs)) : SameRest st st' := by
  unfold proposeRole at h
  split at h
  · cases h; exact ⟨rfl, rfl, rfl, rfl, rfl, rfl, rfl⟩
  · cases h

theorem acceptRole_same (st st' : State) (a b : Bytes) (r : Roles) (evs : List Ev)
    (h : acceptRole st a b r = .ok (st', evs)) : SameRest st st' := by
  unfold acceptRole at h
  split at h
  · have := transferRole_same _ _ _ _ _ _ h
    exact ⟨this.service, this.implType, this.tokenId, this.tokenIdentifier, this.flowLimit,
      this.flowIn, this.flowOut⟩
  · cases h

theorem roleOut_same (st : State) (r : Except Err (State × List Ev)) (out : Out)
    (hr : ∀ st' evs, r = .ok (st', evs) → SameRest st st') (h : roleOut r = .ok out) :
    SameRest st out.st ∧ out.effects = [] ∧ out.issue = none := by
  unfold roleOut at h
  split at h
  · rename_i st' evs
    cases h
    exact ⟨hr st' evs rfl, rfl, rfl⟩
  · cases h

/-! ### flow accounting -/

theorem addFlow_spec (L a c x v : Nat) (h : addFlow L a c x = some v) :
    x ≤ L ∧ v = a + x ∧ v ≤ c + L := by
  unfold addFlow at h
  split at h
  · rename_i hc
    simp only [Bool.and_eq_true, decide_eq_true_eq] at hc
    cases h
    exact ⟨hc.2, rfl, hc.1⟩
  · cases h

theorem addFlowIn_spec (st st' : State) (now amt : Nat) (h : addFlowIn st now amt = .ok st') :
    (st.flowLimit = 0 ∧ st' = st) ∨
    (st.flowLimit ≠ 0 ∧ amt ≤ st.flowLimit ∧
      st.flowIn (epochOf now) + amt ≤ st.flowOut (epochOf now) + st.flowLimit ∧
      st' = { st with flowIn := upd st.flowIn (epochOf now) (st.flowIn (epochOf now) + amt) }) := by
  unfold addFlowIn at h
  split at h
  · rename_i h0; cases h; exact Or.inl ⟨h0, rfl⟩
  · rename_i h0
    simp only at h
    split at h
    · rename_i v hv
      obtain ⟨a, b, c⟩ := addFlow_spec _ _ _ _ _ hv
      cases h
      subst b
      exact Or.inr ⟨h0, a, c, rfl⟩
    · cases h

theorem addFlowOut_spec (st st' : State) (now amt : Nat) (h : addFlowOut st now amt = .ok st') :
    (st.flowLimit = 0 ∧ st' = st) ∨
    (st.flowLimit ≠ 0 ∧ amt ≤ st.flowLimit ∧
      st.flowOut (epochOf now) + amt ≤ st.flowIn (epochOf now) + st.flowLimit ∧
      st' = { st with flowOut := upd st.flowOut (epochOf now) (st.flowOut (epochOf now) + amt) }) := by
  unfold addFlowOut at h
  split at h
  · rename_i h0; cases h; exact Or.inl ⟨h0, rfl⟩
  · rename_i h0
    simp only at h
    split at h
    · rename_i v hv
      obtain ⟨a, b, c⟩ := addFlow_spec _ _ _ _ _ hv
      cases h
      subst b
      exact Or.inr ⟨h0, a, c, rfl⟩
    · cases h

/-- shape of a successful `giveToken` -/
theorem giveToken_spec (st : State) (ctx : Ctx) (dest : Bytes) (amount : Nat) (out : Out)
    (h : giveToken st ctx dest amount = .ok out) :
    ctx.caller = st.service ∧ addFlowIn st ctx.now amount = .ok out.st ∧ out.issue = none ∧
    out.results = [st.tokenIdentifier, encNat amount] ∧
    ((isMintBurnKind st.implType = true ∧ ∃ t, tokOfBytes st.tokenIdentifier = some t ∧
        out.effects = [.mint t amount, .send dest (some t) amount]) ∨
     (isMintBurnKind st.implType = false ∧
        out.effects = [.send dest (tokOfBytes st.tokenIdentifier) amount])) := by
  unfold giveToken at h
  split at h
  · cases h
  · rename_i hc
    split at h
    · cases h
    · rename_i st' hf
      simp only at h
      split at h
      · rename_i hk
        split at h
        · cases h
        · rename_i t ht
          cases h
          exact ⟨by simpa using hc, hf, rfl, rfl, Or.inl ⟨hk, t, ht, by rw [ht]⟩⟩
      · rename_i hk
        cases h
        exact ⟨by simpa using hc, hf, rfl, rfl, Or.inr ⟨by simpa using hk, rfl⟩⟩

/-- shape of a successful `takeToken` -/
theorem takeToken_spec (st : State) (ctx : Ctx) (out : Out) (h : takeToken st ctx = .ok out) :
    ctx.caller = st.service ∧ out.issue = none ∧
    ∃ tok amount, requireCorrectToken st ctx = .ok (tok, amount) ∧
      addFlowOut st ctx.now amount = .ok out.st ∧ out.results = [encNat amount] ∧
      ((isMintBurnKind st.implType = true ∧ ∃ t, tok = some t ∧ out.effects = [.burn t amount]) ∨
       (isMintBurnKind st.implType = false ∧ out.effects = [])) := by
  unfold takeToken at h
  split at h
  · cases h
  · rename_i hc
    split at h
    · cases h
    · rename_i tok amount hr
      split at h
      · cases h
      · rename_i st' hf
        split at h
        · rename_i hk
          split at h
          · cases h
          · rename_i t
            cases h
            exact ⟨by simpa using hc, rfl, _, amount, hr, hf, rfl, Or.inl ⟨hk, t, rfl, rfl⟩⟩
        · rename_i hk
          cases h
          exact ⟨by simpa using hc, rfl, tok, amount, hr, hf, rfl, Or.inr ⟨by simpa using hk, rfl⟩⟩

end Axelar.TokenManager

namespace Axelar.TokenManager
open Axelar Codec

/-- the nine role endpoints with their guards -/
inductive RoleStep (st : State) (ctx : Ctx) : String → Except Err (State × List Ev) → Prop
  | addFL (a : Bytes) : onlyRole st ctx OPERATOR = true →
      RoleStep st ctx "addFlowLimiter" (.ok (addRole st a FLOW_LIMITER))
  | removeFL (a : Bytes) : onlyRole st ctx OPERATOR = true →
      RoleStep st ctx "removeFlowLimiter" (.ok (removeRole st a FLOW_LIMITER))
  | transferFL (a b : Bytes) : onlyRole st ctx OPERATOR = true →
      RoleStep st ctx "transferFlowLimiter" (transferRole st a b FLOW_LIMITER)
  | transferOp (a : Bytes) : onlyRole st ctx OPERATOR = true →
      RoleStep st ctx "transferOperatorship" (transferRole st ctx.caller a OPERATOR)
  | proposeOp (a : Bytes) : onlyRole st ctx OPERATOR = true →
      RoleStep st ctx "proposeOperatorship" (proposeRole st ctx.caller a OPERATOR)
  | acceptOp (a : Bytes) : RoleStep st ctx "acceptOperatorship" (acceptRole st a ctx.caller OPERATOR)
  | transferMint (a : Bytes) : onlyRole st ctx MINTER = true →
      RoleStep st ctx "transferMintership" (transferRole st ctx.caller a MINTER)
  | proposeMint (a : Bytes) : onlyRole st ctx MINTER = true →
      RoleStep st ctx "proposeMintership" (proposeRole st ctx.caller a MINTER)
  | acceptMint (a : Bytes) : RoleStep st ctx "acceptMintership" (acceptRole st a ctx.caller MINTER)

/-- Everything a successful token-manager call can be. -/
theorem call_cases (st : State) (ctx : Ctx) (func : String) (args : List Bytes) (out : Out)
    (h : call st ctx func args = .ok out) :
    (∃ dest amount, func = "giveToken" ∧ giveToken st ctx dest amount = .ok out) ∨
    (func = "takeToken" ∧ takeToken st ctx = .ok out) ∨
    (∃ l, func = "setFlowLimit" ∧ setFlowLimit st ctx l = .ok out) ∨
    (∃ a amt, func = "mint" ∧ mint st ctx a amt = .ok out) ∨
    (func = "burn" ∧ burn st ctx = .ok out) ∨
    (∃ m n s d, func = "deployInterchainToken" ∧ deployInterchainToken st ctx m n s d = .ok out) ∨
    (∃ r, RoleStep st ctx func r ∧ roleOut r = .ok out) ∨
    (out.st = st ∧ out.effects = [] ∧ out.issue = none) := by
  unfold call at h
  split at h
  · exact Or.inr (Or.inl ⟨rfl, h⟩)
  · exact Or.inr (Or.inr (Or.inr (Or.inr (Or.inl ⟨rfl, h⟩))))
  · split at h
    · exact Or.inr (Or.inr (Or.inr (Or.inr (Or.inr (Or.inl ⟨_, _, _, _, rfl, h⟩)))))
    · cases h
  · split at h
    · cases h
    · split at h
      -- addFlowLimiter
      · split at h
        · split at h
          · rename_i hr
            exact Or.inr (Or.inr (Or.inr (Or.inr (Or.inr (Or.inr (Or.inl ⟨_, .addFL _ hr, h⟩))))))
          · cases h
        · cases h
      -- removeFlowLimiter
      · split at h
        · split at h
          · rename_i hr
            exact Or.inr (Or.inr (Or.inr (Or.inr (Or.inr (Or.inr (Or.inl ⟨_, .removeFL _ hr, h⟩))))))
          · cases h
        · cases h
      -- transferFlowLimiter
      · split at h
        · split at h
          · rename_i hr
            exact Or.inr (Or.inr (Or.inr (Or.inr (Or.inr (Or.inr (Or.inl ⟨_, .transferFL _ _ hr, h⟩))))))
          · cases h
        · cases h
      -- setFlowLimit
      · exact Or.inr (Or.inr (Or.inl ⟨_, rfl, h⟩))
      -- giveToken
      · split at h
        · exact Or.inl ⟨_, _, rfl, h⟩
        · cases h
      -- mint
      · split at h
        · exact Or.inr (Or.inr (Or.inr (Or.inl ⟨_, _, rfl, h⟩)))
        · cases h
      -- transferOperatorship
      · split at h
        · split at h
          · rename_i hr
            exact Or.inr (Or.inr (Or.inr (Or.inr (Or.inr (Or.inr (Or.inl ⟨_, .transferOp _ hr, h⟩))))))
          · cases h
        · cases h
      -- proposeOperatorship
      · split at h
        · split at h
          · rename_i hr
            exact Or.inr (Or.inr (Or.inr (Or.inr (Or.inr (Or.inr (Or.inl ⟨_, .proposeOp _ hr, h⟩))))))
          · cases h
        · cases h
      -- acceptOperatorship
      · split at h
        · exact Or.inr (Or.inr (Or.inr (Or.inr (Or.inr (Or.inr (Or.inl ⟨_, .acceptOp _, h⟩))))))
        · cases h
      -- transferMintership
      · split at h
        · split at h
          · rename_i hr
            exact Or.inr (Or.inr (Or.inr (Or.inr (Or.inr (Or.inr (Or.inl ⟨_, .transferMint _ hr, h⟩))))))
          · cases h
        · cases h
      -- proposeMintership
      · split at h
        · split at h
          · rename_i hr
            exact Or.inr (Or.inr (Or.inr (Or.inr (Or.inr (Or.inr (Or.inl ⟨_, .proposeMint _ hr, h⟩))))))
          · cases h
        · cases h
      -- acceptMintership
      · split at h
        · exact Or.inr (Or.inr (Or.inr (Or.inr (Or.inr (Or.inr (Or.inl ⟨_, .acceptMint _, h⟩))))))
        · cases h
      -- views
      all_goals (
        repeat' (first
          | (cases h; done)
          | (simp only [view] at h; cases h;
             exact Or.inr (Or.inr (Or.inr (Or.inr (Or.inr (Or.inr (Or.inr ⟨rfl, rfl, rfl⟩)))))))
          | split at h))

end Axelar.TokenManager

namespace Axelar.TokenManager
open Axelar Codec

theorem roleStep_same (st : State) (ctx : Ctx) (func : String) (r : Except Err (State × List Ev))
    (out : Out) (hr : RoleStep st ctx func r) (hro : roleOut r = .ok out) :
    SameRest st out.st ∧ out.effects = [] ∧ out.issue = none := by
  refine roleOut_same st r out ?_ hro
  intro st' evs hre
  cases hr with
  | addFL a _ => cases hre; exact addRole_same _ _ _
  | removeFL a _ => cases hre; exact removeRole_same _ _ _
  | transferFL a b _ => exact transferRole_same _ _ _ _ _ _ hre
  | transferOp a _ => exact transferRole_same _ _ _ _ _ _ hre
  | proposeOp a _ => exact proposeRole_same _ _ _ _ _ _ hre
  | acceptOp a => exact acceptRole_same _ _ _ _ _ _ hre
  | transferMint a _ => exact transferRole_same _ _ _ _ _ _ hre
  | proposeMint a _ => exact proposeRole_same _ _ _ _ _ _ hre
  | acceptMint a => exact acceptRole_same _ _ _ _ _ _ hre

theorem intersects_remove (a r : Roles) : intersects (remove a r) r = false := by
  obtain ⟨a1, a2, a3⟩ := a
  obtain ⟨r1, r2, r3⟩ := r
  cases a1 <;> cases a2 <;> cases a3 <;> cases r1 <;> cases r2 <;> cases r3 <;> rfl

theorem addRole_roles (st : State) (a : Bytes) (r : Roles) :
    (addRole st a r).1.roles = upd st.roles a (insert (st.roles a) r) ∧
    (addRole st a r).1.proposed = st.proposed := ⟨rfl, rfl⟩

theorem removeRole_roles (st : State) (a : Bytes) (r : Roles) :
    (removeRole st a r).1.roles = upd st.roles a (remove (st.roles a) r) ∧
    (removeRole st a r).1.proposed = st.proposed := ⟨rfl, rfl⟩

theorem transferRole_ok (st st' : State) (src dst : Bytes) (r : Roles) (evs : List Ev)
    (h : transferRole st src dst r = .ok (st', evs)) :
    contains (st.roles src) r = true ∧
    st'.roles = upd (upd st.roles src (remove (st.roles src) r)) dst
      (insert (upd st.roles src (remove (st.roles src) r) dst) r) ∧
    st'.proposed = st.proposed := by
  unfold transferRole at h
  split at h
  · rename_i hc
    cases h
    exact ⟨hc, rfl, rfl⟩
  · cases h

end Axelar.TokenManager
