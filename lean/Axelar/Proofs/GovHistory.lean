/-
  All-histories accounting of the governance time lock: over every sequence of authenticated
  commands, dispatches, deliveries of callbacks (one per dispatch, in any order, with any
  outcome) and other endpoint calls, the number of dispatches of a proposal whose call
  succeeded never exceeds the number of times it was scheduled.
-/
import Axelar.Model.Governance
namespace Axelar.Governance
open Axelar Codec

/-- the contract with ghost history: time-lock dispatches in flight (registered, callback not yet
    run), and per proposal hash the number of accepted schedule commands and of dispatches whose
    call succeeded -/
structure Hist where
  st : State
  inflight : List Dispatch := []
  scheduled : Bytes → Nat := fun _ => 0
  succeeded : Bytes → Nat := fun _ => 0

/-- one step of a history; the schedule chooses freely among them.  Callbacks run once per
    registered dispatch (`erase`), in any order, with the outcome the schedule dictates.
    `other` stands for every endpoint / callback that leaves the time locks alone (operator
    proposals, withdrawals, operatorship) — `C12.locks_and_approvals_frame`. -/
inductive Step (C : Crypto) : Hist → Hist → Prop
  | command (h : Hist) (now : Nat) (cmd : Command) (t cd : Bytes) (v eta : Nat) (st' : State) (evs : List Ev) :
      processCommand C h.st now cmd t cd v eta = .ok (st', evs) →
      Step C h { h with st := st',
                        scheduled := if cmd = .schedule then
                          upd h.scheduled (proposalHash C t cd v) (h.scheduled (proposalHash C t cd v) + 1)
                          else h.scheduled }
  | dispatch (h : Hist) (ctx : Ctx) (t cd : Bytes) (v : Nat) (out : Out) (d : Dispatch) :
      executeProposal C h.st ctx t cd v = .ok out → out.dispatch = some d →
      Step C h { h with st := out.st, inflight := d :: h.inflight }
  | callbackOk (h : Hist) (d : Dispatch) (rs : List Bytes) :
      d ∈ h.inflight → d.operatorProposal = false →
      Step C h { h with st := (callback h.st d true rs).st, inflight := h.inflight.erase d,
                        succeeded := upd h.succeeded d.hash (h.succeeded d.hash + 1) }
  | callbackFail (h : Hist) (d : Dispatch) (rs : List Bytes) :
      d ∈ h.inflight → d.operatorProposal = false →
      Step C h { h with st := (callback h.st d false rs).st, inflight := h.inflight.erase d }
  | other (h : Hist) (st' : State) : st'.eta = h.st.eta → Step C h { h with st := st' }

/-- number of time-lock dispatches of `x` in flight -/
def flying (l : List Dispatch) (x : Bytes) : Nat := (l.filter (fun d => d.hash == x)).length

def live (st : State) (x : Bytes) : Nat := if st.eta x ≠ 0 then 1 else 0

/-- the accounting invariant, per proposal hash -/
def Inv (h : Hist) : Prop := ∀ x, live h.st x + flying h.inflight x + h.succeeded x ≤ h.scheduled x

theorem flying_cons (d : Dispatch) (l : List Dispatch) (x : Bytes) :
    flying (d :: l) x = (if d.hash = x then 1 else 0) + flying l x := by
  unfold flying
  by_cases h : d.hash = x
  · simp [List.filter, h]; omega
  · have : (d.hash == x) = false := by simpa using h
    simp [List.filter, this, h]

theorem flying_erase (d : Dispatch) (l : List Dispatch) (x : Bytes) (hm : d ∈ l) :
    flying (l.erase d) x + (if d.hash = x then 1 else 0) = flying l x := by
  induction l with
  | nil => cases hm
  | cons a l ih =>
    by_cases ha : a = d
    · subst ha
      simp only [List.erase_cons_head, flying_cons]
      omega
    · have hm' : d ∈ l := by
        cases hm with
        | head => exact absurd rfl ha
        | tail _ h => exact h
      have hne : (a == d) = false := by simpa using ha
      rw [List.erase_cons_tail (by simpa using ha)]
      simp only [flying_cons]
      have := ih hm'
      omega

theorem schedule_eta (st : State) (now : Nat) (hash : Bytes) (eta : Nat) (st' : State) (eta' : Nat)
    (h : scheduleTimeLock st now hash eta = .ok (st', eta')) :
    st.eta hash = 0 ∧ (∀ h', h' ≠ hash → st'.eta h' = st.eta h') := by
  simp only [scheduleTimeLock] at h
  split at h
  · cases h
  · rename_i h0
    split at h
    · cases h
      exact ⟨by simpa using h0, fun h' hne => by simp [upd, hne]⟩
    · cases h

theorem live_le_one (st : State) (x : Bytes) : live st x ≤ 1 := by unfold live; split <;> omega

theorem live_congr (s s' : State) (x : Bytes) (h : s'.eta x = s.eta x) : live s' x = live s x := by
  unfold live; rw [h]

theorem live_zero (s : State) (x : Bytes) (h : s.eta x = 0) : live s x = 0 := by unfold live; simp [h]

theorem finalize_eta (st : State) (now : Nat) (hash : Bytes) (st' : State) (eta : Nat)
    (h : finalizeTimeLock st now hash = .ok (st', eta)) :
    st.eta hash ≠ 0 ∧ st'.eta hash = 0 ∧ (∀ h', h' ≠ hash → st'.eta h' = st.eta h') := by
  simp only [finalizeTimeLock] at h
  split at h
  · cases h
  · rename_i h0
    split at h
    · cases h
    · cases h
      exact ⟨h0, by simp [upd], fun h' hne => by simp [upd, hne]⟩

/-- every step preserves the accounting -/
theorem step_inv (C : Crypto) (h h' : Hist) (hs : Step C h h') (hi : Inv h) : Inv h' := by
  cases hs with
  | command now cmd t cd v eta st' evs hp =>
    intro x
    have hx := hi x
    simp only
    unfold processCommand at hp
    cases cmd with
    | schedule =>
      simp only at hp
      cases hsch : scheduleTimeLock h.st now (proposalHash C t cd v) eta with
      | error e => simp [hsch] at hp
      | ok r =>
        obtain ⟨s2, eta'⟩ := r
        simp only [hsch, Except.ok.injEq, Prod.mk.injEq] at hp
        obtain ⟨rfl, _⟩ := hp
        obtain ⟨h0, hoth⟩ := schedule_eta _ _ _ _ _ _ hsch
        by_cases hxe : x = proposalHash C t cd v
        · subst hxe
          have hl0 : live h.st (proposalHash C t cd v) = 0 := by unfold live; simp [h0]
          have hl1 := live_le_one s2 (proposalHash C t cd v)
          simp only [if_true, upd] at *
          omega
        · have : live s2 x = live h.st x := by unfold live; rw [hoth x hxe]
          rw [this]
          simp only [if_true, upd, hxe, if_false]
          exact hx
    | cancel =>
      simp only [Except.ok.injEq, Prod.mk.injEq] at hp
      obtain ⟨rfl, _⟩ := hp
      simp only [reduceCtorEq, if_false]
      by_cases hxe : x = proposalHash C t cd v
      · subst hxe
        rw [live_zero _ _ (by simp [upd])]
        omega
      · rw [live_congr h.st _ x (by simp [upd, hxe])]
        exact hx
    | approveOperator =>
      simp only [Except.ok.injEq, Prod.mk.injEq] at hp
      obtain ⟨rfl, _⟩ := hp
      simp only [reduceCtorEq, if_false]
      exact hx
    | cancelOperator =>
      simp only [Except.ok.injEq, Prod.mk.injEq] at hp
      obtain ⟨rfl, _⟩ := hp
      simp only [reduceCtorEq, if_false]
      exact hx
  | dispatch ctx t cd v out d he hd =>
    intro x
    have hx := hi x
    simp only
    unfold executeProposal at he
    cases hf : finalizeTimeLock h.st ctx.now (proposalHash C t cd v) with
    | error e => simp [hf] at he
    | ok r =>
      obtain ⟨s2, eta⟩ := r
      simp only [hf] at he
      cases hpd : prepareDispatch ctx cd true with
      | error e => simp [hpd] at he
      | ok na =>
        obtain ⟨name, args⟩ := na
        simp only [hpd, Except.ok.injEq] at he
        subst he
        simp only [Option.some.injEq] at hd
        subst hd
        obtain ⟨h0, hz, hoth⟩ := finalize_eta _ _ _ _ _ hf
        rw [flying_cons]
        by_cases hxe : x = proposalHash C t cd v
        · subst hxe
          have hl1 : live h.st (proposalHash C t cd v) = 1 := by unfold live; simp [h0]
          have hl0 : live s2 (proposalHash C t cd v) = 0 := live_zero _ _ hz
          simp only [hl0, if_true]
          omega
        · have hl : live s2 x = live h.st x := live_congr _ _ _ (hoth x hxe)
          have hne : ¬ proposalHash C t cd v = x := fun e => hxe e.symm
          simp only [hl, hne, if_false]
          omega
  | callbackOk d rs hm hop =>
    intro x
    have hx := hi x
    have hfe := flying_erase d h.inflight x hm
    simp only [callback, if_true]
    by_cases hxe : d.hash = x
    · subst hxe
      simp only [if_true, upd] at *
      omega
    · have hne : ¬ x = d.hash := fun e => hxe e.symm
      simp only [hxe, if_false, upd, hne] at *
      omega
  | callbackFail d rs hm hop =>
    intro x
    have hx := hi x
    have hfe := flying_erase d h.inflight x hm
    -- the failure branch credits the payments (time locks untouched) and writes the eta back
    have heta : ∀ y, (callback h.st d false rs).st.eta y = if y = d.hash then d.eta else h.st.eta y := by
      intro y
      simp only [callback, Bool.false_eq_true, if_false, hop]
      have hc : ∀ (s : State) (c : Bytes) (p : Payments), (creditPayments s c p).eta = s.eta := by
        intro s c p
        cases p with
        | egld v => rfl
        | esdt l =>
          simp only [creditPayments]
          induction l generalizing s with
          | nil => rfl
          | cons a l ih => simp only [List.foldl_cons]; rw [ih]
      by_cases hy : y = d.hash
      · subst hy; simp [upd]
      · simp [upd, hy, hc]
    have hl : live (callback h.st d false rs).st x ≤ live h.st x + (if d.hash = x then 1 else 0) := by
      unfold live
      rw [heta x]
      by_cases hxe : d.hash = x
      · subst hxe; simp; split <;> split <;> omega
      · have hne : ¬ x = d.hash := fun e => hxe e.symm
        simp [hne, hxe]
    simp only
    omega
  | other st' he =>
    intro x
    have hx := hi x
    have : live st' x = live h.st x := by unfold live; rw [he]
    simp only [this]
    exact hx

/-- histories: any finite sequence of steps -/
inductive Reach (C : Crypto) : Hist → Hist → Prop
  | refl (h : Hist) : Reach C h h
  | step (a b c : Hist) : Reach C a b → Step C b c → Reach C a c

theorem reach_inv (C : Crypto) (a b : Hist) (hr : Reach C a b) (hi : Inv a) : Inv b := by
  induction hr with
  | refl => exact hi
  | step b c _ hs ih => exact step_inv C _ _ hs ih

/-- a freshly deployed contract satisfies the invariant trivially -/
theorem init_inv (st : State) (h0 : ∀ x, st.eta x = 0) : Inv { st := st } := by
  intro x
  simp [live, h0, flying]

end Axelar.Governance
