/-
  Counting machinery for operator proposals over every governance history (used by Props/C12Count.lean).
-/
import Axelar.Props.C12
import Axelar.Proofs.GovLedger
namespace Axelar.Governance
open Axelar Codec

structure Cnt where
  st : State
  inflight : List Dispatch := []
  /-- ghost: accepted approve-operator commands per proposal hash -/
  approvedCmds : Bytes → Nat := fun _ => 0
  /-- ghost: operator dispatches whose call succeeded, per proposal hash -/
  opSucceeded : Bytes → Nat := fun _ => 0

/-- the proposal hash an approve-operator command names -/
def approveHash (C : Crypto) (payload : Bytes) : Option Bytes :=
  match top decExecutePayload payload with
  | some (.approveOperator, t, cd, v, _) => some (proposalHash C t cd v)
  | _ => none

def stepCnt (C : Crypto) (h : Cnt) : GOp → Cnt
  | .call ctx func args =>
    match call C h.st ctx func args with
    | .error _ => h
    | .ok out => { h with st := out.st, inflight := out.dispatch.toList ++ h.inflight }
  | .command gw ctx chain id src payload =>
    match execute C h.st gw ctx chain id src payload with
    | .error _ => h
    | .ok (st', _, _, _) =>
      { h with st := st',
               approvedCmds := match approveHash C payload with
                 | some x => upd h.approvedCmds x (h.approvedCmds x + 1)
                 | none => h.approvedCmds }
  | .cb d ok rs =>
    if d ∈ h.inflight then
      { h with st := (callback h.st d ok rs).st,
               inflight := h.inflight.erase d,
               opSucceeded := if ok = true ∧ d.operatorProposal = true
                 then upd h.opSucceeded d.hash (h.opSucceeded d.hash + 1) else h.opSucceeded }
    else h

def runCnt (C : Crypto) (h : Cnt) (ops : List GOp) : Cnt := ops.foldl (stepCnt C) h

def opWeight (d : Dispatch) (x : Bytes) : Nat := if d.operatorProposal = true ∧ d.hash = x then 1 else 0
def opFlying (l : List Dispatch) (x : Bytes) : Nat := (l.map (opWeight · x)).sum
def opLive (st : State) (x : Bytes) : Nat := if st.approvals x = true then 1 else 0

def CntInv (h : Cnt) : Prop := ∀ x, opLive h.st x + opFlying h.inflight x + h.opSucceeded x ≤ h.approvedCmds x

theorem opFlying_cons (d : Dispatch) (l : List Dispatch) (x : Bytes) :
    opFlying (d :: l) x = opWeight d x + opFlying l x := by simp [opFlying]

theorem opFlying_erase (d : Dispatch) (l : List Dispatch) (x : Bytes) (hm : d ∈ l) :
    opFlying (l.erase d) x + opWeight d x = opFlying l x := by
  induction l with
  | nil => cases hm
  | cons a l ih =>
    by_cases ha : a = d
    · subst ha
      simp only [List.erase_cons_head, opFlying_cons]
      omega
    · have hm' : d ∈ l := by
        cases hm with
        | head => exact absurd rfl ha
        | tail _ h => exact h
      rw [List.erase_cons_tail (by simpa using ha)]
      simp only [opFlying_cons]
      have := ih hm'
      omega

theorem opLive_le_one (st : State) (x : Bytes) : opLive st x ≤ 1 := by unfold opLive; split <;> omega

theorem creditPayments_approvals (st : State) (who : Bytes) (p : Payments) :
    (creditPayments st who p).approvals = st.approvals := by
  cases p with
  | egld v => rfl
  | esdt l =>
    simp only [creditPayments]
    induction l generalizing st with
    | nil => rfl
    | cons x l ih => simp only [List.foldl_cons]; rw [ih]

/-- what a callback does to the approvals -/
theorem callback_approvals (st : State) (d : Dispatch) (ok : Bool) (rs : List Bytes) :
    (callback st d ok rs).st.approvals =
      if ok = false ∧ d.operatorProposal = true then upd st.approvals d.hash true else st.approvals := by
  cases ok with
  | true => simp [callback]
  | false =>
    cases hd : d.operatorProposal with
    | true => simp [callback, hd, creditPayments_approvals]
    | false => simp [callback, hd, creditPayments_approvals]

/-- what a successful endpoint call does to the approvals and which dispatch it registers -/
theorem call_approvals (C : Crypto) (st : State) (ctx : Ctx) (func : String) (args : List Bytes) (out : Out)
    (h : call C st ctx func args = .ok out) :
    (∃ d, out.dispatch = some d ∧ d.operatorProposal = true ∧ st.approvals d.hash = true ∧
        out.st.approvals = upd st.approvals d.hash false) ∨
    ((∀ d, out.dispatch = some d → d.operatorProposal = false) ∧ out.st.approvals = st.approvals) := by
  unfold call at h
  split at h
  · right
    split at h
    · simp only [executeProposal] at h
      split at h
      · cases h
      · rename_i st' eta hf
        split at h
        · cases h
        · cases h
          refine ⟨fun d hd => by cases hd; rfl, ?_⟩
          simp only [finalizeTimeLock] at hf
          split at hf
          · cases hf
          · split at hf
            · cases hf
            · cases hf; rfl
    · cases h
  · left
    split at h
    · simp only [executeOperatorProposal] at h
      split at h
      · cases h
      · split at h
        · cases h
        · rename_i ha
          split at h
          · cases h
          · cases h
            exact ⟨_, rfl, rfl, by simpa using ha, rfl⟩
    · cases h
  · right
    split at h
    · cases h
    · split at h
      all_goals (
        repeat' (first
          | (cases h; done)
          | (cases h; exact ⟨fun d hd => by simp [withdrawRefundToken] at hd, rfl⟩)
          | split at h))

/-- a successful `execute` decoded its payload and ran `process_command` on it -/
theorem execute_cases (C : Crypto) (st : State) (gw : Gateway.State) (ctx : Ctx) (chain id src payload : Bytes)
    (st' : State) (gw' : Gateway.State) (e1 e2 : List Ev)
    (h : execute C st gw ctx chain id src payload = .ok (st', gw', e1, e2)) :
    ∃ cmd t cd v eta evs, top decExecutePayload payload = some (cmd, t, cd, v, eta) ∧
      processCommand C st ctx.now cmd t cd v eta = .ok (st', evs) := by
  unfold execute at h
  repeat' (first | (cases h; done) | split at h)
  all_goals (
    cases h
    exact ⟨_, _, _, _, _, _, by assumption, by assumption⟩)

theorem processCommand_approvals (C : Crypto) (st : State) (now : Nat) (cmd : Command) (t cd : Bytes) (v eta : Nat)
    (st' : State) (evs : List Ev) (hp : processCommand C st now cmd t cd v eta = .ok (st', evs)) :
    st'.approvals = match cmd with
      | .approveOperator => upd st.approvals (proposalHash C t cd v) true
      | .cancelOperator => upd st.approvals (proposalHash C t cd v) false
      | _ => st.approvals := by
  unfold processCommand at hp
  cases cmd with
  | schedule =>
    simp only at hp
    split at hp
    · cases hp
    · rename_i s2 eta' hs
      cases hp
      simp only [scheduleTimeLock] at hs
      split at hs
      · cases hs
      · split at hs
        · cases hs; rfl
        · cases hs
  | cancel => simp only [Except.ok.injEq, Prod.mk.injEq] at hp; obtain ⟨rfl, _⟩ := hp; rfl
  | approveOperator => simp only [Except.ok.injEq, Prod.mk.injEq] at hp; obtain ⟨rfl, _⟩ := hp; rfl
  | cancelOperator => simp only [Except.ok.injEq, Prod.mk.injEq] at hp; obtain ⟨rfl, _⟩ := hp; rfl

theorem step_cntInv (C : Crypto) (h : Cnt) (op : GOp) (hi : CntInv h) : CntInv (stepCnt C h op) := by
  cases op with
  | call ctx func args =>
    simp only [stepCnt]
    cases hc : call C h.st ctx func args with
    | error e => exact hi
    | ok out =>
      simp only
      intro x
      have hx := hi x
      rcases call_approvals C h.st ctx func args out hc with ⟨d, hd, hop, hap, hst⟩ | ⟨hno, hst⟩
      · simp only [hd, Option.toList, List.cons_append, List.nil_append, opFlying_cons]
        by_cases hdx : d.hash = x
        · subst hdx
          have l1 : opLive out.st d.hash = 0 := by simp [opLive, hst, upd]
          have l0 : opLive h.st d.hash = 1 := by simp [opLive, hap]
          have w1 : opWeight d d.hash = 1 := by simp [opWeight, hop]
          omega
        · have l1 : opLive out.st x = opLive h.st x := by
            have : x ≠ d.hash := fun e => hdx e.symm
            simp [opLive, hst, upd, this]
          have w0 : opWeight d x = 0 := by simp [opWeight, hdx]
          omega
      · have l1 : opLive out.st x = opLive h.st x := by simp [opLive, hst]
        cases hd : out.dispatch with
        | none => simpa [Option.toList, l1] using hx
        | some d =>
          have w0 : opWeight d x = 0 := by simp [opWeight, hno d hd]
          simp only [Option.toList, List.cons_append, List.nil_append, opFlying_cons]
          omega
  | command gw ctx chain id src payload =>
    simp only [stepCnt]
    cases hc : execute C h.st gw ctx chain id src payload with
    | error e => exact hi
    | ok r =>
      obtain ⟨st', gw', e1, e2⟩ := r
      simp only
      intro x
      have hx := hi x
      obtain ⟨cmd, t, cd, v, eta, evs, hdec, hp⟩ := execute_cases C h.st gw ctx chain id src payload st' gw' e1 e2 hc
      have hap := processCommand_approvals C h.st ctx.now cmd t cd v eta st' evs hp
      cases cmd with
      | approveOperator =>
        simp only at hap
        simp only [approveHash, hdec]
        by_cases hk : x = proposalHash C t cd v
        · subst hk
          have := opLive_le_one h.st (proposalHash C t cd v)
          have l1 : opLive st' (proposalHash C t cd v) = 1 := by simp [opLive, hap, upd]
          simp only [upd, if_true]
          by_cases hl : h.st.approvals (proposalHash C t cd v) = true
          · have l0 : opLive h.st (proposalHash C t cd v) = 1 := by simp [opLive, hl]
            omega
          · have l0 : opLive h.st (proposalHash C t cd v) = 0 := by simp [opLive, hl]
            omega
        · have l1 : opLive st' x = opLive h.st x := by simp [opLive, hap, upd, hk]
          simp only [upd, hk, if_false]
          omega
      | cancelOperator =>
        simp only at hap
        simp only [approveHash, hdec]
        have l1 : opLive st' x ≤ opLive h.st x := by
          by_cases hk : x = proposalHash C t cd v
          · subst hk; simp [opLive, hap, upd]
          · simp [opLive, hap, upd, hk]
        omega
      | cancel =>
        simp only at hap
        simp only [approveHash, hdec]
        have l1 : opLive st' x = opLive h.st x := by simp [opLive, hap]
        omega
      | schedule =>
        simp only at hap
        simp only [approveHash, hdec]
        have l1 : opLive st' x = opLive h.st x := by simp [opLive, hap]
        omega
  | cb d ok rs =>
    simp only [stepCnt]
    by_cases hm : d ∈ h.inflight
    · simp only [hm, if_true]
      intro x
      have hx := hi x
      have he := opFlying_erase d h.inflight x hm
      have hca := callback_approvals h.st d ok rs
      cases ok with
      | true =>
        have l1 : opLive (callback h.st d true rs).st x = opLive h.st x := by simp [opLive, hca]
        by_cases hop : d.operatorProposal = true
        · by_cases hdx : d.hash = x
          · subst hdx
            have w1 : opWeight d d.hash = 1 := by simp [opWeight, hop]
            simp only [hop, and_self, if_true, upd]
            omega
          · have w0 : opWeight d x = 0 := by simp [opWeight, hdx]
            have : x ≠ d.hash := fun e => hdx e.symm
            simp only [hop, and_self, if_true, upd, this, if_false]
            omega
        · have w0 : opWeight d x = 0 := by simp [opWeight, hop]
          rw [if_neg (fun hh => hop hh.2)]
          simp only
          omega
      | false =>
        simp only [Bool.false_eq_true, false_and, if_false]
        by_cases hop : d.operatorProposal = true
        · by_cases hdx : d.hash = x
          · subst hdx
            have w1 : opWeight d d.hash = 1 := by simp [opWeight, hop]
            have := opLive_le_one (callback h.st d false rs).st d.hash
            omega
          · have w0 : opWeight d x = 0 := by simp [opWeight, hdx]
            have : x ≠ d.hash := fun e => hdx e.symm
            have l1 : opLive (callback h.st d false rs).st x = opLive h.st x := by
              simp [opLive, hca, hop, upd, this]
            omega
        · have w0 : opWeight d x = 0 := by simp [opWeight, hop]
          have l1 : opLive (callback h.st d false rs).st x = opLive h.st x := by simp [opLive, hca, hop]
          omega
    · simp only [hm, if_false]; exact hi

theorem run_cntInv (C : Crypto) (ops : List GOp) (h : Cnt) (hi : CntInv h) : CntInv (runCnt C h ops) := by
  induction ops generalizing h with
  | nil => exact hi
  | cons op ops ih => exact ih _ (step_cntInv C h op hi)

end Axelar.Governance
