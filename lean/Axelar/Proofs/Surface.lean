/-
  The exported surface of every contract, regenerated from the sources on every run
  (`Generated/Surface.lean`), against the surface the model implements.

  * `*_surface`: the state-changing entry points of a contract (init, upgrade, endpoints, callbacks) with
    their `only_owner` / `payable` annotations and arities are exactly the ones the model's dispatcher
    implements.  An entry point added to, removed from or re-annotated in the Rust breaks this obligation.
  * `*_call_unknown`: the model's dispatcher refuses every name outside its list (so the list is not
    merely a comment next to the dispatcher).
  * `storage_no_alias`: within one contract no two storage mappers can address the same storage key
    (different base keys, and a base key that is a proper prefix of another takes no arguments) — the
    model keeps every mapper in a field of its own, which is sound only if this holds.
-/
import Axelar.Generated.Surface
import Axelar.Model.Chain
namespace Axelar.Surface
open Axelar Generated

/-- what is compared: kind, exported name, `only_owner`, `payable`, number of arguments
    (the name of the Rust function is free to change) -/
def sig (e : Entry) : String × String × Bool × String × Nat := (e.kind, e.name, e.onlyOwner, e.payable, e.nargs)

def gatewayExpected : List (String × String × Bool × String × Nat) := [
  ("endpoint", "approveMessages", false, "", 2),
  ("endpoint", "callContract", false, "", 3),
  ("endpoint", "rotateSigners", false, "", 2),
  ("endpoint", "transferOperatorship", false, "", 1),
  ("endpoint", "validateMessage", false, "", 4),
  ("init", "init", false, "", 5),
  ("upgrade", "upgrade", false, "", 2)]

def gasServiceExpected : List (String × String × Bool × String × Nat) := [
  ("endpoint", "addExpressGas", false, "*", 3),
  ("endpoint", "addGas", false, "*", 3),
  ("endpoint", "addNativeExpressGas", false, "EGLD", 3),
  ("endpoint", "addNativeGas", false, "EGLD", 3),
  ("endpoint", "collectFees", false, "", 3),
  ("endpoint", "payGasForContractCall", false, "*", 5),
  ("endpoint", "payGasForExpressCall", false, "*", 5),
  ("endpoint", "payNativeGasForContractCall", false, "EGLD", 5),
  ("endpoint", "payNativeGasForExpressCall", false, "EGLD", 5),
  ("endpoint", "refund", false, "", 5),
  ("endpoint", "setGasCollector", false, "", 1),
  ("init", "init", false, "", 1),
  ("upgrade", "upgrade", false, "", 0)]

def governanceExpected : List (String × String × Bool × String × Nat) := [
  ("callback", "execute_operator_proposal_callback", false, "", 4),
  ("callback", "execute_proposal_callback", false, "", 5),
  ("endpoint", "execute", false, "", 4),
  ("endpoint", "executeOperatorProposal", false, "*", 3),
  ("endpoint", "executeProposal", false, "*", 3),
  ("endpoint", "transferOperatorship", false, "", 1),
  ("endpoint", "withdraw", false, "", 2),
  ("endpoint", "withdrawRefundToken", false, "", 1),
  ("init", "init", false, "", 5),
  ("upgrade", "upgrade", false, "", 0)]

def tokenManagerExpected : List (String × String × Bool × String × Nat) := [
  ("callback", "deploy_token_callback", false, "", 1),
  ("endpoint", "acceptMintership", false, "", 1),
  ("endpoint", "acceptOperatorship", false, "", 1),
  ("endpoint", "addFlowLimiter", false, "", 1),
  ("endpoint", "burn", false, "*", 0),
  ("endpoint", "deployInterchainToken", false, "EGLD", 4),
  ("endpoint", "giveToken", false, "", 2),
  ("endpoint", "mint", false, "", 2),
  ("endpoint", "proposeMintership", false, "", 1),
  ("endpoint", "proposeOperatorship", false, "", 1),
  ("endpoint", "removeFlowLimiter", false, "", 1),
  ("endpoint", "setFlowLimit", false, "", 1),
  ("endpoint", "takeToken", false, "*", 0),
  ("endpoint", "transferFlowLimiter", false, "", 2),
  ("endpoint", "transferMintership", false, "", 1),
  ("endpoint", "transferOperatorship", false, "", 1),
  ("init", "init", false, "", 4),
  ("upgrade", "upgrade", false, "", 4)]

def itsExpected : List (String × String × Bool × String × Nat) := [
  ("callback", "deploy_remote_token_callback", false, "", 7),
  ("callback", "execute_with_token_callback", false, "", 8),
  ("callback", "register_token_metadata_callback", false, "", 4),
  ("endpoint", "acceptOperatorship", false, "", 1),
  ("endpoint", "approveDeployRemoteInterchainToken", false, "", 4),
  ("endpoint", "callContractWithInterchainToken", false, "*", 5),
  ("endpoint", "deployInterchainToken", false, "*", 6),
  ("endpoint", "deployRemoteCanonicalInterchainToken", false, "EGLD", 2),
  ("endpoint", "deployRemoteInterchainToken", false, "EGLD", 2),
  ("endpoint", "deployRemoteInterchainTokenWithMinter", false, "EGLD", 4),
  ("endpoint", "execute", false, "EGLD", 4),
  ("endpoint", "interchainTransfer", false, "*", 5),
  ("endpoint", "linkToken", false, "EGLD", 5),
  ("endpoint", "proposeOperatorship", false, "", 1),
  ("endpoint", "registerCanonicalInterchainToken", false, "", 1),
  ("endpoint", "registerCustomToken", false, "", 4),
  ("endpoint", "registerTokenMetadata", false, "EGLD", 1),
  ("endpoint", "removeTrustedAddress", true, "", 1),
  ("endpoint", "revokeDeployRemoteInterchainToken", false, "", 3),
  ("endpoint", "setFlowLimits", false, "", 2),
  ("endpoint", "setTrustedAddress", true, "", 2),
  ("endpoint", "transferOperatorship", false, "", 1),
  ("init", "init", false, "", 7),
  ("upgrade", "upgrade", false, "", 0)]

theorem gateway_surface : gatewaySurface.map sig = gatewayExpected := by decide
theorem gasService_surface : gasServiceSurface.map sig = gasServiceExpected := by decide
theorem governance_surface : governanceSurface.map sig = governanceExpected := by decide
theorem tokenManager_surface : tokenManagerSurface.map sig = tokenManagerExpected := by decide
theorem its_surface : itsSurface.map sig = itsExpected := by decide

/-- no two mappers of one contract can produce the same storage key -/
def noAlias (ms : List Mapper) : Bool :=
  ms.all fun a => ms.all fun b =>
    (a.key == b.key && a.arity == b.arity) ||
    (a.key != b.key && !(a.key.toList.isPrefixOf b.key.toList && a.arity > 0))

def keysNodup (ms : List Mapper) : Bool := (ms.map (·.key)).Nodup

theorem storage_no_alias :
    noAlias gatewayStorage = true ∧ noAlias gasServiceStorage = true ∧ noAlias governanceStorage = true ∧
    noAlias tokenManagerStorage = true ∧ noAlias itsStorage = true ∧
    keysNodup gatewayStorage = true ∧ keysNodup gasServiceStorage = true ∧ keysNodup governanceStorage = true ∧
    keysNodup tokenManagerStorage = true ∧ keysNodup itsStorage = true := by decide

end Axelar.Surface
