/-
  The exported surface of a contract, regenerated from the sources on every run
  (`Generated/Surface.lean`), against the surface the model implements — see SurfaceDefs.lean.
-/
import Axelar.Proofs.SurfaceDefs
import Axelar.Generated.Constants
namespace Axelar.Surface
open Axelar Generated

def itsExpected : List (String × String × Bool × String × Nat) := [
  ("callback", "deploy_remote_token_callback", false, "", 0),
  ("callback", "execute_with_token_callback", false, "", 0),
  ("callback", "register_token_metadata_callback", false, "", 0),
  ("endpoint", "acceptOperatorship", false, "", 1),
  ("endpoint", "approveDeployRemoteInterchainToken", false, "", 4),
  ("endpoint", "callContractWithInterchainToken", false, "*", 5),
  ("endpoint", "deployInterchainToken", false, "*", 6),
  ("endpoint", "deployRemoteCanonicalInterchainToken", false, "EGLD", 2),
  ("endpoint", "deployRemoteInterchainToken", false, "EGLD", 2),
  ("endpoint", "deployRemoteInterchainTokenWithMinter", false, "EGLD", 4),
  ("endpoint", "execute", false, "EGLD", 4),
  ("endpoint", "interchainTransfer", false, "*", 5),
  ("endpoint", "linkToken", false, "EGLD", 5),
  ("endpoint", "proposeOperatorship", false, "", 1),
  ("endpoint", "registerCanonicalInterchainToken", false, "", 1),
  ("endpoint", "registerCustomToken", false, "", 4),
  ("endpoint", "registerTokenMetadata", false, "EGLD", 1),
  ("endpoint", "removeTrustedAddress", true, "", 1),
  ("endpoint", "revokeDeployRemoteInterchainToken", false, "", 3),
  ("endpoint", "setFlowLimits", false, "", 2),
  ("endpoint", "setTrustedAddress", true, "", 2),
  ("endpoint", "transferOperatorship", false, "", 1),
  ("init", "init", false, "", 7),
  ("upgrade", "upgrade", false, "", 0)]

theorem its_surface : itsSurface.map sig = itsExpected := by decide

theorem its_storage_no_alias : noAlias itsStorage = true ∧ keysNodup itsStorage = true := by decide

/-- the storage mappers of the contract are exactly the fields the model's state has (a mapper the model does not know
    is state the theorems do not cover; the harness emulates its absence on contracts deployed by earlier code: `wipe`) -/
theorem its_storage_keys : itsStorage.map (·.key) = ["account_roles", "approved_destination_minters", "chain_name", "chain_name_hash", "gas_service", "gateway", "proposed_roles", "token_manager", "token_manager_address", "transfer_with_data_lock", "trusted_address"] := by decide


end Axelar.Surface

namespace Axelar.Surface
/-- **Gas reserved for the transfer-with-data callback** (C08: the callback that takes the tokens back must not run
    out of gas; not exhibitable in the debug VM, tied statically) -/
theorem its_callback_gas_reserved :
    Generated.ITS_EXECUTE_WITH_TOKEN_CALLBACK_GAS ≥ 20000000 ∧ Generated.ITS_KEEP_EXTRA_GAS ≥ 15000000 := by decide
end Axelar.Surface
