/-
  Ledger equations: how every balance (every account, EGLD and every ESDT key) changes through
  payments, sends, token-manager effects and synchronous calls.

  `Led w w' out inn` says: for EVERY account `x` and EVERY asset `k`
      balance of x in w'  +  out x k  =  balance of x in w  +  inn x k .
  The additive form needs no distinctness hypotheses (payer = payee, manager = recipient … are
  all covered by the same equation) and composes by adding equations.
-/
import Axelar.Proofs.Balances
import Axelar.Proofs.TokenManagerProofs
import Axelar.Proofs.BytesLemmas
namespace Axelar.World
open Axelar

/-- an asset: `none` = EGLD, `some key` = an ESDT balance key -/
abbrev Asset := Option Bytes

abbrev Amt := Bytes → Asset → Nat

def Led (w w' : World) (out inn : Amt) : Prop :=
  ∀ x k, balanceOf w' x k + out x k = balanceOf w x k + inn x k

/-- nothing -/
def nil : Amt := fun _ _ => 0
/-- `n` of asset `k` at account `a` -/
def pt (a : Bytes) (k : Asset) (n : Nat) : Amt := fun x k' => if x = a ∧ k' = k then n else 0
/-- pointwise sum -/
def plus (f g : Amt) : Amt := fun x k => f x k + g x k

theorem Led.refl (w : World) : Led w w nil nil := fun _ _ => rfl

theorem Led.trans {a b c : World} {o1 i1 o2 i2 : Amt} (h1 : Led a b o1 i1) (h2 : Led b c o2 i2) :
    Led a c (plus o1 o2) (plus i1 i2) := by
  intro x k
  have e1 := h1 x k
  have e2 := h2 x k
  simp only [plus]
  omega

/-- the same change described by other (equivalent) amounts -/
theorem Led.conv {w w' : World} {o i o' i' : Amt} (h : Led w w' o i)
    (he : ∀ x k, o x k + i' x k = o' x k + i x k) : Led w w' o' i' := by
  intro x k
  have e1 := h x k
  have e2 := he x k
  omega

/-- worlds with the same accounts have the same balances -/
theorem Led.of_accts {w w' : World} (h : w'.accts = w.accts) : Led w w' nil nil := by
  intro x k
  cases k <;> simp [balanceOf, h, nil]

theorem Led.same {w w' : World} (h : Led w w' nil nil) (x : Bytes) (k : Asset) :
    balanceOf w' x k = balanceOf w x k := by
  have := h x k
  simpa [nil] using this

/-! ### primitives -/

theorem led_addEgld (w : World) (a : Bytes) (n : Nat) : Led w (addEgld w a n) nil (pt a none n) := by
  intro x k
  cases k with
  | none =>
    by_cases hx : x = a
    · subst hx; simp [balanceOf, addEgld, upd, pt, nil]
    · simp [balanceOf, addEgld, upd, pt, nil, hx]
  | some t =>
    by_cases hx : x = a
    · subst hx; simp [balanceOf, addEgld, upd, pt, nil]
    · simp [balanceOf, addEgld, upd, pt, nil, hx]

theorem led_subEgld (w w' : World) (a : Bytes) (n : Nat) (h : subEgld w a n = some w') :
    Led w w' (pt a none n) nil := by
  simp only [subEgld] at h
  split at h
  · rename_i hge
    cases h
    intro x k
    cases k with
    | none =>
      by_cases hx : x = a
      · subst hx; simp [balanceOf, upd, pt, nil]; omega
      · simp [balanceOf, upd, pt, nil, hx]
    | some t =>
      by_cases hx : x = a
      · subst hx; simp [balanceOf, upd, pt, nil]
      · simp [balanceOf, upd, pt, nil, hx]
  · cases h

theorem led_addEsdt (w : World) (a t : Bytes) (n : Nat) : Led w (addEsdt w a t n) nil (pt a (some t) n) := by
  intro x k
  cases k with
  | none =>
    by_cases hx : x = a
    · subst hx; simp [balanceOf, addEsdt, upd, pt, nil]
    · simp [balanceOf, addEsdt, upd, pt, nil, hx]
  | some t' =>
    by_cases hx : x = a
    · subst hx
      by_cases ht : t' = t
      · subst ht; simp [balanceOf, addEsdt, upd, pt, nil]
      · simp [balanceOf, addEsdt, upd, pt, nil, ht]
    · simp [balanceOf, addEsdt, upd, pt, nil, hx]

theorem led_subEsdt (w w' : World) (a t : Bytes) (n : Nat) (h : subEsdt w a t n = some w') :
    Led w w' (pt a (some t) n) nil := by
  simp only [subEsdt] at h
  split at h
  · rename_i hge
    cases h
    intro x k
    cases k with
    | none =>
      by_cases hx : x = a
      · subst hx; simp [balanceOf, upd, pt, nil]
      · simp [balanceOf, upd, pt, nil, hx]
    | some t' =>
      by_cases hx : x = a
      · subst hx
        by_cases ht : t' = t
        · subst ht; simp [balanceOf, upd, pt, nil]; omega
        · simp [balanceOf, upd, pt, nil, ht]
      · simp [balanceOf, upd, pt, nil, hx]
  · cases h

/-- a direct transfer moves exactly `n` of `k` from `src` to `dst` -/
theorem led_send (w w' : World) (src dst : Bytes) (k : Asset) (n : Nat) (h : send w src dst k n = some w') :
    Led w w' (pt src k n) (pt dst k n) := by
  cases k with
  | none =>
    simp only [send, Option.map_eq_some_iff] at h
    obtain ⟨w0, h0, rfl⟩ := h
    exact ((led_subEgld _ _ _ _ h0).trans (led_addEgld _ _ _)).conv (by intro x k; simp [plus, nil])
  | some t =>
    simp only [send, Option.map_eq_some_iff] at h
    obtain ⟨w0, h0, rfl⟩ := h
    exact ((led_subEsdt _ _ _ _ _ h0).trans (led_addEsdt _ _ _ _)).conv (by intro x k; simp [plus, nil])

/-- total amount of asset `k` in a payment -/
def payAmt (e : Nat) (l : List (Bytes × Nat × Nat)) (k : Asset) : Nat :=
  (if k = none then e else 0) + (l.map fun p => if k = some (esdtKey p.1 p.2.1) then p.2.2 else 0).sum

/-- a payment moves exactly its amounts, asset by asset, from the payer to the payee -/
theorem led_pay (src dst : Bytes) (e : Nat) (l : List (Bytes × Nat × Nat)) (w w' : World)
    (h : pay w src dst e l = some w') :
    Led w w' (fun x k => if x = src then payAmt e l k else 0) (fun x k => if x = dst then payAmt e l k else 0) := by
  induction l generalizing w with
  | nil =>
    simp only [pay] at h
    split at h
    · rename_i w1 hs
      cases h
      refine ((led_subEgld _ _ _ _ hs).trans (led_addEgld _ _ _)).conv ?_
      intro x k
      simp only [plus, nil, pt, payAmt, List.map_nil, List.sum_nil, Nat.add_zero, Nat.zero_add]
      by_cases h1 : x = src
      · subst h1
        by_cases h2 : x = dst
        · subst h2
          by_cases h3 : k = none <;> simp [h3]
        · by_cases h3 : k = none <;> simp [h2, h3]
      · by_cases h2 : x = dst
        · subst h2
          by_cases h3 : k = none <;> simp [h1, h3]
        · by_cases h3 : k = none <;> simp [h1, h2, h3]
    · cases h
  | cons p l ih =>
    obtain ⟨tok, n, amt⟩ := p
    simp only [pay] at h
    split at h
    · rename_i w1 hs
      have h2 := ih _ h
      refine (((led_subEsdt _ _ _ _ _ hs).trans (led_addEsdt _ _ _ _)).trans h2).conv ?_
      intro x k
      simp only [plus, nil, pt, payAmt, List.map_cons, List.sum_cons]
      by_cases h1 : x = src
      · subst h1
        by_cases h2 : x = dst
        · subst h2
          by_cases h3 : k = some (esdtKey tok n) <;> simp [h3] <;> omega
        · by_cases h3 : k = some (esdtKey tok n) <;> simp [h2, h3] <;> omega
      · by_cases h2 : x = dst
        · subst h2
          by_cases h3 : k = some (esdtKey tok n) <;> simp [h1, h3] <;> omega
        · by_cases h3 : k = some (esdtKey tok n) <;> simp [h1, h2, h3]
    · cases h

/-- only account balances differ ⇒ the other components can be read off either world -/
theorem BalOnly.tms {w w' : World} (h : BalOnly w w') : w'.tms = w.tms := by rw [h]
theorem BalOnly.now {w w' : World} (h : BalOnly w w') : w'.now = w.now := by rw [h]
theorem BalOnly.its {w w' : World} (h : BalOnly w w') : w'.its = w.its := by rw [h]
theorem BalOnly.gs {w w' : World} (h : BalOnly w w') : w'.gs = w.gs := by rw [h]
theorem BalOnly.owner {w w' : World} (h : BalOnly w w') : w'.owner = w.owner := by rw [h]

/-! ### token-manager effects -/

theorem led_effects_nil (w w' : World) (tm : Bytes) (h : applyEffects w tm [] = some w') : Led w w' nil nil := by
  simp only [applyEffects, Option.some.injEq] at h
  subst h
  exact Led.refl _

/-- unlock: one send -/
theorem led_effects_send (w w' : World) (tm dest : Bytes) (k : Asset) (n : Nat)
    (h : applyEffects w tm [.send dest k n] = some w') : Led w w' (pt tm k n) (pt dest k n) := by
  simp only [applyEffects] at h
  split at h
  · rename_i w1 hs
    simp only [Option.some.injEq] at h
    subst h
    exact led_send _ _ _ _ _ _ hs
  · cases h

/-- mint then send: the supply grows by `n`, all of it ends at the destination -/
theorem led_effects_mint_send (w w' : World) (tm dest t : Bytes) (n : Nat)
    (h : applyEffects w tm [.mint t n, .send dest (some t) n] = some w') :
    w.mintRole (tm, t) = true ∧ Led w w' nil (pt dest (some t) n) := by
  simp only [applyEffects] at h
  split at h
  · rename_i hr
    split at h
    · rename_i w1 hs
      simp only [Option.some.injEq] at h
      subst h
      refine ⟨hr, ((led_addEsdt w tm t n).trans (led_send _ _ _ _ _ _ hs)).conv ?_⟩
      intro x k
      simp only [plus, nil, pt]
      by_cases h1 : x = tm ∧ k = some t <;> by_cases h2 : x = dest ∧ k = some t <;> simp [h1, h2]
    · cases h
  · cases h

/-- burn: the supply shrinks by `n`, taken from the manager's balance -/
theorem led_effects_burn (w w' : World) (tm t : Bytes) (n : Nat)
    (h : applyEffects w tm [.burn t n] = some w') :
    w.burnRole (tm, t) = true ∧ Led w w' (pt tm (some t) n) nil := by
  simp only [applyEffects] at h
  split at h
  · cases h
  · rename_i hr
    split at h
    · rename_i w1 hs
      simp only [Option.some.injEq] at h
      subst h
      exact ⟨by simpa using hr, led_subEsdt _ _ _ _ _ hs⟩
    · cases h

end Axelar.World
