/-
  Frame reasoning for the token service, generic in the relation: for a reflexive, transitive
  relation `R` on the service's storage, `PresR R m` says every successful run of `m` moves the
  storage within `R`.  Instantiated for the approvals table (C19) and the transfer-with-data
  lock (C08).
-/
import Axelar.Proofs.ItsFrame
namespace Axelar.ItsW
open Axelar Codec Its

class Rel (R : Its.State → Its.State → Prop) : Prop where
  refl : ∀ s, R s s
  trans : ∀ {a b c}, R a b → R b c → R a c

class PresR (R : Its.State → Its.State → Prop) {α : Type} (m : M α) : Prop where
  h : ∀ t a t', m t = some (a, t') → R t.w.its t'.w.its

instance presR_of_keeps {R : Its.State → Its.State → Prop} [hr : Rel R] {α : Type} {m : M α} [hk : Keeps m] :
    PresR R m :=
  ⟨fun t a t' h => by rw [hk.h t a t' h]; exact hr.refl _⟩

theorem presR_bind {R : Its.State → Its.State → Prop} [hr : Rel R] {α β : Type} {m : M α} {f : α → M β}
    (hm : PresR R m) (hf : ∀ a, PresR R (f a)) : PresR R (m >>= f) := by
  refine ⟨?_⟩
  intro t b t' h
  simp only [run_bind] at h
  cases hx : m t with
  | none => simp [hx] at h
  | some x =>
    obtain ⟨a, t1⟩ := x
    simp only [hx] at h
    exact hr.trans (hm.h t a t1 hx) ((hf a).h t1 b t' h)

instance presR_bind_inst {R : Its.State → Its.State → Prop} [Rel R] {α β : Type} {m : M α} {f : α → M β}
    [hm : PresR R m] [hf : ∀ a, PresR R (f a)] : PresR R (m >>= f) := presR_bind hm hf

/-- runs that start with the service's storage equal to `s0` -/
structure PresRFrom (R : Its.State → Its.State → Prop) {α : Type} (s0 : Its.State) (m : M α) : Prop where
  h : ∀ t a t', t.w.its = s0 → m t = some (a, t') → R s0 t'.w.its

theorem PresR.from {R : Its.State → Its.State → Prop} {α : Type} {m : M α} (hp : PresR R m) (s0 : Its.State) :
    PresRFrom R s0 m :=
  ⟨fun t a t' e h => e ▸ hp.h t a t' h⟩

theorem presR_of_from {R : Its.State → Its.State → Prop} {α : Type} {m : M α} (h : ∀ s0, PresRFrom R s0 m) :
    PresR R m :=
  ⟨fun t a t' hr => (h t.w.its).h t a t' rfl hr⟩

theorem presRFrom_getI_bind {R : Its.State → Its.State → Prop} {β : Type} {s0 : Its.State} {f : Its.State → M β}
    (h : PresRFrom R s0 (f s0)) : PresRFrom R s0 (getI >>= f) := by
  refine ⟨?_⟩
  intro t b t' e hr
  simp only [run_bind, run_getI] at hr
  rw [e] at hr
  exact h.h t b t' e hr

theorem presRFrom_keeps_bind {R : Its.State → Its.State → Prop} {α β : Type} {s0 : Its.State} {m : M α}
    {f : α → M β} [hk : Keeps m] (h : ∀ a, PresRFrom R s0 (f a)) : PresRFrom R s0 (m >>= f) := by
  refine ⟨?_⟩
  intro t b t' e hr
  simp only [run_bind] at hr
  cases hx : m t with
  | none => simp [hx] at hr
  | some x =>
    obtain ⟨a, t1⟩ := x
    simp only [hx] at hr
    exact (h a).h t1 b t' ((hk.h t a t1 hx).trans e) hr

theorem presRFrom_setI_bind {R : Its.State → Its.State → Prop} [hrel : Rel R] {β : Type} {s0 s' : Its.State}
    {f : Unit → M β} (hc : R s0 s') (h : ∀ a, PresR R (f a)) : PresRFrom R s0 (setI s' >>= f) := by
  refine ⟨?_⟩
  intro t b t' _ hr
  simp only [run_bind, run_setI] at hr
  exact hrel.trans hc ((h ()).h _ b t' hr)

theorem presRFrom_setI {R : Its.State → Its.State → Prop} {s0 s' : Its.State} (hc : R s0 s') :
    PresRFrom R s0 (setI s') := by
  refine ⟨?_⟩
  intro t b t' _ hr
  simp only [run_setI, Option.some.injEq, Prod.mk.injEq] at hr
  rw [← hr.2]; exact hc

theorem presRFrom_bind {R : Its.State → Its.State → Prop} [hrel : Rel R] {α β : Type} {s0 : Its.State}
    {m : M α} {f : α → M β} (hm : PresRFrom R s0 m) (hf : ∀ a, PresR R (f a)) : PresRFrom R s0 (m >>= f) := by
  refine ⟨?_⟩
  intro t b t' e hr
  simp only [run_bind] at hr
  cases hx : m t with
  | none => simp [hx] at hr
  | some x =>
    obtain ⟨a, t1⟩ := x
    simp only [hx] at hr
    exact hrel.trans (hm.h t a t1 e hx) ((hf a).h t1 b t' hr)

/-- structural descent for `PresR` goals -/
macro "presr" : tactic => `(tactic| repeat' (first
  | exact inferInstance | assumption | apply presR_bind | intro _ | split | (dsimp only; split)))

end Axelar.ItsW
