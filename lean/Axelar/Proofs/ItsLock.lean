/-
  C08, over every schedule: the transfer-with-data lock of a message, once set, stays set under
  every operation except the callback of that very delivery.
-/
import Axelar.Proofs.ItsRel
import Axelar.Proofs.ItsHistory
namespace Axelar.ItsW
open Axelar Codec Its

/-- every set lock stays set, except possibly the lock of `unlocked` -/
def LockRel (unlocked : Option (Bytes × Bytes)) (s s' : Its.State) : Prop :=
  ∀ k, s.lock k = true → s'.lock k = true ∨ unlocked = some k

instance lockRel_rel (u : Option (Bytes × Bytes)) : Rel (LockRel u) where
  refl := fun _ _ h => Or.inl h
  trans := by
    intro a b c h1 h2 k hk
    rcases h1 k hk with e | e
    · exact h2 k e
    · exact Or.inr e

theorem LockRel.of_eq {u : Option (Bytes × Bytes)} {s s' : Its.State} (h : s'.lock = s.lock) : LockRel u s s' :=
  fun k hk => Or.inl (by rw [h]; exact hk)

theorem LockRel.set {u : Option (Bytes × Bytes)} (s : Its.State) (k0 : Bytes × Bytes) :
    LockRel u s { s with lock := upd s.lock k0 true } := by
  intro k hk
  left
  by_cases e : k = k0
  · simp [upd, e]
  · simpa [upd, e] using hk

theorem LockRel.clear (s : Its.State) (k0 : Bytes × Bytes) :
    LockRel (some k0) s { s with lock := upd s.lock k0 false } := by
  intro k hk
  by_cases e : k = k0
  · exact Or.inr (by rw [e])
  · left; simpa [upd, e] using hk

macro "lockfrom" : tactic => `(tactic| repeat' (first
  | exact PresR.from inferInstance _
  | exact inferInstance
  | exact presRFrom_setI (by first | exact LockRel.of_eq rfl | exact LockRel.set _ _ | exact LockRel.clear _ _)
  | apply presRFrom_getI_bind
  | (refine presRFrom_setI_bind ?_ ?_; first | exact LockRel.of_eq rfl | exact LockRel.set _ _ | exact LockRel.clear _ _)
  | apply presRFrom_keeps_bind
  | (refine presRFrom_bind ?_ ?_)
  | assumption | intro _ | split | (dsimp only; split)))

variable (C : Crypto) (u : Option (Bytes × Bytes))

instance lock_deployTokenManagerRaw (cx : ICtx) (tokenId : Bytes) (ty : Nat) (token : Option Bytes)
    (opRaw : Bytes) : PresR (LockRel u) (deployTokenManagerRaw C cx tokenId ty token opRaw) := by
  refine ⟨?_⟩
  intro t addr t' h
  obtain ⟨_, _, h3, _⟩ := deployTokenManagerRaw_spec C cx tokenId ty token opRaw t t' addr h
  rw [h3]; exact LockRel.of_eq rfl

instance lock_executeWithToken (cx : ICtx) (a b c d e f g h i : Bytes) (n : Nat) :
    PresR (LockRel u) (executeWithToken C cx a b c d e f g h i n) := by
  apply presR_of_from; intro s0
  unfold executeWithToken
  lockfrom

instance lock_processInterchainTransfer (cx : ICtx) (a b c d e f : Bytes) :
    PresR (LockRel u) (processInterchainTransfer C cx a b c d e f) := by
  unfold processInterchainTransfer; presr
instance lock_processLinkToken (cx : ICtx) (a : Bytes) : PresR (LockRel u) (processLinkToken C cx a) := by
  unfold processLinkToken; presr
instance lock_processDeployInterchainToken (cx : ICtx) (a b c d e : Bytes) :
    PresR (LockRel u) (processDeployInterchainToken C cx a b c d e) := by
  unfold processDeployInterchainToken; presr
instance lock_execute (cx : ICtx) (a b c d : Bytes) : PresR (LockRel u) (execute C cx a b c d) := by
  unfold execute; presr
instance lock_deployInterchainTokenRaw (cx : ICtx) (a b c d : Bytes) (n : Nat) (m : Bytes) (e : Nat) :
    PresR (LockRel u) (deployInterchainTokenRaw C cx a b c d n m e) := by
  unfold deployInterchainTokenRaw; presr
instance lock_registerCustomTokenRaw (cx : ICtx) (a b : Bytes) (ty : Nat) (lp : Bytes) :
    PresR (LockRel u) (registerCustomTokenRaw C cx a b ty lp) := by
  unfold registerCustomTokenRaw; presr
instance lock_deployRemoteInterchainTokenRaw (cx : ICtx) (a b c d : Bytes) :
    PresR (LockRel u) (deployRemoteInterchainTokenRaw C cx a b c d) := by
  unfold deployRemoteInterchainTokenRaw; presr
instance lock_factoryDeployInterchainToken (cx : ICtx) (a b c : Bytes) (d s : Nat) (m : Bytes) :
    PresR (LockRel u) (factoryDeployInterchainToken C cx a b c d s m) := by
  unfold factoryDeployInterchainToken; presr
instance lock_deployRemoteTokenCallback (cx : ICtx) (a b c d : Bytes) (g : Nat) (caller : Bytes)
    (ok : Bool) (vals : List Bytes) : PresR (LockRel u) (deployRemoteTokenCallback C cx a b c d g caller ok vals) := by
  unfold deployRemoteTokenCallback; presr
instance lock_retUnlessAsync (m : M Bytes) [PresR (LockRel u) m] : PresR (LockRel u) (retUnlessAsync m) := by
  unfold retUnlessAsync; presr
instance lock_unit (m : M Unit) [PresR (LockRel u) m] : PresR (LockRel u) (ItsW.unit m) := by
  unfold ItsW.unit; presr
instance lock_roleOp (cx : ICtx) (f : TokenManager.State → Except TokenManager.Err (TokenManager.State × List Ev)) :
    PresR (LockRel u) (roleOp cx f) :=
  ⟨fun t r t' h => LockRel.of_eq (roleOp_step cx f t r t' h).lock⟩

theorem lock_useDeployApproval {s s' : Its.State} {a b c d : Bytes}
    (h : useDeployApproval C s a b c d = some s') : LockRel u s s' := by
  simp only [useDeployApproval] at h
  split at h
  · cases h; exact LockRel.of_eq rfl
  · cases h

instance lock_deployRemoteWithMinter (cx : ICtx) (a b c : Bytes) (dm : Option Bytes) :
    PresR (LockRel u) (deployRemoteWithMinter C cx a b c dm) := by
  unfold deployRemoteWithMinter
  apply presR_bind inferInstance; intro st
  refine presR_bind ?_ (fun _ => inferInstance)
  split
  · apply presR_bind inferInstance; intro _
    split
    · apply presR_of_from; intro s0
      apply presRFrom_getI_bind
      split
      · exact PresR.from inferInstance _
      · rename_i st' heq
        exact presRFrom_setI_bind (lock_useDeployApproval C u heq) (fun _ => inferInstance)
    · exact inferInstance
  · presr

instance lock_approveDeployRemote (cx : ICtx) (a b c d : Bytes) :
    PresR (LockRel u) (approveDeployRemote C cx a b c d) := by
  unfold approveDeployRemote
  apply presR_bind inferInstance; intro st
  apply presR_bind inferInstance; intro _
  apply presR_bind inferInstance; intro _
  apply presR_bind inferInstance; intro _
  apply presR_bind inferInstance; intro _
  apply presR_of_from; intro s0
  lockfrom

instance lock_revokeDeployRemote (cx : ICtx) (a b c : Bytes) :
    PresR (LockRel u) (revokeDeployRemote C cx a b c) := by
  apply presR_of_from; intro s0
  unfold revokeDeployRemote
  lockfrom

/-- the callback of a delivery clears exactly the lock of its own message -/
instance lock_executeWithTokenCallback (cx : ICtx) (a b c d e f : Bytes) (n : Nat) (ok : Bool) :
    PresR (LockRel (some (a, b))) (executeWithTokenCallback C cx a b c d e f n ok) := by
  apply presR_of_from; intro s0
  unfold executeWithTokenCallback
  lockfrom

set_option maxRecDepth 4000 in
/-- **No endpoint call ever clears a lock.** -/
instance lock_call (cx : ICtx) (func : String) (args : List Bytes) :
    PresR (LockRel none) (call C cx func args) := by
  apply presR_of_from; intro s0
  unfold call
  apply presRFrom_getI_bind
  repeat' (first
    | exact PresR.from inferInstance _
    | split)
  all_goals (
    unfold ItsW.unit
    lockfrom)

end Axelar.ItsW

namespace Axelar.World
open Axelar ItsW Its

/-- **Every operation of every schedule** leaves a set lock set — except the callback of a
    delivery of that very message. -/
theorem step_lock (C : Crypto) (w : World) (op : Op) (k : Bytes × Bytes) (hk : w.its.lock k = true) :
    (step C w op).its.lock k = true ∨
    ∃ id p its sa ph tid tok amount, op = .callback id ∧ findPending w.pending id = some p ∧
      p.result.isSome = true ∧ p.kind = .itsExecute its k.1 k.2 sa ph tid tok amount := by
  have hcall : ∀ (w1 : World) (src dst : Bytes) (func : String) (egld : Nat) (esdt : List (Bytes × Nat × Nat))
      (args : List Bytes) (w2 : World) (rs : List Bytes) (evs : List Event) (pd : List PendDesc),
      callContract C w1 src dst func egld esdt args = some (w2, rs, evs, pd) → w1.its.lock k = true →
      w2.its.lock k = true := by
    intro w1 src dst func egld esdt args w2 rs evs pd h hl
    unfold callContract at h
    split at h
    · split at h
      · rename_i rs1 w3 evs1 pd1 hr
        simp only [Option.some.injEq, Prod.mk.injEq] at h
        obtain ⟨rfl, _⟩ := h
        obtain ⟨t', hm, rfl⟩ := runIts_allowed _ _ _ _ _ _ hr
        rcases (lock_call C (itsCtx w1 src dst egld esdt) func args).h _ _ _ hm k hl with e | e
        · exact e
        · cases e
      · cases h
    · rw [callOther_keeps_its C w1 src dst func egld esdt args w2 rs evs pd h]; exact hl
  have hnone : ∀ {α : Type} (w0 : World) (m : M α) [hp : PresR (LockRel none) m] (a : α) (w1 : World)
      (evs : List Event) (pd : List PendDesc), runIts w0 m = some (a, w1, evs, pd) → w0.its.lock k = true →
      w1.its.lock k = true := by
    intro α w0 m hp a w1 evs pd hr hl
    obtain ⟨t', hm, rfl⟩ := runIts_allowed _ _ _ _ _ _ hr
    rcases hp.h _ _ _ hm k hl with e | e
    · exact e
    · cases e
  cases op with
  | env now accts mr br na => exact Or.inl hk
  | tx src dst func egld esdt args =>
    left
    simp only [step, tx]
    split
    · exact hk
    · rename_i w1 hp
      have hi := pay_its _ _ _ _ _ _ hp
      split
      · split
        · rw [hi]; exact hk
        · exact hk
      · split
        · rename_i w2 rs evs pd hc
          exact hcall w1 src dst func egld esdt args w2 rs evs pd hc (by rw [hi]; exact hk)
        · exact hk
  | deliver id how =>
    left
    simp only [step, deliver]
    split
    · exact hk
    · rename_i p hfp
      split
      · exact hk
      · cases how with
        | fail => exact hk
        | ok vals =>
          simp only
          split
          · exact hk
          · rename_i w1 hp
            have h1 := pay_its _ _ _ _ _ _ hp
            show w1.its.lock k = true
            rw [h1]; exact hk
        | real =>
          simp only
          split
          · exact hk
          · rename_i w1 hp
            have hi := pay_its _ _ _ _ _ _ hp
            split
            · rename_i w2 rs evs pd hc
              exact hcall w1 _ _ _ _ _ _ w2 rs evs pd hc (by rw [hi]; exact hk)
            · split
              · show w1.its.lock k = true
                rw [hi]; exact hk
              · exact hk
  | callback id =>
    simp only [step, callback]
    split
    · exact Or.inl hk
    · rename_i p hfp
      split
      · exact Or.inl hk
      · rename_i okFlag vals hres
        split
        · left
          split
          · exact hk
          · split
            · rename_i w1 rs evs pd hf
              have h1 := tmFinish_its _ _ _ _ _ _ _ hf
              show w1.its.lock k = true
              rw [h1]; exact hk
            · exact hk
        · left
          split
          · rename_i w1 rs evs pd hf
            have h1 := govFinish_its _ _ _ _ _ _ _ _ hf
            show w1.its.lock k = true
            rw [h1]; exact hk
          · exact hk
        · -- callback of a transfer-with-data delivery
          rename_i its sc mid sa ph tid tokRaw amount hkind
          split
          · rename_i u w1 evs pd hr
            obtain ⟨t', hm, rfl⟩ := runIts_allowed _ _ _ _ _ _ hr
            rcases (lock_executeWithTokenCallback C _ sc mid sa ph tid tokRaw amount okFlag).h _ _ _ hm k hk with e | e
            · exact Or.inl e
            · right
              simp only [Option.some.injEq] at e
              refine ⟨id, p, its, sa, ph, tid, tokRaw, amount, rfl, hfp, by rw [hres]; rfl, ?_⟩
              rw [hkind, ← e]
          · exact Or.inl hk
        · left
          split
          · rename_i u w1 evs pd hr
            exact hnone _ _ _ _ _ _ hr hk
          · exact hk
        · left
          split
          · rename_i u w1 evs pd hr
            exact hnone _ _ _ _ _ _ hr hk
          · exact hk

end Axelar.World
