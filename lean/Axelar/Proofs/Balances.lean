/-
  EGLD balances through payments, sends and calls: who loses and who gains how much.
-/
import Axelar.Proofs.GwHistory
import Axelar.Props.C15
namespace Axelar.World
open Axelar

/-- EGLD balance of an account -/
def egld (w : World) (a : Bytes) : Nat := (w.accts a).egld

/-- balances after moving `e` EGLD from `src` to `dst` -/
def movedEgld (w : World) (src dst : Bytes) (e : Nat) (x : Bytes) : Nat :=
  (if x = src then egld w x - e else egld w x) + (if x = dst then e else 0)

theorem subEgld_egld (w w' : World) (a : Bytes) (n : Nat) (h : subEgld w a n = some w') :
    n ≤ egld w a ∧ ∀ x, egld w' x = if x = a then egld w a - n else egld w x := by
  simp only [subEgld] at h
  split at h
  · rename_i hge
    cases h
    refine ⟨hge, fun x => ?_⟩
    by_cases hx : x = a
    · subst hx; simp [egld, upd]
    · simp [egld, upd, hx]
  · cases h

theorem addEgld_egld (w : World) (a : Bytes) (n : Nat) (x : Bytes) :
    egld (addEgld w a n) x = if x = a then egld w a + n else egld w x := by
  by_cases hx : x = a
  · subst hx; simp [egld, addEgld, upd]
  · simp [egld, addEgld, upd, hx]

theorem addEsdt_egld (w : World) (a t : Bytes) (n : Nat) (x : Bytes) : egld (addEsdt w a t n) x = egld w x := by
  by_cases hx : x = a
  · subst hx; simp [egld, addEsdt, upd]
  · simp [egld, addEsdt, upd, hx]

theorem subEsdt_egld (w w' : World) (a t : Bytes) (n : Nat) (h : subEsdt w a t n = some w') (x : Bytes) :
    egld w' x = egld w x := by
  simp only [subEsdt] at h
  split at h
  · cases h
    by_cases hx : x = a
    · subst hx; simp [egld, upd]
    · simp [egld, upd, hx]
  · cases h

/-- a payment moves exactly its EGLD value from the payer to the payee (ESDT parts do not touch EGLD) -/
theorem pay_egld (src dst : Bytes) (e : Nat) (l : List (Bytes × Nat × Nat)) (w w' : World)
    (h : pay w src dst e l = some w') : e ≤ egld w src ∧ ∀ x, egld w' x = movedEgld w src dst e x := by
  induction l generalizing w with
  | nil =>
    simp only [pay] at h
    split at h
    · rename_i w1 hs
      cases h
      obtain ⟨hle, h1⟩ := subEgld_egld _ _ _ _ hs
      refine ⟨hle, fun x => ?_⟩
      rw [addEgld_egld, h1 x, h1 dst]
      unfold movedEgld
      by_cases hxd : x = dst <;> by_cases hxs : x = src <;> by_cases hds : dst = src <;> simp_all <;> omega
    · cases h
  | cons p l ih =>
    obtain ⟨tok, n, amt⟩ := p
    simp only [pay] at h
    split at h
    · rename_i w1 hs
      obtain ⟨hle, h2⟩ := ih _ h
      have e1 : ∀ x, egld (addEsdt w1 dst (esdtKey tok n) amt) x = egld w x := fun x => by
        rw [addEsdt_egld, subEsdt_egld _ _ _ _ _ hs]
      refine ⟨by rw [← e1 src]; exact hle, fun x => ?_⟩
      rw [h2 x]
      unfold movedEgld
      rw [e1 x]
    · cases h

theorem send_egld (w w' : World) (src dst : Bytes) (n : Nat) (h : send w src dst none n = some w') :
    n ≤ egld w src ∧ ∀ x, egld w' x = movedEgld w src dst n x := by
  have : pay w src dst n [] = some w' := by
    simp only [send, Option.map_eq_some_iff] at h
    obtain ⟨w0, h0, rfl⟩ := h
    simp [pay, h0]
  exact pay_egld _ _ _ _ _ _ this

theorem movedEgld_zero (w : World) (src dst x : Bytes) : movedEgld w src dst 0 x = egld w x := by
  unfold movedEgld; by_cases h1 : x = src <;> by_cases h2 : x = dst <;> simp [h1, h2]

end Axelar.World

namespace Axelar.ItsW
open Axelar Codec Its World

/-- a synchronous call to the gateway moves no EGLD -/
theorem subcall_gateway_egld (C : Crypto) (cx : ICtx) (gwAddr : Bytes) (f : String) (args : List Bytes)
    (t t' : Tx) (rs : List Bytes) (hk : t.w.kind gwAddr = some .gateway)
    (h : subcall C cx gwAddr f 0 [] args t = some (rs, t')) : ∀ x, egld t'.w x = egld t.w x := by
  unfold subcall at h
  cases hp : World.pay t.w cx.self gwAddr 0 [] with
  | none => simp [hp] at h
  | some w1 =>
    simp only [hp] at h
    obtain ⟨_, he⟩ := pay_egld _ _ _ _ _ _ hp
    have hk1 : w1.kind gwAddr = some .gateway := by rw [(pay_bal _ _ _ _ _ _ hp).kind]; exact hk
    cases hc : World.callOther C w1 cx.self gwAddr f 0 [] args with
    | none => simp [hc] at h
    | some r =>
      obtain ⟨w2, rs2, evs, pd⟩ := r
      simp only [hc, Option.some.injEq, Prod.mk.injEq] at h
      obtain ⟨_, rfl⟩ := h
      unfold World.callOther at hc
      rw [hk1] at hc
      simp only at hc
      split at hc
      · cases hc
      · split at hc
        · cases hc
          intro x
          show egld w1 x = egld t.w x
          rw [he x, movedEgld_zero]
        · cases hc

/-- paying native gas moves exactly the value from the service to the gas service -/
theorem subcall_payNativeGas_egld (C : Crypto) (cx : ICtx) (gs : Bytes) (g : Nat) (args : List Bytes)
    (t t' : Tx) (rs : List Bytes) (hk : t.w.kind gs = some .gasService)
    (h : subcall C cx gs "payNativeGasForContractCall" g [] args t = some (rs, t')) :
    g ≤ egld t.w cx.self ∧ ∀ x, egld t'.w x = movedEgld t.w cx.self gs g x := by
  unfold subcall at h
  cases hp : World.pay t.w cx.self gs g [] with
  | none => simp [hp] at h
  | some w1 =>
    simp only [hp] at h
    obtain ⟨hle, he⟩ := pay_egld _ _ _ _ _ _ hp
    have hk1 : w1.kind gs = some .gasService := by rw [(pay_bal _ _ _ _ _ _ hp).kind]; exact hk
    cases hc : World.callOther C w1 cx.self gs "payNativeGasForContractCall" g [] args with
    | none => simp [hc] at h
    | some r =>
      obtain ⟨w2, rs2, evs, pd⟩ := r
      simp only [hc, Option.some.injEq, Prod.mk.injEq] at h
      obtain ⟨_, rfl⟩ := h
      refine ⟨hle, ?_⟩
      unfold World.callOther at hc
      rw [hk1] at hc
      simp only at hc
      split at hc
      · rename_i out hcall
        have hs : out.sends = [] := by
          cases hsl : out.sends with
          | nil => rfl
          | cons s l =>
            have := (Props.C15.outflow_only_by_collector C _ _ _ _ out hcall (by rw [hsl]; simp)).1
            rcases this with e | e <;> exact absurd e (by decide)
        rw [hs] at hc
        simp only [applySends, Option.some.injEq, Prod.mk.injEq] at hc
        obtain ⟨rfl, _⟩ := hc
        intro x
        show egld w1 x = movedEgld t.w cx.self gs g x
        exact he x
      · cases hc

end Axelar.ItsW

namespace Axelar.ItsW
open Axelar Codec Its World

/-- `call_contract` with native gas: exactly the gas value goes from the service to the gas
    service (nothing moves for zero gas), and the gateway was called -/
theorem callContract_native_egld (C : Crypto) (cx : ICtx) (dc da p : Bytes) (g : Nat) (t t' : Tx)
    (hkgs : t.w.kind t.w.its.gasService = some .gasService) (hkgw : t.w.kind t.w.its.gateway = some .gateway)
    (h : ItsW.callContract C cx dc da p none g t = some ((), t')) :
    g ≤ egld t.w cx.self ∧ ∀ x, egld t'.w x = movedEgld t.w cx.self t.w.its.gasService g x := by
  simp only [ItsW.callContract, run_bind, run_require, run_getI] at h
  by_cases hda : (!da.isEmpty) = true
  · simp only [hda, if_true] at h
    by_cases hg : g > 0
    · simp only [hg, if_true, run_bind, run_pure] at h
      cases hs : subcall C cx t.w.its.gasService "payNativeGasForContractCall" g [] [cx.self, dc, da, p, cx.caller] t with
      | none => simp [hs] at h
      | some x =>
        obtain ⟨rs, t1⟩ := x
        simp only [hs] at h
        obtain ⟨hle, he⟩ := subcall_payNativeGas_egld C cx _ g _ t t1 rs hkgs hs
        have hits := subcall_keeps_its _ _ _ _ _ _ _ _ _ _ hs
        cases hs2 : subcall C cx t.w.its.gateway "callContract" 0 [] [dc, da, p] t1 with
        | none => simp [hs2] at h
        | some y =>
          obtain ⟨rs2, t2⟩ := y
          simp only [hs2, run_pure, Option.some.injEq, Prod.mk.injEq, true_and] at h
          subst h
          have hk1 : t1.w.kind t.w.its.gateway = some .gateway := by
            -- kinds are not changed by a call to the gas service
            unfold subcall at hs
            cases hp : World.pay t.w cx.self t.w.its.gasService g [] with
            | none => simp [hp] at hs
            | some w1 =>
              simp only [hp] at hs
              cases hc : World.callOther C w1 cx.self t.w.its.gasService "payNativeGasForContractCall" g []
                  [cx.self, dc, da, p, cx.caller] with
              | none => simp [hc] at hs
              | some r =>
                obtain ⟨w2, rs3, evs, pd⟩ := r
                simp only [hc, Option.some.injEq, Prod.mk.injEq] at hs
                obtain ⟨_, rfl⟩ := hs
                have hk1' : w1.kind = t.w.kind := (pay_bal _ _ _ _ _ _ hp).kind
                unfold World.callOther at hc
                rw [hk1', hkgs] at hc
                simp only at hc
                split at hc
                · split at hc
                  · rename_i out hcall w3 hsd
                    cases hc
                    have e3 := (applySends_bal _ _ _ _ hsd).kind
                    simp only at e3
                    first
                      | (rw [e3, hk1']; exact hkgw)
                      | (rw [e3]; exact hkgw)
                      | (simp only [e3, hk1']; exact hkgw)
                      | exact hkgw
                  · cases hc
                · cases hc
          refine ⟨hle, fun x => ?_⟩
          rw [subcall_gateway_egld C cx _ _ _ t1 _ rs2 hk1 hs2 x, he x]
    · have hg0 : g = 0 := by omega
      subst hg0
      simp only [Nat.lt_irrefl, gt_iff_lt, if_false, run_bind, run_pure] at h
      cases hs2 : subcall C cx t.w.its.gateway "callContract" 0 [] [dc, da, p] t with
      | none => simp [hs2] at h
      | some y =>
        obtain ⟨rs2, t2⟩ := y
        simp only [hs2, run_pure, Option.some.injEq, Prod.mk.injEq, true_and] at h
        subst h
        refine ⟨Nat.zero_le _, fun x => ?_⟩
        rw [subcall_gateway_egld C cx _ _ _ t _ rs2 hkgw hs2 x, movedEgld_zero]
  · simp [hda] at h

end Axelar.ItsW
