/-
  The events of an outbound message: exactly one gateway contract-call event carrying the
  payload and its hash, preceded — for a non-zero gas value — by exactly one gas-paid event.
-/
import Axelar.Proofs.Balances
namespace Axelar.ItsW
open Axelar Codec Its World

/-- the gateway's `callContract`: one event, with the caller as sender and the hash of the payload -/
theorem subcall_gateway_callContract_events (C : Crypto) (cx : ICtx) (gwAddr c a p : Bytes) (t t' : Tx)
    (rs : List Bytes) (hk : t.w.kind gwAddr = some .gateway)
    (h : subcall C cx gwAddr "callContract" 0 [] [c, a, p] t = some (rs, t')) :
    t'.evs = t.evs ++ [⟨gwAddr, "contract_call_event", [cx.self, c, a, C.H p], [p]⟩] ∧ t'.pend = t.pend := by
  unfold subcall at h
  cases hp : World.pay t.w cx.self gwAddr 0 [] with
  | none => simp [hp] at h
  | some w1 =>
    simp only [hp] at h
    have hk1 : w1.kind gwAddr = some .gateway := by rw [(pay_bal _ _ _ _ _ _ hp).kind]; exact hk
    cases hc : World.callOther C w1 cx.self gwAddr "callContract" 0 [] [c, a, p] with
    | none => simp [hc] at h
    | some r =>
      obtain ⟨w2, rs2, evs, pd⟩ := r
      simp only [hc, Option.some.injEq, Prod.mk.injEq] at h
      obtain ⟨_, rfl⟩ := h
      unfold World.callOther at hc
      rw [hk1] at hc
      simp only [ne_eq, not_true_eq_false, decide_false, List.isEmpty_nil, Bool.not_true, Bool.or_self,
        Bool.false_eq_true, if_false] at hc
      have hg : Gateway.call C w1.gw ⟨cx.self, w1.owner gwAddr, w1.now⟩ "callContract" [c, a, p] =
          .ok (w1.gw, [], Gateway.callContract C cx.self c a p) := rfl
      rw [hg] at hc
      simp only [Option.some.injEq, Prod.mk.injEq] at hc
      obtain ⟨_, _, rfl, rfl⟩ := hc
      exact ⟨rfl, by simp⟩

/-- paying native gas: one gas-paid event naming the service as sender, the destination, the hash
    of the payload, the value, and the given refund address -/
theorem subcall_payNativeGas_events (C : Crypto) (cx : ICtx) (gs : Bytes) (g : Nat) (c a p refund : Bytes)
    (t t' : Tx) (rs : List Bytes) (hk : t.w.kind gs = some .gasService)
    (h : subcall C cx gs "payNativeGasForContractCall" g [] [cx.self, c, a, p, refund] t = some (rs, t')) :
    t'.evs = t.evs ++ [⟨gs, "native_gas_paid_for_contract_call_event", [cx.self, c, a],
      [GasService.nativeGasPaidData (C.H p) g refund]⟩] ∧ t'.pend = t.pend := by
  unfold subcall at h
  cases hp : World.pay t.w cx.self gs g [] with
  | none => simp [hp] at h
  | some w1 =>
    simp only [hp] at h
    have hk1 : w1.kind gs = some .gasService := by rw [(pay_bal _ _ _ _ _ _ hp).kind]; exact hk
    cases hc : World.callOther C w1 cx.self gs "payNativeGasForContractCall" g [] [cx.self, c, a, p, refund] with
    | none => simp [hc] at h
    | some r =>
      obtain ⟨w2, rs2, evs, pd⟩ := r
      simp only [hc, Option.some.injEq, Prod.mk.injEq] at h
      obtain ⟨_, rfl⟩ := h
      unfold World.callOther at hc
      rw [hk1] at hc
      simp only at hc
      split at hc
      · rename_i out hcall
        have hcall' : GasService.payNative C w1.gs ⟨cx.self, w1.owner gs, g, [], w1.balanceOf gs⟩
            "native_gas_paid_for_contract_call_event" [cx.self, c, a, p, refund] = .ok out := hcall
        obtain ⟨s', c', a', p', r', hargs, _, _, hs, _, hev⟩ := Props.C15.native_payment_event C _ _ _ _ out hcall'
        simp only [List.cons.injEq, and_true] at hargs
        obtain ⟨rfl, rfl, rfl, rfl, rfl⟩ := hargs
        rw [hs] at hc
        simp only [applySends, Option.some.injEq, Prod.mk.injEq] at hc
        obtain ⟨_, _, rfl, rfl⟩ := hc
        rw [hev]
        exact ⟨rfl, by simp⟩
      · cases hc

/-- **`call_contract` with native gas emits exactly**: (for a non-zero gas value) one gas-paid event
    for the same destination and payload hash with the caller of the service as refund address,
    then one gateway contract-call event whose payload hash is the hash of the payload. -/
theorem callContract_native_events (C : Crypto) (cx : ICtx) (dc da p : Bytes) (g : Nat) (t t' : Tx)
    (hkgs : t.w.kind t.w.its.gasService = some .gasService) (hkgw : t.w.kind t.w.its.gateway = some .gateway)
    (h : ItsW.callContract C cx dc da p none g t = some ((), t')) :
    t'.evs = t.evs ++
      (if g > 0 then [⟨t.w.its.gasService, "native_gas_paid_for_contract_call_event", [cx.self, dc, da],
          [GasService.nativeGasPaidData (C.H p) g cx.caller]⟩] else []) ++
      [⟨t.w.its.gateway, "contract_call_event", [cx.self, dc, da, C.H p], [p]⟩] := by
  simp only [ItsW.callContract, run_bind, run_require, run_getI] at h
  by_cases hda : (!da.isEmpty) = true
  · simp only [hda, if_true] at h
    by_cases hg : g > 0
    · simp only [hg, if_true, run_bind, run_pure] at h
      cases hs : subcall C cx t.w.its.gasService "payNativeGasForContractCall" g [] [cx.self, dc, da, p, cx.caller] t with
      | none => simp [hs] at h
      | some x =>
        obtain ⟨rs, t1⟩ := x
        simp only [hs] at h
        obtain ⟨he1, _⟩ := subcall_payNativeGas_events C cx _ g dc da p cx.caller t t1 rs hkgs hs
        cases hs2 : subcall C cx t.w.its.gateway "callContract" 0 [] [dc, da, p] t1 with
        | none => simp [hs2] at h
        | some y =>
          obtain ⟨rs2, t2⟩ := y
          simp only [hs2, run_pure, Option.some.injEq, Prod.mk.injEq, true_and] at h
          subst h
          -- the gateway is still the gateway after the gas-service call
          have hk1 : t1.w.kind t.w.its.gateway = some .gateway := by
            have hlife := (gwl_subcall C cx t.w.its.gasService "payNativeGasForContractCall" g []
              [cx.self, dc, da, p, cx.caller]).h t rs t1 hs
            unfold subcall at hs
            cases hp : World.pay t.w cx.self t.w.its.gasService g [] with
            | none => simp [hp] at hs
            | some w1 =>
              simp only [hp] at hs
              cases hc : World.callOther C w1 cx.self t.w.its.gasService "payNativeGasForContractCall" g []
                  [cx.self, dc, da, p, cx.caller] with
              | none => simp [hc] at hs
              | some r =>
                obtain ⟨w2, rs3, evs, pd⟩ := r
                simp only [hc, Option.some.injEq, Prod.mk.injEq] at hs
                obtain ⟨_, rfl⟩ := hs
                have hk1' : w1.kind = t.w.kind := (pay_bal _ _ _ _ _ _ hp).kind
                unfold World.callOther at hc
                rw [hk1', hkgs] at hc
                simp only at hc
                split at hc
                · split at hc
                  · rename_i out hcall w3 hsd
                    cases hc
                    have e3 := (applySends_bal _ _ _ _ hsd).kind
                    simp only at e3
                    first
                      | (rw [e3, hk1']; exact hkgw)
                      | (rw [e3]; exact hkgw)
                      | (simp only [e3, hk1']; exact hkgw)
                      | exact hkgw
                  · cases hc
                · cases hc
          obtain ⟨he2, _⟩ := subcall_gateway_callContract_events C cx _ dc da p t1 t2 rs2 hk1 hs2
          rw [he2, he1]
          simp [hg]
    · have hg0 : g = 0 := by omega
      subst hg0
      simp only [Nat.lt_irrefl, gt_iff_lt, if_false, run_bind, run_pure] at h
      cases hs2 : subcall C cx t.w.its.gateway "callContract" 0 [] [dc, da, p] t with
      | none => simp [hs2] at h
      | some y =>
        obtain ⟨rs2, t2⟩ := y
        simp only [hs2, run_pure, Option.some.injEq, Prod.mk.injEq, true_and] at h
        subst h
        obtain ⟨he2, _⟩ := subcall_gateway_callContract_events C cx _ dc da p t t2 rs2 hkgw hs2
        rw [he2]; simp
  · simp [hda] at h

end Axelar.ItsW
