/-
  All-histories frame of the token service's storage: what ANY operation of ANY schedule may
  change there.
-/
import Axelar.Model.History
import Axelar.Proofs.ItsFrame
namespace Axelar.World
open Axelar ItsW

theorem tmFinish_its (w : World) (dst : Bytes) (out : TokenManager.Out) (w' : World) (rs : List Bytes)
    (evs : List Event) (pd : List PendDesc) (h : tmFinish w dst out = some (w', rs, evs, pd)) :
    w'.its = w.its := by
  unfold tmFinish at h
  split at h
  · cases h
  · rename_i w1 he
    have h1 := applyEffects_its _ _ _ _ he
    split at h
    · cases h; exact h1
    · cases h; simp only [addPending]; exact h1

theorem govFinish_its (w : World) (dst : Bytes) (out : Governance.Out) (pre : List Event) (w' : World)
    (rs : List Bytes) (evs : List Event) (pd : List PendDesc)
    (h : govFinish w dst out pre = some (w', rs, evs, pd)) : w'.its = w.its := by
  unfold govFinish at h
  split at h
  · cases h
  · rename_i w1 hs
    have h1 := applySends_its _ _ _ _ hs
    split at h
    · cases h; exact h1
    · cases h; simp only [addPending]; exact h1

/-- the call `src → dst.func` is what operation `op` runs: a transaction, or the real delivery of
    a pending call registered by `src` -/
def Runs (w : World) (op : Op) (src dst : Bytes) (func : String) : Prop :=
  (∃ e es a, op = .tx src dst func e es a) ∨
  (∃ id p, op = .deliver id .real ∧ findPending w.pending id = some p ∧ p.src = src ∧ p.desc.to = dst ∧
    p.desc.func = func)

/-- what one operation may do to the service's storage -/
inductive ItsChange (w : World) (op : Op) (s s' : Its.State) : Prop
  | core : Core s s' → ItsChange w op s s'
  | owner (src dst : Bytes) (func : String) : Runs w op src dst func → w.kind dst = some .its →
      src = w.owner dst → func ∈ ownerOps → OwnerStep s s' → ItsChange w op s s'
  | roles (src dst : Bytes) (func : String) : Runs w op src dst func → w.kind dst = some .its →
      func ∈ roleOps → RolesStep s s' → ItsChange w op s s'

theorem runIts_allowed {α : Type} (w : World) (m : M α) (a : α) (w' : World) (evs : List Event)
    (pd : List PendDesc) (h : runIts w m = some (a, w', evs, pd)) :
    ∃ t', m { w := w } = some (a, t') ∧ t'.w = w' := by
  unfold runIts at h
  split at h
  · rename_i a1 t1 hm
    simp only [Option.some.injEq, Prod.mk.injEq] at h
    exact ⟨t1, by rw [hm, h.1], h.2.1⟩
  · cases h

/-- one contract call, whoever makes it -/
theorem callContract_allowed (C : Crypto) (w : World) (src dst : Bytes) (func : String) (egld : Nat)
    (esdt : List (Bytes × Nat × Nat)) (args : List Bytes) (w' : World) (rs : List Bytes) (evs : List Event)
    (pd : List PendDesc) (h : callContract C w src dst func egld esdt args = some (w', rs, evs, pd)) :
    Core w.its w'.its ∨
    (w.kind dst = some .its ∧ src = w.owner dst ∧ func ∈ ownerOps ∧ OwnerStep w.its w'.its) ∨
    (w.kind dst = some .its ∧ func ∈ roleOps ∧ RolesStep w.its w'.its) := by
  unfold callContract at h
  split at h
  · rename_i hk
    split at h
    · rename_i rs1 w1 evs1 pd1 hr
      simp only [Option.some.injEq, Prod.mk.injEq] at h
      obtain ⟨rfl, rfl, rfl, rfl⟩ := h
      obtain ⟨t', hm, rfl⟩ := runIts_allowed _ _ _ _ _ _ hr
      rcases call_allowed C _ func args _ _ _ hm with hc | ⟨ho, hf, hs⟩ | ⟨hf, hs⟩
      · exact Or.inl hc
      · exact Or.inr (Or.inl ⟨hk, ho, hf, hs⟩)
      · exact Or.inr (Or.inr ⟨hk, hf, hs⟩)
    · cases h
  · exact Or.inl (Core.of_eq (callOther_keeps_its C w src dst func egld esdt args w' rs evs pd h))

end Axelar.World

namespace Axelar.World
open Axelar ItsW

theorem ItsChange.of_eq {w : World} {op : Op} {s s' : Its.State} (h : s' = s) : ItsChange w op s s' :=
  .core (Core.of_eq h)

theorem runIts_pres {α : Type} (w : World) (m : M α) [hp : Pres m] (a : α) (w' : World) (evs : List Event)
    (pd : List PendDesc) (h : runIts w m = some (a, w', evs, pd)) : Core w.its w'.its := by
  obtain ⟨t', hm, rfl⟩ := runIts_allowed _ _ _ _ _ _ h
  exact hp.h _ _ _ hm

/-- **Every operation of every schedule** changes the token service's storage only within `Core`,
    unless it runs one of the four owner operations called by the service's owner, or one of the
    three operatorship operations. -/
theorem step_change (C : Crypto) (w : World) (op : Op) : ItsChange w op w.its (step C w op).its := by
  cases op with
  | env now accts mr br na => exact .of_eq rfl
  | tx src dst func egld esdt args =>
    simp only [step, tx]
    split
    · exact .of_eq rfl
    · rename_i w1 hp
      have hi := pay_its _ _ _ _ _ _ hp
      obtain ⟨_, hk, ho, _⟩ := pay_gw _ _ _ _ _ _ hp
      split
      · split
        · exact .of_eq hi
        · exact .of_eq rfl
      · split
        · rename_i w2 rs evs pd hc
          rcases callContract_allowed C w1 src dst func egld esdt args w2 rs evs pd hc with
            hcore | ⟨hk1, ho1, hf, hs⟩ | ⟨hk1, hf, hs⟩
          · exact .core (hi ▸ hcore)
          · exact .owner src dst func (Or.inl ⟨egld, esdt, args, rfl⟩) (hk ▸ hk1) (by rw [ho1, ho]) hf (hi ▸ hs)
          · exact .roles src dst func (Or.inl ⟨egld, esdt, args, rfl⟩) (hk ▸ hk1) hf (hi ▸ hs)
        · exact .of_eq rfl
  | deliver id how =>
    simp only [step, deliver]
    split
    · exact .of_eq rfl
    · rename_i p hfp
      split
      · exact .of_eq rfl
      · cases how with
        | fail => exact .of_eq rfl
        | ok vals =>
          simp only
          split
          · exact .of_eq rfl
          · rename_i w1 hp
            have h1 := pay_its _ _ _ _ _ _ hp
            exact .of_eq h1
        | real =>
          simp only
          split
          · exact .of_eq rfl
          · rename_i w1 hp
            have hi := pay_its _ _ _ _ _ _ hp
            obtain ⟨_, hk, ho, _⟩ := pay_gw _ _ _ _ _ _ hp
            split
            · rename_i w2 rs evs pd hc
              rcases callContract_allowed C w1 _ _ _ _ _ _ w2 rs evs pd hc with
                hcore | ⟨hk1, ho1, hf, hs⟩ | ⟨hk1, hf, hs⟩
              · exact .core (hi ▸ hcore)
              · exact .owner p.src p.desc.to p.desc.func (Or.inr ⟨id, p, rfl, hfp, rfl, rfl, rfl⟩) (hk ▸ hk1)
                  (by rw [ho1, ho]) hf (hi ▸ hs)
              · exact .roles p.src p.desc.to p.desc.func (Or.inr ⟨id, p, rfl, hfp, rfl, rfl, rfl⟩) (hk ▸ hk1)
                  hf (hi ▸ hs)
            · split
              · exact .of_eq hi
              · exact .of_eq rfl
  | callback id =>
    simp only [step, callback]
    split
    · exact .of_eq rfl
    · rename_i p hfp
      split
      · exact .of_eq rfl
      · rename_i okFlag vals hres
        split
        · -- token issuance callback
          split
          · exact .of_eq rfl
          · split
            · rename_i w1 rs evs pd hf
              have h1 := tmFinish_its _ _ _ _ _ _ _ hf
              exact .of_eq h1
            · exact .of_eq rfl
        · -- governance dispatch callback
          split
          · rename_i w1 rs evs pd hf
            have h1 := govFinish_its _ _ _ _ _ _ _ _ hf
            exact .of_eq h1
          · exact .of_eq rfl
        · split
          · rename_i u w1 evs pd hr
            have h1 := runIts_pres _ _ _ _ _ _ hr
            exact .core h1
          · exact .of_eq rfl
        · split
          · rename_i u w1 evs pd hr
            have h1 := runIts_pres _ _ _ _ _ _ hr
            exact .core h1
          · exact .of_eq rfl
        · split
          · rename_i u w1 evs pd hr
            have h1 := runIts_pres _ _ _ _ _ _ hr
            exact .core h1
          · exact .of_eq rfl

end Axelar.World

namespace Axelar.World
open Axelar ItsW

theorem step_binding (C : Crypto) (w : World) (op : Op) (id : Bytes) (h : w.its.tmAddress id ≠ []) :
    (step C w op).its.tmAddress id = w.its.tmAddress id := by
  rcases step_change C w op with hc | ⟨_, _, _, _, _, _, _, hs⟩ | ⟨_, _, _, _, _, _, hs⟩
  · exact hc.tm id h
  · rw [hs.tmAddress]
  · rw [hs.tmAddress]

/-- configuration of the service: never written after `init` -/
structure SameConfig (s s' : Its.State) : Prop where
  gateway : s'.gateway = s.gateway
  gasService : s'.gasService = s.gasService
  tmImpl : s'.tmImpl = s.tmImpl
  chainName : s'.chainName = s.chainName
  chainNameHash : s'.chainNameHash = s.chainNameHash

theorem step_config (C : Crypto) (w : World) (op : Op) : SameConfig w.its (step C w op).its := by
  rcases step_change C w op with hc | ⟨_, _, _, _, _, _, _, hs⟩ | ⟨_, _, _, _, _, _, hs⟩
  · exact ⟨hc.gateway, hc.gasService, hc.tmImpl, hc.chainName, hc.chainNameHash⟩
  · exact ⟨hs.gateway, hs.gasService, hs.tmImpl, hs.chainName, hs.chainNameHash⟩
  · exact ⟨hs.gateway, hs.gasService, hs.tmImpl, hs.chainName, hs.chainNameHash⟩

theorem run_binding (C : Crypto) (ops : List Op) (w : World) (id : Bytes) (h : w.its.tmAddress id ≠ []) :
    (run C w ops).its.tmAddress id = w.its.tmAddress id := by
  induction ops generalizing w with
  | nil => rfl
  | cons op ops ih =>
    simp only [run, List.foldl_cons]
    have h1 := step_binding C w op id h
    have := ih (step C w op) (by rw [h1]; exact h)
    simp only [run] at this
    rw [this, h1]

theorem run_config (C : Crypto) (ops : List Op) (w : World) : SameConfig w.its (run C w ops).its := by
  induction ops generalizing w with
  | nil => exact ⟨rfl, rfl, rfl, rfl, rfl⟩
  | cons op ops ih =>
    simp only [run, List.foldl_cons]
    have h1 := step_config C w op
    have h2 := ih (step C w op)
    simp only [run] at h2
    exact ⟨h2.gateway.trans h1.gateway, h2.gasService.trans h1.gasService, h2.tmImpl.trans h1.tmImpl,
      h2.chainName.trans h1.chainName, h2.chainNameHash.trans h1.chainNameHash⟩

end Axelar.World
