/-
  Pause effectiveness at the level of the endpoint dispatcher.
-/
import Axelar.Proofs.ItsFrame
namespace Axelar.ItsW
open Axelar Codec Its

/-- `m` fails (the transaction is rolled back) whenever the service is paused -/
class FP {α : Type} (m : M α) : Prop where
  h : ∀ t, t.w.its.paused = true → m t = none

instance fp_fail {α : Type} : FP (fail : M α) := ⟨fun _ _ => rfl⟩

instance fp_requireNotPaused : FP requireNotPaused := ⟨fun t h => requireNotPaused_paused t h⟩

theorem fp_bind_left {α β : Type} {m : M α} {f : α → M β} (hm : FP m) : FP (m >>= f) :=
  ⟨fun t h => by simp only [run_bind, hm.h t h]⟩

theorem fp_bind_keeps {α β : Type} {m : M α} {f : α → M β} (hk : Keeps m) (hf : ∀ a, FP (f a)) : FP (m >>= f) := by
  refine ⟨fun t h => ?_⟩
  simp only [run_bind]
  cases hx : m t with
  | none => rfl
  | some x =>
    obtain ⟨a, t1⟩ := x
    simp only
    exact (hf a).h t1 (by rw [hk.h t a t1 hx]; exact h)

instance (priority := high) fp_bind_left_inst {α β : Type} {m : M α} {f : α → M β} [hm : FP m] : FP (m >>= f) :=
  fp_bind_left hm
instance fp_bind_keeps_inst {α β : Type} {m : M α} {f : α → M β} [hk : Keeps m] [hf : ∀ a, FP (f a)] :
    FP (m >>= f) := fp_bind_keeps hk hf

/-- descend structurally -/
macro "fp" : tactic => `(tactic| repeat' (first
  | exact inferInstance | assumption | apply fp_bind_left | (apply fp_bind_keeps inferInstance; intro _) | split))

instance fp_execute (C : Crypto) (cx : ICtx) (a b c d : Bytes) : FP (execute C cx a b c d) := by
  unfold execute; fp
instance fp_interchainTransfer (C : Crypto) (cx : ICtx) (a b c : Bytes) (d : Option Bytes) (g : Nat) :
    FP (interchainTransfer C cx a b c d g) := by
  unfold interchainTransfer; fp
instance fp_deployInterchainTokenRaw (C : Crypto) (cx : ICtx) (a b c d : Bytes) (n : Nat) (m : Bytes) (e : Nat) :
    FP (deployInterchainTokenRaw C cx a b c d n m e) := by
  unfold deployInterchainTokenRaw; fp
instance fp_registerCustomTokenRaw (C : Crypto) (cx : ICtx) (a b : Bytes) (ty : Nat) (lp : Bytes) :
    FP (registerCustomTokenRaw C cx a b ty lp) := by
  unfold registerCustomTokenRaw; fp
instance fp_linkTokenRaw (C : Crypto) (cx : ICtx) (a b c : Bytes) (ty : Nat) (lp : Bytes) (g : Nat) :
    FP (linkTokenRaw C cx a b c ty lp g) := by
  unfold linkTokenRaw; fp
instance fp_deployRemoteInterchainTokenRaw (C : Crypto) (cx : ICtx) (a b c d : Bytes) :
    FP (deployRemoteInterchainTokenRaw C cx a b c d) := by
  unfold deployRemoteInterchainTokenRaw; fp
instance fp_factoryDeployInterchainToken (C : Crypto) (cx : ICtx) (a b c : Bytes) (d s : Nat) (m : Bytes) :
    FP (factoryDeployInterchainToken C cx a b c d s m) := by
  unfold factoryDeployInterchainToken; fp
instance fp_unit (m : M Unit) [FP m] : FP (ItsW.unit m) := by
  unfold ItsW.unit; fp
instance fp_retUnlessAsync (m : M Bytes) [FP m] : FP (retUnlessAsync m) := by
  unfold retUnlessAsync; fp

/-- `deployRemoteInterchainToken[WithMinter]`: the minter check and the approval use come first;
    they are sub-calls and a write to the approvals table, none of which touches the pause flag -/
instance fp_deployRemoteWithMinter (C : Crypto) (cx : ICtx) (a b c : Bytes) (dm : Option Bytes) :
    FP (deployRemoteWithMinter C cx a b c dm) := by
  refine ⟨fun t hp => ?_⟩
  unfold deployRemoteWithMinter
  simp only [run_bind, run_getI]
  -- whatever the first part does, it ends in a state that is still paused
  split
  · rfl
  · rename_i x dmRaw t1 hfirst
    have hpres : Pres (deployRemoteWithMinter C cx a b c dm) := inferInstance
    have : t1.w.its.paused = true := by
      -- the first part is a `Pres` computation
      have hp1 : Pres (if (!Gateway.isZeroAddr b) = true then do
            checkTokenMinter C cx (tokenIdRaw C (interchainTokenDeploySalt C t.w.its cx.caller a)) b
            match dm with
              | some dm => do
                match useDeployApproval C (← getI) b (tokenIdRaw C (interchainTokenDeploySalt C t.w.its cx.caller a)) c dm with
                  | none => fail
                  | some st' => do setI st'; pure dm
              | none => pure b
          else do require dm.isNone; pure ([] : Bytes) : M Bytes) := by
        split
        · apply pres_bind inferInstance; intro _
          split
          · apply pres_of_from; intro s0
            apply presFrom_getI_bind
            split
            · exact Pres.from inferInstance _
            · rename_i st' heq
              exact presFrom_setI_bind (core_useDeployApproval heq) (fun _ => inferInstance)
          · exact inferInstance
        · pres
      rw [(hp1.h t dmRaw t1 hfirst).paused]; exact hp
    exact (fp_deployRemoteInterchainTokenRaw C cx _ c dmRaw cx.caller).h t1 this

end Axelar.ItsW

namespace Axelar.ItsW
open Axelar Codec Its

/-- the endpoints the pause must stop -/
def pausableEndpoints : List String :=
  ["execute", "interchainTransfer", "callContractWithInterchainToken", "registerCanonicalInterchainToken",
   "registerCustomToken", "deployInterchainToken", "deployRemoteInterchainToken",
   "deployRemoteInterchainTokenWithMinter", "deployRemoteCanonicalInterchainToken", "linkToken"]

structure FPIf (c : Prop) {α : Type} (m : M α) : Prop where
  h : c → FP m

set_option maxRecDepth 4000 in
/-- **While paused, every pausable endpoint fails for every caller, argument list and payment** -/
theorem call_paused (C : Crypto) (cx : ICtx) (func : String) (args : List Bytes) (t : Tx)
    (hf : func ∈ pausableEndpoints) (hp : t.w.its.paused = true) : call C cx func args t = none := by
  suffices hs : FPIf (func ∈ pausableEndpoints) (call C cx func args) from (hs.h hf).h t hp
  clear hf hp
  unfold call
  refine ⟨fun hf => fp_bind_keeps inferInstance (fun st => ?_)⟩
  revert hf
  suffices hs : FPIf (func ∈ pausableEndpoints) _ from hs.h
  repeat' (first
    | (refine ⟨fun hf => ?_⟩; simp [pausableEndpoints] at hf; done)
    | (refine ⟨fun _ => ?_⟩; fp; done)
    | split)

end Axelar.ItsW
