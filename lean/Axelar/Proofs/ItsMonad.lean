import Axelar.Model.Chain
namespace Axelar.ItsW
open Axelar Codec Its

/-! Running the transaction monad `M = StateT Tx Option` one step at a time. -/

@[simp] theorem run_bind {α β : Type} (m : M α) (f : α → M β) (t : Tx) :
    (m >>= f) t = match m t with | none => none | some (a, t') => f a t' := by
  simp only [bind, StateT.bind]
  cases m t <;> rfl

@[simp] theorem run_pure {α : Type} (a : α) (t : Tx) : (pure a : M α) t = some (a, t) := rfl
@[simp] theorem run_fail {α : Type} (t : Tx) : (fail : M α) t = none := rfl
@[simp] theorem run_require (b : Bool) (t : Tx) : require b t = if b then some ((), t) else none := by
  unfold require; split <;> rfl
@[simp] theorem run_getI (t : Tx) : getI t = some (t.w.its, t) := rfl
@[simp] theorem run_getW (t : Tx) : getW t = some (t.w, t) := rfl
@[simp] theorem run_setI (s : Its.State) (t : Tx) :
    setI s t = some ((), { t with w := { t.w with its := s } }) := rfl
@[simp] theorem run_setW (w : World) (t : Tx) : setW w t = some ((), { t with w := w }) := rfl
@[simp] theorem run_emit (cx : ICtx) (n : String) (a b : List Bytes) (t : Tx) :
    emit cx n a b t = some ((), { t with evs := t.evs ++ [⟨cx.self, n, a, b⟩] }) := rfl

theorem requireNotPaused_run (t : Tx) :
    requireNotPaused t = if t.w.its.paused then none else some ((), t) := by
  simp only [requireNotPaused, run_bind, run_getI, run_require]
  cases t.w.its.paused <;> rfl

theorem requireNotPaused_paused (t : Tx) (h : t.w.its.paused = true) : requireNotPaused t = none := by
  rw [requireNotPaused_run, h]; rfl

end Axelar.ItsW

namespace Axelar.World
open Axelar

theorem subEgld_its (w w' : World) (a : Bytes) (n : Nat) (h : subEgld w a n = some w') : w'.its = w.its := by
  simp only [subEgld] at h
  split at h
  · cases h; rfl
  · cases h

theorem subEsdt_its (w w' : World) (a t : Bytes) (n : Nat) (h : subEsdt w a t n = some w') : w'.its = w.its := by
  simp only [subEsdt] at h
  split at h
  · cases h; rfl
  · cases h

theorem addEgld_its (w : World) (a : Bytes) (n : Nat) : (addEgld w a n).its = w.its := rfl
theorem addEsdt_its (w : World) (a t : Bytes) (n : Nat) : (addEsdt w a t n).its = w.its := rfl

theorem pay_its (src dst : Bytes) (e : Nat) (l : List (Bytes × Nat × Nat)) (w w' : World)
    (h : pay w src dst e l = some w') : w'.its = w.its := by
  induction l generalizing w with
  | nil =>
    simp only [pay] at h
    split at h
    · rename_i w1 hs
      cases h
      rw [addEgld_its, subEgld_its _ _ _ _ hs]
    · cases h
  | cons x l ih =>
    obtain ⟨tok, n, amt⟩ := x
    simp only [pay] at h
    split at h
    · rename_i w1 hs
      rw [ih _ h, addEsdt_its, subEsdt_its _ _ _ _ _ hs]
    · cases h

theorem send_its (w w' : World) (src dst : Bytes) (tok : Option Bytes) (n : Nat)
    (h : send w src dst tok n = some w') : w'.its = w.its := by
  cases tok with
  | none =>
    simp only [send, Option.map_eq_some_iff] at h
    obtain ⟨w0, h0, rfl⟩ := h
    rw [addEgld_its, subEgld_its _ _ _ _ h0]
  | some t =>
    simp only [send, Option.map_eq_some_iff] at h
    obtain ⟨w0, h0, rfl⟩ := h
    rw [addEsdt_its, subEsdt_its _ _ _ _ _ h0]

theorem applySends_its (l : List GasService.Send) (a b : World) (x : Bytes)
    (h : applySends a x l = some b) : b.its = a.its := by
  induction l generalizing a with
  | nil => simp [applySends] at h; rw [h]
  | cons s l ih =>
    simp only [applySends] at h
    split at h
    · rename_i w1 hs
      rw [ih _ h, send_its _ _ _ _ _ _ hs]
    · cases h

theorem applyEffects_its (l : List TokenManager.Eff) (a b : World) (x : Bytes)
    (h : applyEffects a x l = some b) : b.its = a.its := by
  induction l generalizing a with
  | nil => simp [applyEffects] at h; rw [h]
  | cons s l ih =>
    cases s with
    | send to tok amt =>
      simp only [applyEffects] at h
      split at h
      · rename_i w1 hs
        rw [ih _ h, send_its _ _ _ _ _ _ hs]
      · cases h
    | mint tok amt =>
      simp only [applyEffects] at h
      split at h
      · rw [ih _ h]; rfl
      · cases h
    | burn tok amt =>
      simp only [applyEffects] at h
      split at h
      · cases h
      · split at h
        · rename_i w1 hs
          rw [ih _ h, subEsdt_its _ _ _ _ _ hs]
        · cases h

/-- contracts other than the token service never write the service's storage -/
theorem callOther_keeps_its (C : Crypto) (w : World) (src dst : Bytes) (f : String) (e : Nat)
    (es : List (Bytes × Nat × Nat)) (args : List Bytes) (w' : World) (rs : List Bytes)
    (evs : List Event) (pd : List PendDesc)
    (h : callOther C w src dst f e es args = some (w', rs, evs, pd)) : w'.its = w.its := by
  unfold callOther at h
  split at h
  · -- gateway
    split at h
    · cases h
    · split at h
      · cases h; rfl
      · cases h
  · -- gas service
    split at h
    · split at h
      · rename_i out _ w1 hs
        cases h
        have h1 := applySends_its _ _ _ _ hs
        exact h1
      · cases h
    · cases h
  · -- token manager
    split at h
    · rename_i out _
      unfold tmFinish at h
      split at h
      · cases h
      · rename_i w1 he
        have h1 := applyEffects_its _ _ _ _ he
        split at h
        · cases h; exact h1
        · cases h; simp only [addPending]; exact h1
    · cases h
  · -- governance
    split at h
    · split at h
      · cases h
      · split at h
        · split at h
          · cases h
          · split at h
            · cases h; rfl
            · cases h
        · cases h
    · split at h
      · rename_i out _
        unfold govFinish at h
        split at h
        · cases h
        · rename_i w1 hs
          have h1 := applySends_its _ _ _ _ hs
          split at h
          · cases h; exact h1
          · cases h; simp only [addPending]; exact h1
      · cases h
  · cases h

end Axelar.World

namespace Axelar.ItsW
open Axelar

theorem subcall_keeps_its (C : Crypto) (cx : ICtx) (dst : Bytes) (f : String) (e : Nat)
    (es : List (Bytes × Nat × Nat)) (args : List Bytes) (t t' : Tx) (rs : List Bytes)
    (h : subcall C cx dst f e es args t = some (rs, t')) : t'.w.its = t.w.its := by
  unfold subcall at h
  cases hp : World.pay t.w cx.self dst e es with
  | none => simp [hp] at h
  | some w1 =>
    simp only [hp] at h
    cases hc : World.callOther C w1 cx.self dst f e es args with
    | none => simp [hc] at h
    | some r =>
      obtain ⟨w2, rs2, evs, pd⟩ := r
      simp only [hc, Option.some.injEq, Prod.mk.injEq] at h
      obtain ⟨_, rfl⟩ := h
      simp only
      rw [World.callOther_keeps_its C w1 cx.self dst f e es args w2 rs2 evs pd hc, World.pay_its _ _ _ _ _ _ hp]

end Axelar.ItsW
