import Axelar.Model.Chain
import Axelar.Proofs.GatewayProofs
namespace Axelar.ItsW
open Axelar Codec Its

/-! Running the transaction monad `M = StateT Tx Option` one step at a time. -/

@[simp] theorem run_bind {α β : Type} (m : M α) (f : α → M β) (t : Tx) :
    (m >>= f) t = match m t with | none => none | some (a, t') => f a t' := by
  simp only [bind, StateT.bind]
  cases m t <;> rfl

@[simp] theorem run_pure {α : Type} (a : α) (t : Tx) : (pure a : M α) t = some (a, t) := rfl
@[simp] theorem run_fail {α : Type} (t : Tx) : (fail : M α) t = none := rfl
@[simp] theorem run_require (b : Bool) (t : Tx) : require b t = if b then some ((), t) else none := by
  unfold require; split <;> rfl
@[simp] theorem run_getI (t : Tx) : getI t = some (t.w.its, t) := rfl
@[simp] theorem run_getW (t : Tx) : getW t = some (t.w, t) := rfl
@[simp] theorem run_setI (s : Its.State) (t : Tx) :
    setI s t = some ((), { t with w := { t.w with its := s } }) := rfl
@[simp] theorem run_setW (w : World) (t : Tx) : setW w t = some ((), { t with w := w }) := rfl
@[simp] theorem run_emit (cx : ICtx) (n : String) (a b : List Bytes) (t : Tx) :
    emit cx n a b t = some ((), { t with evs := t.evs ++ [⟨cx.self, n, a, b⟩] }) := rfl

theorem requireNotPaused_run (t : Tx) :
    requireNotPaused t = if t.w.its.paused then none else some ((), t) := by
  simp only [requireNotPaused, run_bind, run_getI, run_require]
  cases t.w.its.paused <;> rfl

theorem requireNotPaused_paused (t : Tx) (h : t.w.its.paused = true) : requireNotPaused t = none := by
  rw [requireNotPaused_run, h]; rfl

end Axelar.ItsW

namespace Axelar.World
open Axelar

theorem subEgld_its (w w' : World) (a : Bytes) (n : Nat) (h : subEgld w a n = some w') : w'.its = w.its := by
  simp only [subEgld] at h
  split at h
  · cases h; rfl
  · cases h

theorem subEsdt_its (w w' : World) (a t : Bytes) (n : Nat) (h : subEsdt w a t n = some w') : w'.its = w.its := by
  simp only [subEsdt] at h
  split at h
  · cases h; rfl
  · cases h

theorem addEgld_its (w : World) (a : Bytes) (n : Nat) : (addEgld w a n).its = w.its := rfl
theorem addEsdt_its (w : World) (a t : Bytes) (n : Nat) : (addEsdt w a t n).its = w.its := rfl

theorem pay_its (src dst : Bytes) (e : Nat) (l : List (Bytes × Nat × Nat)) (w w' : World)
    (h : pay w src dst e l = some w') : w'.its = w.its := by
  induction l generalizing w with
  | nil =>
    simp only [pay] at h
    split at h
    · rename_i w1 hs
      cases h
      rw [addEgld_its, subEgld_its _ _ _ _ hs]
    · cases h
  | cons x l ih =>
    obtain ⟨tok, n, amt⟩ := x
    simp only [pay] at h
    split at h
    · rename_i w1 hs
      rw [ih _ h, addEsdt_its, subEsdt_its _ _ _ _ _ hs]
    · cases h

theorem send_its (w w' : World) (src dst : Bytes) (tok : Option Bytes) (n : Nat)
    (h : send w src dst tok n = some w') : w'.its = w.its := by
  cases tok with
  | none =>
    simp only [send, Option.map_eq_some_iff] at h
    obtain ⟨w0, h0, rfl⟩ := h
    rw [addEgld_its, subEgld_its _ _ _ _ h0]
  | some t =>
    simp only [send, Option.map_eq_some_iff] at h
    obtain ⟨w0, h0, rfl⟩ := h
    rw [addEsdt_its, subEsdt_its _ _ _ _ _ h0]

theorem applySends_its (l : List GasService.Send) (a b : World) (x : Bytes)
    (h : applySends a x l = some b) : b.its = a.its := by
  induction l generalizing a with
  | nil => simp [applySends] at h; rw [h]
  | cons s l ih =>
    simp only [applySends] at h
    split at h
    · rename_i w1 hs
      rw [ih _ h, send_its _ _ _ _ _ _ hs]
    · cases h

theorem applyEffects_its (l : List TokenManager.Eff) (a b : World) (x : Bytes)
    (h : applyEffects a x l = some b) : b.its = a.its := by
  induction l generalizing a with
  | nil => simp [applyEffects] at h; rw [h]
  | cons s l ih =>
    cases s with
    | send to tok amt =>
      simp only [applyEffects] at h
      split at h
      · rename_i w1 hs
        rw [ih _ h, send_its _ _ _ _ _ _ hs]
      · cases h
    | mint tok amt =>
      simp only [applyEffects] at h
      split at h
      · rw [ih _ h]; rfl
      · cases h
    | burn tok amt =>
      simp only [applyEffects] at h
      split at h
      · cases h
      · split at h
        · rename_i w1 hs
          rw [ih _ h, subEsdt_its _ _ _ _ _ hs]
        · cases h

/-- contracts other than the token service never write the service's storage -/
theorem callOther_keeps_its (C : Crypto) (w : World) (src dst : Bytes) (f : String) (e : Nat)
    (es : List (Bytes × Nat × Nat)) (args : List Bytes) (w' : World) (rs : List Bytes)
    (evs : List Event) (pd : List PendDesc)
    (h : callOther C w src dst f e es args = some (w', rs, evs, pd)) : w'.its = w.its := by
  unfold callOther at h
  split at h
  · -- gateway
    split at h
    · cases h
    · split at h
      · cases h; rfl
      · cases h
  · -- gas service
    split at h
    · split at h
      · rename_i out _ w1 hs
        cases h
        have h1 := applySends_its _ _ _ _ hs
        exact h1
      · cases h
    · cases h
  · -- token manager
    split at h
    · rename_i out _
      unfold tmFinish at h
      split at h
      · cases h
      · rename_i w1 he
        have h1 := applyEffects_its _ _ _ _ he
        split at h
        · cases h; exact h1
        · cases h; simp only [addPending]; exact h1
    · cases h
  · -- governance
    split at h
    · split at h
      · cases h; rfl
      · cases h
    · split at h
      · split at h
        · cases h
        · split at h
          · split at h
            · cases h
            · split at h
              · cases h; rfl
              · cases h
          · cases h
      · split at h
        · rename_i out _
          unfold govFinish at h
          split at h
          · cases h
          · rename_i w1 hs
            have h1 := applySends_its _ _ _ _ hs
            split at h
            · cases h; exact h1
            · cases h; simp only [addPending]; exact h1
        · cases h
  · cases h

end Axelar.World

namespace Axelar.ItsW
open Axelar

theorem subcall_keeps_its (C : Crypto) (cx : ICtx) (dst : Bytes) (f : String) (e : Nat)
    (es : List (Bytes × Nat × Nat)) (args : List Bytes) (t t' : Tx) (rs : List Bytes)
    (h : subcall C cx dst f e es args t = some (rs, t')) : t'.w.its = t.w.its := by
  unfold subcall at h
  cases hp : World.pay t.w cx.self dst e es with
  | none => simp [hp] at h
  | some w1 =>
    simp only [hp] at h
    cases hc : World.callOther C w1 cx.self dst f e es args with
    | none => simp [hc] at h
    | some r =>
      obtain ⟨w2, rs2, evs, pd⟩ := r
      simp only [hc, Option.some.injEq, Prod.mk.injEq] at h
      obtain ⟨_, rfl⟩ := h
      simp only
      rw [World.callOther_keeps_its C w1 cx.self dst f e es args w2 rs2 evs pd hc, World.pay_its _ _ _ _ _ _ hp]

end Axelar.ItsW

namespace Axelar.ItsW
open Axelar Codec

theorem deployedTokenManager_run (tid : Bytes) (t : Tx) :
    deployedTokenManager tid t =
      if (t.w.its.tmAddress tid).isEmpty then none else some (t.w.its.tmAddress tid, t) := by
  simp only [deployedTokenManager, run_bind, run_getI, run_require]
  cases (t.w.its.tmAddress tid).isEmpty <;> simp

theorem gatewayIsApproved_keeps_its (C : Crypto) (cx : ICtx) (a b c d : Bytes) (t t1 : Tx) (r : Bool)
    (h : gatewayIsApproved C cx a b c d t = some (r, t1)) : t1.w.its = t.w.its := by
  simp only [gatewayIsApproved, run_bind, run_getI] at h
  cases hs : subcall C cx t.w.its.gateway "isMessageApproved" 0 [] [a, b, c, cx.self, d] t with
  | none => simp [hs] at h
  | some x =>
    obtain ⟨rs, tt⟩ := x
    simp only [hs, run_pure, Option.some.injEq, Prod.mk.injEq] at h
    obtain ⟨_, rfl⟩ := h
    exact subcall_keeps_its _ _ _ _ _ _ _ _ _ _ hs

theorem gatewayValidate_keeps_its (C : Crypto) (cx : ICtx) (a b c d : Bytes) (t t1 : Tx) (r : Bool)
    (h : gatewayValidate C cx a b c d t = some (r, t1)) : t1.w.its = t.w.its := by
  simp only [gatewayValidate, run_bind, run_getI] at h
  cases hs : subcall C cx t.w.its.gateway "validateMessage" 0 [] [a, b, c, d] t with
  | none => simp [hs] at h
  | some x =>
    obtain ⟨rs, tt⟩ := x
    simp only [hs, run_pure, Option.some.injEq, Prod.mk.injEq] at h
    obtain ⟨_, rfl⟩ := h
    exact subcall_keeps_its _ _ _ _ _ _ _ _ _ _ hs

theorem tmGiveToken_keeps_its (C : Crypto) (cx : ICtx) (tid dest : Bytes) (amount : Nat) (t t1 : Tx)
    (r : Bytes × Nat) (h : tmGiveToken C cx tid dest amount t = some (r, t1)) : t1.w.its = t.w.its := by
  simp only [tmGiveToken, run_bind, deployedTokenManager_run] at h
  by_cases he : (t.w.its.tmAddress tid).isEmpty = true
  · simp [he] at h
  · simp only [he, Bool.false_eq_true, if_false] at h
    cases hs : subcall C cx (t.w.its.tmAddress tid) "giveToken" 0 [] [dest, encNat amount] t with
    | none => simp [hs] at h
    | some x =>
      obtain ⟨rs, tt⟩ := x
      simp only [hs] at h
      have hk := subcall_keeps_its _ _ _ _ _ _ _ _ _ _ hs
      split at h
      · simp only [run_pure, Option.some.injEq, Prod.mk.injEq] at h
        obtain ⟨_, rfl⟩ := h
        exact hk
      · simp at h

theorem tmTakeToken_keeps_its (C : Crypto) (cx : ICtx) (tid : Bytes) (tok : Its.Tok) (amount : Nat) (t t1 : Tx)
    (h : tmTakeToken C cx tid tok amount t = some ((), t1)) : t1.w.its = t.w.its := by
  simp only [tmTakeToken, run_bind, deployedTokenManager_run] at h
  by_cases he : (t.w.its.tmAddress tid).isEmpty = true
  · simp [he] at h
  · simp only [he, Bool.false_eq_true, if_false] at h
    cases hs : subcall C cx (t.w.its.tmAddress tid) "takeToken" (payOf tok amount).1 (payOf tok amount).2 [] t with
    | none => simp [hs] at h
    | some x =>
      obtain ⟨rs, tt⟩ := x
      simp only [hs, run_pure, Option.some.injEq, Prod.mk.injEq] at h
      obtain ⟨_, rfl⟩ := h
      exact subcall_keeps_its _ _ _ _ _ _ _ _ _ _ hs

end Axelar.ItsW

namespace Axelar.World
open Axelar

theorem subEgld_gw (w w' : World) (a : Bytes) (n : Nat) (h : subEgld w a n = some w') :
    w'.gw = w.gw ∧ w'.kind = w.kind ∧ w'.owner = w.owner ∧ w'.now = w.now := by
  simp only [subEgld] at h
  split at h
  · cases h; exact ⟨rfl, rfl, rfl, rfl⟩
  · cases h

theorem subEsdt_gw (w w' : World) (a t : Bytes) (n : Nat) (h : subEsdt w a t n = some w') :
    w'.gw = w.gw ∧ w'.kind = w.kind ∧ w'.owner = w.owner ∧ w'.now = w.now := by
  simp only [subEsdt] at h
  split at h
  · cases h; exact ⟨rfl, rfl, rfl, rfl⟩
  · cases h

theorem pay_gw (src dst : Bytes) (e : Nat) (l : List (Bytes × Nat × Nat)) (w w' : World)
    (h : pay w src dst e l = some w') :
    w'.gw = w.gw ∧ w'.kind = w.kind ∧ w'.owner = w.owner ∧ w'.now = w.now := by
  induction l generalizing w with
  | nil =>
    simp only [pay] at h
    split at h
    · rename_i w1 hs
      cases h
      have := subEgld_gw _ _ _ _ hs
      exact this
    · cases h
  | cons x l ih =>
    obtain ⟨tok, n, amt⟩ := x
    simp only [pay] at h
    split at h
    · rename_i w1 hs
      obtain ⟨a, b, c, d⟩ := ih _ h
      obtain ⟨a', b', c', d'⟩ := subEsdt_gw _ _ _ _ _ hs
      exact ⟨a.trans a', b.trans b', c.trans c', d.trans d'⟩
    · cases h

end Axelar.World

namespace Axelar.ItsW
open Axelar Codec

/-- **A validation that returned true found the approval addressed to the service and consumed
    it**: the gateway entry was `Approved(hash(chain, id, source, THIS contract, payload hash))`
    and is `Executed` afterwards. -/
theorem gatewayValidate_true (C : Crypto) (cx : ICtx) (chain id src ph : Bytes) (t t1 : Tx)
    (hk : t.w.kind t.w.its.gateway = some .gateway)
    (h : gatewayValidate C cx chain id src ph t = some (true, t1)) :
    t.w.gw.messages (chain, id) = .approved (Gateway.messageHash C chain id src cx.self ph) ∧
    t1.w.gw.messages (chain, id) = .executed := by
  simp only [gatewayValidate, run_bind, run_getI] at h
  cases hs : subcall C cx t.w.its.gateway "validateMessage" 0 [] [chain, id, src, ph] t with
  | none => simp [hs] at h
  | some x =>
    obtain ⟨rs, tt⟩ := x
    simp only [hs, run_pure, Option.some.injEq, Prod.mk.injEq] at h
    obtain ⟨hrs, rfl⟩ := h
    have hrs' : rs = [encBool true] := by simpa using hrs
    unfold subcall at hs
    cases hp : World.pay t.w cx.self t.w.its.gateway 0 [] with
    | none => simp [hp] at hs
    | some w1 =>
      simp only [hp] at hs
      obtain ⟨g1, g2, g3, g4⟩ := World.pay_gw _ _ _ _ _ _ hp
      cases hc : World.callOther C w1 cx.self t.w.its.gateway "validateMessage" 0 [] [chain, id, src, ph] with
      | none => simp [hc] at hs
      | some r =>
        obtain ⟨w2, rs2, evs, pd⟩ := r
        simp only [hc, Option.some.injEq, Prod.mk.injEq] at hs
        obtain ⟨rfl, rfl⟩ := hs
        unfold World.callOther at hc
        rw [g2, hk] at hc
        simp only [ne_eq, not_true_eq_false, decide_false, List.isEmpty_nil, Bool.not_true, Bool.or_self,
          Bool.false_eq_true, if_false] at hc
        cases hg : Gateway.call C w1.gw ⟨cx.self, w1.owner t.w.its.gateway, w1.now⟩ "validateMessage" [chain, id, src, ph] with
        | error e => simp [hg] at hc
        | ok v =>
          obtain ⟨gw', rs3, evs3⟩ := v
          simp only [hg, Option.some.injEq, Prod.mk.injEq] at hc
          obtain ⟨rfl, rfl, _, _⟩ := hc
          obtain ⟨c', i', s', p', hargs, _, hv, hres⟩ := Gateway.validate_call_inv C w1.gw gw' _ _ _ evs3 hg
          simp only [List.cons.injEq, and_true] at hargs
          obtain ⟨rfl, rfl, rfl, rfl⟩ := hargs
          have htrue : (Gateway.validateMessage C w1.gw cx.self chain id src ph).2.1 = true := by
            rw [hrs'] at hres
            simp only [List.cons.injEq, and_true] at hres
            cases hb : (Gateway.validateMessage C w1.gw cx.self chain id src ph).2.1
            · rw [hb] at hres; simp [encBool] at hres
            · rfl
          have hspec := Gateway.validateMessage_spec C w1.gw cx.self chain id src ph
          simp only at hspec
          refine ⟨by rw [← g1]; exact hspec.1.mp htrue, ?_⟩
          have h1 := hspec.2.1 htrue
          rw [hv] at h1
          simp only at h1 ⊢
          rw [h1]; simp [upd]

end Axelar.ItsW
