import Axelar.Spec.GatewaySpec
namespace Axelar.Gateway
open Axelar Axelar.GatewaySpec

theorem sigLoop_sound (C : Crypto) (d : Bytes) (thr : Nat) (ss : List WeightedSigner)
    (gs : List (Option Bytes)) (tot : Nat) (h : sigLoop C d thr ss gs tot = .ok ()) :
    tot + validWeight C d ss gs ≥ thr := by
  induction ss generalizing gs tot with
  | nil => cases gs <;> simp [sigLoop] at h
  | cons s ss ih =>
    cases gs with
    | nil => simp [sigLoop] at h
    | cons g gs =>
      cases g with
      | none =>
        simp only [sigLoop] at h
        have := ih gs tot h
        simpa [validWeight] using this
      | some sig =>
        simp only [sigLoop] at h
        by_cases hv : C.verify s.signer d sig = true
        · simp only [hv, if_true] at h
          by_cases ht : tot + s.weight ≥ thr
          · simp [validWeight, hv]; omega
          · simp only [ht, if_false] at h
            have := ih gs (tot + s.weight) h
            simp [validWeight, hv]; omega
        · simp [hv] at h

theorem sigLoop_complete (C : Crypto) (d : Bytes) (thr : Nat) (ss : List WeightedSigner)
    (gs : List (Option Bytes)) (tot : Nat) (hlen : ss.length = gs.length)
    (hall : allSuppliedValid C d ss gs = true) (hlt : tot < thr)
    (hw : tot + suppliedWeight ss gs ≥ thr) :
    sigLoop C d thr ss gs tot = .ok () := by
  induction ss generalizing gs tot with
  | nil =>
    cases gs with
    | nil => simp [suppliedWeight] at hw; omega
    | cons g gs => simp at hlen
  | cons s ss ih =>
    cases gs with
    | nil => simp at hlen
    | cons g gs =>
      simp only [List.length_cons, Nat.add_right_cancel_iff] at hlen
      cases g with
      | none =>
        simp only [sigLoop]
        exact ih gs tot hlen (by simpa [allSuppliedValid] using hall) hlt
          (by simpa [suppliedWeight] using hw)
      | some sig =>
        simp only [allSuppliedValid, Bool.and_eq_true] at hall
        simp only [sigLoop, hall.1, if_true]
        by_cases ht : tot + s.weight ≥ thr
        · simp [ht]
        · simp only [ht, if_false]
          exact ih gs (tot + s.weight) hlen hall.2 (by omega)
            (by simp only [suppliedWeight] at hw; omega)

theorem validateSignatures_sound (C : Crypto) (d : Bytes) (ws : WeightedSigners)
    (sigs : List (Option Bytes)) (h : validateSignatures C d ws sigs = .ok ()) :
    sigs.length = ws.signers.length ∧ sigs.isEmpty = false ∧
      validWeight C d ws.signers sigs ≥ ws.threshold := by
  unfold validateSignatures at h
  by_cases hc : (sigs.isEmpty || ws.signers.length != sigs.length) = true
  · simp [hc] at h
  · simp only [hc] at h
    simp only [Bool.or_eq_true, not_or, Bool.not_eq_true, bne_eq_false_iff_eq] at hc
    have := sigLoop_sound C d ws.threshold ws.signers sigs 0 (by simpa using h)
    exact ⟨hc.2.symm, hc.1, by omega⟩

theorem validateSignatures_complete (C : Crypto) (d : Bytes) (ws : WeightedSigners)
    (sigs : List (Option Bytes)) (hlen : sigs.length = ws.signers.length)
    (hne : sigs.isEmpty = false) (hthr : 0 < ws.threshold)
    (hall : allSuppliedValid C d ws.signers sigs = true)
    (hw : suppliedWeight ws.signers sigs ≥ ws.threshold) :
    validateSignatures C d ws sigs = .ok () := by
  unfold validateSignatures
  have hc : (sigs.isEmpty || ws.signers.length != sigs.length) = false := by
    simp [hne, hlen]
  simp only [hc]
  exact sigLoop_complete C d ws.threshold ws.signers sigs 0 hlen.symm hall hthr (by omega)

/-- characterisation of `validate_proof` success -/
theorem validateProof_ok_iff_sound (C : Crypto) (st : State) (dh : Bytes) (p : Proof) (b : Bool)
    (h : validateProof C st dh p = .ok b) :
    0 < st.epochByHash (signersHash C p.signers) ∧
    st.epoch - st.epochByHash (signersHash C p.signers) ≤ st.retention ∧
    p.signatures.length = p.signers.signers.length ∧ p.signatures.isEmpty = false ∧
    validWeight C (digest C st.domain (signersHash C p.signers) dh) p.signers.signers p.signatures
      ≥ p.signers.threshold ∧
    b = (st.epochByHash (signersHash C p.signers) == st.epoch) := by
  simp only [validateProof] at h
  split at h
  · rename_i hw
    simp only [Bool.and_eq_true, decide_eq_true_eq] at hw
    split at h
    · rename_i hv
      cases h
      obtain ⟨a, b', c⟩ := validateSignatures_sound C _ _ _ hv
      exact ⟨hw.1, hw.2, a, b', c, rfl⟩
    · cases h
  · cases h

theorem validateProof_complete (C : Crypto) (st : State) (dh : Bytes) (p : Proof)
    (he : 0 < st.epochByHash (signersHash C p.signers))
    (hr : st.epoch - st.epochByHash (signersHash C p.signers) ≤ st.retention)
    (hlen : p.signatures.length = p.signers.signers.length) (hne : p.signatures.isEmpty = false)
    (hthr : 0 < p.signers.threshold)
    (hall : allSuppliedValid C (digest C st.domain (signersHash C p.signers) dh)
      p.signers.signers p.signatures = true)
    (hw : suppliedWeight p.signers.signers p.signatures ≥ p.signers.threshold) :
    validateProof C st dh p = .ok (st.epochByHash (signersHash C p.signers) == st.epoch) := by
  simp only [validateProof]
  have hc : (decide (st.epochByHash (signersHash C p.signers) > 0) &&
      decide (st.epoch - st.epochByHash (signersHash C p.signers) ≤ st.retention)) = true := by
    simp [he, hr]
  rw [if_pos hc, validateSignatures_complete C _ _ _ hlen hne hthr hall hw]

/-! ### approvals only touch the message map -/

theorem approveMessage_frame (C : Crypto) (st : State) (m : Message) :
    let st' := (approveMessage C st m).1
    st'.retention = st.retention ∧ st'.domain = st.domain ∧ st'.minDelay = st.minDelay ∧
    st'.operator = st.operator ∧ st'.epoch = st.epoch ∧ st'.lastRotation = st.lastRotation ∧
    st'.hashByEpoch = st.hashByEpoch ∧ st'.epochByHash = st.epochByHash := by
  simp only [approveMessage]
  split <;> simp

theorem approveAll_frame (C : Crypto) (st : State) (ms : List Message) (evs : List Ev) :
    let st' := (approveAll C st ms evs).1
    st'.retention = st.retention ∧ st'.domain = st.domain ∧ st'.minDelay = st.minDelay ∧
    st'.operator = st.operator ∧ st'.epoch = st.epoch ∧ st'.lastRotation = st.lastRotation ∧
    st'.hashByEpoch = st.hashByEpoch ∧ st'.epochByHash = st.epochByHash := by
  induction ms generalizing st evs with
  | nil => simp [approveAll]
  | cons m ms ih =>
    simp only [approveAll]
    have h1 := approveMessage_frame C st m
    have h2 := ih (approveMessage C st m).1 (evs ++ (approveMessage C st m).2)
    simp only at h1 h2
    obtain ⟨a1, a2, a3, a4, a5, a6, a7, a8⟩ := h1
    obtain ⟨b1, b2, b3, b4, b5, b6, b7, b8⟩ := h2
    exact ⟨b1.trans a1, b2.trans a2, b3.trans a3, b4.trans a4, b5.trans a5, b6.trans a6,
      b7.trans a7, b8.trans a8⟩

end Axelar.Gateway

namespace Axelar.Gateway
open Axelar Axelar.GatewaySpec Codec

/-- What a successful endpoint call can be: the four state-changing endpoints, or a view. -/
theorem call_cases (C : Crypto) (st : State) (ctx : Ctx) (func : String) (args : List Bytes)
    (st' : State) (rs : List Bytes) (evs : List Ev)
    (h : call C st ctx func args = .ok (st', rs, evs)) :
    (∃ m p, func = "approveMessages" ∧ args = [m, p] ∧ approveMessages C st m p = .ok (st', evs)) ∨
    (∃ s p, func = "rotateSigners" ∧ args = [s, p] ∧ rotateSigners C st ctx s p = .ok (st', evs)) ∨
    (∃ chain id src ph b, func = "validateMessage" ∧ args = [chain, id, src, ph] ∧ ph.length = 32 ∧
        validateMessage C st ctx.caller chain id src ph = (st', b, evs) ∧ rs = [encBool b]) ∨
    (∃ op, func = "transferOperatorship" ∧ args = [op] ∧ op.length = 32 ∧
        transferOperatorship st ctx op = .ok (st', evs)) ∨
    (∃ code md op sraw ss, func = "upgradeContract" ∧ args = code :: md :: op :: sraw ∧
        ctx.caller = ctx.owner ∧ op.length = 32 ∧ sraw.mapM (top decSigners) = some ss ∧
        upgrade C st ctx.now op ss = .ok (st', evs)) ∨
    st' = st := by
  unfold call at h
  split at h
  · -- approveMessages
    rename_i m p
    cases hm : approveMessages C st m p with
    | error e => simp [hm] at h
    | ok v =>
      obtain ⟨a, b⟩ := v
      simp only [hm] at h
      cases h
      exact Or.inl ⟨m, p, rfl, rfl, hm⟩
  · rename_i s p
    cases hm : rotateSigners C st ctx s p with
    | error e => simp [hm] at h
    | ok v =>
      obtain ⟨a, b⟩ := v
      simp only [hm] at h
      cases h
      exact Or.inr (Or.inl ⟨s, p, rfl, rfl, hm⟩)
  · cases h; exact Or.inr (Or.inr (Or.inr (Or.inr (Or.inr rfl))))
  · rename_i chain id src ph
    cases hph : topFixed 32 ph with
    | none => simp [hph] at h
    | some ph' =>
      simp only [hph] at h
      have hl : ph.length = 32 ∧ ph' = ph := by
        unfold topFixed at hph; split at hph <;> simp_all
      obtain ⟨hl, rfl⟩ := hl
      cases h
      exact Or.inr (Or.inr (Or.inl ⟨chain, id, src, ph', _, rfl, rfl, hl, rfl, rfl⟩))
  · rename_i op
    cases hop : topFixed 32 op with
    | none => simp [hop] at h
    | some op' =>
      simp only [hop] at h
      have hl : op.length = 32 ∧ op' = op := by
        unfold topFixed at hop; split at hop <;> simp_all
      obtain ⟨hl, rfl⟩ := hl
      cases hm : transferOperatorship st ctx op' with
      | error e => simp [hm] at h
      | ok v =>
        obtain ⟨a, b⟩ := v
        simp only [hm] at h
        cases h
        exact Or.inr (Or.inr (Or.inr (Or.inl ⟨op', rfl, rfl, hl, hm⟩)))
  case h_19 =>
    rename_i code md op sraw
    split at h
    · cases h
    · rename_i hown
      cases hop : topFixed 32 op with
      | none => simp [hop] at h
      | some op' =>
        have hl : op.length = 32 ∧ op' = op := by
          unfold topFixed at hop; split at hop <;> simp_all
        obtain ⟨hl, rfl⟩ := hl
        cases hss : sraw.mapM (top decSigners) with
        | none => simp [hop, hss] at h
        | some ss =>
          simp only [hop, hss] at h
          cases hu : upgrade C st ctx.now op' ss with
          | error e => simp [hu] at h
          | ok v =>
            obtain ⟨a, b⟩ := v
            simp only [hu] at h
            cases h
            refine Or.inr (Or.inr (Or.inr (Or.inr (Or.inl ⟨code, md, op', sraw, ss, rfl, rfl, ?_, hl, hss, hu⟩))))
            simpa using hown
  all_goals (
    repeat' (first
      | (cases h; done)
      | (cases h; exact Or.inr (Or.inr (Or.inr (Or.inr (Or.inr rfl)))))
      | split at h))

end Axelar.Gateway

namespace Axelar.Gateway
open Axelar Axelar.GatewaySpec Codec

/-! ### signer-set well-formedness (C03) -/

theorem signersLoop_iff (ss : List WeightedSigner) (prev tot total : Nat) :
    signersLoop ss prev tot = .ok total ↔
      keysIncreasing ss prev = true ∧ ss.all (fun s => decide (0 < s.weight)) = true ∧
      total = tot + totalWeight ss := by
  induction ss generalizing prev tot with
  | nil => simp [signersLoop, keysIncreasing, totalWeight]; exact eq_comm
  | cons s ss ih =>
    simp only [signersLoop, keysIncreasing, List.all_cons, totalWeight, List.map_cons, List.sum_cons,
      Bool.and_eq_true, decide_eq_true_eq]
    by_cases h1 : beNat s.signer > prev
    · by_cases h2 : s.weight > 0
      · simp only [h1, h2, if_true, true_and]
        rw [ih]
        simp only [totalWeight]
        constructor
        · rintro ⟨a, b, c⟩; exact ⟨a, b, by omega⟩
        · rintro ⟨a, b, c⟩; exact ⟨a, b, by omega⟩
      · simp [h1, h2]
    · simp [h1]

/-- **C03**: `validate_signers` accepts exactly the well-formed sets: non-empty, keys strictly
    increasing as big-endian numbers, all weights positive, `0 < threshold ≤ total weight`. -/
theorem validateSigners_iff (ws : WeightedSigners) :
    validateSigners ws = .ok () ↔ wfSigners ws = true := by
  unfold validateSigners wfSigners
  by_cases he : ws.signers.isEmpty = true
  · simp [he]
  · simp only [he, Bool.false_eq_true, if_false, Bool.not_false, Bool.true_and, Bool.and_eq_true,
      decide_eq_true_eq]
    cases hl : signersLoop ws.signers 0 0 with
    | error e =>
      simp only [reduceCtorEq, false_iff]
      intro ⟨⟨⟨a, b⟩, c⟩, d⟩
      have := (signersLoop_iff ws.signers 0 0 (totalWeight ws.signers)).mpr ⟨a, b, by omega⟩
      rw [hl] at this; cases this
    | ok total =>
      obtain ⟨a, b, c⟩ := (signersLoop_iff _ _ _ _).mp hl
      simp only [Nat.zero_add] at c
      subst c
      simp only [a, b, true_and]
      by_cases hc : ws.threshold > 0 ∧ totalWeight ws.signers ≥ ws.threshold
      · rw [if_pos hc]
        simp only [true_iff]
        exact hc
      · rw [if_neg hc]
        simp only [reduceCtorEq, false_iff]
        exact hc

/-! ### the signer registry (C01, C03) -/

structure RegInv (st : State) : Prop where
  fwd : ∀ h, 0 < st.epochByHash h → st.hashByEpoch (st.epochByHash h) = h ∧ st.epochByHash h ≤ st.epoch
  bwd : ∀ e, 1 ≤ e → e ≤ st.epoch → st.epochByHash (st.hashByEpoch e) = e

theorem regInv_empty : RegInv State.empty :=
  ⟨fun h hh => by simp [State.empty] at hh, fun e h1 h2 => by simp [State.empty] at h2; omega⟩

/-- everything a successful `rotate_signers_raw` does -/
theorem rotateSignersRaw_spec (C : Crypto) (st st' : State) (now : Nat) (ws : WeightedSigners)
    (enforce : Bool) (evs : List Ev) (h : rotateSignersRaw C st now ws enforce = .ok (st', evs)) :
    wfSigners ws = true ∧ st.epochByHash (signersHash C ws) = 0 ∧ st.lastRotation ≤ now ∧
    (enforce = true → now - st.lastRotation ≥ st.minDelay) ∧
    st' = { st with lastRotation := now, epoch := st.epoch + 1,
                    hashByEpoch := upd st.hashByEpoch (st.epoch + 1) (signersHash C ws),
                    epochByHash := upd st.epochByHash (signersHash C ws) (st.epoch + 1) } ∧
    evs = [⟨"signers_rotated_event", [Codec.encNat (st.epoch + 1), signersHash C ws], [encSignersTop ws]⟩] := by
  unfold rotateSignersRaw at h
  cases hv : validateSigners ws with
  | error e => simp [hv] at h
  | ok u =>
    simp only [hv] at h
    have hwf := (validateSigners_iff ws).mp (by cases u; exact hv)
    split at h
    · cases h
    · rename_i hnow
      split at h
      · cases h
      · rename_i hdelay
        split at h
        · cases h
        · rename_i hdup
          cases h
          refine ⟨hwf, by simpa using hdup, by omega, ?_, rfl, rfl⟩
          intro he
          simp only [he, Bool.true_and, decide_eq_true_eq] at hdelay
          omega

theorem upd_same {α β : Type} [DecidableEq α] (f : α → β) (a : α) (b : β) : upd f a b a = b := by
  simp [upd]

theorem upd_other {α β : Type} [DecidableEq α] (f : α → β) (a x : α) (b : β) (h : x ≠ a) :
    upd f a b x = f x := by
  simp [upd, h]

theorem rotateSignersRaw_regInv (C : Crypto) (st st' : State) (now : Nat) (ws : WeightedSigners)
    (enforce : Bool) (evs : List Ev) (hinv : RegInv st)
    (h : rotateSignersRaw C st now ws enforce = .ok (st', evs)) : RegInv st' := by
  obtain ⟨_, hnew, _, _, rfl, _⟩ := rotateSignersRaw_spec C st st' now ws enforce evs h
  constructor
  · intro h' hpos
    simp only at hpos ⊢
    by_cases hh : h' = signersHash C ws
    · subst hh; simp [upd_same]
    · rw [upd_other _ _ _ _ hh] at hpos ⊢
      obtain ⟨a, b⟩ := hinv.fwd h' hpos
      have : st.epochByHash h' ≠ st.epoch + 1 := by omega
      rw [upd_other _ _ _ _ this]
      exact ⟨a, by omega⟩
  · intro e h1 h2
    simp only at h2 ⊢
    by_cases he : e = st.epoch + 1
    · subst he; simp [upd_same]
    · rw [upd_other _ _ _ _ he]
      have hb := hinv.bwd e h1 (by omega)
      have : st.hashByEpoch e ≠ signersHash C ws := by
        intro hc; rw [hc, hnew] at hb; omega
      rw [upd_other _ _ _ _ this]; exact hb

end Axelar.Gateway

namespace Axelar.Gateway
open Axelar Axelar.GatewaySpec Codec

theorem approveMessages_spec (C : Crypto) (st st' : State) (m p : Bytes) (evs : List Ev)
    (h : approveMessages C st m p = .ok (st', evs)) :
    ∃ proof msgs b, top decProof p = some proof ∧ many decMessage m = some msgs ∧
      msgs.isEmpty = false ∧ validateProof C st (dataHash C tagApproveMessages m) proof = .ok b ∧
      (st', evs) = approveAll C st msgs [] := by
  unfold approveMessages at h
  cases hp : top decProof p with
  | none => simp [hp] at h
  | some proof =>
    simp only [hp] at h
    cases hm : many decMessage m with
    | none => simp [hm] at h
    | some msgs =>
      simp only [hm] at h
      by_cases he : msgs.isEmpty = true
      · simp [he] at h
      · simp only [he, Bool.false_eq_true, if_false] at h
        cases hv : validateProof C st (dataHash C tagApproveMessages m) proof with
        | error e => simp [hv] at h
        | ok b =>
          simp only [hv] at h
          have h' : approveAll C st msgs [] = (st', evs) := by injection h
          exact ⟨proof, msgs, b, rfl, rfl, by simpa using he, hv, h'.symm⟩

theorem rotateSigners_spec (C : Crypto) (st st' : State) (ctx : Ctx) (s p : Bytes) (evs : List Ev)
    (h : rotateSigners C st ctx s p = .ok (st', evs)) :
    ∃ proof ws isLatest, top decProof p = some proof ∧ top decSigners s = some ws ∧
      st.operator.isEmpty = false ∧
      validateProof C st (dataHash C tagRotateSigners s) proof = .ok isLatest ∧
      (ctx.caller ≠ st.operator → isLatest = true) ∧
      rotateSignersRaw C st ctx.now ws (ctx.caller != st.operator) = .ok (st', evs) := by
  unfold rotateSigners at h
  cases hp : top decProof p with
  | none => simp [hp] at h
  | some proof =>
    simp only [hp] at h
    cases hs : top decSigners s with
    | none => simp [hs] at h
    | some ws =>
      simp only [hs] at h
      by_cases ho : st.operator.isEmpty = true
      · simp [ho] at h
      · simp only [ho, Bool.false_eq_true, if_false] at h
        cases hv : validateProof C st (dataHash C tagRotateSigners s) proof with
        | error e => simp [hv] at h
        | ok isLatest =>
          simp only [hv] at h
          split at h
          · cases h
          · rename_i hl
            refine ⟨proof, ws, isLatest, rfl, rfl, by simpa using ho, hv, ?_, h⟩
            intro hne
            simp only [Bool.and_eq_true, Bool.not_eq_true', not_and, Bool.not_eq_false] at hl
            exact hl (by simpa using hne)

/-! ### message lifecycle (C02) -/

/-- the allowed movements of one message entry -/
def Trans (s s' : MsgState) : Prop :=
  s' = s ∨ (s = .nonExistent ∧ ∃ h, s' = .approved h) ∨ (∃ h, s = .approved h ∧ s' = .executed)

theorem Trans.refl (s : MsgState) : Trans s s := Or.inl rfl

/-- approvals never touch an existing entry and never execute -/
def ApproveTrans (s s' : MsgState) : Prop := s' = s ∨ (s = .nonExistent ∧ ∃ h, s' = .approved h)

theorem approveMessage_trans (C : Crypto) (st : State) (m : Message) (k : Bytes × Bytes) :
    ApproveTrans (st.messages k) ((approveMessage C st m).1.messages k) := by
  unfold approveMessage
  split
  · rename_i hne
    by_cases hk : k = (m.sourceChain, m.messageId)
    · subst hk; right; exact ⟨hne, _, by simp only [upd_same]; rfl⟩
    · left; simp [upd_other _ _ _ _ hk]
  · left; rfl

theorem ApproveTrans.trans {a b c : MsgState} (h1 : ApproveTrans a b) (h2 : ApproveTrans b c) :
    ApproveTrans a c := by
  rcases h1 with rfl | ⟨rfl, h, rfl⟩
  · exact h2
  · rcases h2 with rfl | ⟨hc, _⟩
    · right; exact ⟨rfl, h, rfl⟩
    · cases hc

theorem approveAll_trans (C : Crypto) (st : State) (ms : List Message) (evs : List Ev)
    (k : Bytes × Bytes) : ApproveTrans (st.messages k) ((approveAll C st ms evs).1.messages k) := by
  induction ms generalizing st evs with
  | nil => left; rfl
  | cons m ms ih =>
    simp only [approveAll]
    exact (approveMessage_trans C st m k).trans (ih _ _)

/-- `validateMessage`: true exactly when the entry is the approval for this caller and these
    fields; then (and only then) the entry becomes executed; nothing else changes -/
theorem validateMessage_spec (C : Crypto) (st : State) (caller chain id src ph : Bytes) :
    let r := validateMessage C st caller chain id src ph
    (r.2.1 = true ↔ st.messages (chain, id) = .approved (messageHash C chain id src caller ph)) ∧
    (r.2.1 = true → r.1 = { st with messages := upd st.messages (chain, id) .executed }) ∧
    (r.2.1 = false → r.1 = st ∧ r.2.2 = []) := by
  simp only [validateMessage]
  split <;> simp_all

/-- anything preserved by one raw rotation (no delay enforced) is preserved by the loop of `upgrade` -/
theorem upgradeLoop_induct (C : Crypto) (now : Nat) (P : State → Prop)
    (hstep : ∀ st st' ws evs, P st → rotateSignersRaw C st now ws false = .ok (st', evs) → P st')
    (l : List WeightedSigners) (st : State) (e : List Ev) (st1 : State) (e1 : List Ev) (hp : P st)
    (hl : upgradeLoop C now st l e = .ok (st1, e1)) : P st1 := by
  induction l generalizing st e with
  | nil => simp [upgradeLoop] at hl; obtain ⟨rfl, _⟩ := hl; exact hp
  | cons w l ih =>
    unfold upgradeLoop at hl
    cases hr : rotateSignersRaw C st now w false with
    | error err => simp [hr] at hl
    | ok v =>
      obtain ⟨st2, e2⟩ := v
      simp only [hr] at hl
      exact ih st2 _ (hstep st st2 w e2 hp hr) hl

/-- `upgrade`: anything preserved by setting the operator and by a raw rotation is preserved -/
theorem upgrade_induct (C : Crypto) (now : Nat) (P : State → Prop)
    (hop : ∀ st op, P st → P { st with operator := op })
    (hstep : ∀ st st' ws evs, P st → rotateSignersRaw C st now ws false = .ok (st', evs) → P st')
    (st : State) (op : Bytes) (ss : List WeightedSigners) (st1 : State) (e1 : List Ev) (hp : P st)
    (hu : upgrade C st now op ss = .ok (st1, e1)) : P st1 := by
  unfold upgrade at hu
  by_cases hz : isZeroAddr op = true
  · simp only [hz, if_true] at hu
    exact upgradeLoop_induct C now P hstep ss st _ st1 e1 hp hu
  · simp only [hz, Bool.false_eq_true, if_false] at hu
    exact upgradeLoop_induct C now P hstep ss _ _ st1 e1 (hop st op hp) hu

/-- what the rotation loop of `upgrade` does to the registry: one epoch per set, registered hashes keep
    their epoch, and every set of the list is well-formed, was unregistered before and is registered after -/
theorem upgradeLoop_spec (C : Crypto) (now : Nat) (l : List WeightedSigners) (st : State) (e : List Ev)
    (st1 : State) (e1 : List Ev) (hl : upgradeLoop C now st l e = .ok (st1, e1)) :
    st1.epoch = st.epoch + l.length ∧
    (∀ h, st.epochByHash h ≠ 0 → st1.epochByHash h = st.epochByHash h) ∧
    (∀ ws ∈ l, wfSigners ws = true ∧ st.epochByHash (signersHash C ws) = 0 ∧
        st1.epochByHash (signersHash C ws) ≠ 0) := by
  induction l generalizing st e with
  | nil =>
    simp [upgradeLoop] at hl; obtain ⟨rfl, _⟩ := hl
    exact ⟨by simp, fun _ _ => rfl, by simp⟩
  | cons w l ih =>
    unfold upgradeLoop at hl
    cases hr : rotateSignersRaw C st now w false with
    | error err => simp [hr] at hl
    | ok v =>
      obtain ⟨st2, e2⟩ := v
      simp only [hr] at hl
      obtain ⟨hwf, hnew, _, _, hst2, _⟩ := rotateSignersRaw_spec C st st2 now w false e2 hr
      obtain ⟨i1, i2, i3⟩ := ih st2 _ hl
      have h2e : st2.epoch = st.epoch + 1 := by rw [hst2]
      have h2h : ∀ h, st2.epochByHash h = if h = signersHash C w then st.epoch + 1 else st.epochByHash h := by
        intro h; rw [hst2]; simp only [upd]
      refine ⟨by rw [i1, h2e]; simp only [List.length_cons]; omega, ?_, ?_⟩
      · intro h hh
        have hne : h ≠ signersHash C w := by intro hx; rw [hx] at hh; exact hh hnew
        have e2h : st2.epochByHash h = st.epochByHash h := by rw [h2h]; simp [hne]
        rw [i2 h (by rw [e2h]; exact hh), e2h]
      · intro ws hws
        rcases List.mem_cons.mp hws with rfl | hmem
        · refine ⟨hwf, hnew, ?_⟩
          have : st2.epochByHash (signersHash C ws) = st.epoch + 1 := by rw [h2h]; simp
          rw [i2 _ (by rw [this]; omega), this]; omega
        · obtain ⟨a, b, c⟩ := i3 ws hmem
          refine ⟨a, ?_, c⟩
          rw [h2h] at b
          split at b
          · omega
          · exact b

theorem upgrade_messages (C : Crypto) (now : Nat) (st : State) (op : Bytes) (ss : List WeightedSigners)
    (st1 : State) (e1 : List Ev) (hu : upgrade C st now op ss = .ok (st1, e1)) :
    st1.messages = st.messages :=
  upgrade_induct C now (fun s => s.messages = st.messages) (fun _ _ h => h)
    (fun s s' ws evs h hr => by
      obtain ⟨_, _, _, _, rfl, _⟩ := rotateSignersRaw_spec C s s' now ws false evs hr; exact h)
    st op ss st1 e1 rfl hu

theorem call_trans (C : Crypto) (st st' : State) (ctx : Ctx) (func : String) (args : List Bytes)
    (rs : List Bytes) (evs : List Ev) (h : call C st ctx func args = .ok (st', rs, evs))
    (k : Bytes × Bytes) : Trans (st.messages k) (st'.messages k) := by
  rcases call_cases C st ctx func args st' rs evs h with
    ⟨m, p, _, _, ha⟩ | ⟨s, p, _, _, hr⟩ | ⟨chain, id, src, ph, b, _, _, _, hv, _⟩ | ⟨op, _, _, _, ht⟩ |
    ⟨_, _, op, _, ss, _, _, _, _, _, hu⟩ | rfl
  · obtain ⟨proof, msgs, b, _, _, _, _, he⟩ := approveMessages_spec C st st' m p evs ha
    have := approveAll_trans C st msgs [] k
    rw [← he] at this
    rcases this with h1 | h2
    · exact Or.inl h1
    · exact Or.inr (Or.inl h2)
  · obtain ⟨proof, ws, il, _, _, _, _, _, hraw⟩ := rotateSigners_spec C st st' ctx s p evs hr
    obtain ⟨_, _, _, _, rfl, _⟩ := rotateSignersRaw_spec C st st' ctx.now ws _ evs hraw
    exact Or.inl rfl
  · have hs := validateMessage_spec C st ctx.caller chain id src ph
    simp only [hv] at hs
    obtain ⟨h1, h2, h3⟩ := hs
    cases b with
    | false => obtain ⟨rfl, _⟩ := h3 rfl; exact Or.inl rfl
    | true =>
      have := h2 rfl; subst this
      by_cases hk : k = (chain, id)
      · subst hk; right; right; exact ⟨_, h1.mp rfl, by simp [upd_same]⟩
      · left; simp [upd_other _ _ _ _ hk]
  · unfold transferOperatorship at ht
    split at ht
    · cases ht
    · split at ht
      · split at ht
        · cases ht
        · cases ht; exact Or.inl rfl
      · cases ht
  · rw [upgrade_messages C ctx.now st op ss st' evs hu]; exact Or.inl rfl
  · exact Or.inl rfl

theorem stepCall_trans (C : Crypto) (st : State) (c : Call) (k : Bytes × Bytes) :
    Trans (st.messages k) ((stepCall C st c).messages k) := by
  unfold stepCall
  cases h : call C st c.ctx c.func c.args with
  | error e => exact Or.inl rfl
  | ok v => obtain ⟨st', rs, evs⟩ := v; exact call_trans C st st' _ _ _ rs evs h k

theorem Trans.rank_le {s s' : MsgState} (h : Trans s s') : rank s ≤ rank s' := by
  rcases h with rfl | ⟨rfl, h, rfl⟩ | ⟨h, rfl, rfl⟩ <;> simp [rank]

theorem Trans.executed {s' : MsgState} (h : Trans .executed s') : s' = .executed := by
  rcases h with rfl | ⟨hc, _⟩ | ⟨h, hc, _⟩
  · rfl
  · cases hc
  · cases hc

theorem Trans.approved {h : Bytes} {s' : MsgState} (ht : Trans (.approved h) s') :
    s' = .approved h ∨ s' = .executed := by
  rcases ht with rfl | ⟨hc, _⟩ | ⟨h', hc, rfl⟩
  · exact Or.inl rfl
  · cases hc
  · exact Or.inr rfl

end Axelar.Gateway

namespace Axelar.Gateway
open Axelar Axelar.GatewaySpec Codec


theorem approve_call_inv (C : Crypto) (st st' : State) (ctx : Ctx) (args rs : List Bytes)
    (evs : List Ev) (h : call C st ctx "approveMessages" args = .ok (st', rs, evs)) :
    ∃ m p, args = [m, p] ∧ approveMessages C st m p = .ok (st', evs) := by
  unfold call at h
  split at h
  · rename_i m p _
    cases hm : approveMessages C st m p with
    | error e => simp [hm] at h
    | ok v =>
      obtain ⟨a, b⟩ := v
      simp only [hm] at h
      cases h
      exact ⟨m, p, rfl, hm⟩
  all_goals simp_all

theorem validate_call_inv (C : Crypto) (st st' : State) (ctx : Ctx) (args rs : List Bytes)
    (evs : List Ev) (h : call C st ctx "validateMessage" args = .ok (st', rs, evs)) :
    ∃ chain id src ph, args = [chain, id, src, ph] ∧ ph.length = 32 ∧
      validateMessage C st ctx.caller chain id src ph =
        (st', (validateMessage C st ctx.caller chain id src ph).2.1, evs) ∧
      rs = [encBool (validateMessage C st ctx.caller chain id src ph).2.1] := by
  unfold call at h
  split at h
  any_goals simp_all
  rename_i chain id src ph
  cases hph : topFixed 32 ph with
  | none => simp [hph] at h
  | some ph' =>
    simp only [hph] at h
    have hl : ph.length = 32 ∧ ph' = ph := by
      unfold topFixed at hph; split at hph <;> simp_all
    obtain ⟨hl, rfl⟩ := hl
    simp only [Except.ok.injEq, Prod.mk.injEq] at h
    obtain ⟨h1, h2, h3⟩ := h
    refine ⟨chain, id, src, ph', ⟨rfl, rfl, rfl, rfl⟩, hl, ?_, h2.symm⟩
    rw [← h1, ← h3]

theorem upgradeLoop_regInv (C : Crypto) (now : Nat) (l : List WeightedSigners) (st : State)
    (e : List Ev) (st1 : State) (e1 : List Ev) (hi : RegInv st)
    (hl : upgradeLoop C now st l e = .ok (st1, e1)) : RegInv st1 := by
  induction l generalizing st e with
  | nil => simp [upgradeLoop] at hl; obtain ⟨rfl, _⟩ := hl; exact hi
  | cons w l ih =>
    unfold upgradeLoop at hl
    cases hr : rotateSignersRaw C st now w false with
    | error err => simp [hr] at hl
    | ok v =>
      obtain ⟨st2, e2⟩ := v
      simp only [hr] at hl
      exact ih st2 _ (rotateSignersRaw_regInv C st st2 now w false e2 hi hr) hl

theorem init_regInv (C : Crypto) (now : Nat) (args : List Bytes) (st0 : State) (evs : List Ev)
    (hinit : initCall C now args = .ok (st0, evs)) : RegInv st0 := by
  unfold initCall at hinit
  split at hinit
  · split at hinit
    · rename_i dom' delay' op' ss _ _ _ _
      unfold init upgrade at hinit
      by_cases hz : isZeroAddr op' = true
      · simp only [hz, if_true] at hinit
        exact upgradeLoop_regInv C now ss _ _ st0 evs
          ⟨fun h hh => by simp [State.empty] at hh, fun e h1 h2 => by simp [State.empty] at h2; omega⟩ hinit
      · simp only [hz, Bool.false_eq_true, if_false] at hinit
        exact upgradeLoop_regInv C now ss _ _ st0 evs
          ⟨fun h hh => by simp [State.empty, transferOperatorshipRaw] at hh,
           fun e h1 h2 => by simp [State.empty, transferOperatorshipRaw] at h2; omega⟩ hinit
    · cases hinit
  · cases hinit

end Axelar.Gateway
