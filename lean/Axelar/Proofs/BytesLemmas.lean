import Axelar.Basic.Bytes
namespace Axelar

@[simp] theorem zeros_length (n : Nat) : (zeros n).length = n := by simp [zeros]

@[simp] theorem natBEw_length (w n : Nat) : (natBEw w n).length = w := by
  induction w generalizing n with
  | zero => simp [natBEw]
  | succ w ih => simp [natBEw, ih]

theorem beNat_append_single (bs : Bytes) (b : UInt8) :
    beNat (bs ++ [b]) = beNat bs * 256 + b.toNat := by
  simp [beNat, List.foldl_append]

theorem beNat_nil : beNat [] = 0 := rfl

theorem toNat_ofNat_mod (n : Nat) : (UInt8.ofNat (n % 256)).toNat = n % 256 := by
  simp

theorem beNat_natBEw (w n : Nat) : beNat (natBEw w n) = n % 256 ^ w := by
  induction w generalizing n with
  | zero => simp [natBEw, beNat_nil, Nat.mod_one]
  | succ w ih =>
    simp only [natBEw, beNat_append_single, ih, toNat_ofNat_mod]
    rw [Nat.pow_succ, Nat.mul_comm (256 ^ w) 256, Nat.mod_mul]
    omega

theorem beNat_natBE (n : Nat) : beNat (natBE n) = n := by
  induction n using Nat.strongRecOn with
  | _ n ih =>
    unfold natBE
    split
    · subst_vars; rfl
    · rename_i h
      rw [beNat_append_single, ih (n / 256) (by omega), toNat_ofNat_mod]
      omega

theorem natBE_zero : natBE 0 = [] := by unfold natBE; simp

theorem natBE_pos {n : Nat} (h : n ≠ 0) :
    natBE n = natBE (n / 256) ++ [UInt8.ofNat (n % 256)] := by
  rw [natBE]; simp [h]

/-- zero-extension of a fixed-width encoding -/
theorem natBEw_zero (w : Nat) : natBEw w 0 = zeros w := by
  induction w with
  | zero => rfl
  | succ w ih =>
    simp only [natBEw, Nat.zero_div, ih, Nat.zero_mod]
    simp [zeros, List.replicate_succ']

theorem pad_natBE (w n : Nat) (h : n < 256 ^ w) :
    zeros (w - (natBE n).length) ++ natBE n = natBEw w n ∧ (natBE n).length ≤ w := by
  induction w generalizing n with
  | zero =>
    have : n = 0 := by simpa using h
    subst this; simp [natBE_zero, natBEw, zeros]
  | succ w ih =>
    by_cases hn : n = 0
    · subst hn; simp [natBE_zero, natBEw_zero]
    · have hdiv : n / 256 < 256 ^ w := by
        rw [Nat.pow_succ] at h; omega
      obtain ⟨h1, h2⟩ := ih (n / 256) hdiv
      rw [natBE_pos hn]
      simp only [natBEw, List.length_append, List.length_singleton]
      refine ⟨?_, by omega⟩
      rw [← h1, List.append_assoc]
      congr 2
      omega

theorem natBE_length_lt (w n : Nat) (h : (natBE n).length ≤ w) : n < 256 ^ w := by
  induction w generalizing n with
  | zero =>
    by_cases hn : n = 0
    · subst hn; simp
    · rw [natBE_pos hn] at h; simp at h
  | succ w ih =>
    by_cases hn : n = 0
    · subst hn; exact Nat.pow_pos (by omega)
    · rw [natBE_pos hn] at h
      simp at h
      have := ih (n / 256) h
      rw [Nat.pow_succ]; omega

/-- widening a fixed-width encoding of a small number prepends zeros -/
theorem natBEw_widen (k w n : Nat) (h : n < 256 ^ w) :
    natBEw (k + w) n = zeros k ++ natBEw w n := by
  induction w generalizing n with
  | zero =>
    have : n = 0 := by simpa using h
    subst this; simp [natBEw_zero, natBEw]
  | succ w ih =>
    have hdiv : n / 256 < 256 ^ w := by rw [Nat.pow_succ] at h; omega
    show natBEw (k + w + 1) n = _
    simp only [natBEw, ih (n / 256) hdiv, List.append_assoc]

end Axelar

namespace Axelar

theorem u32be_length (n : Nat) : (u32be n).length = 4 := by simp [u32be]

theorem u32be_inj (a b : Nat) (ha : a < 2 ^ 32) (hb : b < 2 ^ 32) (h : u32be a = u32be b) : a = b := by
  have h1 := beNat_natBEw 4 a
  have h2 := beNat_natBEw 4 b
  unfold u32be at h
  rw [h] at h1
  rw [h1] at h2
  have e : (256 : Nat) ^ 4 = 2 ^ 32 := by decide
  rw [e] at h2
  rw [Nat.mod_eq_of_lt ha, Nat.mod_eq_of_lt hb] at h2
  exact h2

/-- the length-prefixed encoding is uniquely decodable in front of any continuation -/
theorem nestBuf_append_inj (a b r r' : Bytes) (ha : a.length < 2 ^ 32) (hb : b.length < 2 ^ 32)
    (h : nestBuf a ++ r = nestBuf b ++ r') : a = b ∧ r = r' := by
  unfold nestBuf at h
  simp only [List.append_assoc] at h
  obtain ⟨h1, h2⟩ := List.append_inj h (by simp [u32be_length])
  have hl := u32be_inj _ _ ha hb h1
  exact List.append_inj h2 hl

end Axelar
