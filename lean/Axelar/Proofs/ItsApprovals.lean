/-
  C19, over every schedule: an entry of the destination-minter approvals table is only ever
  written under a key derived from the address of the account that makes the call (its author),
  or cleared.
-/
import Axelar.Proofs.ItsRel
import Axelar.Proofs.ItsHistory
namespace Axelar.ItsW
open Axelar Codec Its

/-- every approval entry is unchanged, cleared, or written under a key derived from `author` -/
def ApprRel (C : Crypto) (author : Option Bytes) (s s' : Its.State) : Prop :=
  ∀ key, s'.approvedMinters key = s.approvedMinters key ∨ s'.approvedMinters key = [] ∨
    ∃ a tid chain, author = some a ∧ key = deployApprovalKey C a tid chain

instance apprRel_rel (C : Crypto) (author : Option Bytes) : Rel (ApprRel C author) where
  refl := fun _ _ => Or.inl rfl
  trans := by
    intro a b c h1 h2 key
    rcases h2 key with e2 | e2 | e2
    · rcases h1 key with e1 | e1 | e1
      · exact Or.inl (e2.trans e1)
      · exact Or.inr (Or.inl (e2.trans e1))
      · exact Or.inr (Or.inr e1)
    · exact Or.inr (Or.inl e2)
    · exact Or.inr (Or.inr e2)

theorem ApprRel.of_eq {C : Crypto} {author : Option Bytes} {s s' : Its.State}
    (h : s'.approvedMinters = s.approvedMinters) : ApprRel C author s s' :=
  fun key => Or.inl (by rw [h])

/-- leaves and descent for runs from a known storage value -/
macro "apprfrom" : tactic => `(tactic| repeat' (first
  | exact PresR.from inferInstance _
  | exact inferInstance
  | exact presRFrom_setI (by exact ApprRel.of_eq rfl)
  | apply presRFrom_getI_bind
  | (refine presRFrom_setI_bind ?_ ?_; exact ApprRel.of_eq rfl)
  | apply presRFrom_keeps_bind
  | (refine presRFrom_bind ?_ ?_)
  | assumption | intro _ | split | (dsimp only; split)))

variable (C : Crypto) (au : Option Bytes)

instance appr_deployTokenManagerRaw (cx : ICtx) (tokenId : Bytes) (ty : Nat) (token : Option Bytes)
    (opRaw : Bytes) : PresR (ApprRel C au) (deployTokenManagerRaw C cx tokenId ty token opRaw) := by
  refine ⟨?_⟩
  intro t addr t' h
  obtain ⟨_, _, h3, _⟩ := deployTokenManagerRaw_spec C cx tokenId ty token opRaw t t' addr h
  rw [h3]; exact ApprRel.of_eq rfl

instance appr_executeWithToken (cx : ICtx) (a b c d e f g h i : Bytes) (n : Nat) :
    PresR (ApprRel C au) (executeWithToken C cx a b c d e f g h i n) := by
  apply presR_of_from; intro s0
  unfold executeWithToken
  apprfrom

instance appr_processInterchainTransfer (cx : ICtx) (a b c d e f : Bytes) :
    PresR (ApprRel C au) (processInterchainTransfer C cx a b c d e f) := by
  unfold processInterchainTransfer; presr
instance appr_processLinkToken (cx : ICtx) (a : Bytes) : PresR (ApprRel C au) (processLinkToken C cx a) := by
  unfold processLinkToken; presr
instance appr_processDeployInterchainToken (cx : ICtx) (a b c d e : Bytes) :
    PresR (ApprRel C au) (processDeployInterchainToken C cx a b c d e) := by
  unfold processDeployInterchainToken; presr
instance appr_execute (cx : ICtx) (a b c d : Bytes) : PresR (ApprRel C au) (execute C cx a b c d) := by
  unfold execute; presr
instance appr_deployInterchainTokenRaw (cx : ICtx) (a b c d : Bytes) (n : Nat) (m : Bytes) (e : Nat) :
    PresR (ApprRel C au) (deployInterchainTokenRaw C cx a b c d n m e) := by
  unfold deployInterchainTokenRaw; presr
instance appr_registerCustomTokenRaw (cx : ICtx) (a b : Bytes) (ty : Nat) (lp : Bytes) :
    PresR (ApprRel C au) (registerCustomTokenRaw C cx a b ty lp) := by
  unfold registerCustomTokenRaw; presr
instance appr_deployRemoteInterchainTokenRaw (cx : ICtx) (a b c d : Bytes) :
    PresR (ApprRel C au) (deployRemoteInterchainTokenRaw C cx a b c d) := by
  unfold deployRemoteInterchainTokenRaw; presr
instance appr_factoryDeployInterchainToken (cx : ICtx) (a b c : Bytes) (d s : Nat) (m : Bytes) :
    PresR (ApprRel C au) (factoryDeployInterchainToken C cx a b c d s m) := by
  unfold factoryDeployInterchainToken; presr
instance appr_executeWithTokenCallback (cx : ICtx) (a b c d e f : Bytes) (n : Nat) (ok : Bool) :
    PresR (ApprRel C au) (executeWithTokenCallback C cx a b c d e f n ok) := by
  apply presR_of_from; intro s0
  unfold executeWithTokenCallback
  apprfrom
instance appr_deployRemoteTokenCallback (cx : ICtx) (a b c d : Bytes) (g : Nat) (caller : Bytes)
    (ok : Bool) (vals : List Bytes) : PresR (ApprRel C au) (deployRemoteTokenCallback C cx a b c d g caller ok vals) := by
  unfold deployRemoteTokenCallback; presr
instance appr_retUnlessAsync (m : M Bytes) [PresR (ApprRel C au) m] : PresR (ApprRel C au) (retUnlessAsync m) := by
  unfold retUnlessAsync; presr
instance appr_unit (m : M Unit) [PresR (ApprRel C au) m] : PresR (ApprRel C au) (ItsW.unit m) := by
  unfold ItsW.unit; presr
instance appr_roleOp (cx : ICtx) (f : TokenManager.State → Except TokenManager.Err (TokenManager.State × List Ev)) :
    PresR (ApprRel C au) (roleOp cx f) :=
  ⟨fun t r t' h => ApprRel.of_eq (roleOp_step cx f t r t' h).approvedMinters⟩

/-- the use of an approval clears exactly its entry -/
theorem appr_useDeployApproval {s s' : Its.State} {a b c d : Bytes}
    (h : useDeployApproval C s a b c d = some s') : ApprRel C au s s' := by
  simp only [useDeployApproval] at h
  split at h
  · cases h
    intro key
    by_cases hk : key = deployApprovalKey C a b c
    · exact Or.inr (Or.inl (by simp [upd, hk]))
    · exact Or.inl (by simp [upd, hk])
  · cases h

instance appr_deployRemoteWithMinter (cx : ICtx) (a b c : Bytes) (dm : Option Bytes) :
    PresR (ApprRel C au) (deployRemoteWithMinter C cx a b c dm) := by
  unfold deployRemoteWithMinter
  apply presR_bind inferInstance; intro st
  refine presR_bind ?_ (fun _ => inferInstance)
  split
  · apply presR_bind inferInstance; intro _
    split
    · apply presR_of_from; intro s0
      apply presRFrom_getI_bind
      split
      · exact PresR.from inferInstance _
      · rename_i st' heq
        exact presRFrom_setI_bind (appr_useDeployApproval C au heq) (fun _ => inferInstance)
    · exact inferInstance
  · presr

/-- an approval is written under the key derived from the CALLER's address -/
instance appr_approveDeployRemote (cx : ICtx) (a b c d : Bytes) :
    PresR (ApprRel C (some cx.caller)) (approveDeployRemote C cx a b c d) := by
  unfold approveDeployRemote
  apply presR_bind inferInstance; intro st
  apply presR_bind inferInstance; intro _
  apply presR_bind inferInstance; intro _
  apply presR_bind inferInstance; intro _
  apply presR_bind inferInstance; intro _
  apply presR_of_from; intro s0
  apply presRFrom_getI_bind
  refine presRFrom_setI ?_
  intro key
  by_cases hk : key = deployApprovalKey C cx.caller (interchainTokenId C st a b) c
  · exact Or.inr (Or.inr ⟨_, _, _, rfl, hk⟩)
  · exact Or.inl (by simp [upd, hk])

/-- a revocation clears the entry under the key derived from the CALLER's address -/
instance appr_revokeDeployRemote (cx : ICtx) (a b c : Bytes) :
    PresR (ApprRel C (some cx.caller)) (revokeDeployRemote C cx a b c) := by
  apply presR_of_from; intro s0
  unfold revokeDeployRemote
  apply presRFrom_getI_bind
  apply presRFrom_keeps_bind; intro _
  refine presRFrom_setI ?_
  intro key
  by_cases hk : key = deployApprovalKey C cx.caller (interchainTokenId C s0 a b) c
  · exact Or.inr (Or.inl (by simp [upd, hk]))
  · exact Or.inl (by simp [upd, hk])

end Axelar.ItsW

namespace Axelar.ItsW
open Axelar Codec Its

set_option maxRecDepth 4000 in
/-- **Frame of the whole dispatcher for the approvals table**: whatever endpoint is called,
    every approval entry is unchanged, cleared, or written under a key derived from the address
    of the caller of this very call. -/
instance appr_call (C : Crypto) (cx : ICtx) (func : String) (args : List Bytes) :
    PresR (ApprRel C (some cx.caller)) (call C cx func args) := by
  apply presR_of_from; intro s0
  unfold call
  apply presRFrom_getI_bind
  repeat' (first
    | exact PresR.from inferInstance _
    | split)
  all_goals (
    unfold ItsW.unit
    apprfrom)

end Axelar.ItsW

namespace Axelar.World
open Axelar ItsW Its

/-- **Every operation of every schedule**: an approval entry either keeps its value, or is
    cleared, or is written under a key derived from the address of the account whose call the
    operation runs (a transaction of that account, or the delivery of a call it registered). -/
theorem step_approvals (C : Crypto) (w : World) (op : Op) (key : Bytes) :
    (step C w op).its.approvedMinters key = w.its.approvedMinters key ∨
    (step C w op).its.approvedMinters key = [] ∨
    ∃ src dst func tid chain, Runs w op src dst func ∧ w.kind dst = some .its ∧
      key = deployApprovalKey C src tid chain := by
  have hcall : ∀ (w1 : World) (src dst : Bytes) (func : String) (egld : Nat) (esdt : List (Bytes × Nat × Nat))
      (args : List Bytes) (w2 : World) (rs : List Bytes) (evs : List Event) (pd : List PendDesc),
      callContract C w1 src dst func egld esdt args = some (w2, rs, evs, pd) →
      w2.its.approvedMinters key = w1.its.approvedMinters key ∨ w2.its.approvedMinters key = [] ∨
      (w1.kind dst = some .its ∧ ∃ tid chain, key = deployApprovalKey C src tid chain) := by
    intro w1 src dst func egld esdt args w2 rs evs pd h
    unfold callContract at h
    split at h
    · rename_i hk
      split at h
      · rename_i rs1 w3 evs1 pd1 hr
        simp only [Option.some.injEq, Prod.mk.injEq] at h
        obtain ⟨rfl, _⟩ := h
        obtain ⟨t', hm, rfl⟩ := runIts_allowed _ _ _ _ _ _ hr
        rcases (appr_call C (itsCtx w1 src dst egld esdt) func args).h _ _ _ hm key with e | e | ⟨a, tid, chain, ha, e⟩
        · exact Or.inl e
        · exact Or.inr (Or.inl e)
        · cases ha
          exact Or.inr (Or.inr ⟨hk, tid, chain, e⟩)
      · cases h
    · rw [callOther_keeps_its C w1 src dst func egld esdt args w2 rs evs pd h]; exact Or.inl rfl
  have hcore : ∀ {s s' : Its.State}, s' = s → s'.approvedMinters key = s.approvedMinters key ∨
      s'.approvedMinters key = [] ∨ ∃ src dst func tid chain, Runs w op src dst func ∧ w.kind dst = some .its ∧
        key = deployApprovalKey C src tid chain := fun h => Or.inl (by rw [h])
  cases op with
  | env now accts mr br na => exact Or.inl rfl
  | tx src dst func egld esdt args =>
    simp only [step, tx]
    split
    · exact Or.inl rfl
    · rename_i w1 hp
      have hi := pay_its _ _ _ _ _ _ hp
      obtain ⟨_, hk, _, _⟩ := pay_gw _ _ _ _ _ _ hp
      split
      · split
        · exact hcore hi
        · exact Or.inl rfl
      · split
        · rename_i w2 rs evs pd hc
          rcases hcall w1 src dst func egld esdt args w2 rs evs pd hc with e | e | ⟨hk1, tid, chain, e⟩
          · exact Or.inl (by rw [← hi]; exact e)
          · exact Or.inr (Or.inl e)
          · exact Or.inr (Or.inr ⟨src, dst, func, tid, chain, Or.inl ⟨egld, esdt, args, rfl⟩, hk ▸ hk1, e⟩)
        · exact Or.inl rfl
  | deliver id how =>
    simp only [step, deliver]
    split
    · exact Or.inl rfl
    · rename_i p hfp
      split
      · exact Or.inl rfl
      · cases how with
        | fail => exact Or.inl rfl
        | ok vals =>
          simp only
          split
          · exact Or.inl rfl
          · rename_i w1 hp
            have h1 := pay_its _ _ _ _ _ _ hp
            exact hcore h1
        | real =>
          simp only
          split
          · exact Or.inl rfl
          · rename_i w1 hp
            have hi := pay_its _ _ _ _ _ _ hp
            obtain ⟨_, hk, _, _⟩ := pay_gw _ _ _ _ _ _ hp
            split
            · rename_i w2 rs evs pd hc
              rcases hcall w1 _ _ _ _ _ _ w2 rs evs pd hc with e | e | ⟨hk1, tid, chain, e⟩
              · exact Or.inl (by rw [← hi]; exact e)
              · exact Or.inr (Or.inl e)
              · exact Or.inr (Or.inr ⟨p.src, p.desc.to, p.desc.func, tid, chain,
                  Or.inr ⟨id, p, rfl, hfp, rfl, rfl, rfl⟩, hk ▸ hk1, e⟩)
            · split
              · exact hcore hi
              · exact Or.inl rfl
  | callback id =>
    -- no callback writes an approval: all of them stay within `ApprRel` for an author that is
    -- not available here, so use the unchanged-or-cleared part only
    have hnone : ∀ {α : Type} (w0 : World) (m : M α) [hp : PresR (ApprRel C none) m] (a : α) (w1 : World)
        (evs : List Event) (pd : List PendDesc), runIts w0 m = some (a, w1, evs, pd) →
        w1.its.approvedMinters key = w0.its.approvedMinters key ∨ w1.its.approvedMinters key = [] := by
      intro α w0 m hp a w1 evs pd hr
      obtain ⟨t', hm, rfl⟩ := runIts_allowed _ _ _ _ _ _ hr
      rcases hp.h _ _ _ hm key with e | e | ⟨_, _, _, ha, _⟩
      · exact Or.inl e
      · exact Or.inr e
      · cases ha
    simp only [step, callback]
    split
    · exact Or.inl rfl
    · rename_i p hfp
      split
      · exact Or.inl rfl
      · rename_i okFlag vals hres
        split
        · split
          · exact Or.inl rfl
          · split
            · rename_i w1 rs evs pd hf
              have h1 := tmFinish_its _ _ _ _ _ _ _ hf
              exact hcore h1
            · exact Or.inl rfl
        · split
          · rename_i w1 rs evs pd hf
            have h1 := govFinish_its _ _ _ _ _ _ _ _ hf
            exact hcore h1
          · exact Or.inl rfl
        · split
          · rename_i u w1 evs pd hr
            rcases hnone _ _ _ _ _ _ hr with e | e
            · exact Or.inl e
            · exact Or.inr (Or.inl e)
          · exact Or.inl rfl
        · split
          · rename_i u w1 evs pd hr
            rcases hnone _ _ _ _ _ _ hr with e | e
            · exact Or.inl e
            · exact Or.inr (Or.inl e)
          · exact Or.inl rfl
        · split
          · rename_i u w1 evs pd hr
            rcases hnone _ _ _ _ _ _ hr with e | e
            · exact Or.inl e
            · exact Or.inr (Or.inl e)
          · exact Or.inl rfl

end Axelar.World
