/-
  Frame reasoning for the token service: which computations leave the service's own storage
  unchanged (`Keeps`), and what the others change.  Used for the all-histories theorems of
  C13, C14, C19, C20.
-/
import Axelar.Proofs.ItsMonad
namespace Axelar.ItsW
open Axelar Codec Its

/-- `m` never changes the token service's own storage -/
class Keeps {α : Type} (m : M α) : Prop where
  h : ∀ t a t', m t = some (a, t') → t'.w.its = t.w.its

instance keeps_pure {α : Type} (a : α) : Keeps (pure a : M α) := by
  refine ⟨?_⟩; intro t b t' h; simp only [run_pure, Option.some.injEq, Prod.mk.injEq] at h; rw [← h.2]

instance keeps_fail {α : Type} : Keeps (fail : M α) := by
  refine ⟨?_⟩; intro t b t' h; simp at h

theorem keeps_bind {α β : Type} {m : M α} {f : α → M β} (hm : Keeps m) (hf : ∀ a, Keeps (f a)) :
    Keeps (m >>= f) := by
  refine ⟨?_⟩
  intro t b t' h
  simp only [run_bind] at h
  cases hx : m t with
  | none => simp [hx] at h
  | some x =>
    obtain ⟨a, t1⟩ := x
    simp only [hx] at h
    rw [(hf a).h t1 b t' h, hm.h t a t1 hx]

instance keeps_require (b : Bool) : Keeps (require b) := by
  refine ⟨?_⟩
  intro t a t' h
  simp only [run_require] at h
  split at h
  · simp only [Option.some.injEq, Prod.mk.injEq] at h; rw [← h.2]
  · cases h

instance keeps_getI : Keeps getI := by
  refine ⟨?_⟩; intro t a t' h; simp only [run_getI, Option.some.injEq, Prod.mk.injEq] at h; rw [← h.2]
instance keeps_getW : Keeps getW := by
  refine ⟨?_⟩; intro t a t' h; simp only [run_getW, Option.some.injEq, Prod.mk.injEq] at h; rw [← h.2]
instance keeps_get : Keeps (get : M Tx) := by
  refine ⟨?_⟩
  intro t a t' h
  have : (get : M Tx) t = some (t, t) := rfl
  rw [this] at h; simp only [Option.some.injEq, Prod.mk.injEq] at h; rw [← h.2]
instance keeps_emit (cx : ICtx) (n : String) (a b : List Bytes) : Keeps (emit cx n a b) := by
  refine ⟨?_⟩; intro t x t' h; simp only [run_emit, Option.some.injEq, Prod.mk.injEq] at h; rw [← h.2]
instance keeps_subcall (C : Crypto) (cx : ICtx) (dst : Bytes) (f : String) (e : Nat)
    (es : List (Bytes × Nat × Nat)) (args : List Bytes) : Keeps (subcall C cx dst f e es args) :=
  ⟨fun t rs t' h => subcall_keeps_its C cx dst f e es args t t' rs h⟩
instance keeps_addPend (cx : ICtx) (dst : Bytes) (func : String) (egld : Nat) (esdt : List (String × Nat × Nat))
    (args : List Bytes) (kind : PendKind) : Keeps (addPend cx dst func egld esdt args kind) := by
  refine ⟨?_⟩
  intro t x t' h
  have : addPend cx dst func egld esdt args kind t =
      some ((), { t with w := (World.addPending t.w cx.self dst func egld esdt args kind).1,
                         pend := t.pend ++ [(World.addPending t.w cx.self dst func egld esdt args kind).2] }) := rfl
  rw [this] at h
  simp only [Option.some.injEq, Prod.mk.injEq] at h
  rw [← h.2]; rfl
instance keeps_requireNotPaused : Keeps requireNotPaused := by
  unfold requireNotPaused
  exact keeps_bind keeps_getI (fun _ => keeps_require _)
theorem keeps_ite {α : Type} {c : Prop} [Decidable c] {a b : M α} (ha : Keeps a) (hb : Keeps b) :
    Keeps (if c then a else b) := by
  split <;> assumption

instance keeps_bind_inst {α β : Type} {m : M α} {f : α → M β} [hm : Keeps m] [hf : ∀ a, Keeps (f a)] :
    Keeps (m >>= f) := keeps_bind hm hf

/-- discharge `Keeps` goals by structural descent -/
macro "keeps" : tactic => `(tactic| repeat (first
  | exact inferInstance | assumption | apply keeps_bind | intro _ | split))

instance keeps_gatewayValidate (C : Crypto) (cx : ICtx) (a b c d : Bytes) : Keeps (gatewayValidate C cx a b c d) := by
  unfold gatewayValidate; keeps
instance keeps_gatewayIsApproved (C : Crypto) (cx : ICtx) (a b c d : Bytes) : Keeps (gatewayIsApproved C cx a b c d) := by
  unfold gatewayIsApproved; keeps
instance keeps_callContract (C : Crypto) (cx : ICtx) (a b c : Bytes) (g : Its.Tok) (n : Nat) :
    Keeps (callContract C cx a b c g n) := by
  unfold callContract; keeps
instance keeps_routeMessage (C : Crypto) (cx : ICtx) (a b : Bytes) (g : Its.Tok) (n : Nat) :
    Keeps (routeMessage C cx a b g n) := by
  unfold routeMessage; keeps
instance keeps_deployedTokenManager (tid : Bytes) : Keeps (deployedTokenManager tid) := by
  unfold deployedTokenManager; keeps
instance keeps_tmTakeToken (C : Crypto) (cx : ICtx) (tid : Bytes) (tok : Its.Tok) (n : Nat) :
    Keeps (tmTakeToken C cx tid tok n) := by
  unfold tmTakeToken; keeps
instance keeps_tmGiveToken (C : Crypto) (cx : ICtx) (tid dest : Bytes) (n : Nat) :
    Keeps (tmGiveToken C cx tid dest n) := by
  unfold tmGiveToken; keeps
instance keeps_tmDeployInterchainToken (C : Crypto) (cx : ICtx) (tid : Bytes) (m : Option Bytes) (a b : Bytes) (d : Nat) :
    Keeps (tmDeployInterchainToken C cx tid m a b d) := by
  unfold tmDeployInterchainToken; keeps
instance keeps_registeredTokenIdentifier (C : Crypto) (cx : ICtx) (tid : Bytes) :
    Keeps (registeredTokenIdentifier C cx tid) := by
  unfold registeredTokenIdentifier; keeps

end Axelar.ItsW

namespace Axelar.ItsW
open Axelar Codec Its

/-! ### what the flows of the service may change -/

/-- the part of the service's storage that no flow other than the owner / role endpoints touches,
    and the write-once discipline of the token-manager table -/
structure Core (s s' : Its.State) : Prop where
  gateway : s'.gateway = s.gateway
  gasService : s'.gasService = s.gasService
  tmImpl : s'.tmImpl = s.tmImpl
  chainName : s'.chainName = s.chainName
  chainNameHash : s'.chainNameHash = s.chainNameHash
  paused : s'.paused = s.paused
  trusted : s'.trusted = s.trusted
  roles : s'.roles = s.roles
  proposed : s'.proposed = s.proposed
  tm : ∀ id, s.tmAddress id ≠ [] → s'.tmAddress id = s.tmAddress id

theorem Core.refl (s : Its.State) : Core s s := ⟨rfl, rfl, rfl, rfl, rfl, rfl, rfl, rfl, rfl, fun _ _ => rfl⟩

theorem Core.trans {a b c : Its.State} (h1 : Core a b) (h2 : Core b c) : Core a c where
  gateway := h2.gateway.trans h1.gateway
  gasService := h2.gasService.trans h1.gasService
  tmImpl := h2.tmImpl.trans h1.tmImpl
  chainName := h2.chainName.trans h1.chainName
  chainNameHash := h2.chainNameHash.trans h1.chainNameHash
  paused := h2.paused.trans h1.paused
  trusted := h2.trusted.trans h1.trusted
  roles := h2.roles.trans h1.roles
  proposed := h2.proposed.trans h1.proposed
  tm := fun id hne => by
    have e1 := h1.tm id hne
    have : b.tmAddress id ≠ [] := by rw [e1]; exact hne
    rw [h2.tm id this, e1]

theorem Core.of_eq {s s' : Its.State} (h : s' = s) : Core s s' := by subst h; exact Core.refl _

/-- every successful run of `m` changes the service's storage only within `Core` -/
class Pres {α : Type} (m : M α) : Prop where
  h : ∀ t a t', m t = some (a, t') → Core t.w.its t'.w.its

instance Keeps.pres {α : Type} {m : M α} [hk : Keeps m] : Pres m :=
  ⟨fun t a t' h => Core.of_eq (hk.h t a t' h)⟩

theorem pres_bind {α β : Type} {m : M α} {f : α → M β} (hm : Pres m) (hf : ∀ a, Pres (f a)) :
    Pres (m >>= f) := by
  refine ⟨?_⟩
  intro t b t' h
  simp only [run_bind] at h
  cases hx : m t with
  | none => simp [hx] at h
  | some x =>
    obtain ⟨a, t1⟩ := x
    simp only [hx] at h
    exact (hm.h t a t1 hx).trans ((hf a).h t1 b t' h)

/-- `getI` followed by a computation that may depend on the value read -/
theorem pres_getI_bind {β : Type} {f : Its.State → M β}
    (hf : ∀ t b t', f t.w.its t = some (b, t') → Core t.w.its t'.w.its) : Pres (getI >>= f) := by
  refine ⟨?_⟩
  intro t b t' h
  simp only [run_bind, run_getI] at h
  exact hf t b t' h


instance pres_bind_inst {α β : Type} {m : M α} {f : α → M β} [hm : Pres m] [hf : ∀ a, Pres (f a)] :
    Pres (m >>= f) := pres_bind hm hf

/-- discharge `Pres` goals by structural descent; leaves the genuinely state-changing leaves -/
macro "pres" : tactic => `(tactic| repeat (first
  | exact inferInstance | assumption | apply pres_bind | intro _ | split | (show Pres _; dsimp only; split)))

/-! #### flows that do not write the service's storage -/

instance keeps_transmitInterchainTransfer (C : Crypto) (cx : ICtx) (a b c d : Bytes) (tg : TransferAndGas) (e : Bytes) :
    Keeps (transmitInterchainTransfer C cx a b c d tg e) := by
  unfold transmitInterchainTransfer; keeps

instance keeps_deployRemoteBase (C : Crypto) (cx : ICtx) (a b c : Bytes) (d : Nat) (e f : Bytes) (g : Nat) :
    Keeps (deployRemoteBase C cx a b c d e f g) := by
  unfold deployRemoteBase; keeps

instance keeps_linkTokenRaw (C : Crypto) (cx : ICtx) (a b c : Bytes) (ty : Nat) (lp : Bytes) (g : Nat) :
    Keeps (linkTokenRaw C cx a b c ty lp g) := by
  unfold linkTokenRaw; keeps

instance keeps_interchainTransfer (C : Crypto) (cx : ICtx) (a b c : Bytes) (d : Option Bytes) (g : Nat) :
    Keeps (interchainTransfer C cx a b c d g) := by
  unfold interchainTransfer; keeps

instance keeps_registerTokenMetadataRaw (C : Crypto) (cx : ICtx) (a : Bytes) (d g : Nat) :
    Keeps (registerTokenMetadataRaw C cx a d g) := by
  unfold registerTokenMetadataRaw; keeps

instance keeps_checkTokenMinter (C : Crypto) (cx : ICtx) (a b : Bytes) : Keeps (checkTokenMinter C cx a b) := by
  unfold checkTokenMinter; keeps

instance keeps_refundGas (cx : ICtx) (caller : Bytes) (g : Nat) : Keeps (refundGas cx caller g) := by
  refine ⟨?_⟩
  intro t a t' h
  unfold refundGas at h
  split at h
  · simp only [Option.some.injEq, Prod.mk.injEq] at h; rw [← h.2]
  · split at h
    · rename_i w' hs
      simp only [Option.some.injEq, Prod.mk.injEq] at h
      rw [← h.2]
      exact World.send_its _ _ _ _ _ _ hs
    · cases h

instance keeps_registerTokenMetadataCallback (C : Crypto) (cx : ICtx) (a : Bytes) (g : Nat) (c : Bytes) (ok : Bool)
    (vals : List Bytes) : Keeps (registerTokenMetadataCallback C cx a g c ok vals) := by
  unfold registerTokenMetadataCallback; keeps

instance keeps_setFlowLimitsLoop (C : Crypto) (cx : ICtx) (l : List (Bytes × Bytes)) :
    Keeps (setFlowLimitsLoop C cx l) := by
  induction l with
  | nil => exact keeps_pure _
  | cons x l ih =>
    obtain ⟨tid, lim⟩ := x
    unfold setFlowLimitsLoop; keeps

end Axelar.ItsW

namespace Axelar.ItsW
open Axelar Codec Its

/-! #### flows that write the service's storage -/

/-- `deploy_token_manager_raw`, exactly: refused when the id is bound; otherwise binds the id to
    a fresh non-empty address where a manager initialised with the requested arguments now lives;
    nothing else in the service's storage changes -/
theorem deployTokenManagerRaw_spec (C : Crypto) (cx : ICtx) (tokenId : Bytes) (ty : Nat) (token : Option Bytes)
    (opRaw : Bytes) (t t' : Tx) (addr : Bytes)
    (h : deployTokenManagerRaw C cx tokenId ty token opRaw t = some (addr, t')) :
    t.w.its.tmAddress tokenId = [] ∧ addr ≠ [] ∧
    t'.w.its = { t.w.its with tmAddress := upd t.w.its.tmAddress tokenId addr } ∧ t'.w.gw = t.w.gw ∧
    t.w.kind addr = none ∧ t'.w.kind addr = some .tokenManager ∧
    ∃ operator tmst evs, (opRaw = [] ∧ operator = none ∨ opRaw.length = 32 ∧ operator = some opRaw) ∧
      TokenManager.init cx.self ty tokenId operator token = .ok (tmst, evs) ∧ t'.w.tms addr = tmst := by
  simp only [deployTokenManagerRaw, run_bind, run_getI, run_require, run_getW] at h
  by_cases h0 : (t.w.its.tmAddress tokenId).isEmpty = true
  · simp only [h0, if_true] at h
    have hempty : t.w.its.tmAddress tokenId = [] := by simpa using h0
    -- operator parsing
    by_cases ho : opRaw.isEmpty = true
    · simp only [ho, if_true, run_pure] at h
      by_cases ha : (t.w.newAddrs (cx.self, t.w.nonces cx.self)).isEmpty = true
      · simp [ha] at h
      · simp only [ha, Bool.not_false, if_true, Bool.false_eq_true] at h
        by_cases hk : (t.w.kind (t.w.newAddrs (cx.self, t.w.nonces cx.self))).isNone = true
        · simp only [hk, if_true] at h
          cases hi : TokenManager.init cx.self ty tokenId none token with
          | error e => simp [hi] at h
          | ok v =>
            obtain ⟨tmst, evs⟩ := v
            simp only [hi, run_setW, run_bind, run_getI, run_setI, run_emit, run_pure, modify, modifyGet,
              MonadStateOf.modifyGet, StateT.modifyGet, Option.some.injEq, Prod.mk.injEq] at h
            obtain ⟨rfl, rfl⟩ := h
            refine ⟨hempty, by simpa using ha, rfl, rfl,
              by simpa using hk, by simp [upd], none, tmst, evs, Or.inl ⟨by simpa using ho, rfl⟩, hi, by simp [upd]⟩
        · simp [hk] at h
    · simp only [ho, Bool.false_eq_true, if_false] at h
      by_cases hl : opRaw.length = 32
      · simp only [hl, if_true, run_pure] at h
        by_cases ha : (t.w.newAddrs (cx.self, t.w.nonces cx.self)).isEmpty = true
        · simp [ha] at h
        · simp only [ha, Bool.not_false, if_true, Bool.false_eq_true] at h
          by_cases hk : (t.w.kind (t.w.newAddrs (cx.self, t.w.nonces cx.self))).isNone = true
          · simp only [hk, if_true] at h
            cases hi : TokenManager.init cx.self ty tokenId (some opRaw) token with
            | error e => simp [hi] at h
            | ok v =>
              obtain ⟨tmst, evs⟩ := v
              simp only [hi, run_setW, run_bind, run_getI, run_setI, run_emit, run_pure, modify, modifyGet,
                MonadStateOf.modifyGet, StateT.modifyGet, Option.some.injEq, Prod.mk.injEq] at h
              obtain ⟨rfl, rfl⟩ := h
              refine ⟨hempty, by simpa using ha, rfl, rfl,
                by simpa using hk, by simp [upd], some opRaw, tmst, evs, Or.inr ⟨hl, rfl⟩, hi, by simp [upd]⟩
          · simp [hk] at h
      · simp [hl] at h
  · simp [h0] at h

instance pres_deployTokenManagerRaw (C : Crypto) (cx : ICtx) (tokenId : Bytes) (ty : Nat) (token : Option Bytes)
    (opRaw : Bytes) : Pres (deployTokenManagerRaw C cx tokenId ty token opRaw) := by
  refine ⟨?_⟩
  intro t addr t' h
  obtain ⟨h1, _, h3, _⟩ := deployTokenManagerRaw_spec C cx tokenId ty token opRaw t t' addr h
  rw [h3]
  refine ⟨rfl, rfl, rfl, rfl, rfl, rfl, rfl, rfl, rfl, ?_⟩
  intro id hne
  have : id ≠ tokenId := by intro e; rw [e] at hne; exact hne h1
  simp [upd, this]

end Axelar.ItsW

namespace Axelar.ItsW
open Axelar Codec Its

/-- `Pres`, for runs that start with the service's storage equal to `s0` -/
structure PresFrom {α : Type} (s0 : Its.State) (m : M α) : Prop where
  h : ∀ t a t', t.w.its = s0 → m t = some (a, t') → Core s0 t'.w.its

theorem Pres.from {α : Type} {m : M α} (hp : Pres m) (s0 : Its.State) : PresFrom s0 m :=
  ⟨fun t a t' e h => e ▸ hp.h t a t' h⟩

theorem pres_of_from {α : Type} {m : M α} (h : ∀ s0, PresFrom s0 m) : Pres m :=
  ⟨fun t a t' hr => (h t.w.its).h t a t' rfl hr⟩

theorem presFrom_getI_bind {β : Type} {s0 : Its.State} {f : Its.State → M β} (h : PresFrom s0 (f s0)) :
    PresFrom s0 (getI >>= f) := by
  refine ⟨?_⟩
  intro t b t' e hr
  simp only [run_bind, run_getI] at hr
  rw [e] at hr
  exact h.h t b t' e hr

theorem presFrom_keeps_bind {α β : Type} {s0 : Its.State} {m : M α} {f : α → M β} [hk : Keeps m]
    (h : ∀ a, PresFrom s0 (f a)) : PresFrom s0 (m >>= f) := by
  refine ⟨?_⟩
  intro t b t' e hr
  simp only [run_bind] at hr
  cases hx : m t with
  | none => simp [hx] at hr
  | some x =>
    obtain ⟨a, t1⟩ := x
    simp only [hx] at hr
    exact (h a).h t1 b t' ((hk.h t a t1 hx).trans e) hr

theorem presFrom_setI_bind {β : Type} {s0 s' : Its.State} {f : Unit → M β} (hc : Core s0 s')
    (h : ∀ a, Pres (f a)) : PresFrom s0 (setI s' >>= f) := by
  refine ⟨?_⟩
  intro t b t' _ hr
  simp only [run_bind, run_setI] at hr
  exact hc.trans ((h ()).h _ b t' hr)

theorem presFrom_setI {s0 s' : Its.State} (hc : Core s0 s') : PresFrom s0 (setI s') := by
  refine ⟨?_⟩
  intro t b t' _ hr
  simp only [run_setI, Option.some.injEq, Prod.mk.injEq] at hr
  rw [← hr.2]; exact hc

theorem core_lock (s : Its.State) (l : Bytes × Bytes → Bool) : Core s { s with lock := l } :=
  ⟨rfl, rfl, rfl, rfl, rfl, rfl, rfl, rfl, rfl, fun _ _ => rfl⟩
theorem core_approved (s : Its.State) (l : Bytes → Bytes) : Core s { s with approvedMinters := l } :=
  ⟨rfl, rfl, rfl, rfl, rfl, rfl, rfl, rfl, rfl, fun _ _ => rfl⟩

/-- descend through a computation that starts from a known storage value -/
macro "presfrom" : tactic => `(tactic| ((repeat (first
  | exact Pres.from inferInstance _
  | exact presFrom_setI (core_lock _ _) | exact presFrom_setI (core_approved _ _)
  | apply presFrom_getI_bind
  | apply presFrom_setI_bind (core_lock _ _) | apply presFrom_setI_bind (core_approved _ _)
  | apply presFrom_keeps_bind
  | assumption | intro _ | split)) <;> pres))

instance pres_executeWithToken (C : Crypto) (cx : ICtx) (a b c d e f g h i : Bytes) (n : Nat) :
    Pres (executeWithToken C cx a b c d e f g h i n) := by
  apply pres_of_from; intro s0
  unfold executeWithToken
  presfrom

instance pres_processInterchainTransfer (C : Crypto) (cx : ICtx) (a b c d e f : Bytes) :
    Pres (processInterchainTransfer C cx a b c d e f) := by
  unfold processInterchainTransfer; pres

instance pres_processLinkToken (C : Crypto) (cx : ICtx) (a : Bytes) : Pres (processLinkToken C cx a) := by
  unfold processLinkToken; pres

instance pres_processDeployInterchainToken (C : Crypto) (cx : ICtx) (a b c d e : Bytes) :
    Pres (processDeployInterchainToken C cx a b c d e) := by
  unfold processDeployInterchainToken; pres

instance pres_execute (C : Crypto) (cx : ICtx) (a b c d : Bytes) : Pres (execute C cx a b c d) := by
  unfold execute; pres

instance pres_deployInterchainTokenRaw (C : Crypto) (cx : ICtx) (a b c d : Bytes) (n : Nat) (m : Bytes) (e : Nat) :
    Pres (deployInterchainTokenRaw C cx a b c d n m e) := by
  unfold deployInterchainTokenRaw; pres

instance pres_registerCustomTokenRaw (C : Crypto) (cx : ICtx) (a b : Bytes) (ty : Nat) (lp : Bytes) :
    Pres (registerCustomTokenRaw C cx a b ty lp) := by
  unfold registerCustomTokenRaw; pres

instance pres_deployRemoteInterchainTokenRaw (C : Crypto) (cx : ICtx) (a b c d : Bytes) :
    Pres (deployRemoteInterchainTokenRaw C cx a b c d) := by
  unfold deployRemoteInterchainTokenRaw; pres

instance pres_factoryDeployInterchainToken (C : Crypto) (cx : ICtx) (a b c : Bytes) (d s : Nat) (m : Bytes) :
    Pres (factoryDeployInterchainToken C cx a b c d s m) := by
  unfold factoryDeployInterchainToken; pres

instance pres_approveDeployRemote (C : Crypto) (cx : ICtx) (a b c d : Bytes) :
    Pres (approveDeployRemote C cx a b c d) := by
  unfold approveDeployRemote
  apply pres_bind inferInstance; intro _
  apply pres_bind inferInstance; intro _
  apply pres_bind inferInstance; intro _
  apply pres_bind inferInstance; intro _
  apply pres_bind inferInstance; intro _
  apply pres_of_from; intro s0
  presfrom

instance pres_revokeDeployRemote (C : Crypto) (cx : ICtx) (a b c : Bytes) :
    Pres (revokeDeployRemote C cx a b c) := by
  apply pres_of_from; intro s0
  unfold revokeDeployRemote
  presfrom

end Axelar.ItsW

namespace Axelar.ItsW
open Axelar Codec Its

theorem core_useDeployApproval {C : Crypto} {s s' : Its.State} {a b c d : Bytes}
    (h : useDeployApproval C s a b c d = some s') : Core s s' := by
  simp only [useDeployApproval] at h
  split at h
  · cases h; exact core_approved _ _
  · cases h

instance pres_deployRemoteWithMinter (C : Crypto) (cx : ICtx) (a b c : Bytes) (dm : Option Bytes) :
    Pres (deployRemoteWithMinter C cx a b c dm) := by
  unfold deployRemoteWithMinter
  apply pres_bind inferInstance; intro st
  refine pres_bind ?_ (fun _ => inferInstance)
  split
  · apply pres_bind inferInstance; intro _
    split
    · apply pres_of_from; intro s0
      apply presFrom_getI_bind
      split
      · exact Pres.from inferInstance _
      · rename_i st' heq
        exact presFrom_setI_bind (core_useDeployApproval heq) (fun _ => inferInstance)
    · exact inferInstance
  · pres

instance pres_executeWithTokenCallback (C : Crypto) (cx : ICtx) (a b c d e f : Bytes) (n : Nat) (ok : Bool) :
    Pres (executeWithTokenCallback C cx a b c d e f n ok) := by
  apply pres_of_from; intro s0
  unfold executeWithTokenCallback
  presfrom

instance pres_deployRemoteTokenCallback (C : Crypto) (cx : ICtx) (a b c d : Bytes) (g : Nat) (caller : Bytes)
    (ok : Bool) (vals : List Bytes) : Pres (deployRemoteTokenCallback C cx a b c d g caller ok vals) := by
  unfold deployRemoteTokenCallback; pres

instance pres_retUnlessAsync (m : M Bytes) [Pres m] : Pres (retUnlessAsync m) := by
  unfold retUnlessAsync; pres
instance pres_unit (m : M Unit) [Pres m] : Pres (unit m) := by
  unfold ItsW.unit; pres
instance keeps_ret (b : Bytes) : Keeps (ret b) := by unfold ret; exact inferInstance

end Axelar.ItsW

namespace Axelar.ItsW
open Axelar Codec Its

/-! ### the endpoint dispatcher -/

def ownerOps : List String := ["setTrustedAddress", "removeTrustedAddress", "pause", "unpause"]
def roleOps : List String := ["transferOperatorship", "proposeOperatorship", "acceptOperatorship"]

/-- an owner operation: only the pause flag and the trusted-address table may differ -/
structure OwnerStep (s s' : Its.State) : Prop where
  gateway : s'.gateway = s.gateway
  gasService : s'.gasService = s.gasService
  tmImpl : s'.tmImpl = s.tmImpl
  chainName : s'.chainName = s.chainName
  chainNameHash : s'.chainNameHash = s.chainNameHash
  roles : s'.roles = s.roles
  proposed : s'.proposed = s.proposed
  tmAddress : s'.tmAddress = s.tmAddress
  approvedMinters : s'.approvedMinters = s.approvedMinters
  lock : s'.lock = s.lock

/-- a role operation: only the role tables may differ -/
structure RolesStep (s s' : Its.State) : Prop where
  gateway : s'.gateway = s.gateway
  gasService : s'.gasService = s.gasService
  tmImpl : s'.tmImpl = s.tmImpl
  chainName : s'.chainName = s.chainName
  chainNameHash : s'.chainNameHash = s.chainNameHash
  paused : s'.paused = s.paused
  trusted : s'.trusted = s.trusted
  tmAddress : s'.tmAddress = s.tmAddress
  approvedMinters : s'.approvedMinters = s.approvedMinters
  lock : s'.lock = s.lock

/-- everything one endpoint call may do to the service's storage -/
def Allowed (cx : ICtx) (func : String) (s s' : Its.State) : Prop :=
  Core s s' ∨ (cx.caller = cx.owner ∧ func ∈ ownerOps ∧ OwnerStep s s') ∨ (func ∈ roleOps ∧ RolesStep s s')

structure AFrom {α : Type} (cx : ICtx) (func : String) (s0 : Its.State) (m : M α) : Prop where
  h : ∀ t a t', t.w.its = s0 → m t = some (a, t') → Allowed cx func s0 t'.w.its

theorem AFrom.of_pres {α : Type} {cx : ICtx} {func : String} {s0 : Its.State} {m : M α} [hp : Pres m] :
    AFrom cx func s0 m :=
  ⟨fun t a t' e h => Or.inl (e ▸ hp.h t a t' h)⟩

theorem aFrom_require_bind {β : Type} {cx : ICtx} {func : String} {s0 : Its.State} {b : Bool} {f : Unit → M β}
    (h : b = true → AFrom cx func s0 (f ())) : AFrom cx func s0 (require b >>= f) := by
  refine ⟨?_⟩
  intro t x t' e hr
  simp only [run_bind, run_require] at hr
  cases b with
  | true => exact (h rfl).h t x t' e hr
  | false => simp at hr

theorem roleOp_step (cx : ICtx) (f : TokenManager.State → Except TokenManager.Err (TokenManager.State × List Ev))
    (t : Tx) (r : List Bytes) (t' : Tx) (h : roleOp cx f t = some (r, t')) : RolesStep t.w.its t'.w.its := by
  simp only [roleOp, run_bind, run_getI] at h
  cases hf : f { roles := t.w.its.roles, proposed := t.w.its.proposed } with
  | error e => simp [hf] at h
  | ok v =>
    obtain ⟨ts, evs⟩ := v
    simp only [hf, run_setI, run_pure, modify, modifyGet, MonadStateOf.modifyGet, StateT.modifyGet,
      Option.some.injEq, Prod.mk.injEq] at h
    obtain ⟨_, rfl⟩ := h
    exact ⟨rfl, rfl, rfl, rfl, rfl, rfl, rfl, rfl, rfl, rfl⟩

theorem aFrom_ownerOp {cx : ICtx} {func : String} {s0 : Its.State} {m : M Unit} (hf : func ∈ ownerOps)
    (hm : ∀ t a t', t.w.its = s0 → m t = some (a, t') → OwnerStep s0 t'.w.its) :
    AFrom cx func s0 (ItsW.unit (require (cx.caller == cx.owner) >>= fun _ => m)) := by
  refine ⟨fun t a t' e h => ?_⟩
  simp only [ItsW.unit, run_bind, run_require] at h
  by_cases hc : (cx.caller == cx.owner) = true
  · simp only [hc, if_true] at h
    cases hx : m t with
    | none => simp [hx] at h
    | some x =>
      obtain ⟨u, t1⟩ := x
      simp only [hx, run_pure, Option.some.injEq, Prod.mk.injEq] at h
      obtain ⟨_, rfl⟩ := h
      exact Or.inr (Or.inl ⟨by simpa using hc, hf, hm t u t1 e hx⟩)
  · simp [hc] at h

theorem aFrom_roleOp {cx : ICtx} {func : String} {s0 : Its.State}
    {f : TokenManager.State → Except TokenManager.Err (TokenManager.State × List Ev)} (hf : func ∈ roleOps) :
    AFrom cx func s0 (roleOp cx f) :=
  ⟨fun t a t' e h => Or.inr (Or.inr ⟨hf, e ▸ roleOp_step cx f t a t' h⟩)⟩

set_option maxRecDepth 4000 in
/-- **Frame of the whole dispatcher**: whatever endpoint is called, with whatever arguments and
    payment, by whomever — the service's storage changes only within `Core` (configuration, pause
    flag, trusted table and roles untouched; token-manager bindings only added for unbound ids),
    unless the call is one of the four owner operations made by the owner, or a role operation. -/
theorem call_allowed (C : Crypto) (cx : ICtx) (func : String) (args : List Bytes) (t : Tx) (r : List Bytes)
    (t' : Tx) (h : call C cx func args t = some (r, t')) : Allowed cx func t.w.its t'.w.its := by
  suffices hs : AFrom cx func t.w.its (call C cx func args) from hs.h t r t' rfl h
  generalize t.w.its = s0
  unfold call
  refine ⟨?_⟩
  intro t1 r1 t1' e h1
  simp only [run_bind, run_getI] at h1
  rw [e] at h1
  revert h1
  suffices hs : AFrom cx func s0 _ from fun h1 => hs.h t1 r1 t1' e h1
  split
  all_goals (try (exact AFrom.of_pres))
  all_goals (repeat' (first | exact AFrom.of_pres | split))
  · -- setTrustedAddress
    refine aFrom_ownerOp (by simp [ownerOps]) ?_
    intro t a t' e h
    simp only [run_bind, run_require, run_setI, run_emit] at h
    split at h
    · cases h
    · rename_i u t2 hq
      simp only [Option.some.injEq, Prod.mk.injEq] at h
      obtain ⟨_, rfl⟩ := h
      exact ⟨rfl, rfl, rfl, rfl, rfl, rfl, rfl, rfl, rfl, rfl⟩
  · -- removeTrustedAddress
    refine aFrom_ownerOp (by simp [ownerOps]) ?_
    intro t a t' e h
    simp only [run_bind, run_require, run_setI, run_emit] at h
    split at h
    · cases h
    · rename_i u t2 hq
      simp only [Option.some.injEq, Prod.mk.injEq] at h
      obtain ⟨_, rfl⟩ := h
      exact ⟨rfl, rfl, rfl, rfl, rfl, rfl, rfl, rfl, rfl, rfl⟩
  · -- pause
    refine aFrom_ownerOp (by simp [ownerOps]) ?_
    intro t a t' e h
    simp only [run_setI, Option.some.injEq, Prod.mk.injEq] at h
    obtain ⟨_, rfl⟩ := h
    exact ⟨rfl, rfl, rfl, rfl, rfl, rfl, rfl, rfl, rfl, rfl⟩
  · -- unpause
    refine aFrom_ownerOp (by simp [ownerOps]) ?_
    intro t a t' e h
    simp only [run_setI, Option.some.injEq, Prod.mk.injEq] at h
    obtain ⟨_, rfl⟩ := h
    exact ⟨rfl, rfl, rfl, rfl, rfl, rfl, rfl, rfl, rfl, rfl⟩
  · exact aFrom_require_bind (fun _ => aFrom_roleOp (by simp [roleOps]))
  · exact aFrom_require_bind (fun _ => aFrom_roleOp (by simp [roleOps]))
  · exact aFrom_roleOp (by simp [roleOps])

end Axelar.ItsW
