/-
  Ledger equations of the token service's synchronous calls: to the gateway (nothing moves), to
  the gas service (exactly the attached payment arrives, nothing leaves), and to token managers
  (`giveToken` / `takeToken`: exactly the amount, by manager kind).
-/
import Axelar.Proofs.Ledger
import Axelar.Proofs.ItsEvents
namespace Axelar.ItsW
open Axelar Codec Its World

/-- a payment of nothing moves nothing -/
theorem led_pay_zero (src dst : Bytes) (w w' : World) (h : World.pay w src dst 0 [] = some w') :
    Led w w' nil nil :=
  (led_pay src dst 0 [] w w' h).conv (by intro x k; simp [payAmt, nil])

/-- decomposition of a synchronous call to a token manager: payment, the manager's own
    transition, its effects applied in order -/
theorem subcall_tm (C : Crypto) (cx : ICtx) (dst : Bytes) (f : String) (e : Nat)
    (es : List (Bytes × Nat × Nat)) (args : List Bytes) (t t' : Tx) (rs : List Bytes)
    (hk : t.w.kind dst = some .tokenManager)
    (h : subcall C cx dst f e es args t = some (rs, t')) :
    ∃ w1 out w2, World.pay t.w cx.self dst e es = some w1 ∧
      TokenManager.call (t.w.tms dst) ⟨cx.self, dst, t.w.now, e, es⟩ f args = .ok out ∧
      applyEffects { w1 with tms := upd w1.tms dst out.st } dst out.effects = some w2 ∧
      t'.w.accts = w2.accts ∧ rs = out.results ∧ t'.w.kind = t.w.kind ∧
      t'.w.tms = upd t.w.tms dst out.st ∧ t'.w.now = t.w.now := by
  unfold subcall at h
  cases hp : World.pay t.w cx.self dst e es with
  | none => simp [hp] at h
  | some w1 =>
    simp only [hp] at h
    have hb := pay_bal _ _ _ _ _ _ hp
    cases hc : World.callOther C w1 cx.self dst f e es args with
    | none => simp [hc] at h
    | some r =>
      obtain ⟨w2, rs2, evs, pd⟩ := r
      simp only [hc, Option.some.injEq, Prod.mk.injEq] at h
      obtain ⟨rfl, rfl⟩ := h
      unfold World.callOther at hc
      rw [hb.kind, hk] at hc
      simp only at hc
      split at hc
      · rename_i out hcall
        rw [hb.tms] at hcall
        simp only [tmCtx, hb.now] at hcall
        unfold tmFinish at hc
        split at hc
        · cases hc
        · rename_i w3 he
          have hk3 : w3.kind = t.w.kind := by
            rw [(applyEffects_bal _ _ _ _ he).kind]
            first | rfl | exact hb.kind
          have ht3 : w3.tms = upd t.w.tms dst out.st := by
            rw [(applyEffects_bal _ _ _ _ he).tms]
            show upd w1.tms dst out.st = _
            rw [hb.tms]
          have hn3 : w3.now = t.w.now := by
            rw [(applyEffects_bal _ _ _ _ he).now]
            exact hb.now
          refine ⟨w1, out, w3, rfl, hcall, he, ?_⟩
          split at hc
          · cases hc; exact ⟨rfl, rfl, hk3, ht3, hn3⟩
          · cases hc; exact ⟨rfl, rfl, hk3, ht3, hn3⟩
      · cases hc

/-- a synchronous call to the gateway moves nothing -/
theorem subcall_gateway_led (C : Crypto) (cx : ICtx) (gwAddr : Bytes) (f : String) (args : List Bytes)
    (t t' : Tx) (rs : List Bytes) (hk : t.w.kind gwAddr = some .gateway)
    (h : subcall C cx gwAddr f 0 [] args t = some (rs, t')) : Led t.w t'.w nil nil := by
  unfold subcall at h
  cases hp : World.pay t.w cx.self gwAddr 0 [] with
  | none => simp [hp] at h
  | some w1 =>
    simp only [hp] at h
    have hl := led_pay_zero _ _ _ _ hp
    have hk1 : w1.kind gwAddr = some .gateway := by rw [(pay_bal _ _ _ _ _ _ hp).kind]; exact hk
    cases hc : World.callOther C w1 cx.self gwAddr f 0 [] args with
    | none => simp [hc] at h
    | some r =>
      obtain ⟨w2, rs2, evs, pd⟩ := r
      simp only [hc, Option.some.injEq, Prod.mk.injEq] at h
      obtain ⟨_, rfl⟩ := h
      unfold World.callOther at hc
      rw [hk1] at hc
      simp only at hc
      split at hc
      · cases hc
      · split at hc
        · cases hc
          exact (hl.trans (Led.of_accts (w := w1) rfl)).conv (by intro x k; simp [plus, nil])
        · cases hc

theorem gatewayValidate_led (C : Crypto) (cx : ICtx) (a b c d : Bytes) (t t1 : Tx) (r : Bool)
    (hk : t.w.kind t.w.its.gateway = some .gateway)
    (h : gatewayValidate C cx a b c d t = some (r, t1)) : Led t.w t1.w nil nil := by
  simp only [gatewayValidate, run_bind, run_getI] at h
  cases hs : subcall C cx t.w.its.gateway "validateMessage" 0 [] [a, b, c, d] t with
  | none => simp [hs] at h
  | some x =>
    obtain ⟨rs, tt⟩ := x
    simp only [hs, run_pure, Option.some.injEq, Prod.mk.injEq] at h
    obtain ⟨_, rfl⟩ := h
    exact subcall_gateway_led _ _ _ _ _ _ _ _ hk hs

theorem gatewayIsApproved_led (C : Crypto) (cx : ICtx) (a b c d : Bytes) (t t1 : Tx) (r : Bool)
    (hk : t.w.kind t.w.its.gateway = some .gateway)
    (h : gatewayIsApproved C cx a b c d t = some (r, t1)) : Led t.w t1.w nil nil := by
  simp only [gatewayIsApproved, run_bind, run_getI] at h
  cases hs : subcall C cx t.w.its.gateway "isMessageApproved" 0 [] [a, b, c, cx.self, d] t with
  | none => simp [hs] at h
  | some x =>
    obtain ⟨rs, tt⟩ := x
    simp only [hs, run_pure, Option.some.injEq, Prod.mk.injEq] at h
    obtain ⟨_, rfl⟩ := h
    exact subcall_gateway_led _ _ _ _ _ _ _ _ hk hs

/-! ### `giveToken` through the service -/

/-- what the manager's kind makes of a `giveToken`: unlock (the manager pays) or mint (nobody pays) -/
def giveOut (st : TokenManager.State) (tm : Bytes) (amount : Nat) : Amt :=
  if TokenManager.isMintBurnKind st.implType then nil
  else pt tm (TokenManager.tokOfBytes st.tokenIdentifier) amount

/-- **`giveToken` is exact**: the destination receives exactly `amount` of the manager's token;
    a lock/unlock manager's holdings shrink by exactly that amount, a mint/burn manager mints it
    (and holds nothing more or less than before); no other balance of any account changes. -/
theorem tmGiveToken_led (C : Crypto) (cx : ICtx) (tid dest : Bytes) (amount : Nat) (t t1 : Tx)
    (r : Bytes × Nat) (tm : Bytes) (st : TokenManager.State) (htm : t.w.its.tmAddress tid = tm)
    (hst : t.w.tms tm = st) (hk : t.w.kind tm = some .tokenManager)
    (h : tmGiveToken C cx tid dest amount t = some (r, t1)) :
    cx.self = st.service ∧ r = (st.tokenIdentifier, amount) ∧
    Led t.w t1.w (giveOut st tm amount) (pt dest (TokenManager.tokOfBytes st.tokenIdentifier) amount) := by
  subst htm
  subst hst
  simp only [tmGiveToken, run_bind, deployedTokenManager_run] at h
  by_cases he : (t.w.its.tmAddress tid).isEmpty = true
  · simp [he] at h
  · simp only [he, Bool.false_eq_true, if_false] at h
    cases hs : subcall C cx (t.w.its.tmAddress tid) "giveToken" 0 [] [dest, encNat amount] t with
    | none => simp [hs] at h
    | some x =>
      obtain ⟨rs, tt⟩ := x
      simp only [hs] at h
      obtain ⟨w1, out, w2, hp, hcall, heff, hacc, hrs, _, _, _⟩ := subcall_tm C cx _ _ _ _ _ t tt rs hk hs
      -- the dispatcher reaches `giveToken` with the decoded arguments
      have hcall2 : ∃ d, topFixed 32 dest = some d ∧
          TokenManager.giveToken (t.w.tms (t.w.its.tmAddress tid)) ⟨cx.self, t.w.its.tmAddress tid, t.w.now, 0, []⟩ d
            (topBig (encNat amount)) = .ok out := by
        unfold TokenManager.call at hcall
        simp only [TokenManager.notPayable] at hcall
        simp only [decide_true, List.isEmpty_nil, Bool.and_self, Bool.not_true, Bool.false_eq_true, if_false] at hcall
        cases hd : topFixed 32 dest with
        | none => simp [hd] at hcall
        | some d => simp only [hd] at hcall; exact ⟨d, rfl, hcall⟩
      obtain ⟨d, hd, hg⟩ := hcall2
      have hdd : d = dest := by
        unfold topFixed at hd
        split at hd
        · cases hd; rfl
        · cases hd
      subst hdd
      have hamt : topBig (encNat amount) = amount := by simp [topBig, encNat, beNat_natBE]
      rw [hamt] at hg
      obtain ⟨hcaller, _, _, hres, hshape⟩ := TokenManager.giveToken_spec _ _ _ _ _ hg
      have hl0 := led_pay_zero _ _ _ _ hp
      have hb := pay_bal _ _ _ _ _ _ hp
      -- results
      have hr : r = ((t.w.tms (t.w.its.tmAddress tid)).tokenIdentifier, amount) ∧ t1 = tt := by
        rw [hrs, hres] at h
        simp only [run_pure, Option.some.injEq, Prod.mk.injEq] at h
        obtain ⟨h1, h2⟩ := h
        refine ⟨?_, h2.symm⟩
        rw [← h1]
        simp [topBig, encNat, beNat_natBE]
      obtain ⟨hr1, rfl⟩ := hr
      refine ⟨hcaller, hr1, ?_⟩
      have hstep : Led w1 w2 (giveOut (t.w.tms (t.w.its.tmAddress tid)) (t.w.its.tmAddress tid) amount)
          (pt d (TokenManager.tokOfBytes (t.w.tms (t.w.its.tmAddress tid)).tokenIdentifier) amount) := by
        rcases hshape with ⟨hkind, tk, htk, heffs⟩ | ⟨hkind, heffs⟩
        · rw [heffs] at heff
          obtain ⟨_, hl⟩ := led_effects_mint_send _ _ _ _ _ _ heff
          have e0 : Led w1 { w1 with tms := upd w1.tms (t.w.its.tmAddress tid) out.st } nil nil := Led.of_accts rfl
          refine (e0.trans hl).conv ?_
          intro x k
          simp [plus, nil, giveOut, hkind, htk]
        · rw [heffs] at heff
          have hl := led_effects_send _ _ _ _ _ _ heff
          have e0 : Led w1 { w1 with tms := upd w1.tms (t.w.its.tmAddress tid) out.st } nil nil := Led.of_accts rfl
          refine (e0.trans hl).conv ?_
          intro x k
          simp [plus, nil, giveOut, hkind]
      have hfin : Led w2 t1.w nil nil := Led.of_accts hacc
      refine ((hl0.trans hstep).trans hfin).conv ?_
      intro x k
      simp [plus, nil]

end Axelar.ItsW

namespace Axelar.ItsW
open Axelar Codec Its World

/-! ### `takeToken` through the service -/

/-- what the manager's kind makes of a `takeToken`: lock (the manager keeps it) or burn (nobody does) -/
def takeIn (st : TokenManager.State) (tm : Bytes) (amount : Nat) : Amt :=
  if TokenManager.isMintBurnKind st.implType then nil
  else pt tm (TokenManager.tokOfBytes st.tokenIdentifier) amount

theorem payAmt_payOf (tok : Its.Tok) (amount : Nat) (k : Asset) :
    payAmt (payOf tok amount).1 (payOf tok amount).2 k = if k = tok then amount else 0 := by
  cases tok with
  | none => simp [payOf, payAmt]
  | some t =>
    simp only [payOf, payAmt, List.map_cons, List.map_nil, List.sum_cons, List.sum_nil, esdtKey, if_true]
    by_cases hk : k = some t
    · subst hk; simp
    · have : ¬ k = none → True := fun _ => trivial
      cases k with
      | none => simp
      | some t' => simp [hk]

/-- the payment `payOf tok amount` is read back by the manager as exactly `(tok, amount)` -/
theorem requireCorrectToken_payOf (st : TokenManager.State) (c s : Bytes) (now : Nat) (tok : Its.Tok) (amount : Nat)
    (tok' : Its.Tok) (amt' : Nat)
    (h : TokenManager.requireCorrectToken st ⟨c, s, now, (payOf tok amount).1, (payOf tok amount).2⟩ = .ok (tok', amt')) :
    tok' = tok ∧ amt' = amount ∧ tok = TokenManager.tokOfBytes st.tokenIdentifier := by
  unfold TokenManager.requireCorrectToken at h
  cases tok with
  | none =>
    simp only [payOf, TokenManager.egldOrSingleFungibleEsdt] at h
    split at h
    · simp only [Except.ok.injEq, Prod.mk.injEq] at h
      rename_i hc
      obtain ⟨h1, h2⟩ := h
      refine ⟨h1.symm, h2.symm, ?_⟩
      simpa using hc
    · cases h
  | some t =>
    simp only [payOf, TokenManager.egldOrSingleFungibleEsdt, if_true] at h
    split at h
    · simp only [Except.ok.injEq, Prod.mk.injEq] at h
      rename_i hc
      obtain ⟨h1, h2⟩ := h
      refine ⟨h1.symm, h2.symm, ?_⟩
      simpa using hc
    · cases h

/-- paying `amount` of one asset moves exactly that -/
theorem led_pay_payOf (src dst : Bytes) (tok : Its.Tok) (amount : Nat) (w w' : World)
    (h : World.pay w src dst (payOf tok amount).1 (payOf tok amount).2 = some w') :
    Led w w' (pt src tok amount) (pt dst tok amount) := by
  refine (led_pay _ _ _ _ _ _ h).conv ?_
  intro x k
  simp only [payAmt_payOf, pt]
  by_cases h3 : k = tok
  · subst h3
    by_cases h1 : x = src
    · subst h1
      by_cases h2 : x = dst
      · subst h2; simp
      · simp [h2]
    · by_cases h2 : x = dst
      · subst h2; simp [h1]
      · simp [h1, h2]
  · simp [h3]

/-- **`takeToken` is exact**: exactly `amount` of the manager's token leaves the service; a
    lock/unlock manager's holdings grow by exactly that amount, a mint/burn manager burns it (and
    holds what it held before); no other balance of any account changes. -/
theorem tmTakeToken_led (C : Crypto) (cx : ICtx) (tid : Bytes) (tok : Its.Tok) (amount : Nat) (t t1 : Tx)
    (tm : Bytes) (st : TokenManager.State) (htm : t.w.its.tmAddress tid = tm) (hst : t.w.tms tm = st)
    (hk : t.w.kind tm = some .tokenManager)
    (h : tmTakeToken C cx tid tok amount t = some ((), t1)) :
    cx.self = st.service ∧ tok = TokenManager.tokOfBytes st.tokenIdentifier ∧
    Led t.w t1.w (pt cx.self tok amount) (takeIn st tm amount) ∧ t1.w.kind = t.w.kind := by
  subst htm
  subst hst
  simp only [tmTakeToken, run_bind, deployedTokenManager_run] at h
  by_cases he : (t.w.its.tmAddress tid).isEmpty = true
  · simp [he] at h
  · simp only [he, Bool.false_eq_true, if_false] at h
    cases hs : subcall C cx (t.w.its.tmAddress tid) "takeToken" (payOf tok amount).1 (payOf tok amount).2 [] t with
    | none => simp [hs] at h
    | some x =>
      obtain ⟨rs, tt⟩ := x
      simp only [hs, run_pure, Option.some.injEq, Prod.mk.injEq, true_and] at h
      subst h
      obtain ⟨w1, out, w2, hp, hcall, heff, hacc, _, hkind', _, _⟩ := subcall_tm C cx _ _ _ _ _ t tt rs hk hs
      have hcall2 : TokenManager.takeToken (t.w.tms (t.w.its.tmAddress tid))
          ⟨cx.self, t.w.its.tmAddress tid, t.w.now, (payOf tok amount).1, (payOf tok amount).2⟩ = .ok out := by
        unfold TokenManager.call at hcall
        exact hcall
      obtain ⟨hcaller, _, tok', amt', hreq, _, _, hshape⟩ := TokenManager.takeToken_spec _ _ _ hcall2
      obtain ⟨rfl, rfl, htok⟩ := requireCorrectToken_payOf _ _ _ _ _ _ _ _ hreq
      refine ⟨hcaller, htok, ?_, hkind'⟩
      have hl0 := led_pay_payOf _ _ _ _ _ _ hp
      have e0 : Led w1 { w1 with tms := upd w1.tms (t.w.its.tmAddress tid) out.st } nil nil := Led.of_accts rfl
      have hfin : Led w2 tt.w nil nil := Led.of_accts hacc
      rcases hshape with ⟨hkind, tk, htk, heffs⟩ | ⟨hkind, heffs⟩
      · rw [heffs] at heff
        obtain ⟨_, hl⟩ := led_effects_burn _ _ _ _ _ heff
        refine (((hl0.trans e0).trans hl).trans hfin).conv ?_
        intro x k
        subst htk
        simp only [plus, nil, takeIn, hkind, if_true]
        omega
      · rw [heffs] at heff
        have hl := led_effects_nil _ _ _ heff
        refine (((hl0.trans e0).trans hl).trans hfin).conv ?_
        intro x k
        simp only [plus, nil, takeIn, hkind, Bool.false_eq_true, if_false, ← htok]
        omega

end Axelar.ItsW

namespace Axelar.ItsW
open Axelar Codec Its World

/-- only the gateway's state differs -/
def GwOnly (w w' : World) : Prop := w' = { w with gw := w'.gw }

theorem GwOnly.tms {w w' : World} (h : GwOnly w w') : w'.tms = w.tms := by rw [h]
theorem GwOnly.kind {w w' : World} (h : GwOnly w w') : w'.kind = w.kind := by rw [h]
theorem GwOnly.its {w w' : World} (h : GwOnly w w') : w'.its = w.its := by rw [h]
theorem GwOnly.accts {w w' : World} (h : GwOnly w w') : w'.accts = w.accts := by rw [h]
theorem GwOnly.now {w w' : World} (h : GwOnly w w') : w'.now = w.now := by rw [h]
theorem GwOnly.mintRole {w w' : World} (h : GwOnly w w') : w'.mintRole = w.mintRole := by rw [h]
theorem GwOnly.burnRole {w w' : World} (h : GwOnly w w') : w'.burnRole = w.burnRole := by rw [h]
theorem GwOnly.gs {w w' : World} (h : GwOnly w w') : w'.gs = w.gs := by rw [h]
theorem GwOnly.pending {w w' : World} (h : GwOnly w w') : w'.pending = w.pending := by rw [h]
theorem GwOnly.led {w w' : World} (h : GwOnly w w') : Led w w' nil nil := Led.of_accts h.accts

/-- a payment of nothing changes nothing at all -/
theorem pay_zero_eq (src dst : Bytes) (w w' : World) (h : World.pay w src dst 0 [] = some w') : w' = w := by
  simp only [World.pay, World.subEgld] at h
  have hb := pay_bal src dst 0 [] w w' (by simpa [World.pay, World.subEgld] using h)
  have hl := led_pay_zero src dst w w' (by simpa [World.pay, World.subEgld] using h)
  rw [hb]
  have : w'.accts = w.accts := by
    split at h
    · rename_i w1 hs
      split at hs
      · cases hs
        cases h
        funext a
        simp only [World.addEgld, upd]
        by_cases h1 : a = dst
        · subst h1
          by_cases h2 : a = src
          · subst h2; simp
          · simp [h2]
        · by_cases h2 : a = src
          · subst h2; simp [h1]
          · simp [h1, h2]
      · cases hs
    · cases h
  rw [this]

/-- a synchronous call to the gateway changes only the gateway -/
theorem subcall_gateway_only (C : Crypto) (cx : ICtx) (gwAddr : Bytes) (f : String) (args : List Bytes)
    (t t' : Tx) (rs : List Bytes) (hk : t.w.kind gwAddr = some .gateway)
    (h : subcall C cx gwAddr f 0 [] args t = some (rs, t')) : GwOnly t.w t'.w := by
  unfold subcall at h
  cases hp : World.pay t.w cx.self gwAddr 0 [] with
  | none => simp [hp] at h
  | some w1 =>
    simp only [hp] at h
    have hw1 := pay_zero_eq _ _ _ _ hp
    subst hw1
    cases hc : World.callOther C t.w cx.self gwAddr f 0 [] args with
    | none => simp [hc] at h
    | some r =>
      obtain ⟨w2, rs2, evs, pd⟩ := r
      simp only [hc, Option.some.injEq, Prod.mk.injEq] at h
      obtain ⟨_, rfl⟩ := h
      unfold World.callOther at hc
      rw [hk] at hc
      simp only at hc
      split at hc
      · cases hc
      · split at hc
        · cases hc; rfl
        · cases hc

theorem gatewayValidate_only (C : Crypto) (cx : ICtx) (a b c d : Bytes) (t t1 : Tx) (r : Bool)
    (hk : t.w.kind t.w.its.gateway = some .gateway)
    (h : gatewayValidate C cx a b c d t = some (r, t1)) : GwOnly t.w t1.w := by
  simp only [gatewayValidate, run_bind, run_getI] at h
  cases hs : subcall C cx t.w.its.gateway "validateMessage" 0 [] [a, b, c, d] t with
  | none => simp [hs] at h
  | some x =>
    obtain ⟨rs, tt⟩ := x
    simp only [hs, run_pure, Option.some.injEq, Prod.mk.injEq] at h
    obtain ⟨_, rfl⟩ := h
    exact subcall_gateway_only _ _ _ _ _ _ _ _ hk hs

theorem gatewayIsApproved_only (C : Crypto) (cx : ICtx) (a b c d : Bytes) (t t1 : Tx) (r : Bool)
    (hk : t.w.kind t.w.its.gateway = some .gateway)
    (h : gatewayIsApproved C cx a b c d t = some (r, t1)) : GwOnly t.w t1.w := by
  simp only [gatewayIsApproved, run_bind, run_getI] at h
  cases hs : subcall C cx t.w.its.gateway "isMessageApproved" 0 [] [a, b, c, cx.self, d] t with
  | none => simp [hs] at h
  | some x =>
    obtain ⟨rs, tt⟩ := x
    simp only [hs, run_pure, Option.some.injEq, Prod.mk.injEq] at h
    obtain ⟨_, rfl⟩ := h
    exact subcall_gateway_only _ _ _ _ _ _ _ _ hk hs

end Axelar.ItsW

namespace Axelar.ItsW
open Axelar Codec Its World

/-! ### gas payments and `call_contract` -/

/-- a call to a gas-service endpoint other than `collectFees` / `refund` moves exactly the
    attached payment from the service to the gas service; nothing leaves the gas service -/
theorem subcall_gs_led (C : Crypto) (cx : ICtx) (gs : Bytes) (f : String) (tok : Its.Tok) (g : Nat)
    (args : List Bytes) (t t' : Tx) (rs : List Bytes) (hk : t.w.kind gs = some .gasService)
    (hf : f ≠ "collectFees" ∧ f ≠ "refund")
    (h : subcall C cx gs f (payOf tok g).1 (payOf tok g).2 args t = some (rs, t')) :
    Led t.w t'.w (pt cx.self tok g) (pt gs tok g) ∧ t'.w.kind = t.w.kind ∧ t'.w.its = t.w.its ∧
      t'.w.tms = t.w.tms ∧ t'.w.gw = t.w.gw := by
  have hits := subcall_keeps_its _ _ _ _ _ _ _ _ _ _ h
  unfold subcall at h
  cases hp : World.pay t.w cx.self gs (payOf tok g).1 (payOf tok g).2 with
  | none => simp [hp] at h
  | some w1 =>
    simp only [hp] at h
    have hl := led_pay_payOf _ _ _ _ _ _ hp
    have hb := pay_bal _ _ _ _ _ _ hp
    cases hc : World.callOther C w1 cx.self gs f (payOf tok g).1 (payOf tok g).2 args with
    | none => simp [hc] at h
    | some r =>
      obtain ⟨w2, rs2, evs, pd⟩ := r
      simp only [hc, Option.some.injEq, Prod.mk.injEq] at h
      obtain ⟨_, rfl⟩ := h
      unfold World.callOther at hc
      rw [hb.kind, hk] at hc
      simp only at hc
      split at hc
      · rename_i out hcall
        have hs : out.sends = [] := by
          cases hsl : out.sends with
          | nil => rfl
          | cons s l =>
            have := (Props.C15.outflow_only_by_collector C _ _ _ _ out hcall (by rw [hsl]; simp)).1
            rcases this with e | e
            · exact absurd e hf.1
            · exact absurd e hf.2
        rw [hs] at hc
        simp only [applySends, Option.some.injEq, Prod.mk.injEq] at hc
        obtain ⟨rfl, _⟩ := hc
        refine ⟨?_, ?_, hits, ?_, ?_⟩
        · exact (hl.trans (Led.of_accts (w := w1) (w' := { w1 with gs := out.st }) rfl)).conv
            (by intro x k; simp only [plus, nil]; omega)
        · first | rfl | exact hb.kind
        · first | exact hb.tms | rfl
        · first | exact hb.gw | rfl
      · cases hc

/-- **`call_contract` forwards exactly the gas value**: `gasValue` of the gas token goes from
    the service to the gas service (nothing when it is zero), the gateway call moves nothing -/
theorem callContract_led (C : Crypto) (cx : ICtx) (dc da p : Bytes) (gasTok : Its.Tok) (g : Nat) (t t' : Tx)
    (hkgs : t.w.kind t.w.its.gasService = some .gasService) (hkgw : t.w.kind t.w.its.gateway = some .gateway)
    (h : ItsW.callContract C cx dc da p gasTok g t = some ((), t')) :
    Led t.w t'.w (pt cx.self gasTok g) (pt t.w.its.gasService gasTok g) ∧ t'.w.tms = t.w.tms ∧
      t'.w.kind = t.w.kind ∧ t'.w.its = t.w.its := by
  simp only [ItsW.callContract, run_bind, run_require, run_getI] at h
  by_cases hda : (!da.isEmpty) = true
  · simp only [hda, if_true] at h
    by_cases hg : g > 0
    · simp only [hg, if_true] at h
      -- the gas payment: one of the two endpoints, both with the payment `payOf gasTok g`
      have hpay : ∃ f, (f ≠ "collectFees" ∧ f ≠ "refund") ∧ ∃ rs t1,
          subcall C cx t.w.its.gasService f (payOf gasTok g).1 (payOf gasTok g).2 [cx.self, dc, da, p, cx.caller] t = some (rs, t1) ∧
          (do let _ ← subcall C cx t.w.its.gateway "callContract" 0 [] [dc, da, p]) t1 = some ((), t') := by
        cases gasTok with
        | none =>
          simp only [run_bind] at h
          cases hs : subcall C cx t.w.its.gasService "payNativeGasForContractCall" g [] [cx.self, dc, da, p, cx.caller] t with
          | none => simp [hs] at h
          | some x =>
            obtain ⟨rs, t1⟩ := x
            simp only [hs, run_pure] at h
            exact ⟨"payNativeGasForContractCall", ⟨by decide, by decide⟩, rs, t1, by simpa [payOf] using hs, by simpa using h⟩
        | some tk =>
          simp only [run_bind] at h
          cases hs : subcall C cx t.w.its.gasService "payGasForContractCall" 0 [(tk, 0, g)] [cx.self, dc, da, p, cx.caller] t with
          | none => simp [hs] at h
          | some x =>
            obtain ⟨rs, t1⟩ := x
            simp only [hs, run_pure] at h
            exact ⟨"payGasForContractCall", ⟨by decide, by decide⟩, rs, t1, by simpa [payOf] using hs, by simpa using h⟩
      obtain ⟨f, hf, rs, t1, hs, h2⟩ := hpay
      obtain ⟨hl, hkind, hits, htms, _⟩ := subcall_gs_led C cx _ f gasTok g _ t t1 rs hkgs hf hs
      simp only [run_bind] at h2
      cases hs2 : subcall C cx t.w.its.gateway "callContract" 0 [] [dc, da, p] t1 with
      | none => simp [hs2] at h2
      | some y =>
        obtain ⟨rs2, t2⟩ := y
        simp only [hs2, run_pure, Option.some.injEq, Prod.mk.injEq, true_and] at h2
        subst h2
        have hk1 : t1.w.kind t.w.its.gateway = some .gateway := by rw [hkind]; exact hkgw
        have ho := subcall_gateway_only C cx _ _ _ t1 _ rs2 hk1 hs2
        refine ⟨(hl.trans ho.led).conv (by intro x k; simp only [plus, nil]; omega), ?_, ?_, ?_⟩
        · rw [ho.tms, htms]
        · rw [ho.kind, hkind]
        · rw [ho.its, hits]
    · have hg0 : g = 0 := by omega
      subst hg0
      simp only [Nat.lt_irrefl, gt_iff_lt, if_false, run_bind, run_pure] at h
      cases hs2 : subcall C cx t.w.its.gateway "callContract" 0 [] [dc, da, p] t with
      | none => simp [hs2] at h
      | some y =>
        obtain ⟨rs2, t2⟩ := y
        simp only [hs2, run_pure, Option.some.injEq, Prod.mk.injEq, true_and] at h
        subst h
        have ho := subcall_gateway_only C cx _ _ _ t _ rs2 hkgw hs2
        refine ⟨ho.led.conv (by intro x k; simp [pt, nil]), ho.tms, ho.kind, ho.its⟩
  · simp [hda] at h

end Axelar.ItsW

namespace Axelar.ItsW
open Axelar Codec Its World

/-- a synchronous call WITHOUT payment to a token manager: the manager's own transition on its
    own state; the service's storage, the kinds, the clock and every other manager are untouched -/
theorem subcall_tm_call (C : Crypto) (cx : ICtx) (tm : Bytes) (f : String) (args : List Bytes) (t t' : Tx)
    (rs : List Bytes) (hk : t.w.kind tm = some .tokenManager)
    (h : subcall C cx tm f 0 [] args t = some (rs, t')) :
    ∃ out, TokenManager.call (t.w.tms tm) ⟨cx.self, tm, t.w.now, 0, []⟩ f args = .ok out ∧
      t'.w.tms = upd t.w.tms tm out.st ∧ t'.w.kind = t.w.kind ∧ t'.w.its = t.w.its ∧ t'.w.now = t.w.now ∧
      rs = out.results ∧
      ∃ w2, applyEffects { t.w with tms := upd t.w.tms tm out.st } tm out.effects = some w2 ∧ t'.w.accts = w2.accts := by
  obtain ⟨w1, out, w2, hp, hcall, heff, hacc, hrs, hkind, htms, hnow⟩ := subcall_tm C cx tm f 0 [] args t t' rs hk h
  have hw1 := pay_zero_eq _ _ _ _ hp
  subst hw1
  exact ⟨out, hcall, htms, hkind, subcall_keeps_its _ _ _ _ _ _ _ _ _ _ h, hnow, hrs, w2, heff, hacc⟩

end Axelar.ItsW

namespace Axelar.ItsW
open Axelar Codec Its World

/-- registering a pending asynchronous call: no balance moves; the descriptor is appended -/
theorem addPend_run (cx : ICtx) (dst : Bytes) (func : String) (egld : Nat) (esdt : List (String × Nat × Nat))
    (args : List Bytes) (kind : PendKind) (t : Tx) :
    addPend cx dst func egld esdt args kind t =
      some ((), { t with
        w := { t.w with pending := t.w.pending ++ [⟨⟨t.w.nextPending, dst, func, egld, esdt, args⟩, cx.self, kind, none⟩],
                        nextPending := t.w.nextPending + 1 },
        pend := t.pend ++ [⟨t.w.nextPending, dst, func, egld, esdt, args⟩] }) := rfl

end Axelar.ItsW
