/-
  The exported surface of a contract, regenerated from the sources on every run
  (`Generated/Surface.lean`), against the surface the model implements — see SurfaceDefs.lean.
-/
import Axelar.Proofs.SurfaceDefs
import Axelar.Proofs.TokenManagerProofs
namespace Axelar.Surface
open Axelar Generated

def tokenManagerExpected : List (String × String × Bool × String × Nat) := [
  ("callback", "deploy_token_callback", false, "", 0),
  ("endpoint", "acceptMintership", false, "", 1),
  ("endpoint", "acceptOperatorship", false, "", 1),
  ("endpoint", "addFlowLimiter", false, "", 1),
  ("endpoint", "burn", false, "*", 0),
  ("endpoint", "deployInterchainToken", false, "EGLD", 4),
  ("endpoint", "giveToken", false, "", 2),
  ("endpoint", "mint", false, "", 2),
  ("endpoint", "proposeMintership", false, "", 1),
  ("endpoint", "proposeOperatorship", false, "", 1),
  ("endpoint", "removeFlowLimiter", false, "", 1),
  ("endpoint", "setFlowLimit", false, "", 1),
  ("endpoint", "takeToken", false, "*", 0),
  ("endpoint", "transferFlowLimiter", false, "", 2),
  ("endpoint", "transferMintership", false, "", 1),
  ("endpoint", "transferOperatorship", false, "", 1),
  ("init", "init", false, "", 4),
  ("upgrade", "upgrade", false, "", 4)]

theorem tokenManager_surface : tokenManagerSurface.map sig = tokenManagerExpected := by decide

theorem tokenManager_storage_no_alias : noAlias tokenManagerStorage = true ∧ keysNodup tokenManagerStorage = true := by decide

/-- the storage mappers of the contract are exactly the fields the model's state has (a mapper the model does not know
    is state the theorems do not cover; the harness emulates its absence on contracts deployed by earlier code: `wipe`) -/
theorem tokenManager_storage_keys : tokenManagerStorage.map (·.key) = ["account_roles", "flow_in_amount", "flow_limit", "flow_out_amount", "implementation_type", "interchain_token_id", "interchain_token_service", "proposed_roles", "token_identifier"] := by decide


end Axelar.Surface

namespace Axelar.Surface
open Axelar TokenManager

/-- **The model changes a token manager's storage, moves tokens or registers an issuance only through an
    endpoint of the regenerated surface**: every call of the model's dispatcher with such an effect is one of
    the exported endpoints. -/
theorem tokenManager_effects_only_through_surface (st : State) (ctx : Ctx) (func : String)
    (args : List Bytes) (out : Out) (h : call st ctx func args = .ok out)
    (hne : out.st ≠ st ∨ out.effects ≠ [] ∨ out.issue ≠ none) :
    ∃ e ∈ Generated.tokenManagerSurface, e.kind = "endpoint" ∧ e.name = func := by
  rcases call_cases st ctx func args out h with
    ⟨_, _, hf, _⟩ | ⟨hf, _⟩ | ⟨_, hf, _⟩ | ⟨_, _, hf, _⟩ | ⟨hf, _⟩ | ⟨_, _, _, _, hf, _⟩ | ⟨r, hr, _⟩ | ⟨h1, h2, h3⟩
  · subst hf; decide
  · subst hf; decide
  · subst hf; decide
  · subst hf; decide
  · subst hf; decide
  · subst hf; decide
  · have : ∀ f, RoleStep st ctx f r → ∃ e ∈ Generated.tokenManagerSurface, e.kind = "endpoint" ∧ e.name = f := by
      intro f hf
      cases hf <;> decide
    exact this _ hr
  · rcases hne with h | h | h
    · exact absurd h1 h
    · exact absurd h2 h
    · exact absurd h3 h

end Axelar.Surface
