/-
  The exported surface of a contract, regenerated from the sources on every run
  (`Generated/Surface.lean`), against the surface the model implements — see SurfaceDefs.lean.
-/
import Axelar.Proofs.SurfaceDefs
namespace Axelar.Surface
open Axelar Generated

def tokenManagerExpected : List (String × String × Bool × String × Nat) := [
  ("callback", "deploy_token_callback", false, "", 0),
  ("endpoint", "acceptMintership", false, "", 1),
  ("endpoint", "acceptOperatorship", false, "", 1),
  ("endpoint", "addFlowLimiter", false, "", 1),
  ("endpoint", "burn", false, "*", 0),
  ("endpoint", "deployInterchainToken", false, "EGLD", 4),
  ("endpoint", "giveToken", false, "", 2),
  ("endpoint", "mint", false, "", 2),
  ("endpoint", "proposeMintership", false, "", 1),
  ("endpoint", "proposeOperatorship", false, "", 1),
  ("endpoint", "removeFlowLimiter", false, "", 1),
  ("endpoint", "setFlowLimit", false, "", 1),
  ("endpoint", "takeToken", false, "*", 0),
  ("endpoint", "transferFlowLimiter", false, "", 2),
  ("endpoint", "transferMintership", false, "", 1),
  ("endpoint", "transferOperatorship", false, "", 1),
  ("init", "init", false, "", 4),
  ("upgrade", "upgrade", false, "", 4)]

theorem tokenManager_surface : tokenManagerSurface.map sig = tokenManagerExpected := by decide

theorem tokenManager_storage_no_alias : noAlias tokenManagerStorage = true ∧ keysNodup tokenManagerStorage = true := by decide

end Axelar.Surface
