/-
  Executable Keccak-256 (the pre-NIST padding used by Ethereum and by the MultiversX VM's
  `keccak256`).  Used by the driver only: no theorem depends on any property of this function —
  models take the hash as a parameter `H : Bytes → Bytes`.
-/
import Axelar.Basic.Bytes
namespace Axelar.Keccak

def rc : Array UInt64 := #[
  0x0000000000000001, 0x0000000000008082, 0x800000000000808A, 0x8000000080008000,
  0x000000000000808B, 0x0000000080000001, 0x8000000080008081, 0x8000000000008009,
  0x000000000000008A, 0x0000000000000088, 0x0000000080008009, 0x000000008000000A,
  0x000000008000808B, 0x800000000000008B, 0x8000000000008089, 0x8000000000008003,
  0x8000000000008002, 0x8000000000000080, 0x000000000000800A, 0x800000008000000A,
  0x8000000080008081, 0x8000000000008080, 0x0000000080000001, 0x8000000080008008]

def rot : Array Nat := #[
   0,  1, 62, 28, 27,
  36, 44,  6, 55, 20,
   3, 10, 43, 25, 39,
  41, 45, 15, 21,  8,
  18,  2, 61, 56, 14]

@[inline] def rotl (x : UInt64) (n : Nat) : UInt64 :=
  if n % 64 = 0 then x else (x <<< (UInt64.ofNat (n % 64))) ||| (x >>> (UInt64.ofNat (64 - n % 64)))

def round (a : Array UInt64) (r : Nat) : Array UInt64 := Id.run do
  -- theta
  let mut c : Array UInt64 := Array.replicate 5 0
  for x in [0:5] do
    c := c.set! x (a[x]! ^^^ a[x+5]! ^^^ a[x+10]! ^^^ a[x+15]! ^^^ a[x+20]!)
  let mut a := a
  for x in [0:5] do
    let d := c[(x + 4) % 5]! ^^^ rotl c[(x + 1) % 5]! 1
    for y in [0:5] do
      a := a.set! (x + 5*y) (a[x + 5*y]! ^^^ d)
  -- rho + pi
  let mut b : Array UInt64 := Array.replicate 25 0
  for x in [0:5] do
    for y in [0:5] do
      b := b.set! (y + 5 * ((2*x + 3*y) % 5)) (rotl a[x + 5*y]! rot[x + 5*y]!)
  -- chi
  for x in [0:5] do
    for y in [0:5] do
      a := a.set! (x + 5*y) (b[x + 5*y]! ^^^ ((~~~ b[(x+1)%5 + 5*y]!) &&& b[(x+2)%5 + 5*y]!))
  -- iota
  a := a.set! 0 (a[0]! ^^^ rc[r]!)
  return a

def f1600 (a : Array UInt64) : Array UInt64 := Id.run do
  let mut a := a
  for r in [0:24] do
    a := round a r
  return a

/-- little-endian lane from 8 bytes at offset `o` -/
def lane (blk : Array UInt8) (o : Nat) : UInt64 := Id.run do
  let mut v : UInt64 := 0
  for i in [0:8] do
    v := v ||| ((blk[o + i]!).toUInt64 <<< (UInt64.ofNat (8*i)))
  return v

def absorb (st : Array UInt64) (blk : Array UInt8) : Array UInt64 := Id.run do
  let mut st := st
  for i in [0:17] do
    st := st.set! i (st[i]! ^^^ lane blk (8*i))
  return f1600 st

def rate : Nat := 136

def keccak256 (msg : Bytes) : Bytes := Id.run do
  let data := msg.toArray
  -- pad10*1 with domain byte 0x01
  let padLen := rate - data.size % rate
  let mut padded := data
  if padLen == 1 then
    padded := padded.push 0x81
  else
    padded := padded.push 0x01
    for _ in [0:padLen - 2] do
      padded := padded.push 0
    padded := padded.push 0x80
  let mut st : Array UInt64 := Array.replicate 25 0
  for k in [0:padded.size / rate] do
    st := absorb st (padded.extract (k*rate) ((k+1)*rate))
  let mut out : Array UInt8 := #[]
  for i in [0:4] do
    for j in [0:8] do
      out := out.push ((st[i]! >>> (UInt64.ofNat (8*j))).toUInt8)
  return out.toList

end Axelar.Keccak
