/-
  Bytes, big-endian integer codecs and the MultiversX "nested" codec.
  Import-free (core Lean only) so that the driver can be linked as a `lean_exe`.
-/
namespace Axelar

abbrev Bytes := List UInt8

/-- `n` zero bytes. -/
def zeros (n : Nat) : Bytes := List.replicate n 0

/-- Big-endian natural number denoted by a byte string (`BigUint::from_bytes_be`). -/
def beNat (bs : Bytes) : Nat := bs.foldl (fun acc b => acc * 256 + b.toNat) 0

/-- Minimal big-endian representation (`BigUint::to_bytes_be_buffer`; empty for zero). -/
def natBE (n : Nat) : Bytes :=
  if _h : n = 0 then [] else natBE (n / 256) ++ [UInt8.ofNat (n % 256)]
termination_by n
decreasing_by omega

/-- Fixed-width big-endian: the low `w` bytes of `n` (like `to_be_bytes` on a machine word,
    which is how the Rust code obtains them after an `as u32`/`u64` truncation). -/
def natBEw : Nat → Nat → Bytes
  | 0, _ => []
  | w + 1, n => natBEw w (n / 256) ++ [UInt8.ofNat (n % 256)]

/-- u32 big-endian, 4 bytes. -/
def u32be (n : Nat) : Bytes := natBEw 4 n
/-- u64 big-endian, 8 bytes. -/
def u64be (n : Nat) : Bytes := natBEw 8 n

/-! ### MultiversX nested ("dep") encoding of the types the contracts hash -/

/-- `ManagedBuffer::dep_encode`: u32 length prefix, then the bytes. -/
def nestBuf (b : Bytes) : Bytes := u32be b.length ++ b
/-- `BigUint::dep_encode`: u32 length prefix, then minimal big-endian bytes. -/
def nestBig (n : Nat) : Bytes := nestBuf (natBE n)

/-- key of an ESDT balance: fungible tokens (nonce 0) by identifier, SFT/NFT instances by
    identifier '#' nonce (identifiers never contain '#') -/
def esdtKey (tok : Bytes) (nonce : Nat) : Bytes := if nonce = 0 then tok else tok ++ [35] ++ natBE nonce

/-! ### hex (driver I/O only) -/

def hexDigit (n : Nat) : Char :=
  if n < 10 then Char.ofNat (48 + n) else Char.ofNat (87 + n)

def toHex (bs : Bytes) : String :=
  String.ofList (bs.foldr (fun b acc => hexDigit (b.toNat / 16) :: hexDigit (b.toNat % 16) :: acc) [])

def hexVal (c : Char) : Option Nat :=
  if '0' ≤ c ∧ c ≤ '9' then some (c.toNat - 48)
  else if 'a' ≤ c ∧ c ≤ 'f' then some (c.toNat - 87)
  else if 'A' ≤ c ∧ c ≤ 'F' then some (c.toNat - 55)
  else none

def ofHexChars : List Char → Option Bytes
  | [] => some []
  | [_] => none
  | a :: b :: rest =>
    match hexVal a, hexVal b, ofHexChars rest with
    | some x, some y, some r => some (UInt8.ofNat (x * 16 + y) :: r)
    | _, _, _ => none

def ofHex (s : String) : Option Bytes := ofHexChars s.toList

def strBytes (s : String) : Bytes := s.toUTF8.toList

end Axelar
