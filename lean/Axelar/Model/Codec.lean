/-
  MultiversX codec as the contracts use it on their arguments: nested ("dep") decoding of
  buffers, big integers, fixed arrays, options and vectors, and the top-level decoders of the
  scalar argument types.  Import-free.
-/
import Axelar.Basic.Bytes
namespace Axelar.Codec

/-- a nested decoder consumes a prefix of the input -/
abbrev Dec (α : Type) := Bytes → Option (α × Bytes)

def fixed (n : Nat) : Dec Bytes := fun bs =>
  if n ≤ bs.length then some (bs.take n, bs.drop n) else none

def u32 : Dec Nat := fun bs =>
  match fixed 4 bs with
  | some (b, r) => some (beNat b, r)
  | none => none

def u64 : Dec Nat := fun bs =>
  match fixed 8 bs with
  | some (b, r) => some (beNat b, r)
  | none => none

def u8 : Dec Nat := fun bs =>
  match bs with
  | b :: r => some (b.toNat, r)
  | [] => none

/-- `ManagedBuffer::dep_decode` -/
def buf : Dec Bytes := fun bs =>
  match u32 bs with
  | some (n, r) => fixed n r
  | none => none

/-- `BigUint::dep_decode` -/
def big : Dec Nat := fun bs =>
  match buf bs with
  | some (b, r) => some (beNat b, r)
  | none => none

/-- `Option<T>::dep_decode`: 0 = None, 1 = Some, anything else is an error -/
def opt {α : Type} (d : Dec α) : Dec (Option α) := fun bs =>
  match bs with
  | 0 :: r => some (none, r)
  | 1 :: r => match d r with
    | some (v, r') => some (some v, r')
    | none => none
  | _ => none

/-- `n` items -/
def times {α : Type} (d : Dec α) : Nat → Dec (List α)
  | 0 => fun bs => some ([], bs)
  | n + 1 => fun bs =>
    match d bs with
    | some (v, r) => match times d n r with
      | some (vs, r') => some (v :: vs, r')
      | none => none
    | none => none

/-- `ManagedVec<T>::dep_decode`: u32 count, then the items -/
def vec {α : Type} (d : Dec α) : Dec (List α) := fun bs =>
  match u32 bs with
  | some (n, r) => times d n r
  | none => none

/-- `ManagedVec<T>::top_decode` / `MultiValueEncoded` of nested items: items until the input is
    exhausted (fuel = input length bounds the number of non-empty items) -/
def manyGo {α : Type} (d : Dec α) : Nat → Bytes → Option (List α)
  | 0, bs => if bs.isEmpty then some [] else none
  | fuel + 1, bs =>
    if bs.isEmpty then some []
    else match d bs with
      | some (v, r) =>
        -- an item that consumes nothing would loop forever in Rust; every item type used
        -- with `many` consumes at least one byte
        if r.length < bs.length then
          match manyGo d fuel r with
          | some vs => some (v :: vs)
          | none => none
        else none
      | none => none

def many {α : Type} (d : Dec α) (bs : Bytes) : Option (List α) := manyGo d bs.length bs

/-- a top-level struct decoder must consume the whole input -/
def top {α : Type} (d : Dec α) (bs : Bytes) : Option α :=
  match d bs with
  | some (v, []) => some v
  | _ => none

/-! ### top-level scalar arguments -/

/-- `ManagedAddress` / `ManagedByteArray<32>` argument: exactly 32 bytes -/
def topFixed (n : Nat) (bs : Bytes) : Option Bytes := if bs.length = n then some bs else none

/-- `u64` argument: at most 8 bytes, big-endian -/
def topU64 (bs : Bytes) : Option Nat := if bs.length ≤ 8 then some (beNat bs) else none
def topU32 (bs : Bytes) : Option Nat := if bs.length ≤ 4 then some (beNat bs) else none
def topU8 (bs : Bytes) : Option Nat := if bs.length ≤ 1 then some (beNat bs) else none
/-- `usize` argument (counts of `MultiValueManagedVecCounted`): u32 -/
def topUsize (bs : Bytes) : Option Nat := topU32 bs

/-- `BigUint` argument: any bytes -/
def topBig (bs : Bytes) : Nat := beNat bs

/-- `bool` argument -/
def topBool (bs : Bytes) : Option Bool :=
  match topU8 bs with
  | some 0 => some false
  | some 1 => some true
  | _ => none

/-! ### top-level encoders (results, event topics and data) -/

/-- `u64`/`BigUint` top-encode: minimal big-endian -/
def encNat (n : Nat) : Bytes := natBE n
def encBool (b : Bool) : Bytes := if b then [1] else []

end Axelar.Codec
