/-
  Histories of the world: the operations a schedule consists of, and running a list of them.
  These are exactly the operations of the line protocol (`tx`, `deliver`, `cb`, and the
  environment-setting lines `time` / `acct` / `roles` / `newaddr`).  Import-free.
-/
import Axelar.Model.Chain
namespace Axelar
namespace World

/-- one scheduled operation -/
inductive Op
  /-- a user transaction -/
  | tx (src dst : Bytes) (func : String) (egld : Nat) (esdt : List (Bytes × Nat × Nat)) (args : List Bytes)
  /-- delivery of the call part of a pending asynchronous call, with the outcome the schedule dictates -/
  | deliver (id : Nat) (how : How)
  /-- the callback of a delivered call -/
  | callback (id : Nat)
  /-- the environment moves: block time, account balances, protocol-level ESDT roles, the addresses
      the chain will hand out — anything that is not contract storage -/
  | env (now : Nat) (accts : Bytes → Acct) (mintRole burnRole : Bytes × Bytes → Bool)
      (newAddrs : Bytes × Nat → Bytes)

def step (C : Crypto) (w : World) : Op → World
  | .tx src dst func egld esdt args => (tx C w src dst func egld esdt args).1
  | .deliver id how => (deliver C w id how).1
  | .callback id => (callback C w id).1
  | .env now accts mr br na => { w with now := now, accts := accts, mintRole := mr, burnRole := br, newAddrs := na }

def run (C : Crypto) (w : World) (ops : List Op) : World := ops.foldl (step C) w

end World
end Axelar
