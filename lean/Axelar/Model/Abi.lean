/-
  Model of interchain-token-service/src/abi.rs, written the way the Rust is written:
  head pass with a running tail offset, then a tail pass; decoder with absolute offsets.
  Import-free.
-/
import Axelar.Basic.Bytes
namespace Axelar.Abi

inductive Err | unsupportedNumberSize | loadSlice | copySlice | invalidData | unsupportedType
  | badMessageType
  deriving Repr, DecidableEq

/-- `enum Token` (abi.rs:14-20). `bytes32` carries a `ManagedByteArray<32>`; its length-32
    invariant is the explicit predicate `Tok.wf`. -/
inductive Tok
  | uint256 (n : Nat)
  | bytes32 (b : Bytes)
  | bytes (b : Bytes)
  | string (b : Bytes)
  | uint8 (n : UInt8)
  deriving Repr, DecidableEq

inductive Ty | uint256 | bytes32 | bytes | string | uint8
  deriving Repr, DecidableEq

def Tok.ty : Tok → Ty
  | .uint256 _ => .uint256 | .bytes32 _ => .bytes32 | .bytes _ => .bytes
  | .string _ => .string | .uint8 _ => .uint8

/-- What the Rust type system guarantees about a token value. -/
def Tok.wf : Tok → Prop
  | .bytes32 b => b.length = 32
  | _ => True

instance (t : Tok) : Decidable t.wf := by
  cases t <;> simp only [Tok.wf] <;> infer_instance

/-! ### encoder (abi.rs:59-154, 269-285) -/

def headLen (_ : Tok) : Nat := 32

/-- `pad_bytes_len`: `((len + 31) / 32) as u32 + 1`. -/
def padBytesLen (b : Bytes) : Nat := (b.length + 31) / 32 + 1

def tailLen : Tok → Nat
  | .uint256 _ | .bytes32 _ | .uint8 _ => 0
  | .bytes d | .string d => padBytesLen d * 32

/-- `pad_u32`: 28 zero bytes then the 4 big-endian bytes of the `u32` (i.e. of `v mod 2^32`). -/
def padU32 (v : Nat) : Bytes := zeros 28 ++ u32be v

/-- `fixed_bytes_append`: 32-byte batches, the last (short) batch right-padded with zeros. -/
def fixedBytesGo : Nat → Bytes → Bytes → Bytes
  | 0, _, acc => acc
  | fuel + 1, rest, acc =>
    if rest.isEmpty then acc
    else
      let b := rest.take 32
      if b.length = 32 then fixedBytesGo fuel (rest.drop 32) (acc ++ b)
      else acc ++ b ++ zeros (32 - b.length)

def fixedBytesAppend (acc data : Bytes) : Bytes := fixedBytesGo (data.length + 1) data acc

/-- `pad_biguint`: panics ("Unsupported number size") above 32 bytes. -/
def padBigUint (n : Nat) : Except Err Bytes :=
  let bs := natBE n
  if bs.length > 32 then .error .unsupportedNumberSize
  else .ok (zeros (32 - bs.length) ++ bs)

def padBytesAppend (acc bytes : Bytes) : Bytes :=
  fixedBytesAppend (acc ++ padU32 bytes.length) bytes

def headAppend (t : Tok) (acc : Bytes) (suffixOffset : Nat) : Except Err Bytes :=
  match t with
  | .uint256 d => do let w ← padBigUint d; pure (acc ++ w)
  | .bytes32 d => pure (fixedBytesAppend acc d)
  | .bytes _ | .string _ => pure (acc ++ padU32 suffixOffset)
  | .uint8 d => pure (acc ++ padU32 d.toNat)

def tailAppend (t : Tok) (acc : Bytes) : Bytes :=
  match t with
  | .bytes d | .string d => padBytesAppend acc d
  | _ => acc

/-- first loop of `raw_abi_encode` -/
def headPass : List Tok → Bytes → Nat → Except Err Bytes
  | [], acc, _ => .ok acc
  | t :: ts, acc, off =>
    match headAppend t acc off with
    | .error e => .error e
    | .ok acc' => headPass ts acc' (off + tailLen t)

/-- second loop of `raw_abi_encode` -/
def tailPass : List Tok → Bytes → Bytes
  | [], acc => acc
  | t :: ts, acc => tailPass ts (tailAppend t acc)

def rawEncode (toks : List Tok) : Except Err Bytes :=
  let headsLen := toks.foldl (fun a t => a + headLen t) 0
  match headPass toks [] headsLen with
  | .error e => .error e
  | .ok acc => .ok (tailPass toks acc)

/-! ### decoder (abi.rs:171-262, 287-302) -/

/-- `peek_32_bytes`: `load_slice(offset, &mut [0;32]).unwrap()`. -/
def peek32 (data : Bytes) (off : Nat) : Except Err Bytes :=
  if off + 32 ≤ data.length then .ok ((data.drop off).take 32) else .error .loadSlice

/-- `take_bytes`: `copy_slice(offset, len).unwrap()`. -/
def takeBytes (data : Bytes) (off len : Nat) : Except Err Bytes :=
  if off + len ≤ data.length then .ok ((data.drop off).take len) else .error .copySlice

/-- `take_usize`: the 28 high bytes must be zero. -/
def takeUsize (w : Bytes) : Except Err Nat :=
  if (w.take 28).all (· == 0) then .ok (beNat (w.drop 28)) else .error .invalidData

/-- `take_u8`: the 31 high bytes must be zero. -/
def takeU8 (w : Bytes) : Except Err UInt8 :=
  if (w.take 31).all (· == 0) then .ok (w.getD 31 0) else .error .invalidData

def decodeDyn (data : Bytes) (off : Nat) : Except Err Bytes :=
  match peek32 data off with
  | .error e => .error e
  | .ok w0 =>
  match takeUsize w0 with
  | .error e => .error e
  | .ok dynOff =>
  match peek32 data dynOff with
  | .error e => .error e
  | .ok w1 =>
  match takeUsize w1 with
  | .error e => .error e
  | .ok len => takeBytes data (dynOff + 32) len

/-- `ParamType::abi_decode` (token only; the new offset is always `offset + 32`). -/
def decodeParam (ty : Ty) (data : Bytes) (off : Nat) : Except Err Tok :=
  match ty with
  | .uint256 => match peek32 data off with
    | .error e => .error e
    | .ok w => .ok (.uint256 (beNat w))
  | .bytes32 => match peek32 data off with
    | .error e => .error e
    | .ok w => .ok (.bytes32 w)
  | .bytes => match decodeDyn data off with
    | .error e => .error e
    | .ok v => .ok (.bytes v)
  | .string => match decodeDyn data off with
    | .error e => .error e
    | .ok v => .ok (.string v)
  | .uint8 => match peek32 data off with
    | .error e => .error e
    | .ok w => match takeU8 w with
      | .error e => .error e
      | .ok v => .ok (.uint8 v)

/-- loop of `raw_abi_decode` -/
def rawDecodeGo : List Ty → Bytes → Nat → Except Err (List Tok)
  | [], _, _ => .ok []
  | ty :: tys, data, off =>
    match decodeParam ty data off with
    | .error e => .error e
    | .ok t =>
      match rawDecodeGo tys data (off + 32) with
      | .error e => .error e
      | .ok ts => .ok (t :: ts)

def rawDecode (tys : List Ty) (data : Bytes) (initialOffset : Nat := 0) : Except Err (List Tok) :=
  rawDecodeGo tys data (initialOffset * 32)

/-- `get_message_type` (executable.rs:291-299): first word, `to_u64().unwrap()`.
    `BigUint::to_u64` goes through the VM's `bi_to_i64`, so it is `None` from 2^63 upwards
    (found by the correspondence check; the first version of this model said 2^64). -/
def getMessageType (payload : Bytes) : Except Err Nat :=
  match decodeParam .uint256 payload 0 with
  | .ok (.uint256 n) => if n < 2 ^ 63 then .ok n else .error .badMessageType
  | .ok _ => .error .unsupportedType
  | .error e => .error e

end Axelar.Abi
