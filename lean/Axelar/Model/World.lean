/-
  The chain as the contracts see it: accounts with balances, block time, the deployed contract
  instances, atomic transactions (failure = the old world), and — explicitly — the list of
  pending asynchronous calls, so that a schedule is just a list of operations.
  Import-free.
-/
import Axelar.Model.Trace
import Axelar.Model.Gateway
import Axelar.Model.GasService
import Axelar.Model.TokenManager
import Axelar.Model.Governance
import Axelar.Model.Its
namespace Axelar

structure Acct where
  egld : Nat := 0
  esdt : Bytes → Nat := fun _ => 0

inductive Kind | gateway | gasService | governance | its | tokenManager
  deriving Repr, DecidableEq

/-- address of the ESDT system smart contract -/
def esdtSystemSc : Bytes :=
  [0,0,0,0,0,0,0,0,0,1,0,0,0,0,0,0,0,0,0,0,0,0,0,0,0,0,0,0,0,2,255,255]

/-- what the callback of a pending asynchronous call needs (the closure the real code stores) -/
inductive PendKind
  | tmIssue (tm : Bytes)
  | govDispatch (gov : Bytes) (d : Governance.Dispatch)
  /-- ITS transfer-with-data promise: closure of `execute_with_token_callback` -/
  | itsExecute (its sourceChain messageId sourceAddress payloadHash tokenId tokenIdentifier : Bytes)
      (amount : Nat)
  /-- ITS `registerTokenMetadata` async call: closure of `register_token_metadata_callback` -/
  | itsMetadata (its tokenIdentifier : Bytes) (gasValue : Nat) (caller : Bytes)
  /-- ITS `deployRemote*` async call: closure of `deploy_remote_token_callback` -/
  | itsDeployRemote (its deploySalt destChain tokenSymbol destMinter : Bytes) (gasValue : Nat)
      (caller : Bytes)
  deriving Repr, DecidableEq

structure Pending where
  desc : PendDesc
  src : Bytes                       -- the contract that registered the call
  kind : PendKind
  /-- outcome of the call once delivered: success flag and returned values -/
  result : Option (Bool × List Bytes) := none

structure World where
  now : Nat := 0
  accts : Bytes → Acct := fun _ => {}
  kind : Bytes → Option Kind := fun _ => none
  owner : Bytes → Bytes := fun _ => []
  gw : Gateway.State := Gateway.State.empty
  gs : GasService.State := {}
  gov : Governance.State := {}
  its : Its.State := {}
  /-- account nonces of contracts that deploy contracts, and the addresses the chain will give
      to their deployments -/
  nonces : Bytes → Nat := fun _ => 0
  newAddrs : Bytes × Nat → Bytes := fun _ => []
  tms : Bytes → TokenManager.State := fun _ => {}
  /-- ESDT local roles (protocol level): may `addr` mint / burn `token` -/
  mintRole : Bytes × Bytes → Bool := fun _ => false
  burnRole : Bytes × Bytes → Bool := fun _ => false
  pending : List Pending := []
  nextPending : Nat := 0

namespace World

def addEgld (w : World) (a : Bytes) (n : Nat) : World :=
  let acc := w.accts a
  { w with accts := upd w.accts a { acc with egld := acc.egld + n } }

def subEgld (w : World) (a : Bytes) (n : Nat) : Option World :=
  let acc := w.accts a
  if acc.egld ≥ n then
    some { w with accts := upd w.accts a { acc with egld := acc.egld - n } }
  else none

def addEsdt (w : World) (a tok : Bytes) (n : Nat) : World :=
  let acc := w.accts a
  { w with accts := upd w.accts a { acc with esdt := upd acc.esdt tok (acc.esdt tok + n) } }

def subEsdt (w : World) (a tok : Bytes) (n : Nat) : Option World :=
  let acc := w.accts a
  if acc.esdt tok ≥ n then
    some { w with accts := upd w.accts a { acc with esdt := upd acc.esdt tok (acc.esdt tok - n) } }
  else none

/-- move a payment (EGLD value and fungible ESDT transfers) from one account to another -/
def pay (w : World) (src dst : Bytes) (egld : Nat) : List (Bytes × Nat × Nat) → Option World
  | [] => match subEgld w src egld with
    | some w' => some (addEgld w' dst egld)
    | none => none
  | (tok, nonce, amt) :: rest =>
    match subEsdt w src (esdtKey tok nonce) amt with
    | some w' => pay (addEsdt w' dst (esdtKey tok nonce) amt) src dst egld rest
    | none => none

def stamp (addr : Bytes) (evs : List Ev) : List Event :=
  evs.map fun e => ⟨addr, e.name, e.topics, e.data⟩

def balanceOf (w : World) (a : Bytes) : Option Bytes → Nat
  | none => (w.accts a).egld
  | some t => (w.accts a).esdt t

/-- a direct transfer out of contract `src` -/
def send (w : World) (src dst : Bytes) : Option Bytes → Nat → Option World
  | none, n => (subEgld w src n).map fun w' => addEgld w' dst n
  | some t, n => (subEsdt w src t n).map fun w' => addEsdt w' dst t n

def applySends (w : World) (src : Bytes) : List GasService.Send → Option World
  | [] => some w
  | s :: rest => match send w src s.to s.tok s.amount with
    | some w' => applySends w' src rest
    | none => none

/-- effects of a token manager call, in order -/
def applyEffects (w : World) (tm : Bytes) : List TokenManager.Eff → Option World
  | [] => some w
  | .send to tok amt :: rest =>
    match send w tm to tok amt with
    | some w' => applyEffects w' tm rest
    | none => none
  | .mint tok amt :: rest =>
    if w.mintRole (tm, tok) then applyEffects (addEsdt w tm tok amt) tm rest else none
  | .burn tok amt :: rest =>
    if !w.burnRole (tm, tok) then none else
    match subEsdt w tm tok amt with
    | some w' => applyEffects w' tm rest
    | none => none

/-- register a pending asynchronous call -/
def addPending (w : World) (src dst : Bytes) (func : String) (egld : Nat)
    (esdt : List (String × Nat × Nat)) (args : List Bytes) (kind : PendKind) : World × PendDesc :=
  let d : PendDesc := ⟨w.nextPending, dst, func, egld, esdt, args⟩
  ({ w with pending := w.pending ++ [⟨d, src, kind, none⟩], nextPending := w.nextPending + 1 }, d)

/-- result of running contract code: new world, returned values, events, newly pending calls -/
abbrev CallRes := Option (World × List Bytes × List Event × List PendDesc)

def tmCtx (w : World) (src dst : Bytes) (egld : Nat) (esdt : List (Bytes × Nat × Nat)) : TokenManager.Ctx :=
  ⟨src, dst, w.now, egld, esdt⟩

/-- finish a token manager call: commit state, apply effects, register the issue call -/
def tmFinish (w : World) (dst : Bytes) (out : TokenManager.Out) : CallRes :=
  match applyEffects { w with tms := upd w.tms dst out.st } dst out.effects with
  | none => none
  | some w' =>
    match out.issue with
    | none => some (w', out.results, stamp dst out.events, [])
    | some ic =>
      let (w'', d) := addPending w' dst esdtSystemSc "registerAndSetAllRoles" ic.value []
        [ic.name, ic.ticker, strBytes "FNG", Codec.encNat ic.decimals] (.tmIssue dst)
      some (w'', out.results, stamp dst out.events, [d])

/-- gas the harness gives every top-level transaction -/
def txGas : Nat := 100000000000

def asciiString (b : Bytes) : String := String.ofList (b.map fun c => Char.ofNat c.toNat)

def govCtx (w : World) (src dst : Bytes) (egld : Nat) (esdt : List (Bytes × Nat × Nat)) : Governance.Ctx :=
  ⟨src, dst, w.now, egld, esdt, txGas⟩

/-- finish a governance call: commit, apply sends, register the dispatch promise -/
def govFinish (w : World) (dst : Bytes) (out : Governance.Out) (pre : List Event) : CallRes :=
  match applySends { w with gov := out.st } dst out.sends with
  | none => none
  | some w' =>
    match out.dispatch with
    | none => some (w', out.results, pre ++ stamp dst out.events, [])
    | some d =>
      let (w'', pd) := addPending w' dst d.target (asciiString d.endpoint) d.value [] d.args (.govDispatch dst d)
      some (w'', out.results, pre ++ stamp dst out.events, [pd])

/-- one call to a deployed contract other than the token service (payments already moved);
    `none` = failure -/
def callOther (C : Crypto) (w : World) (src dst : Bytes) (func : String) (egld : Nat)
    (esdt : List (Bytes × Nat × Nat)) (args : List Bytes) : CallRes :=
  match w.kind dst with
  | some .gateway =>
    -- no gateway endpoint is payable
    if egld ≠ 0 || !esdt.isEmpty then none else
    match Gateway.call C w.gw ⟨src, w.owner dst, w.now⟩ func args with
    | .ok (gw', rs, evs) => some ({ w with gw := gw' }, rs, stamp dst evs, [])
    | .error _ => none
  | some .gasService =>
    match GasService.call C w.gs ⟨src, w.owner dst, egld, esdt, balanceOf w dst⟩ func args with
    | .ok out =>
      match applySends { w with gs := out.st } dst out.sends with
      | some w' => some (w', out.results, stamp dst out.events, [])
      | none => none
    | .error _ => none
  | some .tokenManager =>
    match TokenManager.call (w.tms dst) (tmCtx w src dst egld esdt) func args with
    | .ok out => tmFinish w dst out
    | .error _ => none
  | some .governance =>
    -- the protocol's `upgradeContract(code, metadata)` run by the owner: `upgrade()` is empty
    if func == "upgradeContract" then
      if src == w.owner dst && egld == 0 && esdt.isEmpty && args.length == 2 then some (w, [], [], []) else none
    else
    if func == "execute" then
      if egld ≠ 0 || !esdt.isEmpty then none else
      match args with
      | [chain, id, srcAddr, payload] =>
        if w.kind w.gov.gateway != some .gateway then none else
        match Governance.execute C w.gov w.gw (govCtx w src dst egld esdt) chain id srcAddr payload with
        | .ok (gov', gw', gwEvs, evs) =>
          some ({ w with gov := gov', gw := gw' }, [], stamp w.gov.gateway gwEvs ++ stamp dst evs, [])
        | .error _ => none
      | _ => none
    else
      match Governance.call C w.gov (govCtx w src dst egld esdt) func args with
      | .ok out => govFinish w dst out []
      | .error _ => none
  | _ => none

end World
end Axelar
