/-
  The chain as the contracts see it: accounts with balances, block time, the deployed contract
  instances, atomic transactions (failure = the old world), and — explicitly — the list of
  pending asynchronous calls, so that a schedule is just a list of operations.
  Import-free.
-/
import Axelar.Model.Trace
import Axelar.Model.Gateway
import Axelar.Model.GasService
namespace Axelar

structure Acct where
  egld : Nat := 0
  esdt : Bytes → Nat := fun _ => 0

inductive Kind | gateway | gasService | governance | its | tokenManager
  deriving Repr, DecidableEq

structure World where
  now : Nat := 0
  accts : Bytes → Acct := fun _ => {}
  kind : Bytes → Option Kind := fun _ => none
  owner : Bytes → Bytes := fun _ => []
  gw : Gateway.State := Gateway.State.empty
  gs : GasService.State := {}

namespace World

def addEgld (w : World) (a : Bytes) (n : Nat) : World :=
  let acc := w.accts a
  { w with accts := upd w.accts a { acc with egld := acc.egld + n } }

def subEgld (w : World) (a : Bytes) (n : Nat) : Option World :=
  let acc := w.accts a
  if acc.egld ≥ n then
    some { w with accts := upd w.accts a { acc with egld := acc.egld - n } }
  else none

def addEsdt (w : World) (a tok : Bytes) (n : Nat) : World :=
  let acc := w.accts a
  { w with accts := upd w.accts a { acc with esdt := upd acc.esdt tok (acc.esdt tok + n) } }

def subEsdt (w : World) (a tok : Bytes) (n : Nat) : Option World :=
  let acc := w.accts a
  if acc.esdt tok ≥ n then
    some { w with accts := upd w.accts a { acc with esdt := upd acc.esdt tok (acc.esdt tok - n) } }
  else none

/-- move a payment (EGLD value and fungible ESDT transfers) from one account to another -/
def pay (w : World) (src dst : Bytes) (egld : Nat) : List (Bytes × Nat × Nat) → Option World
  | [] => match subEgld w src egld with
    | some w' => some (addEgld w' dst egld)
    | none => none
  | (tok, _nonce, amt) :: rest =>
    match subEsdt w src tok amt with
    | some w' => pay (addEsdt w' dst tok amt) src dst egld rest
    | none => none

def stamp (addr : Bytes) (evs : List Ev) : List Event :=
  evs.map fun e => ⟨addr, e.name, e.topics, e.data⟩

def balanceOf (w : World) (a : Bytes) : Option Bytes → Nat
  | none => (w.accts a).egld
  | some t => (w.accts a).esdt t

/-- a direct transfer out of contract `src` -/
def send (w : World) (src dst : Bytes) : Option Bytes → Nat → Option World
  | none, n => (subEgld w src n).map fun w' => addEgld w' dst n
  | some t, n => (subEsdt w src t n).map fun w' => addEsdt w' dst t n

def applySends (w : World) (src : Bytes) : List GasService.Send → Option World
  | [] => some w
  | s :: rest => match send w src s.to s.tok s.amount with
    | some w' => applySends w' src rest
    | none => none

/-- one transaction to a deployed contract (payments already moved by the caller of this
    function); `none` = the transaction fails and the world is rolled back by the caller -/
def callContract (C : Crypto) (w : World) (src dst : Bytes) (func : String) (egld : Nat)
    (esdt : List (Bytes × Nat × Nat)) (args : List Bytes) :
    Option (World × List Bytes × List Event) :=
  match w.kind dst with
  | some .gateway =>
    -- no gateway endpoint is payable
    if egld ≠ 0 || !esdt.isEmpty then none else
    match Gateway.call C w.gw ⟨src, w.owner dst, w.now⟩ func args with
    | .ok (gw', rs, evs) => some ({ w with gw := gw' }, rs, stamp dst evs)
    | .error _ => none
  | some .gasService =>
    match GasService.call C w.gs ⟨src, w.owner dst, egld, esdt, balanceOf w dst⟩ func args with
    | .ok out =>
      match applySends { w with gs := out.st } dst out.sends with
      | some w' => some (w', out.results, stamp dst out.events)
      | none => none
    | .error _ => none
  | _ => none

/-- a user transaction: move the payment, run the endpoint, commit or roll back -/
def tx (C : Crypto) (w : World) (src dst : Bytes) (func : String) (egld : Nat)
    (esdt : List (Bytes × Nat × Nat)) (args : List Bytes) : World × Outcome :=
  match pay w src dst egld esdt with
  | none => (w, .fail)
  | some w1 =>
    match w.kind dst with
    | none => if func.isEmpty then (w1, .ok [] [] []) else (w, .fail)
    | some _ =>
      match callContract C w1 src dst func egld esdt args with
      | some (w2, rs, evs) => (w2, .ok rs evs [])
      | none => (w, .fail)

/-- a view call: result only, nothing committed -/
def query (C : Crypto) (w : World) (dst : Bytes) (func : String) (args : List Bytes) : Outcome :=
  match callContract C w dst dst func 0 [] args with
  | some (_, rs, _) => .ok rs [] []
  | none => .fail

def deploy (C : Crypto) (w : World) (kindName : String) (ownerAddr addr : Bytes) (args : List Bytes) :
    World × Outcome :=
  match kindName with
  | "gateway" =>
    match Gateway.initCall C w.now args with
    | .ok (st, evs) =>
      ({ w with gw := st, kind := upd w.kind addr (some .gateway), owner := upd w.owner addr ownerAddr },
       .ok [] (stamp addr evs) [])
    | .error _ => (w, .fail)
  | "gas-service" =>
    match GasService.initCall args with
    | .ok st =>
      ({ w with gs := st, kind := upd w.kind addr (some .gasService), owner := upd w.owner addr ownerAddr },
       .ok [] [] [])
    | .error _ => (w, .fail)
  | _ => (w, .fail)

end World
end Axelar
