/-
  Model of interchain-token-service/src/abi_types.rs: the five payload structs, their
  `abi_encode` token lists and their `abi_decode` (type list, then pops in reverse order).
  Field order / kinds are tied to the source by `Axelar.Generated.AbiFields` (see Props/C06, C07).
-/
import Axelar.Model.Abi
namespace Axelar.Abi

/-- `InterchainTransferPayload` -/
structure Transfer where
  messageType : Nat
  tokenId : Bytes
  sourceAddress : Bytes
  destinationAddress : Bytes
  amount : Nat
  data : Bytes
  deriving Repr, DecidableEq

/-- `DeployInterchainTokenPayload` -/
structure Deploy where
  messageType : Nat
  tokenId : Bytes
  name : Bytes
  symbol : Bytes
  decimals : UInt8
  minter : Bytes
  deriving Repr, DecidableEq

/-- `SendToHubPayload` -/
structure Hub where
  messageType : Nat
  destinationChain : Bytes
  payload : Bytes
  deriving Repr, DecidableEq

/-- `RegisterTokenMetadataPayload` -/
structure Metadata where
  messageType : Nat
  tokenIdentifier : Bytes
  decimals : UInt8
  deriving Repr, DecidableEq

/-- `LinkTokenPayload`; `tokenManagerType` is the `u8` obtained from `TokenManagerType::into`. -/
structure Link where
  messageType : Nat
  tokenId : Bytes
  tokenManagerType : UInt8
  sourceTokenAddress : Bytes
  destinationTokenAddress : Bytes
  linkParams : Bytes
  deriving Repr, DecidableEq

def Transfer.toks (p : Transfer) : List Tok :=
  [.uint256 p.messageType, .bytes32 p.tokenId, .bytes p.sourceAddress,
   .bytes p.destinationAddress, .uint256 p.amount, .bytes p.data]
def Deploy.toks (p : Deploy) : List Tok :=
  [.uint256 p.messageType, .bytes32 p.tokenId, .string p.name, .string p.symbol,
   .uint8 p.decimals, .bytes p.minter]
def Hub.toks (p : Hub) : List Tok :=
  [.uint256 p.messageType, .string p.destinationChain, .bytes p.payload]
def Metadata.toks (p : Metadata) : List Tok :=
  [.uint256 p.messageType, .bytes p.tokenIdentifier, .uint8 p.decimals]
def Link.toks (p : Link) : List Tok :=
  [.uint256 p.messageType, .bytes32 p.tokenId, .uint8 p.tokenManagerType,
   .bytes p.sourceTokenAddress, .bytes p.destinationTokenAddress, .bytes p.linkParams]

def Transfer.tys : List Ty := [.uint256, .bytes32, .bytes, .bytes, .uint256, .bytes]
def Deploy.tys : List Ty := [.uint256, .bytes32, .string, .string, .uint8, .bytes]
def Hub.tys : List Ty := [.uint256, .string, .bytes]
def Metadata.tys : List Ty := [.uint256, .bytes, .uint8]
def Link.tys : List Ty := [.uint256, .bytes32, .uint8, .bytes, .bytes, .bytes]

def Transfer.encode (p : Transfer) := rawEncode p.toks
def Deploy.encode (p : Deploy) := rawEncode p.toks
def Hub.encode (p : Hub) := rawEncode p.toks
def Metadata.encode (p : Metadata) := rawEncode p.toks
def Link.encode (p : Link) := rawEncode p.toks

/-! `into_*` conversions (abi.rs:22-57): panic on the wrong variant. -/
def Tok.intoBig : Tok → Except Err Nat | .uint256 n => .ok n | _ => .error .unsupportedType
def Tok.intoArr : Tok → Except Err Bytes | .bytes32 b => .ok b | _ => .error .unsupportedType
def Tok.intoBuf : Tok → Except Err Bytes
  | .bytes b => .ok b | .string b => .ok b | _ => .error .unsupportedType
def Tok.intoU8 : Tok → Except Err UInt8 | .uint8 n => .ok n | _ => .error .unsupportedType

def Transfer.ofToks : List Tok → Except Err Transfer
  | [a, b, c, d, e, f] =>
    match f.intoBuf, e.intoBig, d.intoBuf, c.intoBuf, b.intoArr, a.intoBig with
    | .ok data, .ok amount, .ok dst, .ok src, .ok tid, .ok mt =>
      .ok ⟨mt, tid, src, dst, amount, data⟩
    | _, _, _, _, _, _ => .error .unsupportedType
  | _ => .error .unsupportedType

def Deploy.ofToks : List Tok → Except Err Deploy
  | [a, b, c, d, e, f] =>
    match f.intoBuf, e.intoU8, d.intoBuf, c.intoBuf, b.intoArr, a.intoBig with
    | .ok minter, .ok dec, .ok sym, .ok name, .ok tid, .ok mt =>
      .ok ⟨mt, tid, name, sym, dec, minter⟩
    | _, _, _, _, _, _ => .error .unsupportedType
  | _ => .error .unsupportedType

def Hub.ofToks : List Tok → Except Err Hub
  | [a, b, c] =>
    match c.intoBuf, b.intoBuf, a.intoBig with
    | .ok payload, .ok chain, .ok mt => .ok ⟨mt, chain, payload⟩
    | _, _, _ => .error .unsupportedType
  | _ => .error .unsupportedType

def Metadata.ofToks : List Tok → Except Err Metadata
  | [a, b, c] =>
    match c.intoU8, b.intoBuf, a.intoBig with
    | .ok dec, .ok tok, .ok mt => .ok ⟨mt, tok, dec⟩
    | _, _, _ => .error .unsupportedType
  | _ => .error .unsupportedType

/-- `TokenManagerType::from(u8)` panics above 4 (token-manager/src/constants.rs:17-28). -/
def tokenManagerTypeOk (b : UInt8) : Bool := b.toNat ≤ 4

def Link.ofToks : List Tok → Except Err Link
  | [a, b, c, d, e, f] =>
    match f.intoBuf, e.intoBuf, d.intoBuf, c.intoU8, b.intoArr, a.intoBig with
    | .ok lp, .ok dst, .ok src, .ok ty, .ok tid, .ok mt =>
      if tokenManagerTypeOk ty then .ok ⟨mt, tid, ty, src, dst, lp⟩ else .error .unsupportedType
    | _, _, _, _, _, _ => .error .unsupportedType
  | _ => .error .unsupportedType

def Transfer.decode (bs : Bytes) : Except Err Transfer :=
  match rawDecode Transfer.tys bs with | .ok ts => Transfer.ofToks ts | .error e => .error e
def Deploy.decode (bs : Bytes) : Except Err Deploy :=
  match rawDecode Deploy.tys bs with | .ok ts => Deploy.ofToks ts | .error e => .error e
def Hub.decode (bs : Bytes) : Except Err Hub :=
  match rawDecode Hub.tys bs with | .ok ts => Hub.ofToks ts | .error e => .error e
def Metadata.decode (bs : Bytes) : Except Err Metadata :=
  match rawDecode Metadata.tys bs with | .ok ts => Metadata.ofToks ts | .error e => .error e
def Link.decode (bs : Bytes) : Except Err Link :=
  match rawDecode Link.tys bs with | .ok ts => Link.ofToks ts | .error e => .error e

end Axelar.Abi
