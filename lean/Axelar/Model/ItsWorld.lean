/-
  Model of the parts of interchain-token-service/src that call other contracts
  (lib.rs, executable.rs, remote.rs, proxy_gmp.rs, proxy_its.rs, user_functions.rs, factory.rs),
  written over the world: synchronous calls to the gateway, the gas service and token managers
  are function calls; asynchronous ones register a pending call.
  A transaction is a state-passing computation that may fail (`none` = panic = roll back).
-/
import Axelar.Model.World
namespace Axelar.ItsW
open Axelar Codec Its

/-- state of a running transaction: world, events so far (in emission order), new pending calls -/
structure Tx where
  w : World
  evs : List Event := []
  pend : List PendDesc := []

abbrev M := StateT Tx Option

def fail {α : Type} : M α := fun _ => none
def require (b : Bool) : M Unit := if b then pure () else fail
def getW : M World := do return (← get).w
def setW (w : World) : M Unit := modify fun t => { t with w := w }
def getI : M Its.State := do return (← get).w.its
def setI (s : Its.State) : M Unit := modify fun t => { t with w := { t.w with its := s } }

/-- context of the ITS endpoint being executed -/
structure ICtx where
  caller : Bytes
  self : Bytes
  owner : Bytes
  egld : Nat
  esdt : List (Bytes × Nat × Nat)

def emit (cx : ICtx) (name : String) (topics data : List Bytes) : M Unit :=
  modify fun t => { t with evs := t.evs ++ [⟨cx.self, name, topics, data⟩] }

/-- synchronous call to another contract, paying `egld`/`esdt` from the service's balance -/
def subcall (C : Crypto) (cx : ICtx) (dst : Bytes) (func : String) (egld : Nat)
    (esdt : List (Bytes × Nat × Nat)) (args : List Bytes) : M (List Bytes) := fun t =>
  match World.pay t.w cx.self dst egld esdt with
  | none => none
  | some w1 =>
    match World.callOther C w1 cx.self dst func egld esdt args with
    | none => none
    | some (w2, rs, evs, pd) => some (rs, { w := w2, evs := t.evs ++ evs, pend := t.pend ++ pd })

def addPend (cx : ICtx) (dst : Bytes) (func : String) (egld : Nat) (esdt : List (String × Nat × Nat))
    (args : List Bytes) (kind : PendKind) : M Unit := modify fun t =>
  let (w', d) := World.addPending t.w cx.self dst func egld esdt args kind
  { t with w := w', pend := t.pend ++ [d] }

def requireNotPaused : M Unit := do require (!(← getI).paused)

def tokArgBytes : Its.Tok → Bytes := GasService.tokBytes

/-- payment carrying `amount` of `tok` -/
def payOf (tok : Its.Tok) (amount : Nat) : Nat × List (Bytes × Nat × Nat) :=
  match tok with
  | none => (amount, [])
  | some t => (0, [(t, 0, amount)])

/-! ### gateway / gas service proxies (proxy_gmp.rs) -/

def gatewayValidate (C : Crypto) (cx : ICtx) (chain id src ph : Bytes) : M Bool := do
  let rs ← subcall C cx (← getI).gateway "validateMessage" 0 [] [chain, id, src, ph]
  return rs == [encBool true]

def gatewayIsApproved (C : Crypto) (cx : ICtx) (chain id src ph : Bytes) : M Bool := do
  let rs ← subcall C cx (← getI).gateway "isMessageApproved" 0 [] [chain, id, src, cx.self, ph]
  return rs == [encBool true]

/-- `call_contract`: pay gas (if any) then call the gateway -/
def callContract (C : Crypto) (cx : ICtx) (destChain destAddr payload : Bytes) (gasToken : Its.Tok)
    (gasValue : Nat) : M Unit := do
  require (!destAddr.isEmpty)
  let st ← getI
  if gasValue > 0 then
    match gasToken with
    | none =>
      let _ ← subcall C cx st.gasService "payNativeGasForContractCall" gasValue []
        [cx.self, destChain, destAddr, payload, cx.caller]
    | some t =>
      let _ ← subcall C cx st.gasService "payGasForContractCall" 0 [(t, 0, gasValue)]
        [cx.self, destChain, destAddr, payload, cx.caller]
  let _ ← subcall C cx st.gateway "callContract" 0 [] [destChain, destAddr, payload]

/-- `route_message` -/
def routeMessage (C : Crypto) (cx : ICtx) (destChain payload : Bytes) (gasToken : Its.Tok)
    (gasValue : Nat) : M Unit := do
  match getCallParams (← getI) destChain payload with
  | none => fail
  | some (c, a, p) => callContract C cx c a p gasToken gasValue

/-! ### token manager proxies (proxy_its.rs) -/

/-- `deployed_token_manager` -/
def deployedTokenManager (tokenId : Bytes) : M Bytes := do
  let a := (← getI).tmAddress tokenId
  require (!a.isEmpty)
  return a

def tmTakeToken (C : Crypto) (cx : ICtx) (tokenId : Bytes) (tok : Its.Tok) (amount : Nat) : M Unit := do
  let tm ← deployedTokenManager tokenId
  let (e, es) := payOf tok amount
  let _ ← subcall C cx tm "takeToken" e es []

/-- returns (raw token identifier, amount) as the manager reports them -/
def tmGiveToken (C : Crypto) (cx : ICtx) (tokenId dest : Bytes) (amount : Nat) : M (Bytes × Nat) := do
  let tm ← deployedTokenManager tokenId
  let rs ← subcall C cx tm "giveToken" 0 [] [dest, encNat amount]
  match rs with
  | [t, a] => return (t, topBig a)
  | _ => fail

def optAddrArg : Option Bytes → Bytes
  | none => []
  | some a => 1 :: a

def tmDeployInterchainToken (C : Crypto) (cx : ICtx) (tokenId : Bytes) (minter : Option Bytes)
    (name symbol : Bytes) (decimals : Nat) : M Unit := do
  let tm ← deployedTokenManager tokenId
  -- `with_egld_transfer(self.call_value().egld_value())`
  let _ ← subcall C cx tm "deployInterchainToken" cx.egld [] [optAddrArg minter, name, symbol, encNat decimals]

/-- `registered_token_identifier`: raw identifier as stored by the manager -/
def registeredTokenIdentifier (C : Crypto) (cx : ICtx) (tokenId : Bytes) : M Bytes := do
  let tm ← deployedTokenManager tokenId
  let rs ← subcall C cx tm "tokenIdentifier" 0 [] []
  match rs with
  | [t] => return t
  | _ => fail

/-- `EgldOrEsdtTokenIdentifier::into_name` of a decoded identifier -/
def intoName (raw : Bytes) : Bytes := raw

/-! ### executable.rs -/

def paramsBytes (operator : Option Bytes) (token : Option Bytes) : Bytes :=
  (match operator with | none => [0] | some a => 1 :: a) ++
  (match token with | none => [0] | some t => 1 :: nestBuf t)

def tmTypeArg (ty : Nat) : Bytes := encNat ty

/-- `deploy_token_manager_raw` -/
def deployTokenManagerRaw (C : Crypto) (cx : ICtx) (tokenId : Bytes) (ty : Nat) (token : Option Bytes)
    (operatorRaw : Bytes) : M Bytes := do
  let _ := C
  let st ← getI
  require (st.tmAddress tokenId).isEmpty
  let operator ← (if operatorRaw.isEmpty then pure none
                  else if operatorRaw.length = 32 then pure (some operatorRaw) else fail : M (Option Bytes))
  -- deploy_from_source_contract: runs the manager's `init` at the next address of the service
  let w ← getW
  let n := w.nonces cx.self
  let addr := w.newAddrs (cx.self, n)
  require (!addr.isEmpty)
  require (w.kind addr).isNone
  match TokenManager.init cx.self ty tokenId operator token with
  | .error _ => fail
  | .ok (tmst, tmevs) =>
    setW { w with nonces := upd w.nonces cx.self (n + 1), kind := upd w.kind addr (some .tokenManager),
                  owner := upd w.owner addr cx.self, tms := upd w.tms addr tmst }
    modify fun t => { t with evs := t.evs ++ World.stamp addr tmevs }
    emit cx "token_manager_deployed_event" [tokenId] [addr ++ [UInt8.ofNat ty] ++ paramsBytes operator token]
    let st ← getI
    setI { st with tmAddress := upd st.tmAddress tokenId addr }
    return addr

/-- the with-data branch of `process_interchain_transfer_payload` plus
    `executable_contract_execute_with_interchain_token` -/
def executeWithToken (C : Crypto) (cx : ICtx) (dest origChain sourceChain messageId sourceAddress
    payloadHash origSourceAddress data tokenId : Bytes) (amount : Nat) : M Unit := do
  let ok ← gatewayIsApproved C cx sourceChain messageId sourceAddress payloadHash
  require ok
  let (tokRaw, amt) ← tmGiveToken C cx tokenId cx.self amount
  -- gas: txGas > EXECUTE_WITH_TOKEN_CALLBACK_GAS + KEEP_EXTRA_GAS always holds for the harness
  let st ← getI
  require (!st.lock (sourceChain, messageId))
  setI { st with lock := upd st.lock (sourceChain, messageId) true }
  let tok := GasService.tokOfBytes tokRaw
  let (e, es) := payOf tok amt
  addPend cx dest "executeWithInterchainToken" e (es.map fun (t, n, a) => (World.asciiString t, n, a))
    [origChain, messageId, origSourceAddress, data, tokenId]
    (.itsExecute cx.self sourceChain messageId sourceAddress payloadHash tokenId tokRaw amt)

/-- `process_interchain_transfer_payload` -/
def processInterchainTransfer (C : Crypto) (cx : ICtx) (origChain sourceChain messageId sourceAddress
    payloadHash payload : Bytes) : M Unit := do
  match Abi.Transfer.decode payload with
  | .error _ => fail
  | .ok p =>
    require (p.destinationAddress.length = 32)
    let dataHash := if p.data.isEmpty then zeroHash else C.H p.data
    emit cx "interchain_transfer_received_event"
      [p.tokenId, origChain, messageId, p.sourceAddress, p.destinationAddress, dataHash] [encNat p.amount]
    if p.data.isEmpty then
      let ok ← gatewayValidate C cx sourceChain messageId sourceAddress payloadHash
      require ok
      let _ ← tmGiveToken C cx p.tokenId p.destinationAddress p.amount
    else
      executeWithToken C cx p.destinationAddress origChain sourceChain messageId sourceAddress
        payloadHash p.sourceAddress p.data p.tokenId p.amount

/-- `process_link_token_payload` -/
def processLinkToken (C : Crypto) (cx : ICtx) (payload : Bytes) : M Unit := do
  match Abi.Link.decode payload with
  | .error _ => fail
  | .ok p =>
    require (p.tokenManagerType.toNat != 0)
    require (isValidEsdt p.destinationTokenAddress)
    let _ ← deployTokenManagerRaw C cx p.tokenId p.tokenManagerType.toNat (some p.destinationTokenAddress) p.linkParams

/-- `process_deploy_interchain_token_payload` -/
def processDeployInterchainToken (C : Crypto) (cx : ICtx) (sourceChain messageId sourceAddress
    payloadHash payload : Bytes) : M Unit := do
  match Abi.Deploy.decode payload with
  | .error _ => fail
  | .ok d =>
    if ((← getI).tmAddress d.tokenId).isEmpty then
      require (cx.egld == 0)
      let ok ← gatewayIsApproved C cx sourceChain messageId sourceAddress payloadHash
      require ok
      let _ ← deployTokenManagerRaw C cx d.tokenId 0 none d.minter
    else
      let ok ← gatewayValidate C cx sourceChain messageId sourceAddress payloadHash
      require ok
      let minter ← (if d.minter.isEmpty then pure none
                    else if d.minter.length = 32 then pure (some d.minter) else fail : M (Option Bytes))
      tmDeployInterchainToken C cx d.tokenId minter d.name d.symbol d.decimals.toNat

/-- `execute` (lib.rs:104-173) -/
def execute (C : Crypto) (cx : ICtx) (sourceChain messageId sourceAddress payload : Bytes) : M Unit := do
  require cx.esdt.isEmpty
  requireNotPaused
  let st ← getI
  require (isTrustedAddress st sourceChain sourceAddress)
  let payloadHash := C.H payload
  match getExecuteParams st sourceChain payload with
  | none => fail
  | some (mt, origChain, inner) =>
    if mt == Generated.MESSAGE_TYPE_INTERCHAIN_TRANSFER then
      require (cx.egld == 0)
      processInterchainTransfer C cx origChain sourceChain messageId sourceAddress payloadHash inner
    else if mt == Generated.MESSAGE_TYPE_DEPLOY_INTERCHAIN_TOKEN then
      processDeployInterchainToken C cx sourceChain messageId sourceAddress payloadHash inner
    else if mt == Generated.MESSAGE_TYPE_LINK_TOKEN then
      require (cx.egld == 0)
      let ok ← gatewayValidate C cx sourceChain messageId sourceAddress payloadHash
      require ok
      processLinkToken C cx inner
    else fail

/-! ### remote.rs -/

/-- `transmit_interchain_transfer_raw` -/
def transmitInterchainTransfer (C : Crypto) (cx : ICtx) (tokenId sourceAddress destChain destAddress : Bytes)
    (tg : TransferAndGas) (data : Bytes) : M Unit := do
  require (!destAddress.isEmpty)
  require (tg.transferAmount > 0)
  let dataHash := if data.isEmpty then zeroHash else C.H data
  match Abi.Transfer.encode ⟨Generated.MESSAGE_TYPE_INTERCHAIN_TRANSFER, tokenId, sourceAddress,
      destAddress, tg.transferAmount, data⟩ with
  | .error _ => fail
  | .ok payload =>
    routeMessage C cx destChain payload tg.gasToken tg.gasAmount
    emit cx "interchain_transfer_event" [tokenId, sourceAddress, dataHash]
      [nestBuf destChain ++ nestBuf destAddress ++ nestBig tg.transferAmount]

/-- `deploy_remote_interchain_token_base` -/
def deployRemoteBase (C : Crypto) (cx : ICtx) (tokenId name symbol : Bytes) (decimals : Nat)
    (minter destChain : Bytes) (gasValue : Nat) : M Unit := do
  require (!name.isEmpty)
  require (!symbol.isEmpty)
  let _ ← deployedTokenManager tokenId
  match Abi.Deploy.encode ⟨Generated.MESSAGE_TYPE_DEPLOY_INTERCHAIN_TOKEN, tokenId, name, symbol,
      UInt8.ofNat decimals, minter⟩ with
  | .error _ => fail
  | .ok payload =>
    routeMessage C cx destChain payload none gasValue
    emit cx "interchain_token_deployment_started_event" [tokenId]
      [nestBuf name ++ nestBuf symbol ++ [UInt8.ofNat decimals] ++ nestBuf minter ++ nestBuf destChain]

/-! ### user_functions.rs -/

/-- `deploy_interchain_token_raw` -/
def deployInterchainTokenRaw (C : Crypto) (cx : ICtx) (deploySalt destChain name symbol : Bytes)
    (decimals : Nat) (minter : Bytes) (egldValue : Nat) : M Bytes := do
  requireNotPaused
  let tokenId := tokenIdRaw C deploySalt
  emit cx "interchain_token_id_claimed_event" [tokenId] [deploySalt]
  if destChain.isEmpty then
    if ((← getI).tmAddress tokenId).isEmpty then
      require (egldValue == 0)
      let _ ← deployTokenManagerRaw C cx tokenId 0 none minter
      return tokenId
    let m ← (if minter.isEmpty then pure none
             else if minter.length = 32 then pure (some minter) else fail : M (Option Bytes))
    tmDeployInterchainToken C cx tokenId m name symbol decimals
    return tokenId
  else
    require ((← getI).chainName != destChain)
    deployRemoteBase C cx tokenId name symbol decimals minter destChain egldValue
    return tokenId

/-- `register_custom_token_raw` -/
def registerCustomTokenRaw (C : Crypto) (cx : ICtx) (deploySalt token : Bytes) (ty : Nat)
    (linkParams : Bytes) : M Bytes := do
  requireNotPaused
  require (ty != 0)
  let tokenId := tokenIdRaw C deploySalt
  emit cx "interchain_token_id_claimed_event" [tokenId] [deploySalt]
  let _ ← deployTokenManagerRaw C cx tokenId ty (some token) linkParams
  return tokenId

/-- `link_token_raw` -/
def linkTokenRaw (C : Crypto) (cx : ICtx) (deploySalt destChain destTokenAddress : Bytes) (ty : Nat)
    (linkParams : Bytes) (gasValue : Nat) : M Bytes := do
  requireNotPaused
  require (!destTokenAddress.isEmpty)
  require (ty != 0)
  require (!destChain.isEmpty)
  require (destChain != (← getI).chainName)
  let tokenId := tokenIdRaw C deploySalt
  emit cx "interchain_token_id_claimed_event" [tokenId] [deploySalt]
  let srcTok ← registeredTokenIdentifier C cx tokenId
  emit cx "link_token_started_event" [tokenId]
    [nestBuf destChain ++ nestBuf srcTok ++ nestBuf destTokenAddress ++ [UInt8.ofNat ty] ++ nestBuf linkParams]
  match Abi.Link.encode ⟨Generated.MESSAGE_TYPE_LINK_TOKEN, tokenId, UInt8.ofNat ty, srcTok,
      destTokenAddress, linkParams⟩ with
  | .error _ => fail
  | .ok payload =>
    routeMessage C cx destChain payload none gasValue
    return tokenId

/-- `interchainTransfer` / `callContractWithInterchainToken` -/
def interchainTransfer (C : Crypto) (cx : ICtx) (tokenId destChain destAddress : Bytes)
    (data : Option Bytes) (gasValue : Nat) : M Unit := do
  requireNotPaused
  match getTransferAndGasTokens cx.egld cx.esdt gasValue with
  | none => fail
  | some tg =>
    tmTakeToken C cx tokenId tg.transferToken tg.transferAmount
    match data with
    | none => fail
    | some d => transmitInterchainTransfer C cx tokenId cx.caller destChain destAddress tg d

/-- `register_token_metadata_raw` (runs inside the callback) -/
def registerTokenMetadataRaw (C : Crypto) (cx : ICtx) (tokenIdentifier : Bytes) (decimals gasValue : Nat) :
    M Unit := do
  emit cx "token_metadata_registered_event" [tokenIdentifier] [encNat decimals]
  match Abi.Metadata.encode ⟨Generated.MESSAGE_TYPE_REGISTER_TOKEN_METADATA, tokenIdentifier,
      UInt8.ofNat decimals⟩ with
  | .error _ => fail
  | .ok payload =>
    let hubAddr := (← getI).trusted hubChain
    callContract C cx hubChain hubAddr payload none gasValue

/-! ### factory.rs -/

/-- `check_token_minter` -/
def checkTokenMinter (C : Crypto) (cx : ICtx) (tokenId minter : Bytes) : M Unit := do
  let tm := (← getI).tmAddress tokenId
  require (!tm.isEmpty)
  let rs ← subcall C cx tm "isMinter" 0 [] [minter]
  require (rs == [encBool true])
  require (minter != cx.self)

/-- `deploy_remote_interchain_token_raw` -/
def deployRemoteInterchainTokenRaw (C : Crypto) (cx : ICtx) (deploySalt destChain destMinter sender : Bytes) :
    M Bytes := do
  requireNotPaused
  let tokenId := tokenIdRaw C deploySalt
  let tokRaw ← registeredTokenIdentifier C cx tokenId
  let gasValue := cx.egld
  if GasService.tokOfBytes tokRaw == none then
    let _ ← deployInterchainTokenRaw C cx deploySalt destChain (intoName tokRaw) (intoName tokRaw) 18 destMinter gasValue
    return tokenId
  else
    -- symbol: the identifier without its last 7 characters (usize underflow panics below 7)
    require (tokRaw.length ≥ 7)
    let symbol := tokRaw.take (tokRaw.length - 7)
    addPend cx esdtSystemSc "getTokenProperties" 0 [] [tokRaw]
      (.itsDeployRemote cx.self deploySalt destChain symbol destMinter gasValue sender)
    return tokenId

/-- the 3rd transaction of the factory flow (factory.rs:99-110): mint the initial supply to the
    deployer, then hand minter, flow-limiter and operator roles to the nominated minter -/
def factoryMintStep (C : Crypto) (cx : ICtx) (tm minter : Bytes) (initialSupply : Nat) : M Unit := do
  let _ ← subcall C cx tm "mint" 0 [] [cx.caller, encNat initialSupply]
  let _ ← subcall C cx tm "transferMintership" 0 [] [minter]
  let _ ← subcall C cx tm "removeFlowLimiter" 0 [] [cx.self]
  let _ ← subcall C cx tm "addFlowLimiter" 0 [] [minter]
  let _ ← subcall C cx tm "transferOperatorship" 0 [] [minter]

/-- `deployInterchainToken` (factory.rs:26-110) -/
def factoryDeployInterchainToken (C : Crypto) (cx : ICtx) (salt name symbol : Bytes) (decimals : Nat)
    (initialSupply : Nat) (minter : Bytes) : M Bytes := do
  requireNotPaused
  let st ← getI
  let deploySalt := interchainTokenDeploySalt C st cx.caller salt
  let minterBytes ← (if initialSupply > 0 then (if minter != cx.self then pure cx.self else fail)
                     else if !Gateway.isZeroAddr minter then (if minter != cx.self then pure minter else fail)
                     else fail : M Bytes)
  let tokenId := tokenIdRaw C deploySalt
  let tm := st.tmAddress tokenId
  -- `call_value().egld_value()` is zero when ESDT is attached
  let egld := cx.egld
  let needsDeploy ← (if tm.isEmpty then pure true else do
      let rs ← subcall C cx tm "invalidTokenIdentifier" 0 [] []
      pure (rs == [[]]) : M Bool)
  if needsDeploy then
    let v ← (if tm.isEmpty then do require (egld == 0); pure 0 else pure egld : M Nat)
    let _ ← deployInterchainTokenRaw C cx deploySalt [] name symbol decimals minterBytes v
    return tokenId
  require (egld == 0)
  if initialSupply > 0 then
    factoryMintStep C cx tm minter initialSupply
  return tokenId

def approveDeployRemote (C : Crypto) (cx : ICtx) (deployer salt destChain destMinter : Bytes) : M Unit := do
  let st ← getI
  let tokenId := interchainTokenId C st deployer salt
  checkTokenMinter C cx tokenId cx.caller
  require (!((← getI).trusted destChain).isEmpty)
  emit cx "deploy_remote_interchain_token_approval_event" [cx.caller, deployer, tokenId, destChain] [destMinter]
  let key := deployApprovalKey C cx.caller tokenId destChain
  let st ← getI
  setI { st with approvedMinters := upd st.approvedMinters key (C.H destMinter) }

def revokeDeployRemote (C : Crypto) (cx : ICtx) (deployer salt destChain : Bytes) : M Unit := do
  let st ← getI
  let tokenId := interchainTokenId C st deployer salt
  emit cx "revoked_deploy_remote_interchain_token_approval_event" [cx.caller, deployer, tokenId, destChain] [[]]
  let key := deployApprovalKey C cx.caller tokenId destChain
  setI { st with approvedMinters := upd st.approvedMinters key [] }

/-- `deployRemoteInterchainTokenWithMinter`; `destMinter = none` is the absent optional -/
def deployRemoteWithMinter (C : Crypto) (cx : ICtx) (salt minter destChain : Bytes)
    (destMinter : Option Bytes) : M Bytes := do
  let st ← getI
  let deploySalt := interchainTokenDeploySalt C st cx.caller salt
  let destMinterRaw ← (if !Gateway.isZeroAddr minter then do
      let tokenId := tokenIdRaw C deploySalt
      checkTokenMinter C cx tokenId minter
      match destMinter with
      | some dm =>
        match useDeployApproval C (← getI) minter tokenId destChain dm with
        | none => fail
        | some st' => setI st'; pure dm
      | none => pure minter
    else do
      require destMinter.isNone
      pure [] : M Bytes)
  deployRemoteInterchainTokenRaw C cx deploySalt destChain destMinterRaw cx.caller

/-! ### callbacks -/

/-- `execute_with_token_callback` -/
def executeWithTokenCallback (C : Crypto) (cx : ICtx) (sourceChain messageId sourceAddress payloadHash
    tokenId tokRaw : Bytes) (amount : Nat) (ok : Bool) : M Unit := do
  let st ← getI
  setI { st with lock := upd st.lock (sourceChain, messageId) false }
  if ok then
    let _ ← gatewayValidate C cx sourceChain messageId sourceAddress payloadHash
    emit cx "execute_with_interchain_token_success_event" [sourceChain, messageId] [[]]
  else
    tmTakeToken C cx tokenId (GasService.tokOfBytes tokRaw) amount
    emit cx "execute_with_interchain_token_failed_event" [sourceChain, messageId] [[]]

/-- refund of the gas value to the original caller (`direct_non_zero_egld`) -/
def refundGas (cx : ICtx) (caller : Bytes) (gasValue : Nat) : M Unit := fun t =>
  if gasValue = 0 then some ((), t) else
  match World.send t.w cx.self caller none gasValue with
  | some w' => some ((), { t with w := w' })
  | none => none

/-- `register_token_metadata_callback` -/
def registerTokenMetadataCallback (C : Crypto) (cx : ICtx) (tokenIdentifier : Bytes) (gasValue : Nat)
    (caller : Bytes) (ok : Bool) (vals : List Bytes) : M Unit := do
  if !ok then refundGas cx caller gasValue else
  match parseTokenProperties vals with
  | none => fail
  | some none => refundGas cx caller gasValue
  | some (some (_, decimals)) => registerTokenMetadataRaw C cx tokenIdentifier decimals gasValue

/-- `deploy_remote_token_callback` -/
def deployRemoteTokenCallback (C : Crypto) (cx : ICtx) (deploySalt destChain symbol destMinter : Bytes)
    (gasValue : Nat) (caller : Bytes) (ok : Bool) (vals : List Bytes) : M Unit := do
  if !ok then refundGas cx caller gasValue else
  match parseTokenProperties vals with
  | none => fail
  | some none => refundGas cx caller gasValue
  | some (some (name, decimals)) =>
    let _ ← deployInterchainTokenRaw C cx deploySalt destChain name symbol decimals destMinter gasValue

end Axelar.ItsW

namespace Axelar.ItsW
open Axelar Codec Its

def notPayable (cx : ICtx) : Bool := cx.egld == 0 && cx.esdt.isEmpty
def onlyEgld (cx : ICtx) : Bool := cx.esdt.isEmpty

def ret (b : Bytes) : M (List Bytes) := pure [b]

/-- an endpoint that ends in a legacy `async_call().call_and_exit()` never gets to return its
    value: the result is dropped when a pending call was registered -/
def retUnlessAsync (m : M Bytes) : M (List Bytes) := do
  let n0 := (← get).pend.length
  let b ← m
  let n1 := (← get).pend.length
  if n1 > n0 then pure [] else pure [b]
def unit (m : M Unit) : M (List Bytes) := do m; pure []

/-- role endpoints of `operatable` on the service's own role storage -/
def roleOp (cx : ICtx) (f : TokenManager.State → Except TokenManager.Err (TokenManager.State × List Ev)) :
    M (List Bytes) := do
  let st ← getI
  match f { roles := st.roles, proposed := st.proposed } with
  | .error _ => fail
  | .ok (ts, evs) =>
    setI { st with roles := ts.roles, proposed := ts.proposed }
    modify fun t => { t with evs := t.evs ++ World.stamp cx.self evs }
    pure []

def isOperator (st : Its.State) (a : Bytes) : Bool := TokenManager.intersects (st.roles a) TokenManager.OPERATOR

/-- `takeCounted` twice: the two counted var-arg lists of `setFlowLimits` / `init` -/
def twoCounted (args : List Bytes) : Option (List Bytes × List Bytes) :=
  match GasService.takeCounted args with
  | some (a, rest) => match GasService.takeCounted rest with
    | some (b, []) => some (a, b)
    | _ => none
  | none => none

def setFlowLimitsLoop (C : Crypto) (cx : ICtx) : List (Bytes × Bytes) → M Unit
  | [] => pure ()
  | (tid, lim) :: rest => do
    let tm ← deployedTokenManager tid
    let _ ← subcall C cx tm "setFlowLimit" 0 [] [encNat (topBig lim)]
    setFlowLimitsLoop C cx rest

/-- `OptionalValue<ManagedBuffer>` as trailing argument -/
def optionalTail : List Bytes → Option (Option Bytes)
  | [] => some none
  | [x] => some (some x)
  | _ => none

/-- endpoint dispatch of the token service on raw arguments -/
def call (C : Crypto) (cx : ICtx) (func : String) (args : List Bytes) : M (List Bytes) := do
  let st ← getI
  match func, args with
  -- payable endpoints
  | "execute", [chain, id, src, payload] => unit (execute C cx chain id src payload)
  | "interchainTransfer", [tid, chain, addr, metadata, gas] =>
    if tid.length != 32 then fail else
    unit (interchainTransfer C cx tid chain addr (decodeMetadata metadata) (topBig gas))
  | "callContractWithInterchainToken", [tid, chain, addr, data, gas] =>
    if tid.length != 32 then fail else
    unit (do requireNotPaused; require (!data.isEmpty); interchainTransfer C cx tid chain addr (some data) (topBig gas))
  | "registerTokenMetadata", [tok] =>
    if !onlyEgld cx then fail else
    unit (do
      require (isValidEsdt tok)
      addPend cx esdtSystemSc "getTokenProperties" 0 [] [tok] (.itsMetadata cx.self tok cx.egld cx.caller))
  | "deployInterchainToken", [salt, name, symbol, dec, supply, minter] =>
    match topFixed 32 salt, topU8 dec, topFixed 32 minter with
    | some salt, some dec, some minter => do
      -- `egld_value()` is zero when the payment is ESDT
      let cx' := if cx.esdt.isEmpty then cx else { cx with egld := 0 }
      ret (← factoryDeployInterchainToken C cx' salt name symbol dec (topBig supply) minter)
    | _, _, _ => fail
  | "deployRemoteInterchainToken", [salt, chain] =>
    if !onlyEgld cx then fail else
    match topFixed 32 salt with
    | some salt => retUnlessAsync (deployRemoteWithMinter C cx salt zeroAddr chain none)
    | none => fail
  | "deployRemoteInterchainTokenWithMinter", salt :: minter :: chain :: rest =>
    if !onlyEgld cx then fail else
    match topFixed 32 salt, topFixed 32 minter, optionalTail rest with
    | some salt, some minter, some dm => retUnlessAsync (deployRemoteWithMinter C cx salt minter chain dm)
    | _, _, _ => fail
  | "deployRemoteCanonicalInterchainToken", [tok, chain] =>
    if !onlyEgld cx then fail else do
    require (GasService.tokOfBytes tok == none || isValidEsdt tok)
    let deploySalt := canonicalDeploySalt C st tok
    retUnlessAsync (deployRemoteInterchainTokenRaw C cx deploySalt chain [] cx.caller)
  | "linkToken", [salt, chain, dstTok, ty, params] =>
    if !onlyEgld cx then fail else
    match topFixed 32 salt, topU8 ty with
    | some salt, some ty =>
      if ty > 4 then fail else do
      ret (← linkTokenRaw C cx (linkedDeploySalt C st cx.caller salt) chain dstTok ty params cx.egld)
    | _, _ => fail
  | _, _ =>
  if !notPayable cx then fail else
  match func, args with
  | "registerCanonicalInterchainToken", [tok] => do
    require (GasService.tokOfBytes tok == none || isValidEsdt tok)
    ret (← registerCustomTokenRaw C cx (canonicalDeploySalt C st tok) tok 2 [])
  | "registerCustomToken", [salt, tok, ty, operator] =>
    match topFixed 32 salt, topU8 ty, topFixed 32 operator with
    | some salt, some ty, some operator =>
      if ty > 4 then fail else do
      require (isValidEsdt tok)
      let lp := if Gateway.isZeroAddr operator then [] else operator
      ret (← registerCustomTokenRaw C cx (linkedDeploySalt C st cx.caller salt) tok ty lp)
    | _, _, _ => fail
  | "approveDeployRemoteInterchainToken", [deployer, salt, chain, dm] =>
    match topFixed 32 deployer, topFixed 32 salt with
    | some d, some s => unit (approveDeployRemote C cx d s chain dm)
    | _, _ => fail
  | "revokeDeployRemoteInterchainToken", [deployer, salt, chain] =>
    match topFixed 32 deployer, topFixed 32 salt with
    | some d, some s => unit (revokeDeployRemote C cx d s chain)
    | _, _ => fail
  | "setFlowLimits", _ =>
    match twoCounted args with
    | some (tids, lims) => unit (do
        require (isOperator st cx.caller)
        require (tids.length == lims.length)
        require (tids.all (·.length == 32))
        setFlowLimitsLoop C cx (tids.zip lims))
    | none => fail
  | "setTrustedAddress", [chain, addr] => unit (do
      require (cx.caller == cx.owner)
      require (!chain.isEmpty && !addr.isEmpty)
      setI { st with trusted := upd st.trusted chain addr }
      emit cx "trusted_address_added_event" [chain] [addr])
  | "removeTrustedAddress", [chain] => unit (do
      require (cx.caller == cx.owner)
      require (!chain.isEmpty)
      setI { st with trusted := upd st.trusted chain [] }
      emit cx "trusted_address_removed_event" [chain] [[]])
  | "pause", [] => unit (do require (cx.caller == cx.owner); setI { st with paused := true })
  | "unpause", [] => unit (do require (cx.caller == cx.owner); setI { st with paused := false })
  -- the protocol's `upgradeContract(code, metadata)` run by the owner: `upgrade()` is empty
  | "upgradeContract", [_, _] => unit (require (cx.caller == cx.owner))
  | "transferOperatorship", [a] =>
    match topFixed 32 a with
    | some a => do
      require (isOperator st cx.caller)
      roleOp cx (fun ts => TokenManager.transferRole ts cx.caller a TokenManager.OPERATOR)
    | none => fail
  | "proposeOperatorship", [a] =>
    match topFixed 32 a with
    | some a => do
      require (isOperator st cx.caller)
      roleOp cx (fun ts => TokenManager.proposeRole ts cx.caller a TokenManager.OPERATOR)
    | none => fail
  | "acceptOperatorship", [a] =>
    match topFixed 32 a with
    | some a => roleOp cx (fun ts => TokenManager.acceptRole ts a cx.caller TokenManager.OPERATOR)
    | none => fail
  -- views
  | "isPaused", [] => ret (encBool st.paused)
  | "chainName", [] => ret st.chainName
  | "chainNameHash", [] => ret st.chainNameHash
  | "trustedAddress", [chain] => ret (st.trusted chain)
  | "invalidTokenManagerAddress", [tid] =>
    if tid.length != 32 then fail else
    ret (if (st.tmAddress tid).isEmpty then zeroAddr else st.tmAddress tid)
  | "deployedTokenManager", [tid] =>
    if tid.length != 32 then fail else do ret (← deployedTokenManager tid)
  | "registeredTokenIdentifier", [tid] =>
    if tid.length != 32 then fail else do ret (← registeredTokenIdentifier C cx tid)
  | "transferWithDataLock", [chain, id] => ret (encBool (st.lock (chain, id)))
  | "approvedDestinationMinters", [key] =>
    if key.length != 32 then fail else
    if (st.approvedMinters key).isEmpty then fail else ret (st.approvedMinters key)
  | "interchainTokenDeploySalt", [d, s] =>
    match topFixed 32 d, topFixed 32 s with
    | some d, some s => ret (interchainTokenDeploySalt C st d s)
    | _, _ => fail
  | "linkedTokenDeploySalt", [d, s] =>
    match topFixed 32 d, topFixed 32 s with
    | some d, some s => ret (linkedDeploySalt C st d s)
    | _, _ => fail
  | "canonicalInterchainTokenDeploySalt", [tok] => ret (canonicalDeploySalt C st tok)
  | "interchainTokenId", [d, s] =>
    match topFixed 32 d, topFixed 32 s with
    | some d, some s => ret (interchainTokenId C st d s)
    | _, _ => fail
  | "linkedTokenId", [d, s] =>
    match topFixed 32 d, topFixed 32 s with
    | some d, some s => ret (linkedTokenId C st d s)
    | _, _ => fail
  | "canonicalInterchainTokenId", [tok] => ret (canonicalTokenId C st tok)
  | "isOperator", [a] =>
    match topFixed 32 a with
    | some a => ret (encBool (isOperator st a))
    | none => fail
  | "getAccountRoles", [a] =>
    match topFixed 32 a with
    | some a => ret (TokenManager.roleBytes (st.roles a))
    | none => fail
  | "flowLimit", [tid] =>
    if tid.length != 32 then fail else do
    let tm ← deployedTokenManager tid
    subcall C cx tm "getFlowLimit" 0 [] []
  | "flowInAmount", [tid] =>
    if tid.length != 32 then fail else do
    let tm ← deployedTokenManager tid
    subcall C cx tm "flowInAmount" 0 [] []
  | "flowOutAmount", [tid] =>
    if tid.length != 32 then fail else do
    let tm ← deployedTokenManager tid
    subcall C cx tm "flowOutAmount" 0 [] []
  | _, _ => fail

def initLoop (cx : ICtx) : List (Bytes × Bytes) → M Unit
  | [] => pure ()
  | (chain, addr) :: rest => do
    require (!chain.isEmpty && !addr.isEmpty)
    let st ← getI
    setI { st with trusted := upd st.trusted chain addr }
    emit cx "trusted_address_added_event" [chain] [addr]
    initLoop cx rest

/-- `init` on raw arguments -/
def initCall (C : Crypto) (cx : ICtx) (args : List Bytes) : M Unit := do
  match args with
  | gw :: gs :: tm :: op :: chainName :: rest =>
    match topFixed 32 gw, topFixed 32 gs, topFixed 32 tm, topFixed 32 op, twoCounted rest with
    | some gw, some gs, some tm, some op, some (names, addrs) =>
      require (!Gateway.isZeroAddr gw && !Gateway.isZeroAddr gs && !Gateway.isZeroAddr tm)
      require (!Gateway.isZeroAddr op)
      require (!chainName.isEmpty)
      require (names.length == addrs.length)
      let st0 : Its.State := { gateway := gw, gasService := gs, tmImpl := tm }
      let (ts, evs) := TokenManager.addRole { roles := st0.roles } op TokenManager.OPERATOR
      setI { st0 with roles := ts.roles, chainName := chainName }
      modify fun t => { t with evs := t.evs ++ World.stamp cx.self evs }
      initLoop cx (names.zip addrs)
      let st ← getI
      setI { st with chainNameHash := C.H chainName }
    | _, _, _, _, _ => fail
  | _ => fail

end Axelar.ItsW
