/-
  Observable trace vocabulary shared by the world model, the monitors and the driver.
-/
import Axelar.Basic.Bytes
namespace Axelar

/-- a contract event: emitter address, identifier, further topics, data items -/
structure Event where
  addr : Bytes
  name : String
  topics : List Bytes
  data : List Bytes
  deriving Repr, DecidableEq, Inhabited

/-- a registered asynchronous call as the harness canonicalises it -/
structure PendDesc where
  id : Nat
  to : Bytes
  func : String
  egld : Nat
  esdt : List (String × Nat × Nat)
  args : List Bytes
  deriving Repr, DecidableEq, Inhabited

inductive Outcome
  | ok (results : List Bytes) (events : List Event) (pend : List PendDesc)
  | okNat (n : Nat)          -- `bal` lines: decimal
  | okPlain                   -- setup lines
  | fail
  | nopending
  deriving Repr, DecidableEq, Inhabited


end Axelar
