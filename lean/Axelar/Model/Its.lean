/-
  Model of the pure / local parts of interchain-token-service/src: state, token-id derivations,
  trusted-route decisions, payment splitting, metadata decoding, ESDT property parsing.
  The parts that call other contracts live in Axelar/Model/ItsWorld.lean.  Import-free.
-/
import Axelar.Model.TokenManager
import Axelar.Model.AbiTypes
namespace Axelar.Its
open Axelar Codec

abbrev Tok := GasService.Tok
abbrev Roles := TokenManager.Roles

structure State where
  gateway : Bytes := []
  gasService : Bytes := []
  tmImpl : Bytes := []
  chainName : Bytes := []
  chainNameHash : Bytes := []
  /-- trusted address per chain (empty = none) -/
  trusted : Bytes → Bytes := fun _ => []
  /-- token manager address per token id (empty = none) -/
  tmAddress : Bytes → Bytes := fun _ => []
  roles : Bytes → Roles := fun _ => {}
  proposed : Bytes × Bytes → Roles := fun _ => {}
  paused : Bool := false
  /-- approved destination-minter hash per approval key (empty = none) -/
  approvedMinters : Bytes → Bytes := fun _ => []
  /-- transfer-with-data lock per (source chain, message id) -/
  lock : Bytes × Bytes → Bool := fun _ => false

def hubChain : Bytes := Generated.ITS_HUB_CHAIN_NAME
def hubRouting : Bytes := Generated.ITS_HUB_ROUTING_IDENTIFIER

def zeroAddr : Bytes := List.replicate 32 0
def zeroHash : Bytes := List.replicate 32 0

/-! ### token ids (factory.rs:431-519, user_functions.rs:340-352) -/

def interchainTokenDeploySalt (C : Crypto) (st : State) (deployer salt : Bytes) : Bytes :=
  C.H (C.H Generated.PREFIX_INTERCHAIN_TOKEN_SALT ++ st.chainNameHash ++ deployer ++ salt)

def canonicalDeploySalt (C : Crypto) (st : State) (tokenName : Bytes) : Bytes :=
  C.H (C.H Generated.PREFIX_CANONICAL_TOKEN_SALT ++ st.chainNameHash ++ tokenName)

def linkedDeploySalt (C : Crypto) (st : State) (deployer salt : Bytes) : Bytes :=
  C.H (C.H Generated.PREFIX_CUSTOM_TOKEN_SALT ++ st.chainNameHash ++ deployer ++ salt)

def tokenIdRaw (C : Crypto) (deploySalt : Bytes) : Bytes :=
  C.H (C.H Generated.PREFIX_INTERCHAIN_TOKEN_ID ++ zeroAddr ++ deploySalt)

def interchainTokenId (C : Crypto) (st : State) (deployer salt : Bytes) : Bytes :=
  tokenIdRaw C (interchainTokenDeploySalt C st deployer salt)
def canonicalTokenId (C : Crypto) (st : State) (tokenName : Bytes) : Bytes :=
  tokenIdRaw C (canonicalDeploySalt C st tokenName)
def linkedTokenId (C : Crypto) (st : State) (deployer salt : Bytes) : Bytes :=
  tokenIdRaw C (linkedDeploySalt C st deployer salt)

/-- `deploy_approval_key`: keccak(keccak(prefix) ‖ minter ‖ token id ‖ nested destination chain) -/
def deployApprovalKey (C : Crypto) (minter tokenId destChain : Bytes) : Bytes :=
  C.H (C.H Generated.PREFIX_DEPLOY_APPROVAL ++ minter ++ tokenId ++ nestBuf destChain)

/-- `use_deploy_approval`: present, equal to the hash of the requested destination minter, and
    then consumed -/
def useDeployApproval (C : Crypto) (st : State) (minter tokenId destChain destMinter : Bytes) : Option State :=
  let key := deployApprovalKey C minter tokenId destChain
  if !(st.approvedMinters key).isEmpty && st.approvedMinters key == C.H destMinter then
    some { st with approvedMinters := upd st.approvedMinters key [] }
  else none

/-! ### trusted routes (address_tracker.rs, proxy_gmp.rs:168-207, executable.rs:27-60) -/

def isTrustedAddress (st : State) (chain addr : Bytes) : Bool :=
  !(st.trusted chain).isEmpty && addr == st.trusted chain

/-- `get_call_params`: (destination chain, destination address, payload) or refusal -/
def getCallParams (st : State) (destChain payload : Bytes) : Option (Bytes × Bytes × Bytes) :=
  if destChain == hubChain then none else
  let a := st.trusted destChain
  if a.isEmpty then none else
  if a == hubRouting then
    let hubAddr := st.trusted hubChain
    if hubAddr.isEmpty then none else
    match (Abi.Hub.encode ⟨Generated.MESSAGE_TYPE_SEND_TO_HUB, destChain, payload⟩) with
    | .ok wrapped => some (hubChain, hubAddr, wrapped)
    | .error _ => none
  else some (destChain, a, payload)

/-- `get_execute_params`: (message type, original source chain, payload) or refusal -/
def getExecuteParams (st : State) (sourceChain payload : Bytes) : Option (Nat × Bytes × Bytes) :=
  match Abi.getMessageType payload with
  | .error _ => none
  | .ok mt =>
    if mt == Generated.MESSAGE_TYPE_RECEIVE_FROM_HUB then
      if sourceChain != hubChain then none else
      match Abi.Hub.decode payload with
      | .error _ => none
      | .ok d =>
        if !isTrustedAddress st d.destinationChain hubRouting then none else
        match Abi.getMessageType d.payload with
        | .error _ => none
        | .ok mt' => some (mt', d.destinationChain, d.payload)
    else if sourceChain == hubChain then none
    else some (mt, sourceChain, payload)

/-! ### payments (user_functions.rs:268-338) -/

structure TransferAndGas where
  transferToken : Tok
  transferAmount : Nat
  gasToken : Tok
  gasAmount : Nat
  deriving Repr, DecidableEq

/-- `get_transfer_and_gas_tokens` -/
def getTransferAndGasTokens (egld : Nat) (esdt : List (Bytes × Nat × Nat)) (gas : Nat) :
    Option TransferAndGas :=
  match esdt with
  | [] => if egld > gas then some ⟨none, egld - gas, none, gas⟩ else none
  | [(tok, nonce, amt)] =>
    if nonce != 0 then none
    else if amt > gas then some ⟨some tok, amt - gas, some tok, gas⟩ else none
  | [(tok, nonce, amt), (tok2, nonce2, amt2)] =>
    if nonce != 0 then none
    else if nonce2 != 0 then none
    else if amt2 != gas then none
    else
      let gasTok : Tok := if tok2 == Generated.ESDT_EGLD_IDENTIFIER then none else some tok2
      some ⟨some tok, amt, gasTok, gas⟩
  | _ => none

/-- `decode_metadata`: `none` = "Invalid metadata version"; undecodable metadata means no data -/
def decodeMetadata (raw : Bytes) : Option Bytes :=
  match u32 raw with
  | none => some []
  | some (version, rest) =>
    if rest.isEmpty then (if version ≤ Generated.LATEST_METADATA_VERSION then some [] else none)
    else match buf rest with
      | none => some []
      | some (data, _) => if version ≤ Generated.LATEST_METADATA_VERSION then some data else none

/-! ### ESDT identifiers and properties -/

def isUpperAlnum (b : UInt8) : Bool :=
  (48 ≤ b.toNat && b.toNat ≤ 57) || (65 ≤ b.toNat && b.toNat ≤ 90)
def isLowerAlnum (b : UInt8) : Bool :=
  (48 ≤ b.toNat && b.toNat ≤ 57) || (97 ≤ b.toNat && b.toNat ≤ 122)

/-- `TokenIdentifier::is_valid_esdt_identifier`: TICKER(3..10 of A-Z0-9) '-' 6 of a-z0-9 -/
def isValidEsdt (t : Bytes) : Bool :=
  let n := t.length
  if n < 10 || n > 17 then false else
  let ticker := t.take (n - 7)
  let dash := t.getD (n - 7) 0
  let rnd := t.drop (n - 6)
  ticker.all isUpperAlnum && dash == 45 && rnd.all isLowerAlnum

def hexDigitVal (b : UInt8) : Option Nat :=
  let c := b.toNat
  if 48 ≤ c && c ≤ 57 then some (c - 48)
  else if 97 ≤ c && c ≤ 102 then some (c - 87)
  else if 65 ≤ c && c ≤ 70 then some (c - 55)
  else none

/-- `ascii_to_u8` with the native `u8` overflow checks (`result *= 10; result += digit`) -/
def asciiToU8 : Bytes → Nat → Option Nat
  | [], acc => some acc
  | b :: rest, acc =>
    if b == 0 then some acc   -- `break` ends the (single, < 32 byte) batch
    else match hexDigitVal b with
      | none => none
      | some d =>
        if acc * 10 ≥ 256 then none
        else if acc * 10 + d ≥ 256 then none
        else asciiToU8 rest (acc * 10 + d)

def fungibleTypeName : Bytes := strBytes "FungibleESDT"

/-- what the two `getTokenProperties` callbacks extract from a successful reply:
    `none` = the callback panics; `some none` = not fungible; `some (some (name, decimals))` -/
def parseTokenProperties (vals : List Bytes) : Option (Option (Bytes × Nat)) :=
  if vals.length < 6 then none else
  let name := vals.getD 0 []
  let ty := vals.getD 1 []
  let dec := vals.getD 5 []
  if ty != fungibleTypeName then some none else
  if dec.length < 12 then none else
  match asciiToU8 (dec.drop 12) 0 with
  | none => none
  | some d => some (some (name, d))

end Axelar.Its
