/-
  Model of token-manager/src/{lib,flow_limit,mintership,constants}.rs and
  modules/operatable/src/{operatable,roles}.rs.  Import-free.
-/
import Axelar.Model.GasService
namespace Axelar.TokenManager
open Axelar Codec

abbrev Tok := GasService.Tok
def tokOfBytes := GasService.tokOfBytes
def tokBytes := GasService.tokBytes

inductive Err
  | args | payment | zeroAddress | invalidTokenAddress | missingRoles | notService | flowLimit
  | notNative | tokenExists | notServiceOrMinter | emptyName | emptySymbol | tokenNotSet | wrongToken
  | invalidProposed | esdtExpected | badType
  deriving Repr, DecidableEq

/-! ### roles (roles.rs): a `u8` bit set over three flags -/

structure Roles where
  minter : Bool := false
  operator : Bool := false
  flowLimiter : Bool := false
  deriving Repr, DecidableEq

namespace Roles
def empty : Roles := {}
/-- the `u8` the Rust stores / emits, with the bit values extracted from roles.rs -/
def toNat (r : Roles) : Nat :=
  (if r.minter then Generated.ROLE_MINTER else 0) + (if r.operator then Generated.ROLE_OPERATOR else 0) +
  (if r.flowLimiter then Generated.ROLE_FLOW_LIMITER else 0)
def isEmpty (r : Roles) : Bool := !r.minter && !r.operator && !r.flowLimiter
end Roles

def MINTER : Roles := { minter := true }
def OPERATOR : Roles := { operator := true }
def FLOW_LIMITER : Roles := { flowLimiter := true }
def FLOW_LIMITER_OPERATOR : Roles := { operator := true, flowLimiter := true }

/-- `intersects` -/
def intersects (a b : Roles) : Bool :=
  (a.minter && b.minter) || (a.operator && b.operator) || (a.flowLimiter && b.flowLimiter)
/-- `contains` -/
def contains (a b : Roles) : Bool :=
  (!b.minter || a.minter) && (!b.operator || a.operator) && (!b.flowLimiter || a.flowLimiter)
/-- `insert` -/
def insert (a b : Roles) : Roles :=
  ⟨a.minter || b.minter, a.operator || b.operator, a.flowLimiter || b.flowLimiter⟩
/-- `remove` -/
def remove (a b : Roles) : Roles :=
  ⟨a.minter && !b.minter, a.operator && !b.operator, a.flowLimiter && !b.flowLimiter⟩

structure State where
  service : Bytes := []
  implType : Nat := 0
  tokenId : Bytes := []
  /-- raw storage of `token_identifier` (empty = never set; "EGLD" = EGLD) -/
  tokenIdentifier : Bytes := []
  roles : Bytes → Roles := fun _ => {}
  /-- proposed roles (empty = none) keyed by (from, to) -/
  proposed : Bytes × Bytes → Roles := fun _ => {}
  flowLimit : Nat := 0
  flowIn : Nat → Nat := fun _ => 0
  flowOut : Nat → Nat := fun _ => 0

structure Ctx where
  caller : Bytes
  self : Bytes
  now : Nat
  egld : Nat
  esdt : List (Bytes × Nat × Nat)

/-- effects on the chain outside the contract's own storage -/
inductive Eff
  | send (to : Bytes) (tok : Tok) (amt : Nat)
  | mint (tok : Bytes) (amt : Nat)       -- ESDTLocalMint into the contract's own balance
  | burn (tok : Bytes) (amt : Nat)       -- ESDTLocalBurn from the contract's own balance
  deriving Repr, DecidableEq

/-- the legacy async call registered by `deployInterchainToken` -/
structure IssueCall where
  value : Nat
  name : Bytes
  ticker : Bytes
  decimals : Nat
  deriving Repr, DecidableEq

structure Out where
  st : State
  results : List Bytes := []
  events : List Ev := []
  effects : List Eff := []
  issue : Option IssueCall := none

def notPayable (ctx : Ctx) : Bool := ctx.egld = 0 && ctx.esdt.isEmpty

def roleBytes (r : Roles) : Bytes := encNat r.toNat

/-- `add_role` -/
def addRole (st : State) (a : Bytes) (r : Roles) : State × List Ev :=
  ({ st with roles := upd st.roles a (insert (st.roles a) r) }, [⟨"roles_added_event", [a], [roleBytes r]⟩])

/-- `remove_role` -/
def removeRole (st : State) (a : Bytes) (r : Roles) : State × List Ev :=
  ({ st with roles := upd st.roles a (remove (st.roles a) r) }, [⟨"roles_removed_event", [a], [roleBytes r]⟩])

/-- `transfer_role` -/
def transferRole (st : State) (src dst : Bytes) (r : Roles) : Except Err (State × List Ev) :=
  if contains (st.roles src) r then
    let (s1, e1) := removeRole st src r
    let (s2, e2) := addRole s1 dst r
    .ok (s2, e1 ++ e2)
  else .error .missingRoles

/-- `propose_role` -/
def proposeRole (st : State) (src dst : Bytes) (r : Roles) : Except Err (State × List Ev) :=
  if contains (st.roles src) r then
    .ok ({ st with proposed := upd st.proposed (src, dst) r },
         [⟨"roles_proposed_event", [src, dst], [roleBytes r]⟩])
  else .error .missingRoles

/-- `accept_role` -/
def acceptRole (st : State) (src dst : Bytes) (r : Roles) : Except Err (State × List Ev) :=
  if !(st.proposed (src, dst)).isEmpty && st.proposed (src, dst) == r then
    transferRole { st with proposed := upd st.proposed (src, dst) {} } src dst r
  else .error .invalidProposed

/-- `only_role` -/
def onlyRole (st : State) (ctx : Ctx) (r : Roles) : Bool := intersects (st.roles ctx.caller) r

/-! ### flow limit (flow_limit.rs) -/

def epochOf (now : Nat) : Nat := now / Generated.EPOCH_TIME

/-- `add_flow`: `toAdd + amount ≤ toCompare + limit ∧ amount ≤ limit` -/
def addFlow (limit toAdd toCompare amount : Nat) : Option Nat :=
  if toAdd + amount ≤ toCompare + limit && amount ≤ limit then some (toAdd + amount) else none

def addFlowIn (st : State) (now amount : Nat) : Except Err State :=
  if st.flowLimit = 0 then .ok st else
  let e := epochOf now
  match addFlow st.flowLimit (st.flowIn e) (st.flowOut e) amount with
  | some v => .ok { st with flowIn := upd st.flowIn e v }
  | none => .error .flowLimit

def addFlowOut (st : State) (now amount : Nat) : Except Err State :=
  if st.flowLimit = 0 then .ok st else
  let e := epochOf now
  match addFlow st.flowLimit (st.flowOut e) (st.flowIn e) amount with
  | some v => .ok { st with flowOut := upd st.flowOut e v }
  | none => .error .flowLimit

/-! ### lib.rs -/

def isMintBurnKind (t : Nat) : Bool := t == 0 || t == 1 || t == 4   -- native, MintBurnFrom, MintBurn

def zeroAddr : Bytes := List.replicate 32 0

/-- `DeployTokenManagerParams` top-decode -/
def decParams : Dec (Option Bytes × Option Bytes) := fun bs =>
  match opt (fixed 32) bs with
  | some (op, r) => match opt buf r with
    | some (tok, r') => some ((op, tok), r')
    | none => none
  | none => none

/-- the token argument a manager type requires: none for the native type, some token for
    lock/unlock, some ESDT for mint/burn -/
def tokenOk (implType : Nat) (token : Option Bytes) : Bool :=
  if implType == 0 then token.isNone
  else if implType == 2 || implType == 3 then token.isSome
  else match token with
    | some t => tokOfBytes t != none
    | none => false

def init (service : Bytes) (implType : Nat) (tokenId : Bytes) (operator : Option Bytes)
    (token : Option Bytes) : Except Err (State × List Ev) :=
  if Gateway.isZeroAddr service then .error .zeroAddress else
  let st0 : State := { service := service, implType := implType, tokenId := tokenId }
  let op := operator.getD zeroAddr
  let (s1, e1) := addRole st0 op FLOW_LIMITER_OPERATOR
  let (s2, e2) := addRole s1 service FLOW_LIMITER_OPERATOR
  if !tokenOk implType token then .error .invalidTokenAddress else
  .ok ({ s2 with tokenIdentifier := token.getD [] }, e1 ++ e2)

def initCall (args : List Bytes) : Except Err (State × List Ev) :=
  match args with
  | [service, ty, tid, params] =>
    match topFixed 32 service, topU8 ty, topFixed 32 tid, top decParams params with
    | some service, some ty, some tid, some (op, tok) =>
      if ty ≤ 4 then init service ty tid op tok else .error .badType
    | _, _, _, _ => .error .args
  | _ => .error .args

def setFlowLimit (st : State) (ctx : Ctx) (limit : Nat) : Except Err Out :=
  if !onlyRole st ctx FLOW_LIMITER then .error .missingRoles else
  .ok { st := { st with flowLimit := limit },
        events := [⟨"flow_limit_set_event", [st.tokenId, ctx.caller], [encNat limit]⟩] }

/-- `giveToken(destination, amount)` -/
def giveToken (st : State) (ctx : Ctx) (dest : Bytes) (amount : Nat) : Except Err Out :=
  if ctx.caller != st.service then .error .notService else
  match addFlowIn st ctx.now amount with
  | .error e => .error e
  | .ok st' =>
    let tok := tokOfBytes st.tokenIdentifier
    if isMintBurnKind st.implType then
      match tok with
      | none => .error .esdtExpected
      | some t => .ok { st := st', results := [st.tokenIdentifier, encNat amount],
                        effects := [.mint t amount, .send dest tok amount] }
    else .ok { st := st', results := [st.tokenIdentifier, encNat amount], effects := [.send dest tok amount] }

/-- `egld_or_single_fungible_esdt` -/
def egldOrSingleFungibleEsdt (ctx : Ctx) : Except Err (Tok × Nat) :=
  match ctx.esdt with
  | [] => .ok (none, ctx.egld)
  | [(tok, 0, amt)] => if ctx.egld = 0 then .ok (some tok, amt) else .error .payment
  | _ => .error .payment

/-- `require_correct_token` -/
def requireCorrectToken (st : State) (ctx : Ctx) : Except Err (Tok × Nat) :=
  match egldOrSingleFungibleEsdt ctx with
  | .error e => .error e
  | .ok (tok, amt) => if tok == tokOfBytes st.tokenIdentifier then .ok (tok, amt) else .error .wrongToken

/-- `takeToken()` payable -/
def takeToken (st : State) (ctx : Ctx) : Except Err Out :=
  if ctx.caller != st.service then .error .notService else
  match requireCorrectToken st ctx with
  | .error e => .error e
  | .ok (tok, amount) =>
    match addFlowOut st ctx.now amount with
    | .error e => .error e
    | .ok st' =>
      if isMintBurnKind st.implType then
        match tok with
        | none => .error .esdtExpected
        | some t => .ok { st := st', results := [encNat amount], effects := [.burn t amount] }
      else .ok { st := st', results := [encNat amount] }

/-- keep ASCII alphanumerics (upper-cased for tickers), cut at `maxLen`, pad with '0' to `minLen` -/
def isAlnum (b : UInt8) : Bool :=
  (48 ≤ b.toNat && b.toNat ≤ 57) || (65 ≤ b.toNat && b.toNat ≤ 90) || (97 ≤ b.toNat && b.toNat ≤ 122)
def upper (b : UInt8) : UInt8 := if 97 ≤ b.toNat && b.toNat ≤ 122 then UInt8.ofNat (b.toNat - 32) else b
def padTo (n : Nat) (b : Bytes) : Bytes := b ++ List.replicate (n - b.length) 48
def normalizeName (b : Bytes) : Bytes :=
  padTo Generated.TOKEN_NAME_MIN ((b.filter isAlnum).take Generated.TOKEN_NAME_MAX)
def normalizeTicker (b : Bytes) : Bytes :=
  padTo Generated.TOKEN_TICKER_MIN (((b.filter isAlnum).map upper).take Generated.TOKEN_TICKER_MAX)

/-- `Option<ManagedAddress>` argument: empty = None, 0x01 ‖ 32 bytes = Some -/
def topOptAddr (b : Bytes) : Option (Option Bytes) :=
  match b with
  | [] => some none
  | 1 :: r => if r.length = 32 then some (some r) else none
  | _ => none

/-- `deployInterchainToken(minter, name, symbol, decimals)` payable EGLD -/
def deployInterchainToken (st : State) (ctx : Ctx) (minter : Option Bytes) (name symbol : Bytes)
    (decimals : Nat) : Except Err Out :=
  if !ctx.esdt.isEmpty then .error .payment else
  if st.implType != 0 then .error .notNative else
  if !st.tokenIdentifier.isEmpty then .error .tokenExists else
  if !(ctx.caller == st.service || intersects (st.roles ctx.caller) MINTER) then .error .notServiceOrMinter else
  if name.isEmpty then .error .emptyName else
  if symbol.isEmpty then .error .emptySymbol else
  let (s1, e1) := addRole st ctx.self MINTER
  let (s2, e2) := addRole s1 (minter.getD zeroAddr) MINTER
  .ok { st := s2, events := e1 ++ e2,
        issue := some ⟨Generated.DEFAULT_ESDT_ISSUE_COST, normalizeName name, normalizeTicker symbol, decimals⟩ }

/-- `deploy_token_callback` -/
def deployTokenCallback (st : State) (result : Option Bytes) : Out :=
  match result with
  | some tokenId =>
    -- a second issuance that was in flight never replaces the recorded token
    if !st.tokenIdentifier.isEmpty then { st := st } else
    { st := { st with tokenIdentifier := tokenId },
      events := [⟨"interchain_token_deployed_event", [st.tokenId, tokenId], [[]]⟩] }
  | none => { st := st, events := [⟨"interchain_token_deployment_failed", [], [[]]⟩] }

def mint (st : State) (ctx : Ctx) (address : Bytes) (amount : Nat) : Except Err Out :=
  if st.implType != 0 then .error .notNative else
  if !onlyRole st ctx MINTER then .error .missingRoles else
  if st.tokenIdentifier.isEmpty then .error .tokenNotSet else
  match tokOfBytes st.tokenIdentifier with
  | none => .error .esdtExpected
  | some t => .ok { st := st, effects := [.mint t amount, .send address (some t) amount] }

def burn (st : State) (ctx : Ctx) : Except Err Out :=
  if st.implType != 0 then .error .notNative else
  if !onlyRole st ctx MINTER then .error .missingRoles else
  if st.tokenIdentifier.isEmpty then .error .tokenNotSet else
  match requireCorrectToken st ctx with
  | .error e => .error e
  | .ok (tok, amount) =>
    match tok with
    | none => .error .esdtExpected
    | some t => .ok { st := st, effects := [.burn t amount] }

def roleOut (r : Except Err (State × List Ev)) : Except Err Out :=
  match r with
  | .ok (st, evs) => .ok { st := st, events := evs }
  | .error e => .error e

def view (st : State) (rs : List Bytes) : Except Err Out := .ok { st := st, results := rs }

def call (st : State) (ctx : Ctx) (func : String) (args : List Bytes) : Except Err Out :=
  -- payable endpoints first
  match func, args with
  | "takeToken", [] => takeToken st ctx
  | "burn", [] => burn st ctx
  | "deployInterchainToken", [m, name, symbol, dec] =>
    match topOptAddr m, topU8 dec with
    | some m, some d => deployInterchainToken st ctx m name symbol d
    | _, _ => .error .args
  | _, _ =>
  if !notPayable ctx then .error .payment else
  match func, args with
  | "addFlowLimiter", [a] =>
    match topFixed 32 a with
    | some a => if onlyRole st ctx OPERATOR then roleOut (.ok (addRole st a FLOW_LIMITER)) else .error .missingRoles
    | none => .error .args
  | "removeFlowLimiter", [a] =>
    match topFixed 32 a with
    | some a => if onlyRole st ctx OPERATOR then roleOut (.ok (removeRole st a FLOW_LIMITER)) else .error .missingRoles
    | none => .error .args
  | "transferFlowLimiter", [a, b] =>
    match topFixed 32 a, topFixed 32 b with
    | some a, some b =>
      if onlyRole st ctx OPERATOR then roleOut (transferRole st a b FLOW_LIMITER) else .error .missingRoles
    | _, _ => .error .args
  | "setFlowLimit", [l] => setFlowLimit st ctx (topBig l)
  | "giveToken", [d, a] =>
    match topFixed 32 d with
    | some d => giveToken st ctx d (topBig a)
    | none => .error .args
  | "mint", [a, amt] =>
    match topFixed 32 a with
    | some a => mint st ctx a (topBig amt)
    | none => .error .args
  | "transferOperatorship", [a] =>
    match topFixed 32 a with
    | some a => if onlyRole st ctx OPERATOR then roleOut (transferRole st ctx.caller a OPERATOR) else .error .missingRoles
    | none => .error .args
  | "proposeOperatorship", [a] =>
    match topFixed 32 a with
    | some a => if onlyRole st ctx OPERATOR then roleOut (proposeRole st ctx.caller a OPERATOR) else .error .missingRoles
    | none => .error .args
  | "acceptOperatorship", [a] =>
    match topFixed 32 a with
    | some a => roleOut (acceptRole st a ctx.caller OPERATOR)
    | none => .error .args
  | "transferMintership", [a] =>
    match topFixed 32 a with
    | some a => if onlyRole st ctx MINTER then roleOut (transferRole st ctx.caller a MINTER) else .error .missingRoles
    | none => .error .args
  | "proposeMintership", [a] =>
    match topFixed 32 a with
    | some a => if onlyRole st ctx MINTER then roleOut (proposeRole st ctx.caller a MINTER) else .error .missingRoles
    | none => .error .args
  | "acceptMintership", [a] =>
    match topFixed 32 a with
    | some a => roleOut (acceptRole st a ctx.caller MINTER)
    | none => .error .args
  -- views
  | "isOperator", [a] =>
    match topFixed 32 a with
    | some a => view st [encBool (intersects (st.roles a) OPERATOR)]
    | none => .error .args
  | "isMinter", [a] =>
    match topFixed 32 a with
    | some a => view st [encBool (intersects (st.roles a) MINTER)]
    | none => .error .args
  | "isFlowLimiter", [a] =>
    match topFixed 32 a with
    | some a => view st [encBool (intersects (st.roles a) FLOW_LIMITER)]
    | none => .error .args
  | "getAccountRoles", [a] =>
    match topFixed 32 a with
    | some a => view st [roleBytes (st.roles a)]
    | none => .error .args
  | "getProposedRoles", [a, b] =>
    match topFixed 32 a, topFixed 32 b with
    | some a, some b => view st [roleBytes (st.proposed (a, b))]
    | _, _ => .error .args
  | "getFlowLimit", [] => view st [encNat st.flowLimit]
  | "flowInAmount", [] => view st [encNat (st.flowIn (epochOf ctx.now))]
  | "flowOutAmount", [] => view st [encNat (st.flowOut (epochOf ctx.now))]
  | "tokenIdentifier", [] => view st [st.tokenIdentifier]
  | "implementationType", [] => view st [encNat st.implType]
  | "interchainTokenId", [] => view st [st.tokenId]
  | "interchainTokenService", [] => view st [st.service]
  | "invalidTokenIdentifier", [] =>
    -- Option<EgldOrEsdtTokenIdentifier> result: None = empty, Some = 0x01 ‖ nested identifier
    view st [if st.tokenIdentifier.isEmpty then [] else 1 :: nestBuf st.tokenIdentifier]
  | "getImplementationTypeAndTokenIdentifier", [] => view st [encNat st.implType, st.tokenIdentifier]
  | _, _ => .error .args

end Axelar.TokenManager
