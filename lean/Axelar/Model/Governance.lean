/-
  Model of governance/src/{lib,events}.rs.  The asynchronous dispatch is split exactly as in
  the Rust: the endpoint registers a promise (returned as `Dispatch`), the world delivers the
  call, and one of the two callbacks runs later with the closure data stored at dispatch time.
  Import-free.
-/
import Axelar.Model.TokenManager
namespace Axelar.Governance
open Axelar Codec

abbrev Tok := GasService.Tok

inductive Err
  | args | invalidAddress | timeLockHash | notReady | decode | gas | notAuthorized | notApproved
  | notSelf | invalidOperator | notGovernance | notApprovedByGateway | invalidTarget | alreadyScheduled
  | overflow | payment
  deriving Repr, DecidableEq

/-- key of a refund credit: user, token (as stored: "EGLD" or the identifier), nonce -/
abbrev RefundKey := Bytes × Bytes × Nat

structure State where
  gateway : Bytes := []
  minDelay : Nat := 0
  govChain : Bytes := []
  govAddress : Bytes := []
  operator : Bytes := []
  eta : Bytes → Nat := fun _ => 0
  approvals : Bytes → Bool := fun _ => false
  refunds : RefundKey → Nat := fun _ => 0

structure Ctx where
  caller : Bytes
  self : Bytes
  now : Nat
  egld : Nat
  esdt : List (Bytes × Nat × Nat)
  gasLeft : Nat

-- regenerated from governance/src/lib.rs on every run (the debug VM does not meter gas: the constants are tied,
-- the arithmetic around them is modelled, out-of-gas is outside the model)
def EXECUTE_PROPOSAL_CALLBACK_GAS : Nat := Generated.GOV_EXECUTE_PROPOSAL_CALLBACK_GAS
def EXECUTE_PROPOSAL_CALLBACK_GAS_PER_PAYMENT : Nat := Generated.GOV_EXECUTE_PROPOSAL_CALLBACK_GAS_PER_PAYMENT
def KEEP_EXTRA_GAS : Nat := Generated.GOV_KEEP_EXTRA_GAS

/-- the payments a dispatch captured (`EgldOrMultiEsdtPayment`) -/
inductive Payments
  | egld (v : Nat)
  | esdt (l : List (Bytes × Nat × Nat))
  deriving Repr, DecidableEq

/-- the promise registered by a dispatch, with the closure of its callback -/
structure Dispatch where
  target : Bytes
  endpoint : Bytes
  value : Nat
  args : List Bytes
  hash : Bytes
  eta : Nat                 -- time-lock dispatches only
  caller : Bytes
  payments : Payments
  operatorProposal : Bool
  deriving Repr, DecidableEq

structure Out where
  st : State
  results : List Bytes := []
  events : List Ev := []
  sends : List GasService.Send := []
  dispatch : Option Dispatch := none

/-- `get_proposal_hash`: keccak(target ‖ nested call data ‖ nested value) -/
def encProposal (target callData : Bytes) (value : Nat) : Bytes :=
  target ++ nestBuf callData ++ nestBig value

def proposalHash (C : Crypto) (target callData : Bytes) (value : Nat) : Bytes :=
  C.H (encProposal target callData value)

/-- `ProposalEventData` top-encoding -/
def proposalData (callData : Bytes) (value : Nat) : Bytes := nestBuf callData ++ nestBig value

/-- `DecodedCallData` top-decode: endpoint name, arguments, min gas limit -/
def decCallData : Dec (Bytes × List Bytes × Nat) := fun bs =>
  match buf bs with
  | some (name, r) => match vec buf r with
    | some (args, r') => match u64 r' with
      | some (g, r'') => some ((name, args, g), r'')
      | none => none
    | none => none
  | none => none

/-- `call_value().any_payment()` -/
def anyPayment (ctx : Ctx) : Payments := if ctx.esdt.isEmpty then .egld ctx.egld else .esdt ctx.esdt

/-- `schedule_time_lock` -/
def scheduleTimeLock (st : State) (now : Nat) (hash : Bytes) (eta : Nat) : Except Err (State × Nat) :=
  if st.eta hash ≠ 0 then .error .alreadyScheduled else
  let minimum := now + st.minDelay
  if minimum < 2 ^ 64 then
    let eta' := if eta < minimum then minimum else eta
    .ok ({ st with eta := upd st.eta hash eta' }, eta')
  else .error .overflow

/-- `finalize_time_lock`: take the eta, require non-zero and reached -/
def finalizeTimeLock (st : State) (now : Nat) (hash : Bytes) : Except Err (State × Nat) :=
  let eta := st.eta hash
  if eta = 0 then .error .timeLockHash
  else if now < eta then .error .notReady
  else .ok ({ st with eta := upd st.eta hash 0 }, eta)

/-- gas reserved for the callback -/
def extraGas (ctx : Ctx) (perPaymentGas : Bool) : Nat :=
  EXECUTE_PROPOSAL_CALLBACK_GAS +
    (match anyPayment ctx with
     | .esdt l => if perPaymentGas then EXECUTE_PROPOSAL_CALLBACK_GAS_PER_PAYMENT * l.length else 0
     | .egld _ => 0)

/-- the gas test of both dispatch endpoints (u64 arithmetic: a sum ≥ 2^64 panics natively) -/
def gasOk (ctx : Ctx) (perPaymentGas : Bool) (minGas : Nat) : Except Err Unit :=
  -- (additions are written `literal + symbolic`: the kernel evaluates `Nat.add` by recursion on
  --  its SECOND argument, and a 10^7 literal there makes proof checking unfold it in unary)
  let need := extraGas ctx perPaymentGas + (KEEP_EXTRA_GAS + minGas)
  if need < 2 ^ 64 then
    if need < ctx.gasLeft then .ok () else .error .gas
  else .error .overflow

/-- the common tail of both dispatch endpoints: decode the call data, reserve callback gas -/
def prepareDispatch (ctx : Ctx) (callData : Bytes) (perPaymentGas : Bool) :
    Except Err (Bytes × List Bytes) :=
  match top decCallData callData with
  | none => .error .decode
  | some (name, args, minGas) =>
    match gasOk ctx perPaymentGas minGas with
    | .ok () => .ok (name, args)
    | .error e => .error e

/-- `executeProposal(target, call_data, native_value)` payable -/
def executeProposal (C : Crypto) (st : State) (ctx : Ctx) (target callData : Bytes) (value : Nat) :
    Except Err Out :=
  let hash := proposalHash C target callData value
  match finalizeTimeLock st ctx.now hash with
  | .error e => .error e
  | .ok (st', eta) =>
    match prepareDispatch ctx callData true with
    | .error e => .error e
    | .ok (name, args) =>
      .ok { st := st',
            events := [⟨"proposal_executed_event", [hash, target], [proposalData callData value]⟩],
            dispatch := some ⟨target, name, value, args, hash, eta, ctx.caller, anyPayment ctx, false⟩ }

/-- `executeOperatorProposal(target, call_data, native_value)` payable -/
def executeOperatorProposal (C : Crypto) (st : State) (ctx : Ctx) (target callData : Bytes) (value : Nat) :
    Except Err Out :=
  if ctx.caller != st.operator then .error .notAuthorized else
  let hash := proposalHash C target callData value
  if !st.approvals hash then .error .notApproved else
  let st' := { st with approvals := upd st.approvals hash false }
  match prepareDispatch ctx callData true with
  | .error e => .error e
  | .ok (name, args) =>
    .ok { st := st',
          events := [⟨"operator_proposal_executed_event", [hash, target], [proposalData callData value]⟩],
          dispatch := some ⟨target, name, value, args, hash, 0, st.operator, anyPayment ctx, true⟩ }

/-- `handle_callback_failure`: credit every attached payment to the dispatching caller -/
def creditPayments (st : State) (caller : Bytes) : Payments → State
  | .egld v => { st with refunds := upd st.refunds (caller, strBytes "EGLD", 0)
                                      (st.refunds (caller, strBytes "EGLD", 0) + v) }
  | .esdt l => l.foldl (fun s (tok, nonce, amt) =>
      { s with refunds := upd s.refunds (caller, tok, nonce) (s.refunds (caller, tok, nonce) + amt) }) st

/-- the two promise callbacks (`results` = values returned by the dispatched call) -/
def callback (st : State) (d : Dispatch) (ok : Bool) (results : List Bytes) : Out :=
  if ok then
    { st := st,
      events := [⟨if d.operatorProposal then "operator_execute_proposal_success_event"
                  else "execute_proposal_success_event", d.hash :: results, [[]]⟩] }
  else
    let st1 := creditPayments st d.caller d.payments
    let st2 := if d.operatorProposal then { st1 with approvals := upd st1.approvals d.hash true }
               else { st1 with eta := upd st1.eta d.hash d.eta }
    { st := st2,
      events := [⟨if d.operatorProposal then "operator_execute_proposal_error_event"
                  else "execute_proposal_error_event", [d.hash], []⟩] }

inductive Command | schedule | cancel | approveOperator | cancelOperator
  deriving Repr, DecidableEq

/-- `ExecutePayload` top-decode -/
def decExecutePayload : Dec (Command × Bytes × Bytes × Nat × Nat) := fun bs =>
  match u8 bs with
  | some (c, r0) =>
    match (match c with | 0 => some Command.schedule | 1 => some .cancel | 2 => some .approveOperator
                        | 3 => some .cancelOperator | _ => none) with
    | none => none
    | some cmd =>
      match fixed 32 r0 with
      | some (target, r1) => match buf r1 with
        | some (cd, r2) => match big r2 with
          | some (v, r3) => match u64 r3 with
            | some (eta, r4) => some ((cmd, target, cd, v, eta), r4)
            | none => none
          | none => none
        | none => none
      | none => none
  | none => none

/-- `process_command` -/
def processCommand (C : Crypto) (st : State) (now : Nat) (cmd : Command) (target callData : Bytes)
    (value eta : Nat) : Except Err (State × List Ev) :=
  let hash := proposalHash C target callData value
  match cmd with
  | .schedule =>
    match scheduleTimeLock st now hash eta with
    | .error e => .error e
    | .ok (st', eta') =>
      .ok (st', [⟨"proposal_scheduled_event", [hash, target, encNat eta'], [proposalData callData value]⟩])
  | .cancel =>
    .ok ({ st with eta := upd st.eta hash 0 },
         [⟨"proposal_cancelled_event", [hash, target, encNat eta], [proposalData callData value]⟩])
  | .approveOperator =>
    .ok ({ st with approvals := upd st.approvals hash true },
         [⟨"operator_approved_event", [hash, target], [proposalData callData value]⟩])
  | .cancelOperator =>
    .ok ({ st with approvals := upd st.approvals hash false },
         [⟨"operator_cancelled_event", [hash, target], [proposalData callData value]⟩])

/-- `execute(source_chain, message_id, source_address, payload)`; the gateway call is
    synchronous, so the gateway state is threaded through -/
def execute (C : Crypto) (st : State) (gw : Gateway.State) (ctx : Ctx)
    (sourceChain messageId sourceAddress payload : Bytes) :
    Except Err (State × Gateway.State × List Ev × List Ev) :=
  if !(sourceChain == st.govChain && sourceAddress == st.govAddress) then .error .notGovernance else
  let (gw', valid, gwEvs) := Gateway.validateMessage C gw ctx.self sourceChain messageId sourceAddress (C.H payload)
  if !valid then .error .notApprovedByGateway else
  match top decExecutePayload payload with
  | none => .error .decode
  | some (cmd, target, cd, v, eta) =>
    if Gateway.isZeroAddr target then .error .invalidTarget else
    match processCommand C st ctx.now cmd target cd v eta with
    | .error e => .error e
    | .ok (st', evs) => .ok (st', gw', gwEvs, evs)

/-- `EgldOrEsdtToken` top-decode: nested identifier, u64 nonce -/
def decToken : Dec (Bytes × Nat) := fun bs =>
  match buf bs with
  | some (t, r) => match u64 r with
    | some (n, r') => some ((t, n), r')
    | none => none
  | none => none

/-- `withdrawRefundToken(token)` -/
def withdrawRefundToken (st : State) (ctx : Ctx) (tok : Bytes) (nonce : Nat) : Out :=
  let key : RefundKey := (ctx.caller, tok, nonce)
  let v := st.refunds key
  { st := { st with refunds := upd st.refunds key 0 },
    sends := if v = 0 then [] else
      [⟨ctx.caller, (match GasService.tokOfBytes tok with | none => none | some t => some (esdtKey t nonce)), v⟩] }

def notPayable (ctx : Ctx) : Bool := ctx.egld = 0 && ctx.esdt.isEmpty

/-- endpoints that do not involve the gateway -/
def call (C : Crypto) (st : State) (ctx : Ctx) (func : String) (args : List Bytes) : Except Err Out :=
  match func, args with
  | "executeProposal", [t, cd, v] =>
    match topFixed 32 t with
    | some t => executeProposal C st ctx t cd (topBig v)
    | none => .error .args
  | "executeOperatorProposal", [t, cd, v] =>
    match topFixed 32 t with
    | some t => executeOperatorProposal C st ctx t cd (topBig v)
    | none => .error .args
  | _, _ =>
  if !notPayable ctx then .error .payment else
  match func, args with
  | "withdraw", [r, a] =>
    match topFixed 32 r with
    | some r =>
      if ctx.caller != ctx.self then .error .notSelf
      else .ok { st := st, sends := [⟨r, none, topBig a⟩] }
    | none => .error .args
  | "transferOperatorship", [o] =>
    match topFixed 32 o with
    | some o =>
      if !(ctx.caller == st.operator || ctx.caller == ctx.self) then .error .notAuthorized
      else if Gateway.isZeroAddr o then .error .invalidOperator
      else .ok { st := { st with operator := o },
                 events := [⟨"operatorship_transferred_event", [st.operator], [o]⟩] }
    | none => .error .args
  | "withdrawRefundToken", [t] =>
    match top decToken t with
    | some (tok, nonce) => .ok (withdrawRefundToken st ctx tok nonce)
    | none => .error .args
  | "getProposalEta", [t, cd, v] =>
    match topFixed 32 t with
    | some t => .ok { st := st, results := [encNat (st.eta (proposalHash C t cd (topBig v)))] }
    | none => .error .args
  | "isOperatorProposalApproved", [t, cd, v] =>
    match topFixed 32 t with
    | some t => .ok { st := st, results := [encBool (st.approvals (proposalHash C t cd (topBig v)))] }
    | none => .error .args
  | "getTimeLockEta", [h] =>
    match topFixed 32 h with
    | some h => .ok { st := st, results := [encNat (st.eta h)] }
    | none => .error .args
  | "getOperatorApprovals", [h] =>
    match topFixed 32 h with
    | some h => .ok { st := st, results := [encBool (st.approvals h)] }
    | none => .error .args
  | "getRefundToken", [u, t] =>
    match topFixed 32 u, top decToken t with
    | some u, some (tok, nonce) => .ok { st := st, results := [encNat (st.refunds (u, tok, nonce))] }
    | _, _ => .error .args
  | "getOperator", [] => .ok { st := st, results := [st.operator] }
  | "getMinimumTimeLockDelay", [] => .ok { st := st, results := [encNat st.minDelay] }
  | "getGovernanceChain", [] => .ok { st := st, results := [st.govChain] }
  | "getGovernanceAddress", [] => .ok { st := st, results := [st.govAddress] }
  | "gateway", [] => .ok { st := st, results := [st.gateway] }
  | _, _ => .error .args

def initCall (args : List Bytes) : Except Err State :=
  match args with
  | [gw, chain, addr, delay, op] =>
    match topFixed 32 gw, topU64 delay, topFixed 32 op with
    | some gw, some delay, some op =>
      if Gateway.isZeroAddr gw || chain.isEmpty || addr.isEmpty || Gateway.isZeroAddr op then .error .invalidAddress
      else .ok { gateway := gw, minDelay := delay, govChain := chain, govAddress := addr, operator := op }
    | _, _, _ => .error .args
  | _ => .error .args

end Axelar.Governance
