/-
  Model of gateway/src/{lib,auth,operator,constants,events}.rs.
  Cryptography is a parameter (`Crypto`): no definition or theorem looks inside `H` or `verify`.
  Import-free.
-/
import Axelar.Model.Codec
import Axelar.Generated.Constants
namespace Axelar

/-- the two cryptographic primitives the contracts use -/
structure Crypto where
  H : Bytes → Bytes
  verify : (key msg sig : Bytes) → Bool

/-- functional map update -/
def upd {α β : Type} [DecidableEq α] (f : α → β) (a : α) (b : β) : α → β :=
  fun x => if x = a then b else f x

/-- one emitted contract event (identifier, indexed topics, data items), emitter filled in by
    the world -/
structure Ev where
  name : String
  topics : List Bytes
  data : List Bytes
  deriving Repr, DecidableEq, Inhabited

namespace Gateway

inductive Err
  | decode | storageDecode | invalidMessages | invalidSigners | lowWeight | badSignature | notLatestSigners
  | invalidWeights | invalidThreshold | rotationDelay | duplicateSigners | invalidSender
  | invalidOperator | args | notPayable | timeUnderflow
  deriving Repr, DecidableEq

structure WeightedSigner where
  signer : Bytes
  weight : Nat
  deriving Repr, DecidableEq

structure WeightedSigners where
  signers : List WeightedSigner
  threshold : Nat
  nonce : Bytes
  deriving Repr, DecidableEq

structure Proof where
  signers : WeightedSigners
  signatures : List (Option Bytes)
  deriving Repr, DecidableEq

structure Message where
  sourceChain : Bytes
  messageId : Bytes
  sourceAddress : Bytes
  contractAddress : Bytes
  payloadHash : Bytes
  deriving Repr, DecidableEq

inductive MsgState
  | nonExistent
  | approved (h : Bytes)
  | executed
  deriving Repr, DecidableEq

structure State where
  retention : Nat
  domain : Bytes
  minDelay : Nat
  operator : Bytes
  epoch : Nat
  lastRotation : Nat
  hashByEpoch : Nat → Bytes          -- empty = unset
  epochByHash : Bytes → Nat          -- 0 = unset
  messages : Bytes × Bytes → MsgState

def State.empty : State :=
  { retention := 0, domain := [], minDelay := 0, operator := [], epoch := 0, lastRotation := 0,
    hashByEpoch := fun _ => [], epochByHash := fun _ => 0, messages := fun _ => .nonExistent }

/-- what an endpoint sees of its transaction -/
structure Ctx where
  caller : Bytes
  owner : Bytes
  now : Nat

/-! ### decoders (constants.rs derive(TopDecode/NestedDecode)) -/
open Codec

def decSigner : Dec WeightedSigner := fun bs =>
  match fixed 32 bs with
  | some (k, r) => match big r with
    | some (w, r') => some (⟨k, w⟩, r')
    | none => none
  | none => none

def decSigners : Dec WeightedSigners := fun bs =>
  match vec decSigner bs with
  | some (ss, r) => match big r with
    | some (t, r') => match fixed 32 r' with
      | some (n, r'') => some (⟨ss, t, n⟩, r'')
      | none => none
    | none => none
  | none => none

def decProof : Dec Proof := fun bs =>
  match decSigners bs with
  | some (s, r) => match vec (opt (fixed 64)) r with
    | some (sigs, r') => some (⟨s, sigs⟩, r')
    | none => none
  | none => none

def decMessage : Dec Message := fun bs =>
  match buf bs with
  | some (a, r1) => match buf r1 with
    | some (b, r2) => match buf r2 with
      | some (c, r3) => match fixed 32 r3 with
        | some (d, r4) => match fixed 32 r4 with
          | some (e, r5) => some (⟨a, b, c, d, e⟩, r5)
          | none => none
        | none => none
      | none => none
    | none => none
  | none => none

/-! ### encoders used in hash preimages and events -/

def encSigner (s : WeightedSigner) : Bytes := s.signer ++ nestBig s.weight

/-- nested encoding of the signer vector (count, then items) -/
def encSignerVec (l : List WeightedSigner) : Bytes := u32be l.length ++ (l.map encSigner).flatten

/-- preimage of `get_signers_hash`: canonical re-encoding of the decoded set -/
def encSigners (s : WeightedSigners) : Bytes :=
  encSignerVec s.signers ++ nestBig s.threshold ++ s.nonce

def signersHash (C : Crypto) (s : WeightedSigners) : Bytes := C.H (encSigners s)

/-- `CommandType` discriminants (order extracted from the source, see Props/C01) -/
def tagApproveMessages : UInt8 := 0
def tagRotateSigners : UInt8 := 1

/-- `get_data_hash`: keccak(command tag ‖ raw argument bytes) -/
def dataHash (C : Crypto) (tag : UInt8) (raw : Bytes) : Bytes := C.H (tag :: raw)

/-- `message_hash_to_sign` -/
def digest (C : Crypto) (domain signersHash dataHash : Bytes) : Bytes :=
  C.H (Generated.signedMessagePrefix ++ domain ++ signersHash ++ dataHash)

/-- preimage of `message_hash` -/
def encMessageKey (sourceChain messageId sourceAddress contractAddress payloadHash : Bytes) : Bytes :=
  nestBuf sourceChain ++ nestBuf messageId ++ nestBuf sourceAddress ++ contractAddress ++ payloadHash

def messageHash (C : Crypto) (sourceChain messageId sourceAddress contractAddress payloadHash : Bytes) :
    Bytes :=
  C.H (encMessageKey sourceChain messageId sourceAddress contractAddress payloadHash)

/-! ### auth.rs -/

/-- `validate_signatures` loop (auth.rs:100-121): positional, skip `None`, abort on the first
    invalid supplied signature reached, stop as soon as the threshold is met. -/
def sigLoop (C : Crypto) (msg : Bytes) (threshold : Nat) :
    List WeightedSigner → List (Option Bytes) → Nat → Except Err Unit
  | s :: ss, none :: gs, tot => let _ := s; sigLoop C msg threshold ss gs tot
  | s :: ss, some sig :: gs, tot =>
    if C.verify s.signer msg sig then
      let tot' := tot + s.weight
      if tot' ≥ threshold then .ok () else sigLoop C msg threshold ss gs tot'
    else .error .badSignature
  | _, _, _ => .error .lowWeight

def validateSignatures (C : Crypto) (msg : Bytes) (ws : WeightedSigners)
    (sigs : List (Option Bytes)) : Except Err Unit :=
  if sigs.isEmpty || ws.signers.length != sigs.length then .error .lowWeight
  else sigLoop C msg ws.threshold ws.signers sigs 0

/-- `validate_proof`: returns `is_latest_signers` -/
def validateProof (C : Crypto) (st : State) (dataHash : Bytes) (proof : Proof) : Except Err Bool :=
  let sh := signersHash C proof.signers
  let signerEpoch := st.epochByHash sh
  let isLatest := signerEpoch == st.epoch
  if signerEpoch > 0 && st.epoch - signerEpoch ≤ st.retention then
    match validateSignatures C (digest C st.domain sh dataHash) proof.signers proof.signatures with
    | .ok () => .ok isLatest
    | .error e => .error e
  else .error .invalidSigners

/-- `validate_signers` loop: keys strictly increasing as big-endian numbers, weights > 0 -/
def signersLoop : List WeightedSigner → Nat → Nat → Except Err Nat
  | [], _, tot => .ok tot
  | s :: ss, prev, tot =>
    let cur := beNat s.signer
    if cur > prev then
      if s.weight > 0 then signersLoop ss cur (tot + s.weight) else .error .invalidWeights
    else .error .invalidSigners

def validateSigners (ws : WeightedSigners) : Except Err Unit :=
  if ws.signers.isEmpty then .error .invalidSigners
  else match signersLoop ws.signers 0 0 with
    | .error e => .error e
    | .ok total =>
      if ws.threshold > 0 && total ≥ ws.threshold then .ok () else .error .invalidThreshold

/-- top-encoding of `WeightedSigners` (event data) -/
def encSignersTop (s : WeightedSigners) : Bytes := encSigners s

/-- `rotate_signers_raw` -/
def rotateSignersRaw (C : Crypto) (st : State) (now : Nat) (ws : WeightedSigners)
    (enforceDelay : Bool) : Except Err (State × List Ev) :=
  match validateSigners ws with
  | .error e => .error e
  | .ok () =>
    -- update_rotation_timestamp (u64 subtraction: the Rust panics on underflow in debug and
    -- would wrap in release; block time is monotone so `lastRotation ≤ now` always holds)
    if now < st.lastRotation then .error .timeUnderflow
    else if enforceDelay && now - st.lastRotation < st.minDelay then .error .rotationDelay
    else
      let h := signersHash C ws
      let newEpoch := st.epoch + 1
      if st.epochByHash h ≠ 0 then .error .duplicateSigners
      else
        .ok ({ st with lastRotation := now, epoch := newEpoch,
                       hashByEpoch := upd st.hashByEpoch newEpoch h,
                       epochByHash := upd st.epochByHash h newEpoch },
             [⟨"signers_rotated_event", [Codec.encNat newEpoch, h], [encSignersTop ws]⟩])

/-! ### operator.rs -/

def isZeroAddr (a : Bytes) : Bool := a.all (· == 0)

def transferOperatorshipRaw (st : State) (newOp : Bytes) : State × List Ev :=
  ({ st with operator := newOp }, [⟨"operatorship_transferred_event", [], [newOp]⟩])

def transferOperatorship (st : State) (ctx : Ctx) (newOp : Bytes) : Except Err (State × List Ev) :=
  -- `self.operator().get()` on a never-set mapper is a storage decode error (ManagedAddress
  -- from empty bytes): a gateway deployed with the zero operator can never get one here
  if st.operator.isEmpty then .error .storageDecode else
  if ctx.caller == st.operator || ctx.caller == ctx.owner then
    if isZeroAddr newOp then .error .invalidOperator
    else .ok (transferOperatorshipRaw st newOp)
  else .error .invalidSender

/-! ### lib.rs -/

def approveMessage (C : Crypto) (st : State) (m : Message) : State × List Ev :=
  match st.messages (m.sourceChain, m.messageId) with
  | .nonExistent =>
    let h := messageHash C m.sourceChain m.messageId m.sourceAddress m.contractAddress m.payloadHash
    ({ st with messages := upd st.messages (m.sourceChain, m.messageId) (.approved h) },
     [⟨"message_approved_event",
       [m.sourceChain, m.messageId, m.sourceAddress, m.contractAddress, m.payloadHash], [[]]⟩])
  | _ => (st, [])

def approveAll (C : Crypto) : State → List Message → List Ev → State × List Ev
  | st, [], evs => (st, evs)
  | st, m :: ms, evs =>
    let (st', e) := approveMessage C st m
    approveAll C st' ms (evs ++ e)

/-- `approveMessages(messages: ManagedBuffer, proof: Proof)` on raw argument bytes -/
def approveMessages (C : Crypto) (st : State) (rawMessages rawProof : Bytes) :
    Except Err (State × List Ev) :=
  match Codec.top decProof rawProof with
  | none => .error .decode
  | some proof =>
    let dh := dataHash C tagApproveMessages rawMessages
    match Codec.many decMessage rawMessages with
    | none => .error .decode
    | some msgs =>
      if msgs.isEmpty then .error .invalidMessages
      else match validateProof C st dh proof with
        | .error e => .error e
        | .ok _ => .ok (approveAll C st msgs [])

/-- `rotateSigners(new_signers: ManagedBuffer, proof: Proof)` on raw argument bytes -/
def rotateSigners (C : Crypto) (st : State) (ctx : Ctx) (rawSigners rawProof : Bytes) :
    Except Err (State × List Ev) :=
  match Codec.top decProof rawProof with
  | none => .error .decode
  | some proof =>
    let dh := dataHash C tagRotateSigners rawSigners
    match Codec.top decSigners rawSigners with
    | none => .error .decode
    | some ws =>
      if st.operator.isEmpty then .error .storageDecode else
      let enforce := ctx.caller != st.operator
      match validateProof C st dh proof with
      | .error e => .error e
      | .ok isLatest =>
        if enforce && !isLatest then .error .notLatestSigners
        else rotateSignersRaw C st ctx.now ws enforce

/-- `validateMessage`, caller = destination contract -/
def validateMessage (C : Crypto) (st : State) (caller sourceChain messageId sourceAddress payloadHash : Bytes) :
    State × Bool × List Ev :=
  let h := messageHash C sourceChain messageId sourceAddress caller payloadHash
  if st.messages (sourceChain, messageId) = .approved h then
    ({ st with messages := upd st.messages (sourceChain, messageId) .executed }, true,
     [⟨"message_executed_event", [sourceChain, messageId], [[]]⟩])
  else (st, false, [])

def isMessageApproved (C : Crypto) (st : State)
    (sourceChain messageId sourceAddress contractAddress payloadHash : Bytes) : Bool :=
  st.messages (sourceChain, messageId) =
    .approved (messageHash C sourceChain messageId sourceAddress contractAddress payloadHash)

def isMessageExecuted (st : State) (sourceChain messageId : Bytes) : Bool :=
  st.messages (sourceChain, messageId) = .executed

def callContract (C : Crypto) (caller destChain destAddr payload : Bytes) : List Ev :=
  [⟨"contract_call_event", [caller, destChain, destAddr, C.H payload], [payload]⟩]

/-- `upgrade(operator, signers...)` (also the tail of `init`) -/
def upgradeLoop (C : Crypto) (now : Nat) : State → List WeightedSigners → List Ev →
    Except Err (State × List Ev)
  | st, [], evs => .ok (st, evs)
  | st, ws :: rest, evs =>
    match rotateSignersRaw C st now ws false with
    | .error e => .error e
    | .ok (st', e) => upgradeLoop C now st' rest (evs ++ e)

def upgrade (C : Crypto) (st : State) (now : Nat) (operator : Bytes) (signers : List WeightedSigners) :
    Except Err (State × List Ev) :=
  let (st1, ev1) := if isZeroAddr operator then (st, []) else transferOperatorshipRaw st operator
  upgradeLoop C now st1 signers ev1

def init (C : Crypto) (now : Nat) (retention : Nat) (domain : Bytes) (minDelay : Nat)
    (operator : Bytes) (signers : List WeightedSigners) : Except Err (State × List Ev) :=
  upgrade C { State.empty with retention := retention, domain := domain, minDelay := minDelay }
    now operator signers

/-- storage codec of `MessageState` (constants.rs:60-100) -/
def encodeState : MsgState → Bytes
  | .nonExistent => []
  | .approved h => h
  | .executed => Generated.messageExecuted

def decodeState (b : Bytes) : Option MsgState :=
  if b.isEmpty then some .nonExistent
  else if b == Generated.messageExecuted then some .executed
  else if b.length = 32 then some (.approved b) else none

end Gateway
end Axelar

namespace Axelar.Gateway
open Codec

/-- Endpoint dispatch on raw arguments (what the VM hands to the contract).  Views are included;
    they return the state unchanged. -/
def call (C : Crypto) (st : State) (ctx : Ctx) (func : String) (args : List Bytes) :
    Except Err (State × List Bytes × List Ev) :=
  match func, args with
  | "approveMessages", [msgs, proof] =>
    match approveMessages C st msgs proof with
    | .ok (st', evs) => .ok (st', [], evs)
    | .error e => .error e
  | "rotateSigners", [signers, proof] =>
    match rotateSigners C st ctx signers proof with
    | .ok (st', evs) => .ok (st', [], evs)
    | .error e => .error e
  | "callContract", [chain, addr, payload] => .ok (st, [], callContract C ctx.caller chain addr payload)
  | "validateMessage", [chain, id, src, ph] =>
    match topFixed 32 ph with
    | none => .error .args
    | some ph =>
      let (st', b, evs) := validateMessage C st ctx.caller chain id src ph
      .ok (st', [encBool b], evs)
  | "transferOperatorship", [op] =>
    match topFixed 32 op with
    | none => .error .args
    | some op => match transferOperatorship st ctx op with
      | .ok (st', evs) => .ok (st', [], evs)
      | .error e => .error e
  | "validateProof", [dh, proof] =>
    match topFixed 32 dh, top decProof proof with
    | some dh, some p => match validateProof C st dh p with
      | .ok b => .ok (st, [encBool b], [])
      | .error e => .error e
    | _, _ => .error .args
  | "isMessageApproved", [chain, id, src, ca, ph] =>
    match topFixed 32 ca, topFixed 32 ph with
    | some ca, some ph => .ok (st, [encBool (isMessageApproved C st chain id src ca ph)], [])
    | _, _ => .error .args
  | "isMessageExecuted", [chain, id] => .ok (st, [encBool (isMessageExecuted st chain id)], [])
  | "messages", [cc] =>
    -- argument is a top-encoded CrossChainId {source_chain, message_id}
    match top (fun bs => match buf bs with
        | some (a, r) => match buf r with
          | some (b, r') => some ((a, b), r')
          | none => none
        | none => none) cc with
    | some key => .ok (st, [encodeState (st.messages key)], [])
    | none => .error .args
  | "epoch", [] => .ok (st, [encNat st.epoch], [])
  | "lastRotationTimestamp", [] => .ok (st, [encNat st.lastRotation], [])
  | "timeSinceRotation", [] =>
    if ctx.now < st.lastRotation then .error .timeUnderflow
    else .ok (st, [encNat (ctx.now - st.lastRotation)], [])
  | "signerHashByEpoch", [e] => .ok (st, [st.hashByEpoch (topBig e)], [])
  | "epochBySignerHash", [h] =>
    match topFixed 32 h with
    | some h => .ok (st, [encNat (st.epochByHash h)], [])
    | none => .error .args
  | "previousSignersRetention", [] => .ok (st, [encNat st.retention], [])
  | "domainSeparator", [] => .ok (st, [st.domain], [])
  | "minimumRotationDelay", [] => .ok (st, [encNat st.minDelay], [])
  | "operator", [] => if st.operator.isEmpty then .error .storageDecode else .ok (st, [st.operator], [])
  -- the protocol's `upgradeContract(code, metadata, operator, signers...)` run by the OWNER: the code
  -- stays this contract's; `upgrade` may set the operator and registers every given signer set
  | "upgradeContract", _code :: _meta :: op :: signers =>
    if ctx.caller != ctx.owner then .error .invalidSender else
    match topFixed 32 op, signers.mapM (top decSigners) with
    | some op, some ss =>
      match upgrade C st ctx.now op ss with
      | .ok (st', evs) => .ok (st', [], evs)
      | .error e => .error e
    | _, _ => .error .args
  | _, _ => .error .args

/-- `init` on raw arguments -/
def initCall (C : Crypto) (now : Nat) (args : List Bytes) : Except Err (State × List Ev) :=
  match args with
  | ret :: dom :: delay :: op :: signers =>
    match topFixed 32 dom, topU64 delay, topFixed 32 op, signers.mapM (top decSigners) with
    | some dom, some delay, some op, some ss => init C now (topBig ret) dom delay op ss
    | _, _, _, _ => .error .args
  | _ => .error .args

end Axelar.Gateway

namespace Axelar.Gateway

/-- one endpoint invocation in a history: context, endpoint name, raw arguments -/
structure Call where
  ctx : Ctx
  func : String
  args : List Bytes

/-- a transaction either commits the new state or (on failure) leaves the old one -/
def stepCall (C : Crypto) (st : State) (c : Call) : State :=
  match call C st c.ctx c.func c.args with
  | .ok (st', _, _) => st'
  | .error _ => st

def run (C : Crypto) (st : State) (cs : List Call) : State := cs.foldl (stepCall C) st

/-- result values of a call (none on failure) -/
def results (C : Crypto) (st : State) (c : Call) : Option (List Bytes) :=
  match call C st c.ctx c.func c.args with
  | .ok (_, rs, _) => some rs
  | .error _ => none

end Axelar.Gateway
