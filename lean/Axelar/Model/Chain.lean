/-
  Top level of the world model: transactions, views, deployments, and the delivery of pending
  asynchronous calls and callbacks (one operation each).
-/
import Axelar.Model.ItsWorld
namespace Axelar
namespace World

def itsCtx (w : World) (src dst : Bytes) (egld : Nat) (esdt : List (Bytes × Nat × Nat)) : ItsW.ICtx :=
  ⟨src, dst, w.owner dst, egld, esdt⟩

/-- run a token-service computation as (part of) a transaction -/
def runIts {α : Type} (w : World) (m : ItsW.M α) : Option (α × World × List Event × List PendDesc) :=
  match m { w := w } with
  | some (a, t) => some (a, t.w, t.evs, t.pend)
  | none => none

/-- one call to any deployed contract (payments already moved); `none` = failure -/
def callContract (C : Crypto) (w : World) (src dst : Bytes) (func : String) (egld : Nat)
    (esdt : List (Bytes × Nat × Nat)) (args : List Bytes) : CallRes :=
  match w.kind dst with
  | some .its =>
    match runIts w (ItsW.call C (itsCtx w src dst egld esdt) func args) with
    | some (rs, w', evs, pd) => some (w', rs, evs, pd)
    | none => none
  | _ => callOther C w src dst func egld esdt args

/-- a user transaction: move the payment, run the endpoint, commit or roll back -/
def tx (C : Crypto) (w : World) (src dst : Bytes) (func : String) (egld : Nat)
    (esdt : List (Bytes × Nat × Nat)) (args : List Bytes) : World × Outcome :=
  match pay w src dst egld esdt with
  | none => (w, .fail)
  | some w1 =>
    match w.kind dst with
    | none => if func.isEmpty then (w1, .ok [] [] []) else (w, .fail)
    | some _ =>
      match callContract C w1 src dst func egld esdt args with
      | some (w2, rs, evs, pd) => (w2, .ok rs evs pd)
      | none => (w, .fail)

/-- a view call: result only, nothing committed -/
def query (C : Crypto) (w : World) (dst : Bytes) (func : String) (args : List Bytes) : Outcome :=
  match callContract C w dst dst func 0 [] args with
  | some (_, rs, _, _) => .ok rs [] []
  | none => .fail

def deploy (C : Crypto) (w : World) (kindName : String) (ownerAddr addr : Bytes) (args : List Bytes) :
    World × Outcome :=
  match kindName with
  | "gateway" =>
    match Gateway.initCall C w.now args with
    | .ok (st, evs) =>
      ({ w with gw := st, kind := upd w.kind addr (some .gateway), owner := upd w.owner addr ownerAddr },
       .ok [] (stamp addr evs) [])
    | .error _ => (w, .fail)
  | "gas-service" =>
    match GasService.initCall args with
    | .ok st =>
      ({ w with gs := st, kind := upd w.kind addr (some .gasService), owner := upd w.owner addr ownerAddr },
       .ok [] [] [])
    | .error _ => (w, .fail)
  | "token-manager" =>
    match TokenManager.initCall args with
    | .ok (st, evs) =>
      ({ w with tms := upd w.tms addr st, kind := upd w.kind addr (some .tokenManager),
                owner := upd w.owner addr ownerAddr },
       .ok [] (stamp addr evs) [])
    | .error _ => (w, .fail)
  | "governance" =>
    match Governance.initCall args with
    | .ok st =>
      ({ w with gov := st, kind := upd w.kind addr (some .governance), owner := upd w.owner addr ownerAddr },
       .ok [] [] [])
    | .error _ => (w, .fail)
  | "its" =>
    let w0 := { w with kind := upd w.kind addr (some .its), owner := upd w.owner addr ownerAddr }
    match runIts w0 (ItsW.initCall C (itsCtx w0 ownerAddr addr 0 []) args) with
    | some (_, w', evs, _) => (w', .ok [] evs [])
    | none => (w, .fail)
  | _ => (w, .fail)

/-! ### delivery of pending calls -/

def findPending (ps : List Pending) (id : Nat) : Option Pending := ps.find? (·.desc.id == id)

def setResult (ps : List Pending) (id : Nat) (r : Bool × List Bytes) : List Pending :=
  ps.map fun p => if p.desc.id == id then { p with result := some r } else p

def esdtB (l : List (String × Nat × Nat)) : List (Bytes × Nat × Nat) :=
  l.map fun (t, n, a) => (strBytes t, n, a)

inductive How | real | ok (vals : List Bytes) | fail
  deriving Repr, DecidableEq

/-- deliver the call part of a pending async call.  External callees (`ok` / `fail`) are not
    modelled: the schedule chooses their outcome; on `ok` they keep the attached value. -/
def deliver (C : Crypto) (w : World) (id : Nat) (how : How) : World × Outcome :=
  match findPending w.pending id with
  | none => (w, .nopending)
  | some p =>
    if p.result.isSome then (w, .nopending) else
    let d := p.desc
    match how with
    | .fail => ({ w with pending := setResult w.pending id (false, []) }, .fail)
    | .ok vals =>
      match pay w p.src d.to d.egld (esdtB d.esdt) with
      | none => ({ w with pending := setResult w.pending id (false, []) }, .fail)
      | some w' => ({ w' with pending := setResult w'.pending id (true, vals) }, .ok vals [] [])
    | .real =>
      match pay w p.src d.to d.egld (esdtB d.esdt) with
      | none => ({ w with pending := setResult w.pending id (false, []) }, .fail)
      | some w1 =>
        match callContract C w1 p.src d.to d.func d.egld (esdtB d.esdt) d.args with
        | some (w2, rs, evs, _) =>
          ({ w2 with pending := setResult w2.pending id (true, rs) }, .ok rs evs [])
        | none =>
          -- a call to an address that holds no contract is a plain transfer: it succeeds
          if (w1.kind d.to).isNone then ({ w1 with pending := setResult w1.pending id (true, []) }, .ok [] [] [])
          else ({ w with pending := setResult w.pending id (false, []) }, .fail)

/-- run the callback of a delivered call -/
def callback (C : Crypto) (w : World) (id : Nat) : World × Outcome :=
  match findPending w.pending id with
  | none => (w, .nopending)
  | some p =>
    match p.result with
    | none => (w, .nopending)
    | some (okFlag, vals) =>
      let w0 := { w with pending := w.pending.filter (·.desc.id != id) }
      match p.kind with
      | .tmIssue tm =>
        -- `ManagedAsyncCallResult<TokenIdentifier>`: success needs exactly one returned value
        let res : Option (Option Bytes) :=
          if okFlag then (match vals with | [v] => some (some v) | _ => none) else some none
        match res with
        | none => (w0, .fail)
        | some r =>
          let out := TokenManager.deployTokenCallback (w0.tms tm) r
          match tmFinish w0 tm out with
          | some (w1, rs, evs, pd) => (w1, .ok rs evs pd)
          | none => (w0, .fail)
      | .govDispatch gov d =>
        let out := Governance.callback w0.gov d okFlag vals
        match govFinish w0 gov out [] with
        | some (w1, rs, evs, pd) => (w1, .ok rs evs pd)
        | none => (w0, .fail)
      | .itsExecute its sc mid sa ph tid tokRaw amount =>
        -- the callback is called by the destination contract's address (irrelevant to the code)
        match runIts w0 (ItsW.executeWithTokenCallback C (itsCtx w0 p.desc.to its 0 []) sc mid sa ph tid tokRaw amount okFlag) with
        | some (_, w1, evs, pd) => (w1, .ok [] evs pd)
        | none => (w0, .fail)
      | .itsMetadata its tok gas caller =>
        match runIts w0 (ItsW.registerTokenMetadataCallback C (itsCtx w0 esdtSystemSc its 0 []) tok gas caller okFlag vals) with
        | some (_, w1, evs, pd) => (w1, .ok [] evs pd)
        | none => (w0, .fail)
      | .itsDeployRemote its salt chain sym dm gas caller =>
        match runIts w0 (ItsW.deployRemoteTokenCallback C (itsCtx w0 esdtSystemSc its 0 []) salt chain sym dm gas caller okFlag vals) with
        | some (_, w1, evs, pd) => (w1, .ok [] evs pd)
        | none => (w0, .fail)

end World
end Axelar
