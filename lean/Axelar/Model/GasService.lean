/-
  Model of gas-service/src/{lib,events}.rs.  Import-free.
-/
import Axelar.Model.Gateway
namespace Axelar.GasService
open Axelar Codec

inductive Err | args | payment | nothingReceived | notCollector | invalidAddress | invalidAmounts
  | notCollectorOrOwner | insufficient
  deriving Repr, DecidableEq

structure State where
  collector : Bytes := []

/-- token of a balance / transfer: `none` = EGLD -/
abbrev Tok := Option Bytes

/-- `EgldOrEsdtTokenIdentifier` from argument bytes: the literal "EGLD" is EGLD -/
def tokOfBytes (b : Bytes) : Tok := if b == strBytes "EGLD" then none else some b
def tokBytes : Tok → Bytes
  | none => strBytes "EGLD"
  | some b => b

structure Ctx where
  caller : Bytes
  owner : Bytes
  egld : Nat
  esdt : List (Bytes × Nat × Nat)
  /-- the contract's own balance of a token when the call starts (payment already credited) -/
  balance : Tok → Nat

/-- a direct transfer out of the contract -/
structure Send where
  to : Bytes
  tok : Tok
  amount : Nat
  deriving Repr, DecidableEq

structure Out where
  st : State
  results : List Bytes := []
  events : List Ev := []
  sends : List Send := []

/-- `call_value().single_fungible_esdt()` on a `payable("*")` endpoint -/
def singleFungibleEsdt (ctx : Ctx) : Except Err (Bytes × Nat) :=
  match ctx.esdt with
  | [(tok, 0, amt)] => if ctx.egld = 0 then .ok (tok, amt) else .error .payment
  | _ => .error .payment

/-- `call_value().egld_value()` on a `payable("EGLD")` endpoint -/
def egldValue (ctx : Ctx) : Except Err Nat :=
  if ctx.esdt.isEmpty then .ok ctx.egld else .error .payment

def notPayable (ctx : Ctx) : Bool := ctx.egld = 0 && ctx.esdt.isEmpty

def gasPaidData (hash tok : Bytes) (amt : Nat) (refund : Bytes) : Bytes :=
  hash ++ nestBuf tok ++ nestBig amt ++ refund
def nativeGasPaidData (hash : Bytes) (v : Nat) (refund : Bytes) : Bytes := hash ++ nestBig v ++ refund
def addGasData (tok : Bytes) (amt : Nat) (refund : Bytes) : Bytes := nestBuf tok ++ nestBig amt ++ refund
def addNativeGasData (v : Nat) (refund : Bytes) : Bytes := nestBig v ++ refund
def refundedData (receiver : Bytes) (tok : Tok) (amt : Nat) : Bytes :=
  receiver ++ nestBuf (tokBytes tok) ++ nestBig amt

/-- the four `pay*ForContractCall/ExpressCall` endpoints share their shape -/
def payEsdt (C : Crypto) (st : State) (ctx : Ctx) (evName : String) (args : List Bytes) : Except Err Out :=
  match args with
  | [sender, chain, addr, payload, refund] =>
    match topFixed 32 sender, topFixed 32 refund with
    | some sender, some refund =>
      match singleFungibleEsdt ctx with
      | .error e => .error e
      | .ok (tok, amt) =>
        if amt = 0 then .error .nothingReceived
        else .ok { st := st, events := [⟨evName, [sender, chain, addr], [gasPaidData (C.H payload) tok amt refund]⟩] }
    | _, _ => .error .args
  | _ => .error .args

def payNative (C : Crypto) (st : State) (ctx : Ctx) (evName : String) (args : List Bytes) : Except Err Out :=
  match args with
  | [sender, chain, addr, payload, refund] =>
    match topFixed 32 sender, topFixed 32 refund with
    | some sender, some refund =>
      match egldValue ctx with
      | .error e => .error e
      | .ok v =>
        if v = 0 then .error .nothingReceived
        else .ok { st := st, events := [⟨evName, [sender, chain, addr], [nativeGasPaidData (C.H payload) v refund]⟩] }
    | _, _ => .error .args
  | _ => .error .args

def addEsdt (st : State) (ctx : Ctx) (evName : String) (args : List Bytes) : Except Err Out :=
  match args with
  | [txHash, logIndex, refund] =>
    match topFixed 32 refund with
    | some refund =>
      match singleFungibleEsdt ctx with
      | .error e => .error e
      | .ok (tok, amt) =>
        if amt = 0 then .error .nothingReceived
        else .ok { st := st, events := [⟨evName, [txHash, encNat (topBig logIndex)], [addGasData tok amt refund]⟩] }
    | none => .error .args
  | _ => .error .args

def addNative (st : State) (ctx : Ctx) (evName : String) (args : List Bytes) : Except Err Out :=
  match args with
  | [txHash, logIndex, refund] =>
    match topFixed 32 refund with
    | some refund =>
      match egldValue ctx with
      | .error e => .error e
      | .ok v =>
        if v = 0 then .error .nothingReceived
        else .ok { st := st, events := [⟨evName, [txHash, encNat (topBig logIndex)], [addNativeGasData v refund]⟩] }
    | none => .error .args
  | _ => .error .args

/-- the loop of `collect_fees`: entries above the current balance are skipped, a zero amount
    aborts the whole call; `bal` is the running balance -/
def collectLoop (receiver : Bytes) : List (Tok × Nat) → (Tok → Nat) → List Send → Except Err (List Send)
  | [], _, acc => .ok acc
  | (tok, amt) :: rest, bal, acc =>
    if amt = 0 then .error .invalidAmounts
    else if amt ≤ bal tok then
      collectLoop receiver rest (upd bal tok (bal tok - amt)) (acc ++ [⟨receiver, tok, amt⟩])
    else collectLoop receiver rest bal acc

/-- split `count, item*count` from a var-arg list -/
def takeCounted (args : List Bytes) : Option (List Bytes × List Bytes) :=
  match args with
  | [] => none
  | c :: rest =>
    match topUsize c with
    | some n => if n ≤ rest.length then some (rest.take n, rest.drop n) else none
    | none => none

def collectFees (st : State) (ctx : Ctx) (args : List Bytes) : Except Err Out :=
  if !notPayable ctx then .error .payment else
  match args with
  | receiver :: rest =>
    match topFixed 32 receiver, takeCounted rest with
    | some receiver, some (toks, rest2) =>
      match takeCounted rest2 with
      | some (amts, []) =>
        if ctx.caller != st.collector then .error .notCollector
        else if Gateway.isZeroAddr receiver then .error .invalidAddress
        else if toks.length != amts.length then .error .invalidAmounts
        else
          match collectLoop receiver ((toks.map tokOfBytes).zip (amts.map topBig)) ctx.balance [] with
          | .ok sends => .ok { st := st, sends := sends }
          | .error e => .error e
      | _ => .error .args
    | _, _ => .error .args
  | _ => .error .args

def refund (st : State) (ctx : Ctx) (args : List Bytes) : Except Err Out :=
  if !notPayable ctx then .error .payment else
  match args with
  | [txHash, logIndex, receiver, token, amount] =>
    match topFixed 32 receiver with
    | some receiver =>
      if ctx.caller != st.collector then .error .notCollector
      else if Gateway.isZeroAddr receiver then .error .invalidAddress
      else
        let tok := tokOfBytes token
        let amt := topBig amount
        if amt ≤ ctx.balance tok then
          .ok { st := st, sends := [⟨receiver, tok, amt⟩],
                events := [⟨"refunded_event", [txHash, encNat (topBig logIndex)], [refundedData receiver tok amt]⟩] }
        else .error .insufficient
    | none => .error .args
  | _ => .error .args

def setGasCollector (st : State) (ctx : Ctx) (args : List Bytes) : Except Err Out :=
  if !notPayable ctx then .error .payment else
  match args with
  | [c] =>
    match topFixed 32 c with
    | some c =>
      if ctx.caller == st.collector || ctx.caller == ctx.owner then .ok { st := { collector := c } }
      else .error .notCollectorOrOwner
    | none => .error .args
  | _ => .error .args

def call (C : Crypto) (st : State) (ctx : Ctx) (func : String) (args : List Bytes) : Except Err Out :=
  match func with
  | "payGasForContractCall" => payEsdt C st ctx "gas_paid_for_contract_call_event" args
  | "payNativeGasForContractCall" => payNative C st ctx "native_gas_paid_for_contract_call_event" args
  | "payGasForExpressCall" => payEsdt C st ctx "gas_paid_for_express_call" args
  | "payNativeGasForExpressCall" => payNative C st ctx "native_gas_paid_for_express_call" args
  | "addGas" => addEsdt st ctx "gas_added_event" args
  | "addNativeGas" => addNative st ctx "native_gas_added_event" args
  | "addExpressGas" => addEsdt st ctx "express_gas_added_event" args
  | "addNativeExpressGas" => addNative st ctx "native_express_gas_added_event" args
  | "collectFees" => collectFees st ctx args
  | "refund" => refund st ctx args
  | "setGasCollector" => setGasCollector st ctx args
  | "gas_collector" =>
    if !notPayable ctx then .error .payment else
    match args with
    | [] => if st.collector.isEmpty then .error .args else .ok { st := st, results := [st.collector] }
    | _ => .error .args
  -- the protocol's `upgradeContract(code, metadata)` run by the owner: `upgrade()` is empty
  | "upgradeContract" =>
    if !notPayable ctx then .error .payment else
    if ctx.caller != ctx.owner then .error .notCollectorOrOwner else
    match args with
    | [_, _] => .ok { st := st }
    | _ => .error .args
  | _ => .error .args

def initCall (args : List Bytes) : Except Err State :=
  match args with
  | [c] => match topFixed 32 c with
    | some c => .ok { collector := c }
    | none => .error .args
  | _ => .error .args

end Axelar.GasService
