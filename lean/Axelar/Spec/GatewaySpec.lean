/-
  Declarative statements of what the gateway properties (C01–C03) demand, written against the
  observable configuration (registry of signer-set hashes, retention, domain) and the raw call
  arguments — not against the control flow of the Rust.  The `…B` versions are the executable
  forms used by the run-time judge.
-/
import Axelar.Model.Gateway
namespace Axelar.GatewaySpec
open Axelar Axelar.Gateway

/-- combined weight of the supplied signatures that verify, position by position -/
def validWeight (C : Crypto) (d : Bytes) : List WeightedSigner → List (Option Bytes) → Nat
  | s :: ss, some sig :: gs => (if C.verify s.signer d sig then s.weight else 0) + validWeight C d ss gs
  | _ :: ss, none :: gs => validWeight C d ss gs
  | _, _ => 0

/-- combined weight of all supplied signatures (valid or not) -/
def suppliedWeight : List WeightedSigner → List (Option Bytes) → Nat
  | s :: ss, some _ :: gs => s.weight + suppliedWeight ss gs
  | _ :: ss, none :: gs => suppliedWeight ss gs
  | _, _ => 0

/-- every supplied signature verifies -/
def allSuppliedValid (C : Crypto) (d : Bytes) : List WeightedSigner → List (Option Bytes) → Bool
  | s :: ss, some sig :: gs => C.verify s.signer d sig && allSuppliedValid C d ss gs
  | _ :: ss, none :: gs => allSuppliedValid C d ss gs
  | _, _ => true

/-- the signer set of the proof is one the gateway registered, at most `retention` rotations ago -/
def inWindow (C : Crypto) (st : State) (ws : WeightedSigners) : Bool :=
  let e := st.epochByHash (signersHash C ws)
  decide (0 < e) && decide (st.epoch - e ≤ st.retention)

/-- the digest a proof for command `tag` over raw argument bytes `raw` must be signed over -/
def proofDigest (C : Crypto) (st : State) (ws : WeightedSigners) (tag : UInt8) (raw : Bytes) : Bytes :=
  digest C st.domain (signersHash C ws) (dataHash C tag raw)

/-- C01, "only if": what must be true of an accepted approval call -/
def approveSound (C : Crypto) (st : State) (rawMsgs rawProof : Bytes) : Bool :=
  match Codec.top decProof rawProof with
  | none => false
  | some p =>
    inWindow C st p.signers &&
    decide (p.signatures.length = p.signers.signers.length) && !p.signatures.isEmpty &&
    decide (validWeight C (proofDigest C st p.signers tagApproveMessages rawMsgs)
              p.signers.signers p.signatures ≥ p.signers.threshold)

/-- C01, "conversely": a well-formed non-empty batch with such a proof in which all supplied
    signatures are valid must be accepted -/
def approveComplete (C : Crypto) (st : State) (rawMsgs rawProof : Bytes) : Bool :=
  match Codec.top decProof rawProof, Codec.many decMessage rawMsgs with
  | some p, some msgs =>
    !msgs.isEmpty && inWindow C st p.signers && decide (0 < p.signers.threshold) &&
    decide (p.signatures.length = p.signers.signers.length) && !p.signatures.isEmpty &&
    allSuppliedValid C (proofDigest C st p.signers tagApproveMessages rawMsgs) p.signers.signers p.signatures &&
    decide (suppliedWeight p.signers.signers p.signatures ≥ p.signers.threshold)
  | _, _ => false

/-- C03: well-formed signer sets, declaratively -/
def keysIncreasing : List WeightedSigner → Nat → Bool
  | [], _ => true
  | s :: ss, prev => decide (prev < beNat s.signer) && keysIncreasing ss (beNat s.signer)

def totalWeight (l : List WeightedSigner) : Nat := (l.map (·.weight)).sum

def wfSigners (ws : WeightedSigners) : Bool :=
  !ws.signers.isEmpty && keysIncreasing ws.signers 0 && ws.signers.all (fun s => decide (0 < s.weight)) &&
  decide (0 < ws.threshold) && decide (ws.threshold ≤ totalWeight ws.signers)

/-- C02: rank of a message state in the lifecycle -/
def rank : MsgState → Nat
  | .nonExistent => 0 | .approved _ => 1 | .executed => 2

end Axelar.GatewaySpec
