/-
  Independent specification of Solidity `abi.encode` for tuples of the elementary types the
  ITS messages use (uint256, bytes32, uint8, bytes, string), written from the Solidity ABI
  definition ("Formal Specification of the Encoding"), not from the Rust:

    enc(X) = head(X(1)) ... head(X(k)) tail(X(1)) ... tail(X(k))
    static  X(i): head = enc(X(i)), tail = empty
    dynamic X(i): head = enc(uint256(len(head(X(1)) ... head(X(k)) tail(X(1)) ... tail(X(i-1))))),
                  tail = enc(X(i))
    enc(bytes b) = enc(uint256(len b)) ++ b ++ zero padding up to a multiple of 32
    enc(uintN v) = 32-byte big-endian;  enc(bytes32 b) = b

  and of how a reader of that layout assigns bytes to fields (`Reads`).
-/
import Axelar.Model.Abi
namespace Axelar.Sol
open Axelar.Abi

/-- a 32-byte big-endian word -/
def word (n : Nat) : Bytes := natBEw 32 n

/-- right-pad with zeros to a multiple of 32 bytes -/
def padRight (b : Bytes) : Bytes := b ++ zeros ((32 - b.length % 32) % 32)

def tail : Tok → Bytes
  | .bytes b | .string b => word b.length ++ padRight b
  | _ => []

/-- head word of a field; `off` is the offset of its tail (only used for dynamic fields) -/
def head (t : Tok) (off : Nat) : Bytes :=
  match t with
  | .uint256 n => word n
  | .bytes32 b => b
  | .uint8 n => word n.toNat
  | .bytes _ | .string _ => word off

def heads : List Tok → Nat → Bytes
  | [], _ => []
  | t :: ts, off => head t off ++ heads ts (off + (tail t).length)

def tails (ts : List Tok) : Bytes := (ts.map tail).flatten

def enc (ts : List Tok) : Bytes := heads ts (32 * ts.length) ++ tails ts

/-- values representable in the Solidity types -/
def Tok.fits : Tok → Prop
  | .uint256 n => n < 2 ^ 256
  | .bytes32 b => b.length = 32
  | _ => True

instance (t : Tok) : Decidable (Tok.fits t) := by
  cases t <;> simp only [Tok.fits] <;> infer_instance

/-! ### Reading a layout

`Reads bs i ty v`: in the byte string `bs`, the field in head slot `i` of type `ty` denotes `v`
according to the ABI layout, with every byte read lying inside `bs`, offset and length words
fitting 32 bits and an 8-bit value word being below 256. -/

def slice (bs : Bytes) (off len : Nat) : Bytes := (bs.drop off).take len

def wordAt (bs : Bytes) (off : Nat) : Option Nat :=
  if off + 32 ≤ bs.length then some (beNat (slice bs off 32)) else none

inductive Reads (bs : Bytes) (i : Nat) : Ty → Tok → Prop
  | uint256 (n : Nat) : wordAt bs (32 * i) = some n → Reads bs i .uint256 (.uint256 n)
  | bytes32 : 32 * i + 32 ≤ bs.length → Reads bs i .bytes32 (.bytes32 (slice bs (32 * i) 32))
  | uint8 (n : Nat) : wordAt bs (32 * i) = some n → (h : n < 256) →
      Reads bs i .uint8 (.uint8 (UInt8.ofNat n))
  | bytes (off len : Nat) : wordAt bs (32 * i) = some off → off < 2 ^ 32 →
      wordAt bs off = some len → len < 2 ^ 32 → off + 32 + len ≤ bs.length →
      Reads bs i .bytes (.bytes (slice bs (off + 32) len))
  | string (off len : Nat) : wordAt bs (32 * i) = some off → off < 2 ^ 32 →
      wordAt bs off = some len → len < 2 ^ 32 → off + 32 + len ≤ bs.length →
      Reads bs i .string (.string (slice bs (off + 32) len))

/-- all fields of a tuple, slot by slot starting at slot `i` -/
inductive ReadsAll (bs : Bytes) : Nat → List Ty → List Tok → Prop
  | nil (i : Nat) : ReadsAll bs i [] []
  | cons (i : Nat) (ty : Ty) (tys : List Ty) (t : Tok) (ts : List Tok) :
      Reads bs i ty t → ReadsAll bs (i + 1) tys ts → ReadsAll bs i (ty :: tys) (t :: ts)

end Axelar.Sol

namespace Axelar.Sol
open Axelar.Abi

/-- Executable check of `Reads` for a *given* candidate value (used by the run-time judge of
    implementation outputs; equivalence with `Reads` is `checkReads_iff` in Proofs/AbiJudge). -/
def checkReads (bs : Bytes) (i : Nat) (ty : Ty) (t : Tok) : Bool :=
  match ty, t with
  | .uint256, .uint256 n => wordAt bs (32 * i) == some n
  | .bytes32, .bytes32 b => decide (32 * i + 32 ≤ bs.length) && b == slice bs (32 * i) 32
  | .uint8, .uint8 v => wordAt bs (32 * i) == some v.toNat
  | .bytes, .bytes b | .string, .string b =>
    match wordAt bs (32 * i) with
    | none => false
    | some off =>
      decide (off < 2 ^ 32) &&
      match wordAt bs off with
      | none => false
      | some len =>
        decide (len < 2 ^ 32) && decide (off + 32 + len ≤ bs.length) && b == slice bs (off + 32) len
  | _, _ => false

def checkReadsAll (bs : Bytes) : Nat → List Ty → List Tok → Bool
  | _, [], [] => true
  | i, ty :: tys, t :: ts => checkReads bs i ty t && checkReadsAll bs (i + 1) tys ts
  | _, _, _ => false

end Axelar.Sol
