/-
  Driver side of the ABI ops: model outcome, and the judge for implementation outcomes
  (C06: implementation bytes = Solidity spec bytes / rejected iff some integer ≥ 2^256;
   C07: a returned value must be what the layout assigns; a canonical encoding must be accepted).
-/
import Axelar.Driver.Proto
import Axelar.Model.AbiTypes
import Axelar.Spec.SolAbi
namespace Axelar.Driver
open Axelar Axelar.Abi

def natField (s : String) : Option Nat := (parseArg s).map beNat
def u8Field (s : String) : Option UInt8 := (parseArg s).map fun b => b.getD 0 0

def natOut (n : Nat) : Bytes := natBE n

/-- tokens of an `abi.enc` line -/
def encToks (ty : String) (fs : List String) : Option (List Tok) :=
  match ty, fs with
  | "transfer", [a, b, c, d, e, f] => do
    pure (Transfer.toks ⟨← natField a, ← parseArg b, ← parseArg c, ← parseArg d, ← natField e, ← parseArg f⟩)
  | "deploy", [a, b, c, d, e, f] => do
    pure (Deploy.toks ⟨← natField a, ← parseArg b, ← parseArg c, ← parseArg d, ← u8Field e, ← parseArg f⟩)
  | "hub", [a, b, c] => do pure (Hub.toks ⟨← natField a, ← parseArg b, ← parseArg c⟩)
  | "metadata", [a, b, c] => do pure (Metadata.toks ⟨← natField a, ← parseArg b, ← u8Field c⟩)
  | "link", [a, b, c, d, e, f] => do
    pure (Link.toks ⟨← natField a, ← parseArg b, ← u8Field c, ← parseArg d, ← parseArg e, ← parseArg f⟩)
  | _, _ => none

def tysOf (ty : String) : Option (List Ty) :=
  match ty with
  | "transfer" => some Transfer.tys | "deploy" => some Deploy.tys | "hub" => some Hub.tys
  | "metadata" => some Metadata.tys | "link" => some Link.tys | _ => none

def tokOut : Tok → Bytes
  | .uint256 n => natBE n
  | .bytes32 b => b
  | .bytes b => b
  | .string b => b
  | .uint8 v => [v]

/-- model of the per-type `abi_decode`, results in struct order -/
def modelDecode (ty : String) (bs : Bytes) : Option (List Bytes) :=
  match ty with
  | "transfer" => match Transfer.decode bs with
    | .ok p => some (p.toks.map tokOut) | .error _ => none
  | "deploy" => match Deploy.decode bs with
    | .ok p => some (p.toks.map tokOut) | .error _ => none
  | "hub" => match Hub.decode bs with
    | .ok p => some (p.toks.map tokOut) | .error _ => none
  | "metadata" => match Metadata.decode bs with
    | .ok p => some (p.toks.map tokOut) | .error _ => none
  | "link" => match Link.decode bs with
    | .ok p => some (p.toks.map tokOut) | .error _ => none
  | _ => none

/-- rebuild tokens from an implementation result (struct order) -/
def toksOfResult (tys : List Ty) (rs : List Bytes) : Option (List Tok) :=
  if tys.length != rs.length then none else
  (tys.zip rs).mapM fun (ty, r) =>
    match ty with
    | .uint256 => some (.uint256 (beNat r))
    | .bytes32 => some (.bytes32 r)
    | .bytes => some (.bytes r)
    | .string => some (.string r)
    | .uint8 => if r.length == 1 then some (.uint8 (r.getD 0 0)) else none

def allFit (ts : List Tok) : Bool := ts.all fun t => decide (Sol.Tok.fits t)

/-- (model outcome, judge verdict on the implementation outcome) -/
def abiOp (fields : List String) (impl : Option Outcome) : Outcome × String :=
  match fields with
  | "abi.enc" :: ty :: fs =>
    match encToks ty fs with
    | none => (.fail, "ok")
    | some toks =>
      let model : Outcome := match rawEncode toks with
        | .ok b => .ok [b] [] []
        | .error _ => .fail
      -- C06 judge: the Solidity spec, independent of the model
      let verdict := match impl with
        | some (.ok [b] _ _) =>
          if allFit toks then
            (if b == Sol.enc toks then "ok" else "VIOLATION:encoding-differs-from-abi.encode")
          else "VIOLATION:oversize-integer-accepted"
        | some .fail =>
          if allFit toks then "VIOLATION:encodable-value-rejected" else "ok"
        | _ => "VIOLATION:unparsable-implementation-outcome"
      (model, verdict)
  | "abi.rt" :: ty :: fs =>
    -- round trip through the encoder and the decoder (C07: decode (encode v) = v for every legal v)
    match encToks ty fs with
    | none => (.fail, "ok")
    | some toks =>
      let legal := allFit toks &&
        !(ty == "link" && (match toks with | [_, _, .uint8 v, _, _, _] => v.toNat > 4 | _ => true))
      let model : Outcome := match rawEncode toks with
        | .ok b => (match modelDecode ty b with | some rs => .ok rs [] [] | none => .fail)
        | .error _ => .fail
      let verdict := match impl with
        | some (.ok rs _ _) =>
          if !legal then "VIOLATION:illegal-value-survived-the-round-trip"
          else if rs == toks.map tokOut then "ok" else "VIOLATION:round-trip-changed-the-value"
        | some .fail => if legal then "VIOLATION:legal-value-does-not-round-trip" else "ok"
        | _ => "VIOLATION:unparsable-implementation-outcome"
      (model, verdict)
  | ["abi.dec", ty, hex] =>
    match tysOf ty, parseArg hex with
    | some tys, some bs =>
      let model : Outcome := match modelDecode ty bs with
        | some rs => .ok rs [] []
        | none => .fail
      -- C07 judge
      let verdict := match impl with
        | some (.ok rs _ _) =>
          match toksOfResult tys rs with
          | none => "VIOLATION:result-shape"
          | some ts =>
            if !Sol.checkReadsAll bs 0 tys ts then "VIOLATION:returned-fields-not-assigned-by-layout"
            else if ty == "link" && (match ts with
                | [_, _, .uint8 v, _, _, _] => v.toNat > 4 | _ => true) then
              "VIOLATION:token-manager-type-out-of-range-accepted"
            else "ok"
        | some .fail =>
          -- a canonical encoding must be accepted
          match rawDecode tys bs with
          | .ok ts =>
            if allFit ts && Sol.enc ts == bs &&
               !(ty == "link" && (match ts with | [_, _, .uint8 v, _, _, _] => v.toNat > 4 | _ => true))
            then "VIOLATION:canonical-encoding-rejected" else "ok"
          | .error _ => "ok"
        | _ => "VIOLATION:unparsable-implementation-outcome"
      (model, verdict)
    | _, _ => (.fail, "ok")
  | ["abi.msgtype", hex] =>
    match parseArg hex with
    | some bs =>
      let model : Outcome := match getMessageType bs with
        | .ok n => .okNat n
        | .error _ => .fail
      let verdict := match impl with
        | some (.okNat n) =>
          if Sol.wordAt bs 0 == some n && n < 2 ^ 64 then "ok" else "VIOLATION:message-type-misread"
        | some .fail => "ok"
        | _ => "VIOLATION:unparsable-implementation-outcome"
      (model, verdict)
    | none => (.fail, "ok")
  | _ => (.fail, "ok")

end Axelar.Driver
