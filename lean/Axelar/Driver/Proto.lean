/-
  Line protocol shared with the Rust harness: canonical outcome lines.
    ok r=<a,b|-> [ev=<e;e|->] [pend=<p;p|->]      |  fail [# message]   |  nopending
  Everything after " # " is a comment and never compared.
-/
import Axelar.Model.Trace
namespace Axelar.Driver
open Axelar

def hexOrDot (b : Bytes) : String := if b.isEmpty then "." else toHex b

def fmtArgs (l : List Bytes) : String :=
  if l.isEmpty then "-" else ",".intercalate (l.map hexOrDot)

def fmtEsdt (l : List (String × Nat × Nat)) : String :=
  if l.isEmpty then "-" else ",".intercalate (l.map fun (t, n, a) => s!"{t}:{n}:{a}")

def fmtEvent (e : Event) : String :=
  s!"{toHex e.addr}|{e.name}|{fmtArgs e.topics}|{fmtArgs e.data}"

def fmtPend (p : PendDesc) : String :=
  s!"{p.id}={toHex p.to}:{if p.func.isEmpty then "-" else p.func}:{p.egld}:{fmtEsdt p.esdt}:{fmtArgs p.args}"

def fmtOutcome : Outcome → String
  | .ok r ev pd =>
    let evs := if ev.isEmpty then "-" else ";".intercalate (ev.map fmtEvent)
    let pds := if pd.isEmpty then "-" else ";".intercalate (pd.map fmtPend)
    s!"ok r={fmtArgs r} ev={evs} pend={pds}"
  | .okNat n => s!"ok n={n}"
  | .okPlain => "ok"
  | .fail => "fail"
  | .nopending => "nopending"

def parseArg (s : String) : Option Bytes := if s == "." then some [] else ofHex s

def parseArgs (s : String) : Option (List Bytes) :=
  if s == "-" then some [] else (s.splitOn ",").mapM parseArg

def parseEsdt (s : String) : Option (List (String × Nat × Nat)) :=
  if s == "-" then some [] else
    (s.splitOn ",").mapM fun p =>
      match p.splitOn ":" with
      | [t, n, a] => do pure (t, ← n.toNat?, ← a.toNat?)
      | _ => none

def parseEvent (s : String) : Option Event :=
  match s.splitOn "|" with
  | [a, n, t, d] => do pure ⟨← ofHex a, n, ← parseArgs t, ← parseArgs d⟩
  | _ => none

def parsePend (s : String) : Option PendDesc :=
  match s.splitOn "=" with
  | [id, rest] =>
    match rest.splitOn ":" with
    | [to, f, e, es0, es1, es2, a] => do
      -- a single esdt transfer contains two ':' itself
      pure ⟨← id.toNat?, ← ofHex to, if f == "-" then "" else f, ← e.toNat?,
            ← parseEsdt s!"{es0}:{es1}:{es2}", ← parseArgs a⟩
    | [to, f, e, "-", a] => do
      pure ⟨← id.toNat?, ← ofHex to, if f == "-" then "" else f, ← e.toNat?, [], ← parseArgs a⟩
    | _ => none
  | _ => none

def stripComment (s : String) : String :=
  match s.splitOn " # " with
  | a :: _ => a.trimAscii.toString
  | [] => s

/-- parse an implementation outcome line -/
def parseOutcome (line : String) : Option Outcome :=
  let s := stripComment line
  match s.splitOn " " with
  | ["fail"] => some .fail
  | ["nopending"] => some .nopending
  | ["ok"] => some .okPlain
  | ["ok", r] =>
    if r.startsWith "n=" then (r.drop 2).toString.toNat?.map .okNat
    else if r.startsWith "r=" then
      let v := (r.drop 2).toString
      match parseArgs v with
      | some l => some (.ok l [] [])
      | none => none
    else none
  | ["ok", r, ev, pd] =>
    if r.startsWith "r=" && ev.startsWith "ev=" && pd.startsWith "pend=" then do
      let rs ← parseArgs (r.drop 2).toString
      let evs := (ev.drop 3).toString
      let es ← if evs == "-" then some [] else (evs.splitOn ";").mapM parseEvent
      let pds := (pd.drop 5).toString
      let ps ← if pds == "-" then some [] else (pds.splitOn ";").mapM parsePend
      pure (.ok rs es ps)
    else none
  | ["ok", r, ev] =>
    if r.startsWith "r=" && ev.startsWith "ev=" then do
      let rs ← parseArgs (r.drop 2).toString
      let evs := (ev.drop 3).toString
      let es ← if evs == "-" then some [] else (evs.splitOn ";").mapM parseEvent
      pure (.ok rs es [])
    else none
  | _ => none

end Axelar.Driver
