/-
  Property judges: decidable statements of each property on ONE implementation step, evaluated
  with the model's pre-state (which agrees with the implementation's as long as every earlier
  observation agreed; after the first disagreement of a sequence the judge stays silent until
  the next `reset`).  The predicates are the ones the theorems in Axelar/Props are about.
-/
import Axelar.Driver.WorldOps
import Axelar.Spec.GatewaySpec
namespace Axelar.Driver
open Axelar Axelar.Gateway Axelar.GatewaySpec

def implOk : Option Outcome → Bool
  | some (.ok _ _ _) => true
  | some (.okNat _) => true
  | some .okPlain => true
  | _ => false

def implResults : Option Outcome → List Bytes
  | some (.ok rs _ _) => rs
  | _ => []

def implEvents : Option Outcome → List Event
  | some (.ok _ evs _) => evs
  | _ => []

def implPend : Option Outcome → List PendDesc
  | some (.ok _ _ pd) => pd
  | _ => []

/-- is `dst` the deployed gateway? -/
def isGateway (st : DState) (dst : Bytes) : Bool := st.world.kind dst == some .gateway

def judgeGateway (prop : String) (st : DState) (fields : List String) (impl : Option Outcome) : String :=
  let C := crypto st
  let gw := st.world.gw
  match fields with
  | ["tx", src, dst, func, _egld, _esdt, args] =>
    match ofHex src, ofHex dst, parseArgs args with
    | some src, some dst, some args =>
      if !isGateway st dst then "ok" else
      match prop, func, args with
      | "C01", "approveMessages", [m, p] =>
        if implOk impl && !approveSound C gw m p then "VIOLATION:approved-without-valid-quorum"
        else if !implOk impl && approveComplete C gw m p then "VIOLATION:valid-proof-rejected"
        else "ok"
      | "C02", "approveMessages", [m, _p] =>
        if !implOk impl then "ok" else
        match Codec.many decMessage m with
        | none => "VIOLATION:undecodable-batch-accepted"
        | some msgs =>
          -- exactly the not-yet-existing ids (first occurrence) may be approved, with their own fields
          let expected := (approveAll C gw msgs []).2.map fun e => (e.name, e.topics)
          let got := (implEvents impl).filter (·.name == "message_approved_event") |>.map fun e => (e.name, e.topics)
          if got == expected then "ok" else "VIOLATION:approval-events-differ-from-lifecycle"
      | "C02", "validateMessage", [chain, id, srcAddr, ph] =>
        let should := gw.messages (chain, id) == .approved (messageHash C chain id srcAddr src ph) && ph.length == 32
        let got := implOk impl && implResults impl == [Codec.encBool true]
        if got && !should then "VIOLATION:validated-without-matching-approval"
        else if !got && should then "VIOLATION:matching-approval-not-validated"
        else "ok"
      | "C03", "rotateSigners", [s, p] =>
        match Codec.top decSigners s, Codec.top decProof p with
        | some ws, some proof =>
          let sound := inWindow C gw proof.signers &&
            decide (proof.signatures.length = proof.signers.signers.length) && !proof.signatures.isEmpty &&
            decide (validWeight C (proofDigest C gw proof.signers tagRotateSigners s)
              proof.signers.signers proof.signatures ≥ proof.signers.threshold)
          let complete := inWindow C gw proof.signers && decide (0 < proof.signers.threshold) &&
            decide (proof.signatures.length = proof.signers.signers.length) && !proof.signatures.isEmpty &&
            allSuppliedValid C (proofDigest C gw proof.signers tagRotateSigners s) proof.signers.signers proof.signatures &&
            decide (suppliedWeight proof.signers.signers proof.signatures ≥ proof.signers.threshold)
          let isOp := src == gw.operator
          let latest := gw.epochByHash (signersHash C proof.signers) == gw.epoch
          let delayOk := decide (gw.lastRotation ≤ st.world.now) && decide (st.world.now - gw.lastRotation ≥ gw.minDelay)
          let fresh := gw.epochByHash (signersHash C ws) == 0
          if implOk impl then
            if !wfSigners ws then "VIOLATION:ill-formed-signer-set-registered"
            else if !fresh then "VIOLATION:duplicate-signer-set-registered"
            else if !sound then "VIOLATION:rotation-without-valid-quorum"
            else if !isOp && !latest then "VIOLATION:non-operator-rotation-with-old-set"
            else if !isOp && !delayOk then "VIOLATION:non-operator-rotation-before-delay"
            else "ok"
          else
            if wfSigners ws && fresh && complete && !gw.operator.isEmpty &&
               decide (gw.lastRotation ≤ st.world.now) && (isOp || (latest && delayOk))
            then "VIOLATION:legitimate-rotation-refused" else "ok"
        | _, _ => if implOk impl then "VIOLATION:undecodable-rotation-accepted" else "ok"
      | "C03", "upgradeContract", _code :: _md :: _op :: sets =>
        -- the owner's upgrade registers signer sets without a proof, but under the same rules: every set
        -- well-formed, none registered before (nor twice in the list)
        if !implOk impl then "ok" else
        match sets.mapM (Codec.top decSigners) with
        | none => "VIOLATION:undecodable-signer-set-registered-by-upgrade"
        | some wss =>
          if wss.any (fun ws => !wfSigners ws) then "VIOLATION:ill-formed-signer-set-registered"
          else if wss.any (fun ws => gw.epochByHash (signersHash C ws) != 0) ||
                  !(wss.map (signersHash C)).Nodup then "VIOLATION:duplicate-signer-set-registered"
          else if src != st.world.owner dst then "VIOLATION:upgrade-by-other-than-the-owner"
          else "ok"
      | "C03", "approveMessages", [_m, p] =>
        match Codec.top decProof p with
        | some proof =>
          if implOk impl && !inWindow C gw proof.signers then "VIOLATION:out-of-window-set-accepted" else "ok"
        | none => "ok"
      | "C03", "transferOperatorship", [_op] =>
        if implOk impl && !(src == gw.operator || src == st.world.owner dst) then
          "VIOLATION:operatorship-changed-by-stranger" else "ok"
      | _, _, _ => "ok"
    | _, _, _ => "ok"
  | ["deploy", "gateway", _owner, _addr, args] =>
    -- deployment registers the initial signer sets under the same rules
    if prop != "C03" || !implOk impl then "ok" else
    match parseArgs args with
    | some (_ret :: _dom :: _delay :: _op :: sets) =>
      match sets.mapM (Codec.top decSigners) with
      | none => "VIOLATION:undecodable-signer-set-registered-at-deployment"
      | some wss =>
        if wss.any (fun ws => !wfSigners ws) then "VIOLATION:ill-formed-signer-set-registered"
        else if !(wss.map (signersHash C)).Nodup then "VIOLATION:duplicate-signer-set-registered"
        else "ok"
    | _ => "ok"
  | ["query", dst, func, args] =>
    match ofHex dst, parseArgs args with
    | some dst, some args =>
      if !isGateway st dst then "ok" else
      match prop, func, args with
      | "C02", "isMessageExecuted", [chain, id] =>
        if implOk impl && implResults impl != [Codec.encBool (isMessageExecuted gw chain id)] then
          "VIOLATION:executed-view-disagrees-with-lifecycle" else "ok"
      | "C02", "isMessageApproved", [chain, id, s, ca, ph] =>
        if implOk impl && implResults impl != [Codec.encBool (isMessageApproved C gw chain id s ca ph)] then
          "VIOLATION:approved-view-disagrees-with-lifecycle" else "ok"
      | "C01", "isMessageApproved", [chain, id, s, ca, ph] =>
        if implOk impl && implResults impl != [Codec.encBool (isMessageApproved C gw chain id s ca ph)] then
          "VIOLATION:approval-state-without-accepted-proof" else "ok"
      | "C03", "epoch", [] =>
        if implOk impl && implResults impl != [Codec.encNat gw.epoch] then
          "VIOLATION:epoch-not-advanced-by-exactly-one-per-rotation" else "ok"
      | "C03", "operator", [] =>
        if implOk impl && implResults impl != [gw.operator] then
          "VIOLATION:operator-view-disagrees" else "ok"
      | _, _, _ => "ok"
    | _, _ => "ok"
  | _ => "ok"

/-- C15: gas service custody -/
def judgeGas (st : DState) (fields : List String) (impl : Option Outcome) : String :=
  let C := crypto st
  let w := st.world
  match fields with
  | ["tx", src, dst, func, egld, esdt, args] =>
    match ofHex src, ofHex dst, egld.toNat?, parseEsdtB esdt, parseArgs args with
    | some src, some dst, some egld, some esdt, some args =>
      if w.kind dst != some .gasService then "ok" else
      if !implOk impl then
        -- the property fixes exactly when fee collection may fail: everything else must go
        -- through, over-balance entries being skipped silently
        (if func == "collectFees" then
          match World.pay w src dst egld esdt with
          | some w1 =>
            match GasService.call C w.gs ⟨src, w.owner dst, egld, esdt, World.balanceOf w1 dst⟩ func args with
            | .ok _ => "VIOLATION:fee-collection-reverted-instead-of-skipping-over-balance-entries"
            | .error _ => "ok"
          | none => "ok"
         else if func == "refund" then
          -- a refund requested by the collector within the balance goes through, in full
          match World.pay w src dst egld esdt with
          | some w1 =>
            match GasService.call C w.gs ⟨src, w.owner dst, egld, esdt, World.balanceOf w1 dst⟩ func args with
            | .ok out => if (World.applySends { w1 with gs := out.st } dst out.sends).isSome then
                "VIOLATION:refund-by-the-collector-refused" else "ok"
            | .error _ => "ok"
          | none => "ok"
         else "ok") else
      let evs := (implEvents impl).filter (·.addr == dst)
      -- what the service's own rules allow, evaluated on the pre-state with the payment credited
      match World.pay w src dst egld esdt with
      | none => "VIOLATION:payment-accepted-without-funds"
      | some w1 =>
        match GasService.call C w.gs ⟨src, w.owner dst, egld, esdt, World.balanceOf w1 dst⟩ func args with
        | .error _ =>
          if func == "collectFees" || func == "refund" then
            (if src != w.gs.collector then "VIOLATION:outflow-not-requested-by-collector"
             else "VIOLATION:outflow-outside-the-rules")
          else if func == "setGasCollector" then "VIOLATION:collector-replaced-by-stranger"
          else "VIOLATION:payment-accepted-against-the-rules"
        | .ok out =>
          let expected := World.stamp dst out.events
          if evs != expected then "VIOLATION:event-does-not-match-receipt" else "ok"
    | _, _, _, _, _ => "ok"
  | ["bal", a, tok] =>
    match ofHex a, impl with
    | some a, some (.okNat n) =>
      let acc := w.accts a
      let m := if tok == "EGLD" then acc.egld else acc.esdt (strBytes tok)
      if n == m then "ok"
      else if w.kind a == some .gasService then "VIOLATION:service-balance-not-receipts-minus-outflows"
      else "VIOLATION:account-balance-not-conserved"
    | _, _ => "ok"
  | _ => "ok"

/-- C09 / C10: token manager -/
def judgeTm (prop : String) (st : DState) (fields : List String) (impl : Option Outcome)
    (model : Outcome) (implMsg : String) : String :=
  let w := st.world
  let modelOk := match model with | .ok _ _ _ => true | _ => false
  match fields with
  | ["tx", src, dst, func, _egld, esdt, args] =>
    match ofHex src, ofHex dst, parseEsdtB esdt, parseArgs args with
    | some src, some dst, some esdt, some args =>
      if w.kind dst != some .tokenManager then "ok" else
      let tm := w.tms dst
      let L := tm.flowLimit
      let e := TokenManager.epochOf w.now
      match prop with
      | "C09" =>
        let flowMsg := (implMsg.splitOn "Flow limit exceeded").length > 1
        match func, args with
        | "giveToken", [_d, a] =>
          let amt := Codec.topBig a
          let within := L == 0 || (decide (amt ≤ L) && decide (tm.flowIn e + amt ≤ tm.flowOut e + L))
          if implOk impl && !within then "VIOLATION:inbound-transfer-beyond-flow-limit"
          else if !implOk impl && within && flowMsg then "VIOLATION:transfer-rejected-for-flow-within-limit"
          else "ok"
        | "takeToken", [] =>
          let amt := match esdt with | [(_, _, a)] => a | _ => (_egld.toNat?.getD 0)
          let within := L == 0 || (decide (amt ≤ L) && decide (tm.flowOut e + amt ≤ tm.flowIn e + L))
          if implOk impl && !within then "VIOLATION:outbound-transfer-beyond-flow-limit"
          else if !implOk impl && within && flowMsg then "VIOLATION:transfer-rejected-for-flow-within-limit"
          else "ok"
        | "setFlowLimit", [_] =>
          if implOk impl && !TokenManager.intersects (tm.roles src) TokenManager.FLOW_LIMITER then
            "VIOLATION:flow-limit-changed-without-flow-limiter-role" else "ok"
        | _, _ => "ok"
      | _ =>
        -- C10: every accepted operation must be one the gating rules allow
        if implOk impl && !modelOk then
          (if func == "giveToken" || func == "takeToken" then "VIOLATION:custody-operation-accepted-against-gating"
           else if func == "mint" || func == "burn" then "VIOLATION:mint-burn-accepted-against-gating"
           else "VIOLATION:role-operation-accepted-against-gating")
        else "ok"
    | _, _, _, _ => "ok"
  | ["query", dst, func, _args] =>
    match ofHex dst with
    | some dst =>
      if w.kind dst != some .tokenManager then "ok" else
      let same := match impl, model with
        | some (.ok r _ _), .ok r' _ _ => r == r'
        | _, _ => true
      if same then "ok" else
      match prop, func with
      | "C09", "flowInAmount" | "C09", "flowOutAmount" => "VIOLATION:flow-counter-not-per-epoch-sum"
      | "C09", "getFlowLimit" => "VIOLATION:flow-limit-view-disagrees"
      | "C10", "getAccountRoles" | "C10", "getProposedRoles" | "C10", "isMinter" =>
        "VIOLATION:roles-differ-from-allowed-role-operations"
      | _, _ => "ok"
    | none => "ok"
  | ["bal", _a, _tok] =>
    if prop != "C10" then "ok" else
    match impl, model with
    | some (.okNat n), .okNat m => if n == m then "ok" else "VIOLATION:custody-or-supply-not-exact"
    | _, _ => "ok"
  | _ => "ok"

/-- C11 / C12 / C16: governance -/
def judgeGov (prop : String) (st : DState) (fields : List String) (impl : Option Outcome)
    (model : Outcome) : String :=
  let C := crypto st
  let w := st.world
  let modelOk := match model with | .ok _ _ _ => true | _ => false
  let sameResults := match impl, model with
    | some (.ok r _ _), .ok r' _ _ => r == r'
    | some (.okNat n), .okNat m => n == m
    | _, _ => true
  match fields with
  | ["tx", _src, dst, func, _egld, _esdt, args] =>
    match ofHex dst, parseArgs args with
    | some dst, some args =>
      if w.kind dst != some .governance then "ok" else
      if !implOk impl then
        -- completeness clauses: what the rules grant must not be refused
        (if !modelOk then "ok" else
         match prop, func with
         | "C11", "executeProposal" => "VIOLATION:scheduled-matured-uncancelled-proposal-refused"
         | "C11", "execute" => "VIOLATION:authenticated-time-lock-command-refused"
         | "C12", "executeOperatorProposal" => "VIOLATION:approved-operator-proposal-refused"
         | "C12", "execute" => "VIOLATION:authenticated-command-refused"
         | "C16", "withdrawRefundToken" => "VIOLATION:refund-withdrawal-refused"
         | _, _ => "ok")
      else
      match prop, func, args with
      | "C11", "executeProposal", [t, cd, v] =>
        let h := Governance.proposalHash C t cd (Codec.topBig v)
        if !modelOk then "VIOLATION:dispatch-without-scheduled-matured-proposal"
        else if st.cancelledTL.contains h then
          (if st.restoredTL.contains h then "VIOLATION:dispatch-of-proposal-cancelled-between-dispatch-and-failure-callback"
           else "VIOLATION:dispatch-of-cancelled-proposal")
        else if (implPend impl).any (fun d => d.to != t || d.egld != Codec.topBig v) then
          "VIOLATION:dispatched-call-differs-from-the-scheduled-proposal"
        else "ok"
      | "C11", "execute", _ =>
        if !modelOk then "VIOLATION:time-lock-command-accepted-against-rules" else "ok"
      | "C12", "execute", _ =>
        if !modelOk then "VIOLATION:unauthenticated-or-replayed-command-accepted" else "ok"
      | "C12", "executeOperatorProposal", [t, cd, v] =>
        let h := Governance.proposalHash C t cd (Codec.topBig v)
        if !modelOk then "VIOLATION:operator-dispatch-without-approval-or-by-non-operator"
        else if st.cancelledOp.contains h then
          (if st.restoredOp.contains h then "VIOLATION:operator-dispatch-of-approval-cancelled-between-dispatch-and-failure-callback"
           else "VIOLATION:operator-dispatch-of-cancelled-approval")
        -- the dispatched call is the approved one: exactly that target and that native value
        else if (implPend impl).any (fun d => d.to != t || d.egld != Codec.topBig v) then
          "VIOLATION:dispatched-call-differs-from-the-approved-proposal"
        else "ok"
      | "C12", "transferOperatorship", _ =>
        if !modelOk then "VIOLATION:operator-changed-by-stranger" else "ok"
      | "C12", "withdraw", _ =>
        if !modelOk then "VIOLATION:funds-withdrawn-by-other-than-contract" else "ok"
      | "C16", "withdrawRefundToken", _ =>
        -- an accepted withdrawal pays the caller's WHOLE credit (the model refuses exactly when the contract cannot
        -- pay it in full: then nothing may be paid and the credit stays)
        if !modelOk then "VIOLATION:refund-withdrawal-accepted-without-paying-the-credit-in-full" else "ok"
      | _, _, _ => "ok"
    | _, _ => "ok"
  | ["query", dst, func, _args] =>
    match ofHex dst with
    | some dst =>
      if w.kind dst != some .governance || sameResults then "ok" else
      match prop, func with
      | "C11", "getProposalEta" => "VIOLATION:proposal-eta-differs-from-time-lock-rules"
      | "C12", "isOperatorProposalApproved" => "VIOLATION:operator-approval-differs-from-rules"
      | "C12", "getOperator" => "VIOLATION:operator-differs-from-rules"
      | "C16", "getRefundToken" => "VIOLATION:refund-credit-not-exact"
      | _, _ => "ok"
    | none => "ok"
  | ["bal", _a, _tok] =>
    if prop == "C16" && !sameResults then "VIOLATION:balances-differ-from-credit-ledger" else "ok"
  | ["cb", _id] =>
    if implOk impl && !modelOk && prop == "C16" then "VIOLATION:callback-outcome-differs" else "ok"
  | _ => "ok"

/-- ghost update from the IMPLEMENTATION's outcome of an authenticated governance command -/
def ghostUpdate (st : DState) (pre : DState) (fields : List String) (impl : Option Outcome) : DState :=
  let C := crypto pre
  match fields with
  | ["tx", _src, dst, "execute", _egld, _esdt, args] =>
    match ofHex dst, parseArgs args with
    | some dst, some [_, _, _, payload] =>
      if pre.world.kind dst != some .governance || !implOk impl then st else
      match Codec.top Governance.decExecutePayload payload with
      | some (cmd, t, cd, v, _) =>
        let h := Governance.proposalHash C t cd v
        match cmd with
        | .schedule => { st with cancelledTL := st.cancelledTL.filter (· != h), restoredTL := st.restoredTL.filter (· != h) }
        | .cancel => { st with cancelledTL := h :: st.cancelledTL, restoredTL := st.restoredTL.filter (· != h) }
        | .approveOperator => { st with cancelledOp := st.cancelledOp.filter (· != h), restoredOp := st.restoredOp.filter (· != h) }
        | .cancelOperator => { st with cancelledOp := h :: st.cancelledOp, restoredOp := st.restoredOp.filter (· != h) }
      | none => st
    | _, _ => st
  | ["cb", id] =>
    -- a failure callback of a governance dispatch writes the entry back
    match id.toNat? with
    | some id =>
      match World.findPending pre.world.pending id with
      | some p =>
        match p.kind, p.result with
        | .govDispatch _ d, some (false, _) =>
          if !implOk impl then st
          else if d.operatorProposal then
            (if st.cancelledOp.contains d.hash then { st with restoredOp := d.hash :: st.restoredOp } else st)
          else (if st.cancelledTL.contains d.hash then { st with restoredTL := d.hash :: st.restoredTL } else st)
        | _, _ => st
      | none => st
    | none => st
  | _ => st

/-- endpoints of the token service that the pause must stop (C20) -/
def pausable : List String :=
  ["execute", "interchainTransfer", "callContractWithInterchainToken", "registerCanonicalInterchainToken",
   "registerCustomToken", "deployInterchainToken", "deployRemoteInterchainToken",
   "deployRemoteInterchainTokenWithMinter", "deployRemoteCanonicalInterchainToken", "linkToken"]

def outboundFuncs : List String := ["interchainTransfer", "callContractWithInterchainToken"]

/-- which operations each ITS property observes -/
def itsObserves (prop func : String) : Bool :=
  match prop with
  | "C04" => func == "execute"
  | "C05" => outboundFuncs.contains func
  | "C08" => func == "execute"
  | "C13" => func == "execute" || outboundFuncs.contains func || func == "linkToken" ||
             func == "setTrustedAddress" || func == "removeTrustedAddress"
  | "C14" => ["registerCanonicalInterchainToken", "registerCustomToken", "deployInterchainToken", "execute",
              "linkToken"].contains func
  | "C17" => ["registerTokenMetadata", "deployRemoteInterchainToken", "deployRemoteInterchainTokenWithMinter",
              "deployRemoteCanonicalInterchainToken"].contains func
  | "C18" => func == "deployInterchainToken" || func == "execute"
  | "C19" => ["approveDeployRemoteInterchainToken", "revokeDeployRemoteInterchainToken",
              "deployRemoteInterchainTokenWithMinter", "deployRemoteInterchainToken"].contains func
  | "C20" => true
  | _ => false

def itsObservesQuery (prop func : String) : Bool :=
  match prop with
  | "C04" => func == "isMessageExecuted"
  | "C08" => func == "isMessageExecuted" || func == "transferWithDataLock"
  | "C13" => func == "trustedAddress"
  | "C14" => ["canonicalInterchainTokenId", "linkedTokenId", "interchainTokenId", "invalidTokenManagerAddress",
              "deployedTokenManager", "registeredTokenIdentifier", "chainNameHash",
              "getImplementationTypeAndTokenIdentifier", "interchainTokenId"].contains func
  | "C18" => ["isMessageExecuted", "invalidTokenManagerAddress", "registeredTokenIdentifier", "tokenIdentifier",
              "getImplementationTypeAndTokenIdentifier"].contains func
  | "C20" => func == "isPaused" || func == "trustedAddress" || func == "flowLimit"
  | _ => false

/-- C04, C05, C08, C13, C14, C17, C18, C19, C20: the token service -/
def judgeIts (prop : String) (st : DState) (fields : List String) (impl : Option Outcome)
    (model : Outcome) : String :=
  let w := st.world
  let its := w.its
  let modelOk := match model with | .ok _ _ _ => true | _ => false
  let same := match impl, model with
    | some (.ok r e p), .ok r' e' p' => r == r' && e == e' && p == p'
    | some (.okNat n), .okNat m => n == m
    | some .fail, .fail => true
    | some .nopending, .nopending => true
    | some .okPlain, .okPlain => true
    | _, _ => false
  match fields with
  | ["tx", src, dst, func, egld, esdt, args] =>
    match ofHex src, ofHex dst, parseArgs args with
    | some src, some dst, some args =>
      -- C17, first sentence: EVERY user operation that attaches value to a call of the service — an operation the rules
      -- refuse (the value never leaves the sender) must not be accepted with the value staying behind
      if prop == "C17" && w.kind dst == some .its && !itsObserves prop func && (egld != "0" || esdt != "-") then
        (if implOk impl && !modelOk then "VIOLATION:value-carrying-operation-accepted-outside-rules" else "ok")
      else
      -- C04: tokens are handed out by a manager only on behalf of the service (`giveToken` restricted to it)
      if prop == "C04" && w.kind dst == some .tokenManager && (func == "giveToken" || func == "mint") then
        (if implOk impl && !modelOk then "VIOLATION:tokens-handed-out-by-a-manager-outside-the-service" else "ok")
      else
      -- C18: the issuing endpoint of a token manager, called directly (not through the service)
      if prop == "C18" && w.kind dst == some .tokenManager && func == "deployInterchainToken" then
        (if implOk impl && !modelOk then "VIOLATION:token-issuance-accepted-outside-rules"
         else if implOk impl && modelOk && !same then "VIOLATION:token-issuance-effects-differ" else "ok")
      else
      if w.kind dst != some .its then "ok" else
      if !itsObserves prop func then "ok" else
      -- C20: nothing pausable may go through while paused
      if prop == "C20" && its.paused && pausable.contains func && implOk impl then
        s!"VIOLATION:{func}-succeeded-while-paused"
      else if prop == "C20" && implOk impl && !modelOk then
        (if func == "pause" || func == "unpause" || func == "setTrustedAddress" || func == "removeTrustedAddress"
         then "VIOLATION:owner-only-operation-accepted-from-other-caller"
         else if func == "setFlowLimits" then "VIOLATION:flow-limit-set-without-operator-role"
         else if func == "acceptOperatorship" || func == "transferOperatorship" || func == "proposeOperatorship" then
           "VIOLATION:operator-role-obtained-outside-the-hand-over-rules"
         else "ok")
      else if prop == "C13" && implOk impl then
        (if func == "execute" then
          match args with
          | [chain, _, srcAddr, payload] =>
            if !Its.isTrustedAddress its chain srcAddr || (Its.getExecuteParams its chain payload).isNone then
              "VIOLATION:inbound-message-processed-off-trusted-route" else "ok"
          | _ => "ok"
         else if func == "setTrustedAddress" || func == "removeTrustedAddress" then
          (if src != w.owner dst then "VIOLATION:trusted-table-changed-by-non-owner" else "ok")
         else
          -- outbound: the gateway event must go to the route the table prescribes
          let destChain := args.getD 1 []
          let calls := (implEvents impl).filter (·.name == "contract_call_event")
          match Its.getCallParams its destChain [] with
          | none => "VIOLATION:outbound-message-sent-without-trusted-route"
          | some (c, a, _) =>
            if calls.all (fun e => e.topics.getD 1 [] == c && e.topics.getD 2 [] == a) && calls.length == 1 then "ok"
            else "VIOLATION:outbound-message-not-sent-to-trusted-peer")
      else if prop == "C08" && func == "execute" && !implOk impl && modelOk then
        -- "the message stays approved and can be retried": an approved, unlocked transfer with data must start
        "VIOLATION:approved-unlocked-transfer-with-data-refused"
      else if prop == "C19" && func == "revokeDeployRemoteInterchainToken" && !implOk impl && modelOk then
        -- "can be revoked by its author": the rules let every caller clear the entry under his own key, whatever
        -- happened to the chain or to the minter role since
        "VIOLATION:revocation-by-its-author-refused"
      else if implOk impl && !modelOk then
        match prop with
        | "C04" => "VIOLATION:inbound-execute-accepted-outside-approved-trusted-once-rules"
        | "C05" => "VIOLATION:outbound-transfer-accepted-outside-rules"
        | "C08" => "VIOLATION:transfer-with-data-started-outside-rules"
        | "C14" => "VIOLATION:registration-accepted-for-bound-or-foreign-token-id"
        | "C17" => "VIOLATION:gas-carrying-operation-accepted-outside-rules"
        | "C18" => "VIOLATION:deployment-step-accepted-outside-rules"
        | "C19" => "VIOLATION:remote-deploy-with-minter-accepted-without-exact-approval"
        | _ => "ok"
      else if implOk impl && modelOk && !same then
        match prop with
        | "C04" => "VIOLATION:inbound-release-effects-differ"
        | "C05" => "VIOLATION:outbound-message-or-gas-event-not-faithful"
        | "C08" => "VIOLATION:transfer-with-data-dispatch-differs"
        | "C14" => "VIOLATION:token-id-or-manager-binding-differs"
        | "C17" => "VIOLATION:gas-forwarding-differs"
        | "C18" => "VIOLATION:deployment-step-effects-differ"
        | "C19" => if func == "approveDeployRemoteInterchainToken" || func == "revokeDeployRemoteInterchainToken"
                   then "VIOLATION:approval-or-revocation-effects-differ" else "VIOLATION:remote-deploy-payload-differs"
        | _ => "ok"
      else "ok"
    | _, _, _ => "ok"
  | ["query", dst, func, _args] =>
    match ofHex dst with
    | some _ =>
      if !itsObservesQuery prop func || same then "ok" else
      s!"VIOLATION:{prop}-view-{func}-differs-from-rules"
    | none => "ok"
  | ["bal", _a, _tok] =>
    if ["C04", "C05", "C08", "C17", "C18"].contains prop && !same then
      s!"VIOLATION:{prop}-balances-not-conserved" else "ok"
  | ["cb", id] =>
    match id.toNat? with
    | some id =>
      match World.findPending w.pending id with
      | some p =>
        match p.kind, p.result with
        | .itsExecute _ _ _ _ _ _ _ amount, some (okFlag, _) =>
          if prop == "C20" then
            -- a pause never reaches into a delivery that is already under way: its callback completes (and after
            -- unpausing everything is as before)
            (if !implOk impl && modelOk then "VIOLATION:transfer-with-data-callback-refused-by-a-pause-in-the-window" else "ok")
          else
          if prop != "C08" then "ok" else
          if !implOk impl then
            (if !modelOk && !okFlag && amount > 0 then
               "VIOLATION:tokens-left-in-service-take-back-rejected-in-failure-callback"
             else "VIOLATION:transfer-with-data-callback-failed")
          else if !same then "VIOLATION:transfer-with-data-callback-effects-differ" else "ok"
        | .itsMetadata _ _ gas _, some _ =>
          if prop == "C13" then
            -- the metadata message leaves in the callback: it must go to the hub's trusted address as the table
            -- says NOW (when the message leaves), never to a stale or absent entry
            (if !implOk impl then "ok" else
             let calls := (implEvents impl).filter (·.name == "contract_call_event")
             if calls.isEmpty then "ok" else
             let hubAddr := its.trusted Its.hubChain
             if hubAddr.isEmpty then "VIOLATION:outbound-message-sent-without-trusted-route"
             else if calls.all (fun e => e.topics.getD 1 [] == Its.hubChain && e.topics.getD 2 [] == hubAddr) &&
                     calls.length == 1 then "ok"
             else "VIOLATION:outbound-message-not-sent-to-trusted-peer")
          else
          if prop != "C17" then "ok" else
          if !implOk impl && gas > 0 then
            (if !modelOk then "VIOLATION:gas-value-stranded-metadata-callback-failed"
             else "VIOLATION:gas-value-stranded-callback-failed-unexpectedly")
          else if implOk impl && !same then "VIOLATION:gas-callback-effects-differ" else "ok"
        | .itsDeployRemote _ _ destChain _ _ gas _, some _ =>
          if prop == "C13" then
            -- the deployment message leaves in the callback: the route is the one the table prescribes NOW
            (if !implOk impl then "ok" else
             let calls := (implEvents impl).filter (·.name == "contract_call_event")
             if calls.isEmpty then "ok" else
             match Its.getCallParams its destChain [] with
             | none => "VIOLATION:outbound-message-sent-without-trusted-route"
             | some (c, a, _) =>
               if calls.all (fun e => e.topics.getD 1 [] == c && e.topics.getD 2 [] == a) && calls.length == 1 then "ok"
               else "VIOLATION:outbound-message-not-sent-to-trusted-peer")
          else
          if prop == "C20" then
            (if its.paused && implOk impl && !modelOk then "VIOLATION:remote-deployment-completed-while-paused" else "ok")
          else
          if prop != "C17" then "ok" else
          if !implOk impl && gas > 0 then
            (if !modelOk then "VIOLATION:gas-value-stranded-remote-deploy-callback-failed"
             else "VIOLATION:gas-value-stranded-callback-failed-unexpectedly")
          else if implOk impl && !same then "VIOLATION:gas-callback-effects-differ" else "ok"
        | .tmIssue tm, some (okFlag, _) =>
          if prop != "C18" then "ok" else
          if implOk impl && okFlag && !(w.tms tm).tokenIdentifier.isEmpty &&
              (implEvents impl).any (·.name == "interchain_token_deployed_event") then
            "VIOLATION:recorded-token-replaced-by-second-issuance"
          else if implOk impl && !same then "VIOLATION:issuance-callback-effects-differ" else "ok"
        | _, _ => "ok"
      | none => "ok"
    | none => "ok"
  | _ => "ok"

def judge (prop : String) (st : DState) (fields : List String) (impl : Option Outcome)
    (model : Outcome) (implMsg : String) : String :=
  match prop with
  | "C04" | "C05" | "C08" | "C13" | "C14" | "C17" | "C18" | "C19" | "C20" => judgeIts prop st fields impl model
  | "C11" | "C12" | "C16" => judgeGov prop st fields impl model
  | "C09" | "C10" => judgeTm prop st fields impl model implMsg
  | "C15" => judgeGas st fields impl
  | "C01" | "C02" | "C03" => judgeGateway prop st fields impl
  | _ => "ok"

/-- structural agreement of an implementation outcome with the model's -/
def agree (impl : Option Outcome) (model : Outcome) : Bool :=
  match impl, model with
  | some a, b => a == b
  | none, _ => false

/-- same status (accepted / rejected / nothing pending), whatever the returned values and events -/
def statusAgree (impl : Option Outcome) (model : Outcome) : Bool :=
  match impl, model with
  | some .fail, .fail => true
  | some .fail, _ => false
  | some .nopending, .nopending => true
  | some .nopending, _ => false
  | some _, .fail => false
  | some _, .nopending => false
  | some _, _ => true
  | none, _ => false

end Axelar.Driver
