/-
  Driver side of the world ops: parse one op line, step the world model, give the outcome.
-/
import Axelar.Driver.Proto
import Axelar.Model.Chain
import Axelar.Basic.Keccak
namespace Axelar.Driver
open Axelar

structure DState where
  world : World := {}
  /-- signatures declared valid by the harness (`note sig <sig> <key> <msg>`): the model's
      `verify` is membership in this table; the harness realises them with real ed25519 -/
  sigs : List (Bytes × Bytes × Bytes) := []
  /-- ghost history for the monitors (never read by the model): proposal hashes whose last
      authenticated command was a cancel (time locks / operator approvals) -/
  cancelledTL : List Bytes := []
  cancelledOp : List Bytes := []
  /-- … and among those, the ones a failure callback has written back since the cancel -/
  restoredTL : List Bytes := []
  restoredOp : List Bytes := []

def crypto (st : DState) : Crypto :=
  { H := Keccak.keccak256,
    verify := fun key msg sig => st.sigs.any fun (s, k, m) => s == sig && k == key && m == msg }

def parseEsdtB (s : String) : Option (List (Bytes × Nat × Nat)) :=
  (parseEsdt s).map fun l => l.map fun (t, n, a) => (strBytes t, n, a)

/-- returns the new state and the model outcome -/
def worldOp (st : DState) (fields : List String) : DState × Outcome :=
  let C := crypto st
  match fields with
  | ["reset"] => ({}, .okPlain)
  | ["note", "sig", s, k, m] =>
    match ofHex s, ofHex k, ofHex m with
    | some s, some k, some m => ({ st with sigs := (s, k, m) :: st.sigs }, .okPlain)
    | _, _, _ => (st, .okPlain)
  | "note" :: _ => (st, .okPlain)
  -- `wipe <addr>`: deletes storage the reference sources do not have; the model has none
  | ["wipe", _] => (st, .okPlain)
  | ["acct", a, egld, esdt] =>
    match ofHex a, egld.toNat?, parseEsdtB esdt with
    | some a, some e, some es =>
      let w := st.world
      let acc := w.accts a
      let esdt' := es.foldl (fun f (t, n, amt) => upd f (esdtKey t n) amt) acc.esdt
      ({ st with world := { w with accts := upd w.accts a { egld := e, esdt := esdt' } } }, .okPlain)
    | _, _, _ => (st, .fail)
  | ["roles", a, tok, rs] =>
    match ofHex a with
    | some a =>
      let names := rs.splitOn ","
      let w := st.world
      let t := strBytes tok
      ({ st with world := { w with mintRole := upd w.mintRole (a, t) (names.contains "ESDTRoleLocalMint"),
                                   burnRole := upd w.burnRole (a, t) (names.contains "ESDTRoleLocalBurn") } }, .okPlain)
    | none => (st, .fail)
  | ["newaddr", creator, nonce, addr] =>
    match ofHex creator, nonce.toNat?, ofHex addr with
    | some c, some n, some a =>
      let w := st.world
      ({ st with world := { w with newAddrs := upd w.newAddrs (c, n) a } }, .okPlain)
    | _, _, _ => (st, .fail)
  | ["time", n] =>
    match n.toNat? with
    | some n => ({ st with world := { st.world with now := n } }, .okPlain)
    | none => (st, .fail)
  | ["deploy", kind, owner, addr, args] =>
    match ofHex owner, ofHex addr, parseArgs args with
    | some o, some a, some args =>
      let (w, out) := World.deploy C st.world kind o a args
      ({ st with world := w }, out)
    | _, _, _ => (st, .fail)
  | ["tx", src, dst, func, egld, esdt, args] =>
    match ofHex src, ofHex dst, egld.toNat?, parseEsdtB esdt, parseArgs args with
    | some s, some d, some e, some es, some args =>
      let (w, out) := World.tx C st.world s d func e es args
      ({ st with world := w }, out)
    | _, _, _, _, _ => (st, .fail)
  | ["query", dst, func, args] =>
    match ofHex dst, parseArgs args with
    | some d, some args => (st, World.query C st.world d func args)
    | _, _ => (st, .fail)
  | ["deliver", id, "real"] =>
    match id.toNat? with
    | some id => let (w, o) := World.deliver C st.world id .real; ({ st with world := w }, o)
    | none => (st, .fail)
  | ["deliver", id, "fail"] =>
    match id.toNat? with
    | some id => let (w, o) := World.deliver C st.world id .fail; ({ st with world := w }, o)
    | none => (st, .fail)
  | ["deliver", id, "fail", _code] =>
    -- the VM return code of the failing callee: a failure is a failure, whatever the code
    match id.toNat? with
    | some id => let (w, o) := World.deliver C st.world id .fail; ({ st with world := w }, o)
    | none => (st, .fail)
  | ["deliver", id, "ok", vals] =>
    match id.toNat?, parseArgs vals with
    | some id, some vals => let (w, o) := World.deliver C st.world id (.ok vals); ({ st with world := w }, o)
    | _, _ => (st, .fail)
  | ["cb", id] =>
    match id.toNat? with
    | some id => let (w, o) := World.callback C st.world id; ({ st with world := w }, o)
    | none => (st, .fail)
  | ["bal", a, tok] =>
    match ofHex a with
    | some a =>
      let acc := st.world.accts a
      let key := match tok.splitOn "/" with
        | [t, n] => esdtKey (strBytes t) (n.toNat?.getD 0)
        | _ => strBytes tok
      (st, .okNat (if tok == "EGLD" then acc.egld else acc.esdt key))
    | none => (st, .fail)
  | _ => (st, .fail)

end Axelar.Driver
