/-
  C10 — custody over every history of a token manager: a lock/unlock manager's holdings always equal
  everything taken minus everything given; a mint/burn manager holds nothing and changes the supply by exactly
  the given, taken, directly minted and directly burned amounts.
-/
import Axelar.Props.C10
import Axelar.Props.C09
namespace Axelar.Props.C10
open Axelar Axelar.TokenManager Codec

/-- amount of the ESDT `t` (nonce 0) attached to a call: it is in the manager's balance when the endpoint runs -/
def received (t : Bytes) (ctx : Ctx) : Nat :=
  (ctx.esdt.map fun (x : Bytes × Nat × Nat) => if x.1 = t ∧ x.2.1 = 0 then x.2.2 else 0).sum

/-- net change of the supply of `t` caused by a list of effects (local mint − local burn) -/
def supplyEffect (t : Bytes) : List Eff → Int
  | [] => 0
  | .send _ _ _ :: r => supplyEffect t r
  | .mint tok amt :: r => (if tok = t then (amt : Int) else 0) + supplyEffect t r
  | .burn tok amt :: r => (if tok = t then -(amt : Int) else 0) + supplyEffect t r

/-- total of `t` sent out by a list of effects -/
def sentOut (t : Bytes) : List Eff → Nat
  | [] => 0
  | .send _ tok amt :: r => (if tok = some t then amt else 0) + sentOut t r
  | .mint _ _ :: r => sentOut t r
  | .burn _ _ :: r => sentOut t r

/-- a token manager with ghost accounting (never read by the contract): the manager's own holdings of its
    token as moved by its endpoint calls, the net supply change it caused, and the running totals of the
    amounts taken, given, directly minted and directly burned -/
structure Custody where
  st : State
  holdings : Int := 0
  minted : Int := 0
  taken : Nat := 0
  given : Nat := 0
  directMint : Nat := 0
  directBurn : Nat := 0

/-- the ghost accounting after a successful call with outcome `out` -/
def next (t : Bytes) (h : Custody) (c : C09.TCall) (out : Out) : Custody :=
  { st := out.st,
    holdings := h.holdings + received t c.ctx + netEffect t out.effects,
    minted := h.minted + supplyEffect t out.effects,
    taken := h.taken + (if c.func = "takeToken" then received t c.ctx else 0),
    given := h.given + (if c.func = "giveToken" then sentOut t out.effects else 0),
    directMint := h.directMint + (if c.func = "mint" then sentOut t out.effects else 0),
    directBurn := h.directBurn + (if c.func = "burn" then received t c.ctx else 0) }

def stepCustody (t : Bytes) (h : Custody) (c : C09.TCall) : Custody :=
  match call h.st c.ctx c.func c.args with
  | .error _ => h
  | .ok out => next t h c out

def runCustody (t : Bytes) (h : Custody) (cs : List C09.TCall) : Custody := cs.foldl (stepCustody t) h

/-- a successful call is one of the three payable endpoints, or carries no payment at all -/
theorem call_payment (st : State) (ctx : Ctx) (func : String) (args : List Bytes) (out : Out)
    (h : call st ctx func args = .ok out) :
    (func = "takeToken" ∧ takeToken st ctx = .ok out) ∨ (func = "burn" ∧ burn st ctx = .ok out) ∨
    (func = "deployInterchainToken" ∧ ∃ m n s d, deployInterchainToken st ctx m n s d = .ok out) ∨
    notPayable ctx = true := by
  unfold call at h
  split at h
  · exact Or.inl ⟨rfl, h⟩
  · exact Or.inr (Or.inl ⟨rfl, h⟩)
  · split at h
    · exact Or.inr (Or.inr (Or.inl ⟨rfl, _, _, _, _, h⟩))
    · cases h
  · split at h
    · cases h
    · rename_i hn
      exact Or.inr (Or.inr (Or.inr (by simpa using hn)))

theorem received_of_notPayable (t : Bytes) (ctx : Ctx) (h : notPayable ctx = true) : received t ctx = 0 := by
  simp only [notPayable, Bool.and_eq_true, decide_eq_true_eq, List.isEmpty_iff] at h
  simp [received, h.2]

/-- `require_correct_token` accepts exactly one fungible payment in the manager's token -/
theorem received_of_correct (st : State) (ctx : Ctx) (t : Bytes) (tok : Tok) (amount : Nat)
    (ht : tokOfBytes st.tokenIdentifier = some t) (h : requireCorrectToken st ctx = .ok (tok, amount)) :
    tok = some t ∧ received t ctx = amount := by
  unfold requireCorrectToken at h
  split at h
  · cases h
  · rename_i tok' amt he
    split at h
    · rename_i heq
      cases h
      have htk : tok = some t := by rw [← ht]; simpa using heq
      refine ⟨htk, ?_⟩
      subst htk
      unfold egldOrSingleFungibleEsdt at he
      split at he
      · cases he
      · rename_i tk am hes
        split at he
        · cases he
          simp [received, hes]
        · cases he
      · cases he
    · cases h

/-- the kind and the recorded token of a manager never change once the token is recorded -/
theorem call_keeps_kind_and_token (st : State) (ctx : Ctx) (func : String) (args : List Bytes) (out : Out)
    (h : call st ctx func args = .ok out) (hset : st.tokenIdentifier ≠ []) :
    out.st.implType = st.implType ∧ out.st.tokenIdentifier = st.tokenIdentifier := by
  rcases call_cases st ctx func args out h with
    ⟨d, a, _, hg⟩ | ⟨_, ht⟩ | ⟨l, _, hs⟩ | ⟨a, amt, _, hm⟩ | ⟨_, hb⟩ | ⟨m, n, s, d, _, hd⟩ | ⟨r, hr, hro⟩ | ⟨he, _, _⟩
  · obtain ⟨_, hf, _⟩ := giveToken_spec st ctx d a out hg
    rcases addFlowIn_spec _ _ _ _ hf with ⟨_, e1⟩ | ⟨_, _, _, e1⟩ <;> rw [e1] <;> exact ⟨rfl, rfl⟩
  · obtain ⟨_, _, tok, amount, _, hf, _, _⟩ := takeToken_spec st ctx out ht
    rcases addFlowOut_spec _ _ _ _ hf with ⟨_, e1⟩ | ⟨_, _, _, e1⟩ <;> rw [e1] <;> exact ⟨rfl, rfl⟩
  · unfold setFlowLimit at hs
    split at hs
    · cases hs
    · cases hs; exact ⟨rfl, rfl⟩
  · unfold mint at hm
    repeat' (first | (cases hm; done) | (cases hm; exact ⟨rfl, rfl⟩) | split at hm)
  · unfold burn at hb
    repeat' (first | (cases hb; done) | (cases hb; exact ⟨rfl, rfl⟩) | split at hb)
  · unfold deployInterchainToken at hd
    split at hd
    · cases hd
    · split at hd
      · cases hd
      · split at hd
        · cases hd
        · rename_i hempty
          exfalso; apply hset
          simpa using hempty
  · have := (roleStep_same st ctx func r out hr hro).1
    exact ⟨this.implType, this.tokenIdentifier⟩
  · rw [he]; exact ⟨rfl, rfl⟩

/-- the accounting invariant -/
structure CustodyInv (t : Bytes) (st0 : State) (h : Custody) : Prop where
  kind : h.st.implType = st0.implType
  token : h.st.tokenIdentifier = st0.tokenIdentifier
  /-- conservation, whatever the kind: holdings − supply change = taken − given − directly minted + directly burned -/
  conserve : h.holdings - h.minted = (h.taken : Int) - h.given - h.directMint + h.directBurn
  /-- a lock/unlock manager never touches the supply -/
  lock : isMintBurnKind st0.implType = false → h.minted = 0 ∧ h.directMint = 0 ∧ h.directBurn = 0
  /-- a mint/burn manager holds nothing -/
  mb : isMintBurnKind st0.implType = true → h.holdings = 0

section cases
variable (t : Bytes) (st0 : State) (h : Custody) (c : C09.TCall) (out : Out)

/-- `takeToken` keeps the accounting -/
theorem take_inv (hi : CustodyInv t st0 h) (ht' : tokOfBytes h.st.tokenIdentifier = some t)
    (k1 : out.st.implType = h.st.implType) (k2 : out.st.tokenIdentifier = h.st.tokenIdentifier)
    (hf : c.func = "takeToken") (htk : takeToken h.st c.ctx = .ok out) : CustodyInv t st0 (next t h c out) := by
  obtain ⟨_, _, tok, amount, hreq, _, _, hcase⟩ := takeToken_spec h.st c.ctx out htk
  obtain ⟨htok, hrec⟩ := received_of_correct h.st c.ctx t tok amount ht' hreq
  rw [hi.kind] at hcase
  rcases hcase with ⟨hk, t', htt, heff⟩ | ⟨hk, heff⟩
  · have : t' = t := by rw [htok] at htt; exact (Option.some.inj htt).symm
    subst this
    refine ⟨k1.trans hi.kind, k2.trans hi.token, ?_, (fun hl => by rw [hk] at hl; cases hl), fun _ => ?_⟩
    · have := hi.conserve
      simp only [next, hf, heff, hrec, netEffect, supplyEffect, sentOut, if_true] at *
      simp; omega
    · have := hi.mb hk
      simp only [next, heff, hrec, netEffect, if_true]; simp; omega
  · refine ⟨k1.trans hi.kind, k2.trans hi.token, ?_, fun hl => ?_, (fun hm => by rw [hk] at hm; cases hm)⟩
    · have := hi.conserve
      simp only [next, hf, heff, hrec, netEffect, supplyEffect, sentOut, if_true] at *
      simp; omega
    · have := hi.lock hl
      simp only [next, hf, heff, supplyEffect]; simpa using this

/-- the `burn` endpoint (native managers only) keeps the accounting -/
theorem burn_inv (hi : CustodyInv t st0 h) (ht' : tokOfBytes h.st.tokenIdentifier = some t)
    (k1 : out.st.implType = h.st.implType) (k2 : out.st.tokenIdentifier = h.st.tokenIdentifier)
    (hf : c.func = "burn") (hb : burn h.st c.ctx = .ok out) : CustodyInv t st0 (next t h c out) := by
  have hsh : h.st.implType = 0 ∧ ∃ amount, received t c.ctx = amount ∧ out.effects = [.burn t amount] := by
    unfold burn at hb
    split at hb
    · cases hb
    · rename_i h0
      split at hb
      · cases hb
      · split at hb
        · cases hb
        · split at hb
          · cases hb
          · rename_i tok amount hreq
            obtain ⟨htok, hrec⟩ := received_of_correct h.st c.ctx t tok amount ht' hreq
            subst htok
            simp only at hb
            cases hb
            exact ⟨by simpa using h0, amount, hrec, rfl⟩
  obtain ⟨h0, amount, hrec, heff⟩ := hsh
  have hk : isMintBurnKind st0.implType = true := by rw [← hi.kind, h0]; rfl
  refine ⟨k1.trans hi.kind, k2.trans hi.token, ?_, (fun hl => by rw [hk] at hl; cases hl), fun _ => ?_⟩
  · have := hi.conserve
    simp only [next, hf, heff, hrec, netEffect, supplyEffect, sentOut, if_true] at *
    simp; omega
  · have := hi.mb hk
    simp only [next, heff, hrec, netEffect, if_true]; simp; omega

/-- a call that moves nothing and carries no payment in `t` keeps the accounting -/
theorem quiet_inv (hi : CustodyInv t st0 h)
    (k1 : out.st.implType = h.st.implType) (k2 : out.st.tokenIdentifier = h.st.tokenIdentifier)
    (hr0 : received t c.ctx = 0) (heff : out.effects = []) : CustodyInv t st0 (next t h c out) := by
  refine ⟨k1.trans hi.kind, k2.trans hi.token, ?_, fun hl => ?_, fun hm => ?_⟩
  · have := hi.conserve
    simp only [next, heff, hr0, netEffect, supplyEffect, sentOut] at *
    simp; omega
  · have := hi.lock hl
    simp only [next, heff, supplyEffect, sentOut, hr0]; simpa using this
  · have := hi.mb hm
    simp only [next, heff, hr0, netEffect]; simp; omega

end cases

theorem deploy_refused (st : State) (ctx : Ctx) (m : Option Bytes) (n s : Bytes) (d : Nat) (out : Out)
    (hset : st.tokenIdentifier ≠ []) (hd : deployInterchainToken st ctx m n s d = .ok out) : False := by
  unfold deployInterchainToken at hd
  split at hd
  · cases hd
  · split at hd
    · cases hd
    · split at hd
      · cases hd
      · rename_i hempty
        apply hset
        simpa using hempty

theorem step_custodyInv (t : Bytes) (st0 : State) (hset : st0.tokenIdentifier ≠ [])
    (ht : tokOfBytes st0.tokenIdentifier = some t) (h : Custody) (c : C09.TCall)
    (hi : CustodyInv t st0 h) : CustodyInv t st0 (stepCustody t h c) := by
  unfold stepCustody
  cases hc : call h.st c.ctx c.func c.args with
  | error e => exact hi
  | ok out =>
    simp only
    have hset' : h.st.tokenIdentifier ≠ [] := by rw [hi.token]; exact hset
    have ht' : tokOfBytes h.st.tokenIdentifier = some t := by rw [hi.token]; exact ht
    obtain ⟨k1, k2⟩ := call_keeps_kind_and_token h.st c.ctx c.func c.args out hc hset'
    rcases call_payment h.st c.ctx c.func c.args out hc with ⟨hf, htk⟩ | ⟨hf, hb⟩ | ⟨_, m, n, s, d, hd⟩ | hnp
    · exact take_inv t st0 h c out hi ht' k1 k2 hf htk
    · exact burn_inv t st0 h c out hi ht' k1 k2 hf hb
    · exact (deploy_refused h.st c.ctx m n s d out hset' hd).elim
    · -- no payment at all
      have hr0 := received_of_notPayable t c.ctx hnp
      rcases call_cases h.st c.ctx c.func c.args out hc with
        ⟨d, a, hf, hg⟩ | ⟨hf, htk⟩ | ⟨l, hf, hs⟩ | ⟨a, amt, hf, hm⟩ | ⟨hf, hb⟩ | ⟨m, n, s, d, hf, hd⟩ | ⟨r, hr, hro⟩ | ⟨he, heff, _⟩
      · -- giveToken
        obtain ⟨_, _, _, _, hcase⟩ := giveToken_spec h.st c.ctx d a out hg
        rw [hi.kind] at hcase
        rcases hcase with ⟨hk, t', htt, heff⟩ | ⟨hk, heff⟩
        · have : t' = t := by rw [ht'] at htt; exact (Option.some.inj htt).symm
          subst this
          refine ⟨k1.trans hi.kind, k2.trans hi.token, ?_, (fun hl => by rw [hk] at hl; cases hl), fun _ => ?_⟩
          · have := hi.conserve
            simp only [next, hf, heff, hr0, netEffect, supplyEffect, sentOut, if_true] at *
            simp; omega
          · have := hi.mb hk
            simp only [next, heff, hr0, netEffect, if_true]; simp; omega
        · rw [ht'] at heff
          refine ⟨k1.trans hi.kind, k2.trans hi.token, ?_, fun hl => ?_, (fun hm => by rw [hk] at hm; cases hm)⟩
          · have := hi.conserve
            simp only [next, hf, heff, hr0, netEffect, supplyEffect, sentOut, if_true] at *
            simp; omega
          · have := hi.lock hl
            simp only [next, hf, heff, supplyEffect]; simpa using this
      · exact take_inv t st0 h c out hi ht' k1 k2 hf htk
      · -- setFlowLimit
        have heff : out.effects = [] := by
          unfold setFlowLimit at hs
          split at hs
          · cases hs
          · cases hs; rfl
        exact quiet_inv t st0 h c out hi k1 k2 hr0 heff
      · -- mint (native managers only)
        have hsh : h.st.implType = 0 ∧ out.effects = [.mint t amt, .send a (some t) amt] := by
          unfold mint at hm
          split at hm
          · cases hm
          · rename_i h0
            split at hm
            · cases hm
            · split at hm
              · cases hm
              · split at hm
                · cases hm
                · rename_i t' htt
                  cases hm
                  have : t' = t := by rw [ht'] at htt; exact (Option.some.inj htt).symm
                  subst this
                  exact ⟨by simpa using h0, rfl⟩
        obtain ⟨h0, heff⟩ := hsh
        have hk : isMintBurnKind st0.implType = true := by rw [← hi.kind, h0]; rfl
        refine ⟨k1.trans hi.kind, k2.trans hi.token, ?_, (fun hl => by rw [hk] at hl; cases hl), fun _ => ?_⟩
        · have := hi.conserve
          simp only [next, hf, heff, hr0, netEffect, supplyEffect, sentOut, if_true] at *
          simp; omega
        · have := hi.mb hk
          simp only [next, heff, hr0, netEffect, if_true]; simp; omega
      · exact burn_inv t st0 h c out hi ht' k1 k2 hf hb
      · exact (deploy_refused h.st c.ctx m n s d out hset' hd).elim
      · -- role operations
        obtain ⟨_, heff, _⟩ := roleStep_same h.st c.ctx c.func r out hr hro
        exact quiet_inv t st0 h c out hi k1 k2 hr0 heff
      · exact quiet_inv t st0 h c out hi k1 k2 hr0 heff

theorem run_custodyInv (t : Bytes) (st0 : State) (hset : st0.tokenIdentifier ≠ [])
    (ht : tokOfBytes st0.tokenIdentifier = some t) (cs : List C09.TCall) (h : Custody)
    (hi : CustodyInv t st0 h) : CustodyInv t st0 (runCustody t h cs) := by
  induction cs generalizing h with
  | nil => exact hi
  | cons c cs ih => exact ih _ (step_custodyInv t st0 hset ht h c hi)

/-- **A lock/unlock manager's holdings always equal everything taken minus everything given** — for every
    history of calls to the manager (any callers, endpoints, arguments, payments, times), from the moment
    its token is recorded.  `holdings` is the manager's own balance of its token as moved by those calls
    (payments attached to accepted calls come in, `send` / `burn` effects go out), starting from zero. -/
theorem lock_unlock_holdings_over_histories (t : Bytes) (st0 : State) (hset : st0.tokenIdentifier ≠ [])
    (ht : tokOfBytes st0.tokenIdentifier = some t) (hk : isMintBurnKind st0.implType = false)
    (cs : List C09.TCall) :
    (runCustody t { st := st0 } cs).holdings =
      ((runCustody t { st := st0 } cs).taken : Int) - (runCustody t { st := st0 } cs).given ∧
    (runCustody t { st := st0 } cs).minted = 0 := by
  have hi := run_custodyInv t st0 hset ht cs { st := st0 }
    ⟨rfl, rfl, by simp, fun _ => ⟨rfl, rfl, rfl⟩, fun _ => rfl⟩
  obtain ⟨hm, hdm, hdb⟩ := hi.lock hk
  have hc := hi.conserve
  rw [hm, hdm, hdb] at hc
  exact ⟨by simpa using hc, hm⟩

/-- **A mint/burn manager holds nothing and changes the supply by exactly the given and taken amounts** (plus,
    on a native manager, what its minters mint and burn directly) — for every history. -/
theorem mint_burn_supply_over_histories (t : Bytes) (st0 : State) (hset : st0.tokenIdentifier ≠ [])
    (ht : tokOfBytes st0.tokenIdentifier = some t) (hk : isMintBurnKind st0.implType = true)
    (cs : List C09.TCall) :
    (runCustody t { st := st0 } cs).holdings = 0 ∧
    (runCustody t { st := st0 } cs).minted =
      ((runCustody t { st := st0 } cs).given : Int) - (runCustody t { st := st0 } cs).taken +
        (runCustody t { st := st0 } cs).directMint - (runCustody t { st := st0 } cs).directBurn := by
  have hi := run_custodyInv t st0 hset ht cs { st := st0 }
    ⟨rfl, rfl, by simp, fun _ => ⟨rfl, rfl, rfl⟩, fun _ => rfl⟩
  have hh := hi.mb hk
  have hc := hi.conserve
  rw [hh] at hc
  exact ⟨hh, by omega⟩

/-- direct mint / burn never happen on a manager that is not native -/
theorem direct_mint_burn_only_native (t : Bytes) (st0 : State) (hset : st0.tokenIdentifier ≠ [])
    (ht : tokOfBytes st0.tokenIdentifier = some t) (hk : isMintBurnKind st0.implType = false)
    (cs : List C09.TCall) :
    (runCustody t { st := st0 } cs).directMint = 0 ∧ (runCustody t { st := st0 } cs).directBurn = 0 :=
  let hi := run_custodyInv t st0 hset ht cs { st := st0 }
    ⟨rfl, rfl, by simp, fun _ => ⟨rfl, rfl, rfl⟩, fun _ => rfl⟩
  ⟨(hi.lock hk).2.1, (hi.lock hk).2.2⟩

/-! ### Non-vacuity (tests): the hypotheses are satisfiable — a lock/unlock manager (type 2) and a native one (type 0)
    with a recorded ESDT token; the per-call deltas on a concrete take / give pair -/
example : isMintBurnKind 2 = false ∧ isMintBurnKind 0 = true ∧ ([84] : Bytes) ≠ [] := by decide
example : received [84] ⟨[1], [9], 0, 0, [([84], 0, 5)]⟩ = 5 ∧
    netEffect [84] [.send [7] (some [84]) 3] = -3 ∧ sentOut [84] [.send [7] (some [84]) 3] = 3 ∧
    supplyEffect [84] [.mint [84] 4, .send [7] (some [84]) 4] = 4 := by decide

end Axelar.Props.C10
