/-
  C16 — the credits ledger over every history (kept in its own file: it builds on the per-step theorems
  of C16.lean through Proofs/GovLedger.lean).
-/
import Axelar.Proofs.GovLedger
namespace Axelar.Props.C16
open Axelar Axelar.Governance Codec

/-- **At any time the outstanding credits equal what callers attached to failed dispatches minus what they
    have withdrawn** — for every history: any sequence of endpoint calls (by anybody, with any arguments and
    payments), authenticated commands (against any gateway state) and callbacks of the dispatches in
    flight (each once, in any order, with any outcome), starting from a contract with no credits.
    `failedAttached` adds, at each failure callback, what the dispatching transaction's caller had attached
    (recorded when the dispatch was registered); `withdrawn` adds what each withdrawal sent out. -/
theorem credits_ledger_over_histories (C : Crypto) (st0 : State) (h0 : ∀ k, st0.refunds k = 0)
    (ops : List GOp) (key : RefundKey) :
    (runLed C { st := st0 } ops).st.refunds key + (runLed C { st := st0 } ops).withdrawn key =
      (runLed C { st := st0 } ops).failedAttached key :=
  (run_ledInv C ops { st := st0 } ⟨fun k => by simp [h0], fun p hp => by simp at hp⟩).eq key

/-- **A withdrawal can never pay more than was credited and not yet withdrawn**: what a user has withdrawn in a
    token never exceeds what that user attached to failed dispatches in that token. -/
theorem withdrawn_never_exceeds_failed_attachments (C : Crypto) (st0 : State) (h0 : ∀ k, st0.refunds k = 0)
    (ops : List GOp) (key : RefundKey) :
    (runLed C { st := st0 } ops).withdrawn key ≤ (runLed C { st := st0 } ops).failedAttached key := by
  have := credits_ledger_over_histories C st0 h0 ops key
  omega

/-- every dispatch in flight remembers exactly the caller and payments of the transaction that registered it -/
theorem inflight_dispatches_remember_their_payments (C : Crypto) (st0 : State) (ops : List GOp)
    (h0 : ∀ k, st0.refunds k = 0) :
    ∀ p ∈ (runLed C { st := st0 } ops).inflight, p.1.payments = p.2.2 ∧ p.1.caller = p.2.1 :=
  (run_ledInv C ops { st := st0 } ⟨fun k => by simp [h0], fun p hp => by simp at hp⟩).mem

/-! ### Non-vacuity (test): a failed dispatch with 7 EGLD attached is credited -/
example :
    let C : Crypto := ⟨fun b => b, fun _ _ _ => true⟩
    let st0 : State := { gateway := [1], minDelay := 0, govChain := [1], govAddress := [1], operator := [9] }
    let d : Dispatch := ⟨[5], [], 0, [], [7], 3, [8], .egld 7, false⟩
    let h1 : Led := { st := st0, inflight := [(d, [8], .egld 7)] }
    let h2 := runLed C h1 [.cb d false []]
    h2.failedAttached ([8], strBytes "EGLD", 0) = 7 ∧ h2.st.refunds ([8], strBytes "EGLD", 0) = 7 ∧
    h2.inflight = [] := by
  simp [runLed, stepLed, callback, creditPayments, attached, upd, strBytes]

end Axelar.Props.C16
