/-
  C08 at chain level — the three separately scheduled steps of an inbound transfer with data as operations of the
  composed world (`World.tx`, `World.deliver`, `World.callback`), tied to the step theorems of `C08.lean`.
-/
import Axelar.Props.C08
namespace Axelar.Props.C08
open Axelar Axelar.ItsW Axelar.Its Codec

/-- **Bridge**: a successful `execute` transaction on the token service (no payment) IS a successful run of the model's
    `execute` on the world before it; the world after the transaction and the calls it registered are those of that run.
    Every function-level theorem about `execute` thereby speaks about whole transactions. -/
theorem tx_execute (C : Crypto) (w w' : World) (sender its sc mid sa payload : Bytes)
    (rs : List Bytes) (evs : List Event) (pd : List PendDesc) (hk : w.kind its = some .its)
    (h : World.tx C w sender its "execute" 0 [] [sc, mid, sa, payload] = (w', .ok rs evs pd)) :
    ∃ tt, execute C (World.itsCtx w sender its 0 []) sc mid sa payload { w := w } = some ((), tt) ∧
      w' = tt.w ∧ pd = tt.pend := by
  unfold World.tx at h
  cases hp : World.pay w sender its 0 [] with
  | none => simp [hp] at h
  | some w1 =>
    have hw1 := pay_zero_eq _ _ _ _ hp
    subst hw1
    simp only [hp, hk] at h
    cases hc : World.callContract C w1 sender its "execute" 0 [] [sc, mid, sa, payload] with
    | none => simp [hc] at h
    | some r =>
      obtain ⟨w2, rs2, evs2, pd2⟩ := r
      simp only [hc, Prod.mk.injEq, Outcome.ok.injEq] at h
      obtain ⟨rfl, _, _, rfl⟩ := h
      unfold World.callContract at hc
      rw [hk] at hc
      simp only [World.runIts] at hc
      have hcall : ItsW.call C (World.itsCtx w1 sender its 0 []) "execute" [sc, mid, sa, payload] =
          (do let _st ← getI
              unit (execute C (World.itsCtx w1 sender its 0 []) sc mid sa payload)) := rfl
      rw [hcall] at hc
      simp only [run_bind, run_getI, unit, run_pure] at hc
      cases he : execute C (World.itsCtx w1 sender its 0 []) sc mid sa payload { w := w1 } with
      | none => simp [he] at hc
      | some v =>
        obtain ⟨u, tt⟩ := v
        cases u
        simp only [he, Option.some.injEq, Prod.mk.injEq] at hc
        obtain ⟨h0, _, _, h2⟩ := hc
        exact ⟨tt, rfl, h0.symm, h2.symm⟩

/-- the same bridge for an `execute` transaction that carries EGLD (the issuing step of a deploy-token message pays the
    issue cost): the payment moves first (`w1` differs from `w` in balances only), then `execute` runs in `w1` -/
theorem tx_execute_paid (C : Crypto) (w w' : World) (sender its sc mid sa payload : Bytes) (egld : Nat)
    (rs : List Bytes) (evs : List Event) (pd : List PendDesc) (hk : w.kind its = some .its)
    (h : World.tx C w sender its "execute" egld [] [sc, mid, sa, payload] = (w', .ok rs evs pd)) :
    ∃ w1 tt, World.pay w sender its egld [] = some w1 ∧ World.BalOnly w w1 ∧
      execute C (World.itsCtx w1 sender its egld []) sc mid sa payload { w := w1 } = some ((), tt) ∧
      w' = tt.w ∧ pd = tt.pend := by
  unfold World.tx at h
  cases hp : World.pay w sender its egld [] with
  | none => simp [hp] at h
  | some w1 =>
    have hb := World.pay_bal _ _ _ _ _ _ hp
    simp only [hp, hk] at h
    cases hc : World.callContract C w1 sender its "execute" egld [] [sc, mid, sa, payload] with
    | none => simp [hc] at h
    | some r =>
      obtain ⟨w2, rs2, evs2, pd2⟩ := r
      simp only [hc, Prod.mk.injEq, Outcome.ok.injEq] at h
      obtain ⟨rfl, _, _, rfl⟩ := h
      unfold World.callContract at hc
      rw [hb.kind, hk] at hc
      simp only [World.runIts] at hc
      have hcall : ItsW.call C (World.itsCtx w1 sender its egld []) "execute" [sc, mid, sa, payload] =
          (do let _st ← getI
              unit (execute C (World.itsCtx w1 sender its egld []) sc mid sa payload)) := rfl
      rw [hcall] at hc
      simp only [run_bind, run_getI, unit, run_pure] at hc
      cases he : execute C (World.itsCtx w1 sender its egld []) sc mid sa payload { w := w1 } with
      | none => simp [he] at hc
      | some v =>
        obtain ⟨u, tt⟩ := v
        cases u
        simp only [he, Option.some.injEq, Prod.mk.injEq] at hc
        obtain ⟨h0, _, _, h2⟩ := hc
        exact ⟨w1, tt, rfl, hb, he, h0.symm, h2.symm⟩

/-- an `execute` of a transfer message that carries data runs the first step (`execute_with_token`) — after checks and an
    event that leave the world alone — for exactly the fields of the decoded payload -/
theorem execute_reaches_the_start (C : Crypto) (cx : ICtx) (sc mid sa payload : Bytes) (t t' : Tx)
    (oc inner : Bytes) (p : Abi.Transfer)
    (hg : getExecuteParams t.w.its sc payload = some (Generated.MESSAGE_TYPE_INTERCHAIN_TRANSFER, oc, inner))
    (hd : Abi.Transfer.decode inner = .ok p) (hdata : p.data.isEmpty = false)
    (h : execute C cx sc mid sa payload t = some ((), t')) :
    ∃ t0, t0.w = t.w ∧ t0.pend = t.pend ∧
      executeWithToken C cx p.destinationAddress oc sc mid sa (C.H payload) p.sourceAddress p.data p.tokenId p.amount t0
        = some ((), t') := by
  simp only [execute, run_bind, run_require, requireNotPaused_run, run_getI] at h
  by_cases he : cx.esdt.isEmpty = true
  · simp only [he, if_true] at h
    cases hp : t.w.its.paused
    · simp only [hp, Bool.false_eq_true, if_false] at h
      by_cases ht : isTrustedAddress t.w.its sc sa = true
      · simp only [ht, if_true, hg, beq_self_eq_true, run_bind, run_require] at h
        by_cases hz : (cx.egld == 0) = true
        · simp only [hz, if_true, processInterchainTransfer, hd, run_bind, run_require] at h
          by_cases hl : p.destinationAddress.length = 32
          · simp only [hl, decide_true, if_true, run_emit, hdata, Bool.false_eq_true, if_false] at h
            refine ⟨{ t with evs := t.evs ++ [⟨cx.self, "interchain_transfer_received_event",
              [p.tokenId, oc, mid, p.sourceAddress, p.destinationAddress, C.H p.data], [encNat p.amount]⟩] }, rfl, rfl, h⟩
          · simp [hl] at h
        · simp [hz] at h
      · simp [ht] at h
    · simp [hp] at h
  · simp [he] at h

/-- **Step 1 as a transaction of the composed world.**  A successful `execute` of a transfer message with data: the gateway
    held the approval for exactly this message, addressed to the service; the message was not locked and is locked
    afterwards; exactly the amount moved from the manager (or was minted) into the service and nothing else moved, for any
    account or asset; and the last call the transaction registered goes to the payload's destination carrying exactly that
    amount of the manager's token. -/
theorem with_data_first_transaction (C : Crypto) (w w' : World) (sender its sc mid sa payload : Bytes)
    (rs : List Bytes) (evs : List Event) (pd : List PendDesc) (oc inner : Bytes) (p : Abi.Transfer)
    (tm : Bytes) (st : TokenManager.State)
    (hk : w.kind its = some .its)
    (hg : getExecuteParams w.its sc payload = some (Generated.MESSAGE_TYPE_INTERCHAIN_TRANSFER, oc, inner))
    (hd : Abi.Transfer.decode inner = .ok p) (hdata : p.data.isEmpty = false)
    (htm : w.its.tmAddress p.tokenId = tm) (hst : w.tms tm = st)
    (hkgw : w.kind w.its.gateway = some .gateway) (hktm : w.kind tm = some .tokenManager)
    (h : World.tx C w sender its "execute" 0 [] [sc, mid, sa, payload] = (w', .ok rs evs pd)) :
    w.gw.messages (sc, mid) = .approved (Gateway.messageHash C sc mid sa its (C.H payload)) ∧
    w.its.lock (sc, mid) = false ∧ w'.its.lock (sc, mid) = true ∧
    World.Led w w' (giveOut st tm p.amount) (World.pt its (TokenManager.tokOfBytes st.tokenIdentifier) p.amount) ∧
    ∃ ds d, pd = ds ++ [d] ∧ d.to = p.destinationAddress ∧
      d.egld = (payOf (TokenManager.tokOfBytes st.tokenIdentifier) p.amount).1 ∧
      d.esdt = (payOf (TokenManager.tokOfBytes st.tokenIdentifier) p.amount).2.map
        (fun q => (World.asciiString q.1, q.2.1, q.2.2)) := by
  obtain ⟨tt, he, rfl, rfl⟩ := tx_execute C w w' sender its sc mid sa payload rs evs pd hk h
  obtain ⟨t0, hw0, hp0, hs⟩ := execute_reaches_the_start C (World.itsCtx w sender its 0 []) sc mid sa payload
    { w := w } tt oc inner p hg hd hdata he
  have hw0' : t0.w = w := hw0
  have hlk := start_needs_approval_and_sets_the_lock C (World.itsCtx w sender its 0 []) p.destinationAddress oc sc mid sa
    (C.H payload) p.sourceAddress p.data p.tokenId p.amount t0 tt (by rw [hw0']; exact hkgw) hs
  obtain ⟨hl, ds, d, hpd, h1, h2, h3⟩ := start_moves_the_amount_into_the_service C (World.itsCtx w sender its 0 [])
    p.destinationAddress oc sc mid sa (C.H payload) p.sourceAddress p.data p.tokenId p.amount t0 tt tm st
    (by rw [hw0']; exact htm) (by rw [hw0']; exact hst) (by rw [hw0']; exact hkgw) (by rw [hw0']; exact hktm) hs
  rw [hw0'] at hlk hl
  exact ⟨hlk.1, hlk.2.1, hlk.2.2, hl, ds, d, hpd, h1, h2, h3⟩

/-- **Bridge for step 3**: a successful callback operation of a delivered transfer-with-data call IS a successful run of
    `execute_with_token_callback` on the world with that pending call removed. -/
theorem callback_runs_the_service_callback (C : Crypto) (w w' : World) (id : Nat) (p : Pending)
    (its sc mid sa ph tid tokRaw : Bytes) (amount : Nat) (okFlag : Bool) (vals rs : List Bytes)
    (evs : List Event) (pd : List PendDesc)
    (hp : World.findPending w.pending id = some p) (hk : p.kind = .itsExecute its sc mid sa ph tid tokRaw amount)
    (hr : p.result = some (okFlag, vals))
    (h : World.callback C w id = (w', .ok rs evs pd)) :
    ∃ tt, executeWithTokenCallback C
        (World.itsCtx { w with pending := w.pending.filter (·.desc.id != id) } p.desc.to its 0 [])
        sc mid sa ph tid tokRaw amount okFlag { w := { w with pending := w.pending.filter (·.desc.id != id) } }
          = some ((), tt) ∧ w' = tt.w := by
  unfold World.callback at h
  simp only [hp, hr, hk] at h
  simp only [World.runIts] at h
  cases hm : executeWithTokenCallback C
      (World.itsCtx { w with pending := w.pending.filter (·.desc.id != id) } p.desc.to its 0 [])
      sc mid sa ph tid tokRaw amount okFlag { w := { w with pending := w.pending.filter (·.desc.id != id) } } with
  | none => simp [hm] at h
  | some v =>
    obtain ⟨u, t'⟩ := v
    cases u
    simp only [hm, Prod.mk.injEq] at h
    exact ⟨t', rfl, h.1.symm⟩

/-- **Step 3 after a successful delivery, as an operation of the composed world**: nothing moves for any account or asset,
    the message is executed at the gateway and unlocked in the service. -/
theorem success_callback_at_chain_level (C : Crypto) (w w' : World) (id : Nat) (p : Pending)
    (its sc mid sa ph tid tokRaw : Bytes) (amount : Nat) (vals rs : List Bytes) (evs : List Event) (pd : List PendDesc)
    (hp : World.findPending w.pending id = some p) (hk : p.kind = .itsExecute its sc mid sa ph tid tokRaw amount)
    (hr : p.result = some (true, vals))
    (hkgw : w.kind w.its.gateway = some .gateway)
    (hpre : w.gw.messages (sc, mid) = .approved (Gateway.messageHash C sc mid sa its ph) ∨
            w.gw.messages (sc, mid) = .executed)
    (h : World.callback C w id = (w', .ok rs evs pd)) :
    World.Led w w' World.nil World.nil ∧ w'.gw.messages (sc, mid) = .executed ∧ w'.its.lock (sc, mid) = false := by
  obtain ⟨tt, hm, rfl⟩ := callback_runs_the_service_callback C w w' id p its sc mid sa ph tid tokRaw amount true vals rs evs pd
    hp hk hr h
  have hl := success_callback_moves_nothing C _ sc mid sa ph tid tokRaw amount _ tt (by exact hkgw) hm
  have he := success_callback_leaves_message_executed C _ sc mid sa ph tid tokRaw amount _ tt (by exact hkgw)
    (by exact hpre) hm
  refine ⟨?_, he.1, he.2⟩
  have h0 : World.Led w { w with pending := w.pending.filter (·.desc.id != id) } World.nil World.nil :=
    World.Led.of_accts rfl
  exact (h0.trans hl).conv (by intro x k; simp [World.plus, World.nil])

/-- **Step 3 after a failed delivery, as an operation of the composed world** (when it goes through — F1 is the case in
    which it does not): exactly the amount returns from the service to the manager's custody, or is burned; nothing else
    moves; the message is unlocked (and, not having been validated, still approved: it can be retried). -/
theorem failure_callback_at_chain_level (C : Crypto) (w w' : World) (id : Nat) (p : Pending)
    (its sc mid sa ph tid tokRaw : Bytes) (amount : Nat) (vals rs : List Bytes) (evs : List Event) (pd : List PendDesc)
    (tm : Bytes) (st : TokenManager.State)
    (hp : World.findPending w.pending id = some p) (hk : p.kind = .itsExecute its sc mid sa ph tid tokRaw amount)
    (hr : p.result = some (false, vals))
    (htm : w.its.tmAddress tid = tm) (hst : w.tms tm = st) (hktm : w.kind tm = some .tokenManager)
    (h : World.callback C w id = (w', .ok rs evs pd)) :
    GasService.tokOfBytes tokRaw = TokenManager.tokOfBytes st.tokenIdentifier ∧
    World.Led w w' (World.pt its (GasService.tokOfBytes tokRaw) amount) (takeIn st tm amount) ∧
    w'.its.lock (sc, mid) = false := by
  obtain ⟨tt, hm, rfl⟩ := callback_runs_the_service_callback C w w' id p its sc mid sa ph tid tokRaw amount false vals rs evs pd
    hp hk hr h
  obtain ⟨htok, hl, hlock⟩ := failure_callback_returns_the_amount C _ sc mid sa ph tid tokRaw amount _ tt tm st
    (by exact htm) (by exact hst) (by exact hktm) hm
  refine ⟨htok, ?_, hlock⟩
  have h0 : World.Led w { w with pending := w.pending.filter (·.desc.id != id) } World.nil World.nil :=
    World.Led.of_accts rfl
  exact (h0.trans hl).conv (by intro x k; simp [World.plus, World.nil, World.itsCtx])

/-! ### Non-vacuity (test): the transfer message type is the one `execute` dispatches on first -/
example : (Generated.MESSAGE_TYPE_INTERCHAIN_TRANSFER == Generated.MESSAGE_TYPE_INTERCHAIN_TRANSFER) = true := by decide

end Axelar.Props.C08
