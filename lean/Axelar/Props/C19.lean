/-
  C19 — ITS remote deploy with a custom minter needs an exact, single-use approval.
-/
import Axelar.Proofs.ItsApprovals
import Axelar.Proofs.BytesLemmas
namespace Axelar.Props.C19
open Axelar Axelar.ItsW Axelar.Its Codec

/-- **Use of an approval**: succeeds exactly when an approval is stored under the key of
    (minter, token id, destination chain) and equals the hash of the requested destination
    minter; it is then cleared (single use) and nothing else changes. -/
theorem use_approval_exact (C : Crypto) (st : State) (minter tokenId chain dm : Bytes) :
    (∀ st', useDeployApproval C st minter tokenId chain dm = some st' →
        st.approvedMinters (deployApprovalKey C minter tokenId chain) = C.H dm ∧
        st.approvedMinters (deployApprovalKey C minter tokenId chain) ≠ [] ∧
        st'.approvedMinters (deployApprovalKey C minter tokenId chain) = [] ∧
        (∀ k, k ≠ deployApprovalKey C minter tokenId chain → st'.approvedMinters k = st.approvedMinters k) ∧
        st'.tmAddress = st.tmAddress ∧ st'.trusted = st.trusted ∧ st'.paused = st.paused) ∧
    (st.approvedMinters (deployApprovalKey C minter tokenId chain) = [] →
        useDeployApproval C st minter tokenId chain dm = none) ∧
    (st.approvedMinters (deployApprovalKey C minter tokenId chain) ≠ C.H dm →
        useDeployApproval C st minter tokenId chain dm = none) := by
  refine ⟨fun st' h => ?_, fun h => ?_, fun h => ?_⟩
  · simp only [useDeployApproval] at h
    split at h
    · rename_i hc
      simp only [Bool.and_eq_true, Bool.not_eq_true', beq_iff_eq] at hc
      cases h
      refine ⟨hc.2, ?_, by simp [upd], fun k hk => by simp [upd, hk], rfl, rfl, rfl⟩
      intro he; rw [he] at hc; simp at hc
    · cases h
  · simp [useDeployApproval, h]
  · simp only [useDeployApproval]
    have : (st.approvedMinters (deployApprovalKey C minter tokenId chain) == C.H dm) = false := by simpa using h
    simp [this]

/-- a used approval cannot be used again -/
theorem approval_single_use (C : Crypto) (st st' : State) (minter tokenId chain dm dm' : Bytes)
    (h : useDeployApproval C st minter tokenId chain dm = some st') :
    useDeployApproval C st' minter tokenId chain dm' = none :=
  (use_approval_exact C st' minter tokenId chain dm').2.1
    ((use_approval_exact C st minter tokenId chain dm).1 st' h).2.2.1

/-- **An approval for one combination never authorises another**: two approval keys agree only
    if minter, token id and destination chain agree — or `H` collides (explicit witness). -/
theorem approval_key_binding (C : Crypto) (m t c m' t' c' : Bytes)
    (hm : m.length = m'.length) (ht : t.length = t'.length)
    (h : deployApprovalKey C m t c = deployApprovalKey C m' t' c') :
    (m = m' ∧ t = t' ∧ c = c') ∨ ∃ a b, a ≠ b ∧ C.H a = C.H b := by
  unfold deployApprovalKey at h
  by_cases he : C.H Generated.PREFIX_DEPLOY_APPROVAL ++ m ++ t ++ nestBuf c =
      C.H Generated.PREFIX_DEPLOY_APPROVAL ++ m' ++ t' ++ nestBuf c'
  · left
    simp only [List.append_assoc] at he
    have h1 := List.append_cancel_left he
    obtain ⟨e1, h2⟩ := List.append_inj h1 hm
    obtain ⟨e2, h3⟩ := List.append_inj h2 ht
    unfold nestBuf at h3
    by_cases hl : c.length = c'.length
    · obtain ⟨_, e3⟩ := List.append_inj h3 (by simp [u32be_length])
      exact ⟨e1, e2, e3⟩
    · exfalso
      have := congrArg List.length h3
      simp [u32be_length] at this
      exact hl this
  · right; exact ⟨_, _, he, h⟩

/-- revocation is keyed by the caller: it can only clear the caller's own approval -/
theorem revoke_only_own (C : Crypto) (cx : ICtx) (deployer salt chain : Bytes) (t t' : Tx)
    (h : revokeDeployRemote C cx deployer salt chain t = some ((), t')) :
    t'.w.its.approvedMinters (deployApprovalKey C cx.caller (interchainTokenId C t.w.its deployer salt) chain) = [] ∧
    ∀ k, k ≠ deployApprovalKey C cx.caller (interchainTokenId C t.w.its deployer salt) chain →
      t'.w.its.approvedMinters k = t.w.its.approvedMinters k := by
  simp only [revokeDeployRemote, run_bind, run_getI, run_emit, run_setI, Option.some.injEq, Prod.mk.injEq,
    true_and] at h
  subst h
  exact ⟨by simp [upd], fun k hk => by simp [upd, hk]⟩


/-! ### The flows -/

/-- **Who may approve, and what is stored**: a successful approval was made by an account that
    the token's manager reports as minter (and that is not the service itself), for a trusted
    destination chain; it stores the hash of the destination minter under the key of (the
    caller, the deployer's token id, the destination chain) and changes no other entry. -/
theorem approve_effect (C : Crypto) (cx : ICtx) (deployer salt chain dm : Bytes) (t t' : Tx)
    (h : approveDeployRemote C cx deployer salt chain dm t = some ((), t')) :
    (∃ t1, checkTokenMinter C cx (interchainTokenId C t.w.its deployer salt) cx.caller t = some ((), t1)) ∧
    t.w.its.trusted chain ≠ [] ∧
    t'.w.its.approvedMinters (deployApprovalKey C cx.caller (interchainTokenId C t.w.its deployer salt) chain) = C.H dm ∧
    ∀ k, k ≠ deployApprovalKey C cx.caller (interchainTokenId C t.w.its deployer salt) chain →
      t'.w.its.approvedMinters k = t.w.its.approvedMinters k := by
  simp only [approveDeployRemote, run_bind, run_getI] at h
  cases hc : checkTokenMinter C cx (interchainTokenId C t.w.its deployer salt) cx.caller t with
  | none => simp [hc] at h
  | some x =>
    obtain ⟨u, t1⟩ := x
    have hk := (keeps_checkTokenMinter C cx _ _).h t u t1 hc
    simp only [hc, run_require, run_emit, run_setI] at h
    by_cases htr : (t1.w.its.trusted chain).isEmpty = true
    · simp [htr] at h
    · simp only [htr, Bool.not_false, if_true, Option.some.injEq, Prod.mk.injEq, true_and] at h
      subst h
      simp only [hk] at htr ⊢
      refine ⟨⟨t1, rfl⟩, by simpa using htr, by simp [upd], fun k hk' => by simp [upd, hk']⟩

/-- **The service's own address is never accepted as the minter**, and the named minter must be
    reported as minter by the token's manager. -/
theorem minter_check (C : Crypto) (cx : ICtx) (tokenId minter : Bytes) (t t1 : Tx)
    (h : checkTokenMinter C cx tokenId minter t = some ((), t1)) :
    minter ≠ cx.self ∧ t.w.its.tmAddress tokenId ≠ [] ∧
    ∃ t0, subcall C cx (t.w.its.tmAddress tokenId) "isMinter" 0 [] [minter] t = some ([encBool true], t0) := by
  simp only [checkTokenMinter, run_bind, run_getI, run_require] at h
  by_cases he : (t.w.its.tmAddress tokenId).isEmpty = true
  · simp [he] at h
  · simp only [he, Bool.not_false, if_true] at h
    cases hs : subcall C cx (t.w.its.tmAddress tokenId) "isMinter" 0 [] [minter] t with
    | none => simp [hs] at h
    | some x =>
      obtain ⟨rs, t0⟩ := x
      simp only [hs] at h
      by_cases hr : (rs == [encBool true]) = true
      · simp only [hr, if_true] at h
        by_cases hm : (minter != cx.self) = true
        · have hrs : rs = [encBool true] := by simpa using hr
          refine ⟨by simpa using hm, by simpa using he, t0, by rw [hrs]⟩
        · simp [hm] at h
      · simp [hr] at h

/-- **At the time of use the named local minter must CURRENTLY hold the minter role**, and a custom
    destination minter needs the stored approval of exactly (that minter, the caller's token id,
    the destination chain, the destination minter), which the use clears. -/
theorem custom_minter_deploy_needs_current_minter_and_approval (C : Crypto) (cx : ICtx)
    (salt minter chain dm : Bytes) (t t' : Tx) (r : Bytes) (hz : Gateway.isZeroAddr minter = false)
    (h : deployRemoteWithMinter C cx salt minter chain (some dm) t = some (r, t')) :
    ∃ t1 st', checkTokenMinter C cx (tokenIdRaw C (interchainTokenDeploySalt C t.w.its cx.caller salt)) minter t
        = some ((), t1) ∧
      useDeployApproval C t1.w.its minter (tokenIdRaw C (interchainTokenDeploySalt C t.w.its cx.caller salt)) chain dm
        = some st' := by
  simp only [deployRemoteWithMinter, run_bind, run_getI, hz, Bool.not_false, if_true] at h
  cases hc : checkTokenMinter C cx (tokenIdRaw C (interchainTokenDeploySalt C t.w.its cx.caller salt)) minter t with
  | none => simp [hc] at h
  | some x =>
    obtain ⟨u, t1⟩ := x
    simp only [hc] at h
    cases hu : useDeployApproval C t1.w.its minter (tokenIdRaw C (interchainTokenDeploySalt C t.w.its cx.caller salt)) chain dm with
    | none => simp [hu] at h
    | some st' => exact ⟨t1, st', rfl, hu⟩

/-- **Without a local minter no destination minter can be supplied.** -/
theorem no_local_minter_no_destination_minter (C : Crypto) (cx : ICtx) (salt minter chain dm : Bytes) (t : Tx)
    (hz : Gateway.isZeroAddr minter = true) : deployRemoteWithMinter C cx salt minter chain (some dm) t = none := by
  simp [deployRemoteWithMinter, hz]

/-! ### Over every schedule -/

/-- **An approval can only be created by its author**: whatever operation of whatever schedule
    runs, each entry of the approvals table keeps its value, or is cleared, or the operation runs
    a call to the service made by the very account whose address the entry's key is derived
    from.  (So nobody can fabricate, or alter, an approval in another minter's name; by
    `approval_key_binding` keys of different accounts differ unless the hash collides.) -/
theorem approvals_written_only_by_their_author (C : Crypto) (w : World) (op : World.Op) (key : Bytes) :
    (World.step C w op).its.approvedMinters key = w.its.approvedMinters key ∨
    (World.step C w op).its.approvedMinters key = [] ∨
    ∃ src dst func tid chain, World.Runs w op src dst func ∧ w.kind dst = some .its ∧
      key = deployApprovalKey C src tid chain :=
  World.step_approvals C w op key

/-- in particular a missing approval appears only through a call by its author -/
theorem approval_appears_only_by_author (C : Crypto) (w : World) (op : World.Op) (key : Bytes)
    (h0 : w.its.approvedMinters key = []) (h1 : (World.step C w op).its.approvedMinters key ≠ []) :
    ∃ src dst func tid chain, World.Runs w op src dst func ∧ w.kind dst = some .its ∧
      key = deployApprovalKey C src tid chain := by
  rcases World.step_approvals C w op key with e | e | e
  · rw [e, h0] at h1; exact absurd rfl h1
  · exact absurd e h1
  · exact e

/-! ### Non-vacuity (test) -/
example : ∃ st', useDeployApproval ⟨fun _ => [1], fun _ _ _ => true⟩
    { approvedMinters := fun _ => [1] } [2] [3] [4] [5] = some st' := ⟨_, rfl⟩

end Axelar.Props.C19
