/-
  C19 — ITS remote deploy with a custom minter needs an exact, single-use approval.
-/
import Axelar.Proofs.ItsMonad
import Axelar.Proofs.BytesLemmas
namespace Axelar.Props.C19
open Axelar Axelar.ItsW Axelar.Its Codec

/-- **Use of an approval**: succeeds exactly when an approval is stored under the key of
    (minter, token id, destination chain) and equals the hash of the requested destination
    minter; it is then cleared (single use) and nothing else changes. -/
theorem use_approval_exact (C : Crypto) (st : State) (minter tokenId chain dm : Bytes) :
    (∀ st', useDeployApproval C st minter tokenId chain dm = some st' →
        st.approvedMinters (deployApprovalKey C minter tokenId chain) = C.H dm ∧
        st.approvedMinters (deployApprovalKey C minter tokenId chain) ≠ [] ∧
        st'.approvedMinters (deployApprovalKey C minter tokenId chain) = [] ∧
        (∀ k, k ≠ deployApprovalKey C minter tokenId chain → st'.approvedMinters k = st.approvedMinters k) ∧
        st'.tmAddress = st.tmAddress ∧ st'.trusted = st.trusted ∧ st'.paused = st.paused) ∧
    (st.approvedMinters (deployApprovalKey C minter tokenId chain) = [] →
        useDeployApproval C st minter tokenId chain dm = none) ∧
    (st.approvedMinters (deployApprovalKey C minter tokenId chain) ≠ C.H dm →
        useDeployApproval C st minter tokenId chain dm = none) := by
  refine ⟨fun st' h => ?_, fun h => ?_, fun h => ?_⟩
  · simp only [useDeployApproval] at h
    split at h
    · rename_i hc
      simp only [Bool.and_eq_true, Bool.not_eq_true', beq_iff_eq] at hc
      cases h
      refine ⟨hc.2, ?_, by simp [upd], fun k hk => by simp [upd, hk], rfl, rfl, rfl⟩
      intro he; rw [he] at hc; simp at hc
    · cases h
  · simp [useDeployApproval, h]
  · simp only [useDeployApproval]
    have : (st.approvedMinters (deployApprovalKey C minter tokenId chain) == C.H dm) = false := by simpa using h
    simp [this]

/-- a used approval cannot be used again -/
theorem approval_single_use (C : Crypto) (st st' : State) (minter tokenId chain dm dm' : Bytes)
    (h : useDeployApproval C st minter tokenId chain dm = some st') :
    useDeployApproval C st' minter tokenId chain dm' = none :=
  (use_approval_exact C st' minter tokenId chain dm').2.1
    ((use_approval_exact C st minter tokenId chain dm).1 st' h).2.2.1

/-- **An approval for one combination never authorises another**: two approval keys agree only
    if minter, token id and destination chain agree — or `H` collides (explicit witness). -/
theorem approval_key_binding (C : Crypto) (m t c m' t' c' : Bytes)
    (hm : m.length = m'.length) (ht : t.length = t'.length)
    (h : deployApprovalKey C m t c = deployApprovalKey C m' t' c') :
    (m = m' ∧ t = t' ∧ c = c') ∨ ∃ a b, a ≠ b ∧ C.H a = C.H b := by
  unfold deployApprovalKey at h
  by_cases he : C.H Generated.PREFIX_DEPLOY_APPROVAL ++ m ++ t ++ nestBuf c =
      C.H Generated.PREFIX_DEPLOY_APPROVAL ++ m' ++ t' ++ nestBuf c'
  · left
    simp only [List.append_assoc] at he
    have h1 := List.append_cancel_left he
    obtain ⟨e1, h2⟩ := List.append_inj h1 hm
    obtain ⟨e2, h3⟩ := List.append_inj h2 ht
    unfold nestBuf at h3
    by_cases hl : c.length = c'.length
    · obtain ⟨_, e3⟩ := List.append_inj h3 (by simp [u32be_length])
      exact ⟨e1, e2, e3⟩
    · exfalso
      have := congrArg List.length h3
      simp [u32be_length] at this
      exact hl this
  · right; exact ⟨_, _, he, h⟩

/-- revocation is keyed by the caller: it can only clear the caller's own approval -/
theorem revoke_only_own (C : Crypto) (cx : ICtx) (deployer salt chain : Bytes) (t t' : Tx)
    (h : revokeDeployRemote C cx deployer salt chain t = some ((), t')) :
    t'.w.its.approvedMinters (deployApprovalKey C cx.caller (interchainTokenId C t.w.its deployer salt) chain) = [] ∧
    ∀ k, k ≠ deployApprovalKey C cx.caller (interchainTokenId C t.w.its deployer salt) chain →
      t'.w.its.approvedMinters k = t.w.its.approvedMinters k := by
  simp only [revokeDeployRemote, run_bind, run_getI, run_emit, run_setI, Option.some.injEq, Prod.mk.injEq,
    true_and] at h
  subst h
  exact ⟨by simp [upd], fun k hk => by simp [upd, hk]⟩

/-! ### Non-vacuity (test) -/
example : ∃ st', useDeployApproval ⟨fun _ => [1], fun _ _ _ => true⟩
    { approvedMinters := fun _ => [1] } [2] [3] [4] [5] = some st' := ⟨_, rfl⟩

end Axelar.Props.C19
