/-
  C04 at chain level — an inbound transfer without data as ONE transaction of the composed world (`World.tx … "execute"`):
  it needed the gateway approval of exactly this message addressed to the service and the trusted source; it leaves the
  message executed; the recipient named in the payload received exactly the payload amount of the manager's token, out of the
  manager's custody (or minted), and nothing else moved for any account or asset.
-/
import Axelar.Props.C04
import Axelar.Props.C08Ops
namespace Axelar.Props.C04
open Axelar Axelar.ItsW Axelar.Its Codec

/-- an `execute` of a transfer message runs `process_interchain_transfer_payload` on the unwrapped payload, in the same
    world, after the trusted-source check -/
theorem execute_reaches_the_transfer (C : Crypto) (cx : ICtx) (sc mid sa payload : Bytes) (t t' : Tx)
    (oc inner : Bytes)
    (hg : getExecuteParams t.w.its sc payload = some (Generated.MESSAGE_TYPE_INTERCHAIN_TRANSFER, oc, inner))
    (h : execute C cx sc mid sa payload t = some ((), t')) :
    isTrustedAddress t.w.its sc sa = true ∧
    processInterchainTransfer C cx oc sc mid sa (C.H payload) inner t = some ((), t') := by
  simp only [execute, run_bind, run_require, requireNotPaused_run, run_getI] at h
  by_cases he : cx.esdt.isEmpty = true
  · simp only [he, if_true] at h
    cases hp : t.w.its.paused
    · simp only [hp, Bool.false_eq_true, if_false] at h
      by_cases ht : isTrustedAddress t.w.its sc sa = true
      · simp only [ht, if_true, hg, beq_self_eq_true, run_bind, run_require] at h
        by_cases hz : (cx.egld == 0) = true
        · simp only [hz, if_true] at h
          exact ⟨ht, h⟩
        · simp [hz] at h
      · simp [ht] at h
    · simp [hp] at h
  · simp [he] at h

/-- **The release as a whole transaction.** -/
theorem release_as_a_transaction (C : Crypto) (w w' : World) (sender its sc mid sa payload : Bytes)
    (rs : List Bytes) (evs : List Event) (pd : List PendDesc) (oc inner : Bytes) (p : Abi.Transfer)
    (tm : Bytes) (st : TokenManager.State)
    (hk : w.kind its = some .its)
    (hg : getExecuteParams w.its sc payload = some (Generated.MESSAGE_TYPE_INTERCHAIN_TRANSFER, oc, inner))
    (hd : Abi.Transfer.decode inner = .ok p) (hdata : p.data = [])
    (htm : w.its.tmAddress p.tokenId = tm) (hst : w.tms tm = st)
    (hkgw : w.kind w.its.gateway = some .gateway) (hktm : w.kind tm = some .tokenManager)
    (h : World.tx C w sender its "execute" 0 [] [sc, mid, sa, payload] = (w', .ok rs evs pd)) :
    isTrustedAddress w.its sc sa = true ∧
    w.gw.messages (sc, mid) = .approved (Gateway.messageHash C sc mid sa its (C.H payload)) ∧
    w'.gw.messages (sc, mid) = .executed ∧
    its = st.service ∧
    World.Led w w' (giveOut st tm p.amount)
      (World.pt p.destinationAddress (TokenManager.tokOfBytes st.tokenIdentifier) p.amount) := by
  obtain ⟨tt, he, rfl, _⟩ := Axelar.Props.C08.tx_execute C w w' sender its sc mid sa payload rs evs pd hk h
  obtain ⟨htr, hpr⟩ := execute_reaches_the_transfer C (World.itsCtx w sender its 0 []) sc mid sa payload
    { w := w } tt oc inner hg he
  have hc := release_consumes_the_approval C (World.itsCtx w sender its 0 []) oc sc mid sa (C.H payload) inner
    { w := w } tt p hd hdata (by exact hkgw) hpr
  have hl := release_pays_exactly_the_amount C (World.itsCtx w sender its 0 []) oc sc mid sa (C.H payload) inner
    { w := w } tt p hd hdata tm st (by exact htm) (by exact hst) (by exact hkgw) (by exact hktm) hpr
  exact ⟨htr, hc.1, hc.2, hl.1, hl.2⟩

/-- … and in the world it leaves behind (and, by `executed_message_stays_executed`, in every world any history leads to
    from there) the same message releases nothing: `execute` for it does not succeed as a transaction, whoever sends it. -/
theorem executed_message_is_refused_as_a_transaction (C : Crypto) (w : World) (sender its sc mid sa payload : Bytes)
    (oc inner : Bytes) (p : Abi.Transfer)
    (hk : w.kind its = some .its) (hkgw : w.kind w.its.gateway = some .gateway)
    (hg : getExecuteParams w.its sc payload = some (Generated.MESSAGE_TYPE_INTERCHAIN_TRANSFER, oc, inner))
    (hd : Abi.Transfer.decode inner = .ok p) (hdata : p.data = [])
    (hex : w.gw.messages (sc, mid) = .executed) (w' : World) (rs : List Bytes) (evs : List Event) (pd : List PendDesc) :
    World.tx C w sender its "execute" 0 [] [sc, mid, sa, payload] ≠ (w', .ok rs evs pd) := by
  intro hr
  obtain ⟨tt, he, _, _⟩ := Axelar.Props.C08.tx_execute C w w' sender its sc mid sa payload rs evs pd hk hr
  obtain ⟨_, hpr⟩ := execute_reaches_the_transfer C (World.itsCtx w sender its 0 []) sc mid sa payload
    { w := w } tt oc inner hg he
  have hc := release_consumes_the_approval C (World.itsCtx w sender its 0 []) oc sc mid sa (C.H payload) inner
    { w := w } tt p hd hdata (by exact hkgw) hpr
  have : w.gw.messages (sc, mid) = .approved (Gateway.messageHash C sc mid sa its (C.H payload)) := hc.1
  rw [hex] at this
  cases this

/-- **At most once, over whole transactions and every history.**  After the releasing transaction, run ANY list of operations
    of the composed world (transactions by anyone to any contract, deliveries, callbacks, time): in the world reached, an
    `execute` transaction for the same message — by any sender, with any source address and any payload that is a transfer
    without data — does not succeed.  So the total ever released for one message is its amount. -/
theorem no_second_release_over_transactions (C : Crypto) (w w' : World) (sender its sc mid sa payload : Bytes)
    (rs : List Bytes) (evs : List Event) (pd : List PendDesc) (oc inner : Bytes) (p : Abi.Transfer)
    (tm : Bytes) (st : TokenManager.State)
    (hk : w.kind its = some .its)
    (hg : getExecuteParams w.its sc payload = some (Generated.MESSAGE_TYPE_INTERCHAIN_TRANSFER, oc, inner))
    (hd : Abi.Transfer.decode inner = .ok p) (hdata : p.data = [])
    (htm : w.its.tmAddress p.tokenId = tm) (hst : w.tms tm = st)
    (hkgw : w.kind w.its.gateway = some .gateway) (hktm : w.kind tm = some .tokenManager)
    (h : World.tx C w sender its "execute" 0 [] [sc, mid, sa, payload] = (w', .ok rs evs pd))
    (ops : List World.Op) (sender2 sa2 payload2 oc2 inner2 : Bytes) (p2 : Abi.Transfer)
    (hk2 : (World.run C w' ops).kind its = some .its)
    (hkgw2 : (World.run C w' ops).kind (World.run C w' ops).its.gateway = some .gateway)
    (hg2 : getExecuteParams (World.run C w' ops).its sc payload2 =
      some (Generated.MESSAGE_TYPE_INTERCHAIN_TRANSFER, oc2, inner2))
    (hd2 : Abi.Transfer.decode inner2 = .ok p2) (hdata2 : p2.data = [])
    (w'' : World) (rs2 : List Bytes) (evs2 : List Event) (pd2 : List PendDesc) :
    World.tx C (World.run C w' ops) sender2 its "execute" 0 [] [sc, mid, sa2, payload2] ≠ (w'', .ok rs2 evs2 pd2) := by
  have hex := (release_as_a_transaction C w w' sender its sc mid sa payload rs evs pd oc inner p tm st hk hg hd hdata htm hst
    hkgw hktm h).2.2.1
  exact executed_message_is_refused_as_a_transaction C (World.run C w' ops) sender2 its sc mid sa2 payload2 oc2 inner2 p2
    hk2 hkgw2 hg2 hd2 hdata2 (executed_message_stays_executed C w' ops (sc, mid) hex) w'' rs2 evs2 pd2

/-! ### Non-vacuity (test) -/
example : (Generated.MESSAGE_TYPE_INTERCHAIN_TRANSFER == Generated.MESSAGE_TYPE_INTERCHAIN_TRANSFER) = true := by decide

end Axelar.Props.C04
