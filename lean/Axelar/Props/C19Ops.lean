/-
  C19 at chain level — the whole first transaction of `deployRemoteInterchainTokenWithMinter(salt, minter, chain,
  destination minter)` with a local minter and a custom destination minter, for an ESDT token: it needed the stored
  approval of exactly (minter, the SENDER's token id, chain) for exactly that destination minter, and the world after the
  transaction has that approval cleared and every other approval untouched — so the very same request, sent again in the
  resulting world, is refused.
-/
import Axelar.Props.C19
import Axelar.Props.C17OpsMinter
namespace Axelar.Props.C19
open Axelar Axelar.ItsW Axelar.Its Codec Axelar.Props.C17

/-- the function-level step: with a local minter and a destination minter the approval is used, and the raw deployment
    runs in the world whose only difference is the service storage after that use -/
theorem deployRemoteWithMinter_uses_the_approval (C : Crypto) (cx : ICtx) (salt minter chain dm : Bytes)
    (t t' : Tx) (tid tm : Bytes) (hz : Gateway.isZeroAddr minter = false)
    (htm : t.w.its.tmAddress (tokenIdRaw C (interchainTokenDeploySalt C t.w.its cx.caller salt)) = tm)
    (hk : t.w.kind tm = some .tokenManager)
    (h : deployRemoteWithMinter C cx salt minter chain (some dm) t = some (tid, t')) :
    ∃ st', useDeployApproval C t.w.its minter (tokenIdRaw C (interchainTokenDeploySalt C t.w.its cx.caller salt)) chain dm
        = some st' ∧
      deployRemoteInterchainTokenRaw C cx (interchainTokenDeploySalt C t.w.its cx.caller salt) chain dm cx.caller
        { t with w := { t.w with its := st' } } = some (tid, t') := by
  simp only [deployRemoteWithMinter, run_bind, run_getI, hz, Bool.not_false, if_true, checkTokenMinter, run_require,
    htm] at h
  by_cases hem : tm.isEmpty = true
  · simp [hem] at h
  · simp only [hem, Bool.not_false, if_true] at h
    cases hs : subcall C cx tm "isMinter" 0 [] [minter] t with
    | none => simp [hs] at h
    | some r =>
      obtain ⟨rs, t1⟩ := r
      have ht1 := subcall_isMinter C cx tm minter t t1 rs hk hs
      subst ht1
      simp only [hs] at h
      by_cases h1 : (rs == [encBool true]) = true
      · simp only [h1, if_true] at h
        by_cases h2 : (minter != cx.self) = true
        · simp only [h2, if_true] at h
          cases hu : useDeployApproval C t1.w.its minter
              (tokenIdRaw C (interchainTokenDeploySalt C t1.w.its cx.caller salt)) chain dm with
          | none => simp [hu] at h
          | some st' =>
            simp only [hu, run_bind, run_setI, run_pure] at h
            exact ⟨st', rfl, h⟩
        · simp [h2] at h
      · simp [h1] at h

/-- **A remote deployment with a custom destination minter uses up its approval — the whole transaction.**  If the
    transaction succeeds (ESDT token, local minter named, destination minter supplied), then before it the approval slot
    of (minter, the sender's token id, chain) held exactly the hash of that destination minter, after it the slot is empty
    and no other slot changed. -/
theorem custom_minter_deployment_consumes_the_approval (C : Crypto) (w w' : World)
    (sender its saltArg minterArg salt minter chain dm : Bytes)
    (egld : Nat) (esdt : List (Bytes × Nat × Nat)) (rs : List Bytes) (evs : List Event) (pd : List PendDesc) (tm : Bytes)
    (hk : w.kind its = some .its) (hsalt : topFixed 32 saltArg = some salt)
    (hminter : topFixed 32 minterArg = some minter) (hz : Gateway.isZeroAddr minter = false)
    (htm : w.its.tmAddress (tokenIdRaw C (interchainTokenDeploySalt C w.its sender salt)) = tm)
    (hktm : w.kind tm = some .tokenManager)
    (hesdt : GasService.tokOfBytes (w.tms tm).tokenIdentifier ≠ none)
    (h : World.tx C w sender its "deployRemoteInterchainTokenWithMinter" egld esdt
      [saltArg, minterArg, chain, dm] = (w', .ok rs evs pd)) :
    let key := deployApprovalKey C minter (tokenIdRaw C (interchainTokenDeploySalt C w.its sender salt)) chain
    w.its.approvedMinters key = C.H dm ∧ w.its.approvedMinters key ≠ [] ∧
    w'.its.approvedMinters key = [] ∧ ∀ k, k ≠ key → w'.its.approvedMinters k = w.its.approvedMinters k := by
  intro key
  unfold World.tx at h
  cases hp : World.pay w sender its egld esdt with
  | none => simp [hp] at h
  | some w1 =>
    simp only [hp, hk] at h
    have hb := World.pay_bal _ _ _ _ _ _ hp
    cases hc : World.callContract C w1 sender its "deployRemoteInterchainTokenWithMinter" egld esdt
        [saltArg, minterArg, chain, dm] with
    | none => simp [hc] at h
    | some r =>
      obtain ⟨w2, rs2, evs2, pd2⟩ := r
      simp only [hc, Prod.mk.injEq] at h
      obtain ⟨rfl, _⟩ := h
      unfold World.callContract at hc
      rw [hb.kind, hk] at hc
      simp only [World.runIts] at hc
      cases hr : ItsW.call C (World.itsCtx w1 sender its egld esdt) "deployRemoteInterchainTokenWithMinter"
          [saltArg, minterArg, chain, dm] { w := w1 } with
      | none => simp [hr] at hc
      | some v =>
        obtain ⟨a, tt⟩ := v
        simp only [hr, Option.some.injEq, Prod.mk.injEq] at hc
        obtain ⟨rfl, _, _, _⟩ := hc
        rw [call_deployRemoteWithMinter] at hr
        simp only [run_bind, run_getI] at hr
        by_cases hoe : onlyEgld (World.itsCtx w1 sender its egld esdt) = true
        · have hot : optionalTail [dm] = some (some dm) := rfl
          simp only [hoe, Bool.not_true, Bool.false_eq_true, if_false, hsalt, hminter, hot] at hr
          rw [retUnlessAsync_run] at hr
          have e1 : w1.its = w.its := by rw [hb]
          have e2 : w1.tms = w.tms := by rw [hb]
          have e3 : w1.kind = w.kind := by rw [hb]
          have ec : (World.itsCtx w1 sender its egld esdt).caller = sender := rfl
          cases hwm : deployRemoteWithMinter C (World.itsCtx w1 sender its egld esdt) salt minter chain (some dm) { w := w1 } with
          | none => simp [hwm] at hr
          | some q =>
            obtain ⟨tid, t2⟩ := q
            obtain ⟨st', hu, hraw⟩ := deployRemoteWithMinter_uses_the_approval C (World.itsCtx w1 sender its egld esdt)
              salt minter chain dm { w := w1 } t2 tid tm hz
              (by show w1.its.tmAddress _ = tm; rw [e1, ec]; exact htm)
              (by show w1.kind tm = _; rw [e3]; exact hktm) hwm
            have hta : st'.tmAddress = w1.its.tmAddress := by
              simp only [useDeployApproval] at hu
              split at hu
              · cases hu; rfl
              · cases hu
            have hw2 := deployRemoteRaw_esdt C (World.itsCtx w1 sender its egld esdt)
              (interchainTokenDeploySalt C w1.its (World.itsCtx w1 sender its egld esdt).caller salt)
              chain dm _ { w := { w1 with its := st' } } t2 tid tm
              (by show st'.tmAddress _ = tm; rw [hta, e1, ec]; exact htm)
              (by show w1.kind tm = _; rw [e3]; exact hktm)
              (by show GasService.tokOfBytes (w1.tms tm).tokenIdentifier ≠ none; rw [e2]; exact hesdt) hraw
            simp only [hwm, Option.some.injEq, Prod.mk.injEq] at hr
            have htt : tt.w.its = st' := by rw [← hr.2, hw2]
            have hux := (use_approval_exact C w1.its minter
              (tokenIdRaw C (interchainTokenDeploySalt C w1.its (World.itsCtx w1 sender its egld esdt).caller salt)) chain dm).1 st' hu
            rw [e1, ec] at hux
            rw [htt]
            exact ⟨hux.1, hux.2.1, hux.2.2.1, hux.2.2.2.1⟩
        · simp [hoe] at hr

/-- **… and an empty slot refuses the request — the whole transaction.**  In any world in which the approval slot of
    (minter, the sender's token id, chain) is empty — in particular the world right after the deployment above — the request
    with a local minter and ANY destination minter fails and changes nothing. -/
theorem without_approval_the_request_is_refused (C : Crypto) (w : World)
    (sender its saltArg minterArg salt minter chain dm : Bytes)
    (egld : Nat) (esdt : List (Bytes × Nat × Nat)) (tm : Bytes)
    (hk : w.kind its = some .its) (hsalt : topFixed 32 saltArg = some salt)
    (hminter : topFixed 32 minterArg = some minter) (hz : Gateway.isZeroAddr minter = false)
    (htm : w.its.tmAddress (tokenIdRaw C (interchainTokenDeploySalt C w.its sender salt)) = tm)
    (hktm : w.kind tm = some .tokenManager)
    (hempty : w.its.approvedMinters
      (deployApprovalKey C minter (tokenIdRaw C (interchainTokenDeploySalt C w.its sender salt)) chain) = []) :
    World.tx C w sender its "deployRemoteInterchainTokenWithMinter" egld esdt [saltArg, minterArg, chain, dm] =
      (w, .fail) := by
  unfold World.tx
  cases hp : World.pay w sender its egld esdt with
  | none => rfl
  | some w1 =>
    simp only [hk]
    have hb := World.pay_bal _ _ _ _ _ _ hp
    cases hc : World.callContract C w1 sender its "deployRemoteInterchainTokenWithMinter" egld esdt
        [saltArg, minterArg, chain, dm] with
    | none => rfl
    | some r =>
      exfalso
      obtain ⟨w2, rs2, evs2, pd2⟩ := r
      unfold World.callContract at hc
      rw [hb.kind, hk] at hc
      simp only [World.runIts] at hc
      cases hr : ItsW.call C (World.itsCtx w1 sender its egld esdt) "deployRemoteInterchainTokenWithMinter"
          [saltArg, minterArg, chain, dm] { w := w1 } with
      | none => simp [hr] at hc
      | some v =>
        obtain ⟨a, tt⟩ := v
        rw [call_deployRemoteWithMinter] at hr
        simp only [run_bind, run_getI] at hr
        by_cases hoe : onlyEgld (World.itsCtx w1 sender its egld esdt) = true
        · have hot : optionalTail [dm] = some (some dm) := rfl
          simp only [hoe, Bool.not_true, Bool.false_eq_true, if_false, hsalt, hminter, hot] at hr
          rw [retUnlessAsync_run] at hr
          have e1 : w1.its = w.its := by rw [hb]
          have e3 : w1.kind = w.kind := by rw [hb]
          have ec : (World.itsCtx w1 sender its egld esdt).caller = sender := rfl
          cases hwm : deployRemoteWithMinter C (World.itsCtx w1 sender its egld esdt) salt minter chain (some dm) { w := w1 } with
          | none => simp [hwm] at hr
          | some q =>
            obtain ⟨tid, t2⟩ := q
            obtain ⟨st', hu, _⟩ := deployRemoteWithMinter_uses_the_approval C (World.itsCtx w1 sender its egld esdt)
              salt minter chain dm { w := w1 } t2 tid tm hz
              (by show w1.its.tmAddress _ = tm; rw [e1, ec]; exact htm)
              (by show w1.kind tm = _; rw [e3]; exact hktm) hwm
            have hnone := (use_approval_exact C w1.its minter
              (tokenIdRaw C (interchainTokenDeploySalt C w1.its (World.itsCtx w1 sender its egld esdt).caller salt)) chain dm).2.1
              (by rw [e1, ec]; exact hempty)
            rw [hnone] at hu
            cases hu
        · simp [hoe] at hr

/-! ### Non-vacuity (test): a non-zero local minter and a supplied destination minter -/
example : Gateway.isZeroAddr (List.replicate 32 1) = false ∧ optionalTail [[9, 9]] = some (some [9, 9]) :=
  ⟨by decide, rfl⟩

end Axelar.Props.C19
