/-
  C17 — a user operation seen as a whole: the first transaction and, whatever the schedule puts in between,
  its callback.  The service's EGLD balance goes up by the attached gas value in the first transaction
  and down by exactly the same amount in the callback (when the callback succeeds — the failing callbacks
  are findings F2a / F2b, refuted in C17.lean).
-/
import Axelar.Props.C17
namespace Axelar.Props.C17
open Axelar Axelar.ItsW Axelar.Its Codec

theorem call_registerTokenMetadata (C : Crypto) (cx : ICtx) (tok : Bytes) :
    ItsW.call C cx "registerTokenMetadata" [tok] =
      (do let _ ← getI
          if !onlyEgld cx then fail else
          unit (do
            require (isValidEsdt tok)
            addPend cx Axelar.esdtSystemSc "getTokenProperties" 0 [] [tok] (.itsMetadata cx.self tok cx.egld cx.caller))) := rfl

/-- **First transaction of a metadata registration**: the sender's EGLD goes to the service — for every account
    and asset nothing else moves — and exactly one lookup is registered, remembering that amount as the gas
    value and the sender as the one to refund. -/
theorem metadata_first_transaction (C : Crypto) (w w' : World) (sender its tok : Bytes) (egld : Nat)
    (esdt : List (Bytes × Nat × Nat)) (rs : List Bytes) (evs : List Event) (pd : List PendDesc)
    (hk : w.kind its = some .its)
    (h : World.tx C w sender its "registerTokenMetadata" egld esdt [tok] = (w', .ok rs evs pd)) :
    esdt = [] ∧
    World.Led w w' (World.pt sender none egld) (World.pt its none egld) ∧
    w'.pending = w.pending ++
      [⟨⟨w.nextPending, Axelar.esdtSystemSc, "getTokenProperties", 0, [], [tok]⟩, its,
        .itsMetadata its tok egld sender, none⟩] := by
  unfold World.tx at h
  cases hp : World.pay w sender its egld esdt with
  | none => simp [hp] at h
  | some w1 =>
    simp only [hp, hk] at h
    have hb := World.pay_bal _ _ _ _ _ _ hp
    have hl0 := World.led_pay _ _ _ _ _ _ hp
    cases hc : World.callContract C w1 sender its "registerTokenMetadata" egld esdt [tok] with
    | none => simp [hc] at h
    | some r =>
      obtain ⟨w2, rs2, evs2, pd2⟩ := r
      simp only [hc, Prod.mk.injEq] at h
      obtain ⟨rfl, _⟩ := h
      unfold World.callContract at hc
      rw [hb.kind, hk] at hc
      simp only [World.runIts] at hc
      cases hr : ItsW.call C (World.itsCtx w1 sender its egld esdt) "registerTokenMetadata" [tok] { w := w1 } with
      | none => simp [hr] at hc
      | some v =>
        obtain ⟨a, tt⟩ := v
        simp only [hr, Option.some.injEq, Prod.mk.injEq] at hc
        obtain ⟨rfl, _, _, _⟩ := hc
        rw [call_registerTokenMetadata] at hr
        simp only [run_bind, run_getI] at hr
        by_cases hoe : onlyEgld (World.itsCtx w1 sender its egld esdt) = true
        · simp only [hoe, Bool.not_true, Bool.false_eq_true, if_false, ItsW.unit, run_bind, run_require] at hr
          by_cases hv : isValidEsdt tok = true
          · simp only [hv, if_true, addPend_run, run_pure, Option.some.injEq, Prod.mk.injEq] at hr
            obtain ⟨_, rfl⟩ := hr
            have he : esdt = [] := by simpa [onlyEgld, World.itsCtx] using hoe
            subst he
            refine ⟨rfl, ?_, ?_⟩
            · -- registering a pending call moves nothing
              apply World.Led.conv (hl0.trans (World.Led.of_accts rfl))
              intro x k
              simp only [World.plus, World.nil, World.pt, World.payAmt]
              cases k <;> simp
            · have e1 : w1.pending = w.pending := by rw [hb]
              have e2 : w1.nextPending = w.nextPending := by rw [hb]
              simp only [World.itsCtx, e1, e2]
          · simp [hv] at hr
        · simp [hoe] at hr

/-- **The callback of a metadata lookup, at chain level**: whenever the callback transaction of a delivered lookup
    succeeds — whatever the reply was and whatever happened since the first transaction — the service's EGLD
    balance goes down by exactly the gas value the lookup remembers (to the caller or to the gas service:
    `metadata_callback_moves_exactly_the_gas_value`). -/
theorem metadata_callback_at_chain_level (C : Crypto) (w w' : World) (id : Nat) (p : Pending)
    (its tok : Bytes) (gas : Nat) (caller : Bytes) (okFlag : Bool) (vals rs : List Bytes) (evs : List Event)
    (pd : List PendDesc)
    (hp : World.findPending w.pending id = some p) (hk : p.kind = .itsMetadata its tok gas caller)
    (hr : p.result = some (okFlag, vals))
    (hkgs : w.kind w.its.gasService = some .gasService) (hkgw : w.kind w.its.gateway = some .gateway)
    (hc : caller ≠ its) (hg : w.its.gasService ≠ its)
    (h : World.callback C w id = (w', .ok rs evs pd)) :
    World.egld w' its + gas = World.egld w its := by
  unfold World.callback at h
  simp only [hp, hr, hk] at h
  simp only [World.runIts] at h
  cases hm : registerTokenMetadataCallback C
      (World.itsCtx { w with pending := w.pending.filter (·.desc.id != id) } esdtSystemSc its 0 [])
      tok gas caller okFlag vals { w := { w with pending := w.pending.filter (·.desc.id != id) } } with
  | none => simp [hm] at h
  | some v =>
    obtain ⟨u, t'⟩ := v
    cases u
    simp only [hm, Prod.mk.injEq] at h
    obtain ⟨rfl, _⟩ := h
    exact metadata_callback_service_keeps_nothing C _ tok gas caller okFlag vals
      { w := { w with pending := w.pending.filter (·.desc.id != id) } } t' hkgs hkgw hc hg hm

/-- **The whole operation.**  A metadata registration by `sender` with `egld` attached: the first transaction
    puts exactly `egld` into the service and registers the lookup; and in *any* later world `w2` in which that
    lookup has been delivered (any reply, any operations in between — the schedule is arbitrary), a successful
    callback takes exactly `egld` out of the service again.  So over the whole operation the service holds
    none of the value the user attached. -/
theorem metadata_operation_leaves_nothing_in_the_service (C : Crypto) (w0 w1 w2 w3 : World)
    (sender its tok : Bytes) (egld : Nat) (esdt : List (Bytes × Nat × Nat))
    (rs rs' : List Bytes) (evs evs' : List Event) (pd pd' : List PendDesc)
    (hk : w0.kind its = some .its) (hs : sender ≠ its)
    (h1 : World.tx C w0 sender its "registerTokenMetadata" egld esdt [tok] = (w1, .ok rs evs pd))
    -- later: the lookup registered by that transaction has been delivered …
    (p : Pending) (hp : World.findPending w2.pending w0.nextPending = some p)
    (hpk : p.kind = .itsMetadata its tok egld sender) (okFlag : Bool) (vals : List Bytes)
    (hres : p.result = some (okFlag, vals))
    (hkgs : w2.kind w2.its.gasService = some .gasService) (hkgw : w2.kind w2.its.gateway = some .gateway)
    (hg : w2.its.gasService ≠ its)
    -- … and its callback runs
    (h2 : World.callback C w2 w0.nextPending = (w3, .ok rs' evs' pd')) :
    World.egld w1 its = World.egld w0 its + egld ∧ World.egld w3 its + egld = World.egld w2 its := by
  obtain ⟨_, hl, _⟩ := metadata_first_transaction C w0 w1 sender its tok egld esdt rs evs pd hk h1
  refine ⟨?_, metadata_callback_at_chain_level C w2 w3 _ p its tok egld sender okFlag vals rs' evs' pd'
    hp hpk hres hkgs hkgw hs hg h2⟩
  have := hl its none
  simp only [World.pt, World.balanceOf] at this
  simp only [World.egld]
  have hne : ¬ (its = sender) := fun e => hs e.symm
  simp [hne] at this
  omega

end Axelar.Props.C17
