/-
  C17 — a user operation seen as a whole: the first transaction and, whatever the schedule puts in between,
  its callback.  The service's EGLD balance goes up by the attached gas value in the first transaction
  and down by exactly the same amount in the callback (when the callback succeeds — the failing callbacks
  are findings F2a / F2b, refuted in C17.lean).
-/
import Axelar.Props.C17
namespace Axelar.Props.C17
open Axelar Axelar.ItsW Axelar.Its Codec

theorem call_registerTokenMetadata (C : Crypto) (cx : ICtx) (tok : Bytes) :
    ItsW.call C cx "registerTokenMetadata" [tok] =
      (do let _ ← getI
          if !onlyEgld cx then fail else
          unit (do
            require (isValidEsdt tok)
            addPend cx Axelar.esdtSystemSc "getTokenProperties" 0 [] [tok] (.itsMetadata cx.self tok cx.egld cx.caller))) := rfl

/-- **First transaction of a metadata registration**: the sender's EGLD goes to the service — for every account
    and asset nothing else moves — and exactly one lookup is registered, remembering that amount as the gas
    value and the sender as the one to refund. -/
theorem metadata_first_transaction (C : Crypto) (w w' : World) (sender its tok : Bytes) (egld : Nat)
    (esdt : List (Bytes × Nat × Nat)) (rs : List Bytes) (evs : List Event) (pd : List PendDesc)
    (hk : w.kind its = some .its)
    (h : World.tx C w sender its "registerTokenMetadata" egld esdt [tok] = (w', .ok rs evs pd)) :
    esdt = [] ∧
    World.Led w w' (World.pt sender none egld) (World.pt its none egld) ∧
    w'.pending = w.pending ++
      [⟨⟨w.nextPending, Axelar.esdtSystemSc, "getTokenProperties", 0, [], [tok]⟩, its,
        .itsMetadata its tok egld sender, none⟩] := by
  unfold World.tx at h
  cases hp : World.pay w sender its egld esdt with
  | none => simp [hp] at h
  | some w1 =>
    simp only [hp, hk] at h
    have hb := World.pay_bal _ _ _ _ _ _ hp
    have hl0 := World.led_pay _ _ _ _ _ _ hp
    cases hc : World.callContract C w1 sender its "registerTokenMetadata" egld esdt [tok] with
    | none => simp [hc] at h
    | some r =>
      obtain ⟨w2, rs2, evs2, pd2⟩ := r
      simp only [hc, Prod.mk.injEq] at h
      obtain ⟨rfl, _⟩ := h
      unfold World.callContract at hc
      rw [hb.kind, hk] at hc
      simp only [World.runIts] at hc
      cases hr : ItsW.call C (World.itsCtx w1 sender its egld esdt) "registerTokenMetadata" [tok] { w := w1 } with
      | none => simp [hr] at hc
      | some v =>
        obtain ⟨a, tt⟩ := v
        simp only [hr, Option.some.injEq, Prod.mk.injEq] at hc
        obtain ⟨rfl, _, _, _⟩ := hc
        rw [call_registerTokenMetadata] at hr
        simp only [run_bind, run_getI] at hr
        by_cases hoe : onlyEgld (World.itsCtx w1 sender its egld esdt) = true
        · simp only [hoe, Bool.not_true, Bool.false_eq_true, if_false, ItsW.unit, run_bind, run_require] at hr
          by_cases hv : isValidEsdt tok = true
          · simp only [hv, if_true, addPend_run, run_pure, Option.some.injEq, Prod.mk.injEq] at hr
            obtain ⟨_, rfl⟩ := hr
            have he : esdt = [] := by simpa [onlyEgld, World.itsCtx] using hoe
            subst he
            refine ⟨rfl, ?_, ?_⟩
            · -- registering a pending call moves nothing
              apply World.Led.conv (hl0.trans (World.Led.of_accts rfl))
              intro x k
              simp only [World.plus, World.nil, World.pt, World.payAmt]
              cases k <;> simp
            · have e1 : w1.pending = w.pending := by rw [hb]
              have e2 : w1.nextPending = w.nextPending := by rw [hb]
              simp only [World.itsCtx, e1, e2]
          · simp [hv] at hr
        · simp [hoe] at hr

/-- **The callback of a metadata lookup, at chain level**: whenever the callback transaction of a delivered lookup
    succeeds — whatever the reply was and whatever happened since the first transaction — the service's EGLD
    balance goes down by exactly the gas value the lookup remembers (to the caller or to the gas service:
    `metadata_callback_moves_exactly_the_gas_value`). -/
theorem metadata_callback_at_chain_level (C : Crypto) (w w' : World) (id : Nat) (p : Pending)
    (its tok : Bytes) (gas : Nat) (caller : Bytes) (okFlag : Bool) (vals rs : List Bytes) (evs : List Event)
    (pd : List PendDesc)
    (hp : World.findPending w.pending id = some p) (hk : p.kind = .itsMetadata its tok gas caller)
    (hr : p.result = some (okFlag, vals))
    (hkgs : w.kind w.its.gasService = some .gasService) (hkgw : w.kind w.its.gateway = some .gateway)
    (hc : caller ≠ its) (hg : w.its.gasService ≠ its)
    (h : World.callback C w id = (w', .ok rs evs pd)) :
    World.egld w' its + gas = World.egld w its := by
  unfold World.callback at h
  simp only [hp, hr, hk] at h
  simp only [World.runIts] at h
  cases hm : registerTokenMetadataCallback C
      (World.itsCtx { w with pending := w.pending.filter (·.desc.id != id) } esdtSystemSc its 0 [])
      tok gas caller okFlag vals { w := { w with pending := w.pending.filter (·.desc.id != id) } } with
  | none => simp [hm] at h
  | some v =>
    obtain ⟨u, t'⟩ := v
    cases u
    simp only [hm, Prod.mk.injEq] at h
    obtain ⟨rfl, _⟩ := h
    exact metadata_callback_service_keeps_nothing C _ tok gas caller okFlag vals
      { w := { w with pending := w.pending.filter (·.desc.id != id) } } t' hkgs hkgw hc hg hm

/-- **The whole operation.**  A metadata registration by `sender` with `egld` attached: the first transaction
    puts exactly `egld` into the service and registers the lookup; and in *any* later world `w2` in which that
    lookup has been delivered (any reply, any operations in between — the schedule is arbitrary), a successful
    callback takes exactly `egld` out of the service again.  So over the whole operation the service holds
    none of the value the user attached. -/
theorem metadata_operation_leaves_nothing_in_the_service (C : Crypto) (w0 w1 w2 w3 : World)
    (sender its tok : Bytes) (egld : Nat) (esdt : List (Bytes × Nat × Nat))
    (rs rs' : List Bytes) (evs evs' : List Event) (pd pd' : List PendDesc)
    (hk : w0.kind its = some .its) (hs : sender ≠ its)
    (h1 : World.tx C w0 sender its "registerTokenMetadata" egld esdt [tok] = (w1, .ok rs evs pd))
    -- later: the lookup registered by that transaction has been delivered …
    (p : Pending) (hp : World.findPending w2.pending w0.nextPending = some p)
    (hpk : p.kind = .itsMetadata its tok egld sender) (okFlag : Bool) (vals : List Bytes)
    (hres : p.result = some (okFlag, vals))
    (hkgs : w2.kind w2.its.gasService = some .gasService) (hkgw : w2.kind w2.its.gateway = some .gateway)
    (hg : w2.its.gasService ≠ its)
    -- … and its callback runs
    (h2 : World.callback C w2 w0.nextPending = (w3, .ok rs' evs' pd')) :
    World.egld w1 its = World.egld w0 its + egld ∧ World.egld w3 its + egld = World.egld w2 its := by
  obtain ⟨_, hl, _⟩ := metadata_first_transaction C w0 w1 sender its tok egld esdt rs evs pd hk h1
  refine ⟨?_, metadata_callback_at_chain_level C w2 w3 _ p its tok egld sender okFlag vals rs' evs' pd'
    hp hpk hres hkgs hkgw hs hg h2⟩
  have := hl its none
  simp only [World.pt, World.balanceOf] at this
  simp only [World.egld]
  have hne : ¬ (its = sender) := fun e => hs e.symm
  simp [hne] at this
  omega

/-! ### Remote deployment of an ESDT token: first transaction -/

/-- reading a manager's recorded token (`tokenIdentifier` view, called without payment) leaves the whole world
    as it was -/
theorem subcall_tokenIdentifier (C : Crypto) (cx : ICtx) (tm : Bytes) (t t' : Tx) (rs : List Bytes)
    (hk : t.w.kind tm = some .tokenManager)
    (h : subcall C cx tm "tokenIdentifier" 0 [] [] t = some (rs, t')) :
    t'.w = t.w ∧ t'.pend = t.pend ∧ rs = [(t.w.tms tm).tokenIdentifier] := by
  unfold subcall at h
  cases hp : World.pay t.w cx.self tm 0 [] with
  | none => simp [hp] at h
  | some w1 =>
    have hw1 := pay_zero_eq _ _ _ _ hp
    subst hw1
    simp only [hp] at h
    cases hc : World.callOther C t.w cx.self tm "tokenIdentifier" 0 [] [] with
    | none => simp [hc] at h
    | some r =>
      obtain ⟨w2, rs2, evs, pd⟩ := r
      simp only [hc, Option.some.injEq, Prod.mk.injEq] at h
      obtain ⟨rfl, rfl⟩ := h
      unfold World.callOther at hc
      rw [hk] at hc
      simp only at hc
      have hcall : TokenManager.call (t.w.tms tm) (World.tmCtx t.w cx.self tm 0 []) "tokenIdentifier" [] =
          .ok { st := t.w.tms tm, results := [(t.w.tms tm).tokenIdentifier] } := by
        simp [TokenManager.call, TokenManager.notPayable, TokenManager.view, World.tmCtx]
      rw [hcall] at hc
      simp only [World.tmFinish, World.applyEffects] at hc
      have hupd : upd t.w.tms tm (t.w.tms tm) = t.w.tms := by
        funext a; simp only [upd]; split <;> simp_all
      simp only [hupd, Option.some.injEq, Prod.mk.injEq] at hc
      obtain ⟨rfl, rfl, _, rfl⟩ := hc
      exact ⟨rfl, by simp, rfl⟩

/-- **The synchronous part of a remote deployment of an ESDT token** (`deploy_remote_interchain_token_raw`, behind
    all three remote-deployment endpoints): nothing moves and nothing is written; exactly one token lookup is
    registered, remembering the attached EGLD as the gas value and `sender` as the one to refund. -/
theorem deployRemoteRaw_esdt (C : Crypto) (cx : ICtx) (salt chain dm sender : Bytes) (t t' : Tx) (tid tm : Bytes)
    (htm : t.w.its.tmAddress (tokenIdRaw C salt) = tm) (hk : t.w.kind tm = some .tokenManager)
    (hesdt : GasService.tokOfBytes (t.w.tms tm).tokenIdentifier ≠ none)
    (h : deployRemoteInterchainTokenRaw C cx salt chain dm sender t = some (tid, t')) :
    t'.w = { t.w with
      pending := t.w.pending ++
        [⟨⟨t.w.nextPending, esdtSystemSc, "getTokenProperties", 0, [], [(t.w.tms tm).tokenIdentifier]⟩, cx.self,
          .itsDeployRemote cx.self salt chain
            ((t.w.tms tm).tokenIdentifier.take ((t.w.tms tm).tokenIdentifier.length - 7)) dm cx.egld sender, none⟩],
      nextPending := t.w.nextPending + 1 } := by
  simp only [deployRemoteInterchainTokenRaw, run_bind, requireNotPaused_run] at h
  cases hpz : t.w.its.paused
  · simp only [hpz, Bool.false_eq_true, if_false, registeredTokenIdentifier, run_bind, deployedTokenManager_run, htm] at h
    by_cases hem : tm.isEmpty = true
    · simp [hem] at h
    · simp only [hem, Bool.false_eq_true, if_false] at h
      cases hs : subcall C cx tm "tokenIdentifier" 0 [] [] t with
      | none => simp [hs] at h
      | some r =>
        obtain ⟨rs, t1⟩ := r
        obtain ⟨hw, hpd, hrs⟩ := subcall_tokenIdentifier C cx tm t t1 rs hk hs
        subst hrs
        simp only [hs, run_pure] at h
        have hne : (GasService.tokOfBytes (t.w.tms tm).tokenIdentifier == none) = false := by
          cases hx : GasService.tokOfBytes (t.w.tms tm).tokenIdentifier with
          | none => exact absurd hx hesdt
          | some v => rfl
        simp only [hne, Bool.false_eq_true, if_false, run_bind, run_require] at h
        by_cases hl : (t.w.tms tm).tokenIdentifier.length ≥ 7
        · simp only [hl, decide_true, if_true, addPend_run, run_pure, Option.some.injEq, Prod.mk.injEq] at h
          obtain ⟨_, rfl⟩ := h
          simp only [hw]
        · simp [hl] at h
  · simp [hpz] at h

theorem retUnlessAsync_run (m : M Bytes) (t : Tx) :
    retUnlessAsync m t =
      match m t with
      | none => none
      | some (b, t') => some (if t'.pend.length > t.pend.length then [] else [b], t') := by
  have hg : ∀ t : Tx, (get : M Tx) t = some (t, t) := fun _ => rfl
  simp only [retUnlessAsync, run_bind, hg]
  cases m t with
  | none => rfl
  | some v =>
    obtain ⟨b, t'⟩ := v
    simp only [hg]
    split <;> simp

theorem call_deployRemoteCanonical (C : Crypto) (cx : ICtx) (tok chain : Bytes) :
    ItsW.call C cx "deployRemoteCanonicalInterchainToken" [tok, chain] =
      (do let st ← getI
          if !onlyEgld cx then fail else do
          require (GasService.tokOfBytes tok == none || isValidEsdt tok)
          let deploySalt := canonicalDeploySalt C st tok
          retUnlessAsync (deployRemoteInterchainTokenRaw C cx deploySalt chain [] cx.caller)) := rfl

/-- **First transaction of a remote deployment of a canonical ESDT token**: the sender's EGLD goes to the
    service, nothing else moves, and exactly one token lookup is registered which remembers that amount as the
    gas value and the sender as the one to refund. -/
theorem remote_canonical_first_transaction (C : Crypto) (w w' : World) (sender its tok chain : Bytes) (egld : Nat)
    (esdt : List (Bytes × Nat × Nat)) (rs : List Bytes) (evs : List Event) (pd : List PendDesc) (tm : Bytes)
    (hk : w.kind its = some .its)
    (htm : w.its.tmAddress (tokenIdRaw C (canonicalDeploySalt C w.its tok)) = tm)
    (hktm : w.kind tm = some .tokenManager)
    (hesdt : GasService.tokOfBytes (w.tms tm).tokenIdentifier ≠ none)
    (h : World.tx C w sender its "deployRemoteCanonicalInterchainToken" egld esdt [tok, chain] = (w', .ok rs evs pd)) :
    esdt = [] ∧
    World.Led w w' (World.pt sender none egld) (World.pt its none egld) ∧
    w'.pending = w.pending ++
      [⟨⟨w.nextPending, esdtSystemSc, "getTokenProperties", 0, [], [(w.tms tm).tokenIdentifier]⟩, its,
        .itsDeployRemote its (canonicalDeploySalt C w.its tok) chain
          ((w.tms tm).tokenIdentifier.take ((w.tms tm).tokenIdentifier.length - 7)) [] egld sender, none⟩] := by
  unfold World.tx at h
  cases hp : World.pay w sender its egld esdt with
  | none => simp [hp] at h
  | some w1 =>
    simp only [hp, hk] at h
    have hb := World.pay_bal _ _ _ _ _ _ hp
    have hl0 := World.led_pay _ _ _ _ _ _ hp
    cases hc : World.callContract C w1 sender its "deployRemoteCanonicalInterchainToken" egld esdt [tok, chain] with
    | none => simp [hc] at h
    | some r =>
      obtain ⟨w2, rs2, evs2, pd2⟩ := r
      simp only [hc, Prod.mk.injEq] at h
      obtain ⟨rfl, _⟩ := h
      unfold World.callContract at hc
      rw [hb.kind, hk] at hc
      simp only [World.runIts] at hc
      cases hr : ItsW.call C (World.itsCtx w1 sender its egld esdt) "deployRemoteCanonicalInterchainToken" [tok, chain] { w := w1 } with
      | none => simp [hr] at hc
      | some v =>
        obtain ⟨a, tt⟩ := v
        simp only [hr, Option.some.injEq, Prod.mk.injEq] at hc
        obtain ⟨rfl, _, _, _⟩ := hc
        rw [call_deployRemoteCanonical] at hr
        simp only [run_bind, run_getI] at hr
        by_cases hoe : onlyEgld (World.itsCtx w1 sender its egld esdt) = true
        · simp only [hoe, Bool.not_true, Bool.false_eq_true, if_false, run_bind, run_require] at hr
          have he : esdt = [] := by simpa [onlyEgld, World.itsCtx] using hoe
          subst he
          split at hr
          · cases hr
          · rename_i u t1 hreq
            have ht1 : t1 = { w := w1 } := by
              split at hreq
              · cases hreq; rfl
              · cases hreq
            subst ht1
            rw [retUnlessAsync_run] at hr
            have e1 : w1.its = w.its := by rw [hb]
            have e2 : w1.tms = w.tms := by rw [hb]
            have e3 : w1.kind = w.kind := by rw [hb]
            have e4 : w1.pending = w.pending := by rw [hb]
            have e5 : w1.nextPending = w.nextPending := by rw [hb]
            cases hraw : deployRemoteInterchainTokenRaw C (World.itsCtx w1 sender its egld [])
                (canonicalDeploySalt C w1.its tok) chain [] (World.itsCtx w1 sender its egld []).caller { w := w1 } with
            | none => simp [hraw] at hr
            | some q =>
              obtain ⟨tid, t2⟩ := q
              have hw2 := deployRemoteRaw_esdt C (World.itsCtx w1 sender its egld []) (canonicalDeploySalt C w1.its tok)
                chain [] _ { w := w1 } t2 tid tm (by show w1.its.tmAddress _ = tm; rw [e1]; exact htm)
                (by show w1.kind tm = _; rw [e3]; exact hktm)
                (by show GasService.tokOfBytes (w1.tms tm).tokenIdentifier ≠ none; rw [e2]; exact hesdt) hraw
              simp only [hraw, Option.some.injEq, Prod.mk.injEq] at hr
              have htt : tt.w = t2.w := by rw [← hr.2]
              refine ⟨rfl, ?_, ?_⟩
              · rw [htt, hw2]
                apply World.Led.conv (hl0.trans (World.Led.of_accts rfl))
                intro x k
                simp only [World.plus, World.nil, World.pt, World.payAmt]
                cases k <;> simp
              · rw [htt, hw2]
                simp only [World.itsCtx, e1, e2, e4, e5]
        · simp [hoe] at hr

/-- **The callback of a remote-deployment lookup, at chain level**: whenever the callback transaction of a
    delivered lookup succeeds — whatever the reply and whatever happened since the first transaction — exactly
    the remembered gas value leaves the service, to the original caller or to the gas service; for every account
    and asset nothing else moves. -/
theorem remote_deploy_callback_at_chain_level (C : Crypto) (w w' : World) (id : Nat) (p : Pending)
    (its salt chain sym dm : Bytes) (gas : Nat) (caller : Bytes) (okFlag : Bool) (vals rs : List Bytes)
    (evs : List Event) (pd : List PendDesc)
    (hp : World.findPending w.pending id = some p) (hk : p.kind = .itsDeployRemote its salt chain sym dm gas caller)
    (hr : p.result = some (okFlag, vals))
    (hkgs : w.kind w.its.gasService = some .gasService) (hkgw : w.kind w.its.gateway = some .gateway)
    (hchain : chain ≠ [])
    (h : World.callback C w id = (w', .ok rs evs pd)) :
    ∃ target, (target = caller ∨ target = w.its.gasService) ∧
      World.Led w w' (World.pt its none gas) (World.pt target none gas) := by
  unfold World.callback at h
  simp only [hp, hr, hk] at h
  simp only [World.runIts] at h
  cases hm : deployRemoteTokenCallback C
      (World.itsCtx { w with pending := w.pending.filter (·.desc.id != id) } esdtSystemSc its 0 [])
      salt chain sym dm gas caller okFlag vals { w := { w with pending := w.pending.filter (·.desc.id != id) } } with
  | none => simp [hm] at h
  | some v =>
    obtain ⟨u, t'⟩ := v
    cases u
    simp only [hm, Prod.mk.injEq] at h
    obtain ⟨rfl, _⟩ := h
    obtain ⟨target, htg, hl⟩ := remote_deploy_callback_moves_exactly_the_gas_value C _ salt chain sym dm gas caller okFlag vals
      { w := { w with pending := w.pending.filter (·.desc.id != id) } } t' hkgs hkgw hchain hm
    refine ⟨target, by simpa using htg, ?_⟩
    have h0 : World.Led w { w with pending := w.pending.filter (·.desc.id != id) } World.nil World.nil :=
      World.Led.of_accts rfl
    exact (h0.trans hl).conv (by intro x k; simp [World.plus, World.nil, World.itsCtx])

/-- **The whole remote deployment of a canonical ESDT token.**  The first transaction puts exactly `egld` into the
    service and registers the lookup; in any later world in which that lookup has been delivered (any reply, any
    operations in between), a successful callback takes exactly `egld` out of the service again — to the sender or
    to the gas service.  Over the whole operation the service holds none of the value the user attached. -/
theorem remote_canonical_operation_leaves_nothing_in_the_service (C : Crypto) (w0 w1 w2 w3 : World)
    (sender its tok chain tm : Bytes) (egld : Nat) (esdt : List (Bytes × Nat × Nat))
    (rs rs' : List Bytes) (evs evs' : List Event) (pd pd' : List PendDesc)
    (hk : w0.kind its = some .its) (hs : sender ≠ its)
    (htm : w0.its.tmAddress (tokenIdRaw C (canonicalDeploySalt C w0.its tok)) = tm)
    (hktm : w0.kind tm = some .tokenManager)
    (hesdt : GasService.tokOfBytes (w0.tms tm).tokenIdentifier ≠ none)
    (h1 : World.tx C w0 sender its "deployRemoteCanonicalInterchainToken" egld esdt [tok, chain] = (w1, .ok rs evs pd))
    (p : Pending) (hp : World.findPending w2.pending w0.nextPending = some p)
    (salt sym dm : Bytes) (hpk : p.kind = .itsDeployRemote its salt chain sym dm egld sender)
    (okFlag : Bool) (vals : List Bytes) (hres : p.result = some (okFlag, vals))
    (hkgs : w2.kind w2.its.gasService = some .gasService) (hkgw : w2.kind w2.its.gateway = some .gateway)
    (hg : w2.its.gasService ≠ its) (hchain : chain ≠ [])
    (h2 : World.callback C w2 w0.nextPending = (w3, .ok rs' evs' pd')) :
    World.egld w1 its = World.egld w0 its + egld ∧ World.egld w3 its + egld = World.egld w2 its := by
  obtain ⟨_, hl, _⟩ := remote_canonical_first_transaction C w0 w1 sender its tok chain egld esdt rs evs pd tm hk htm hktm hesdt h1
  obtain ⟨target, htg, hl2⟩ := remote_deploy_callback_at_chain_level C w2 w3 _ p its salt chain sym dm egld sender
    okFlag vals rs' evs' pd' hp hpk hres hkgs hkgw hchain h2
  have hne : ¬ (its = sender) := fun e => hs e.symm
  have htne : ¬ (its = target) := by
    rcases htg with rfl | rfl
    · exact hne
    · exact fun e => hg e.symm
  constructor
  · have := hl its none
    simp only [World.pt, World.balanceOf] at this
    simp only [World.egld]
    simp [hne] at this
    omega
  · have := hl2 its none
    simp only [World.pt, World.balanceOf] at this
    simp only [World.egld]
    simp [htne] at this
    omega

end Axelar.Props.C17
