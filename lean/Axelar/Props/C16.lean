/-
  C16 — Governance credits failed dispatch payments to the caller, withdrawable once.
-/
import Axelar.Model.Governance
namespace Axelar.Props.C16
open Axelar Axelar.Governance Codec

/-- total attached amount of (token, nonce) in a payment -/
def attached (p : Payments) (tok : Bytes) (nonce : Nat) : Nat :=
  match p with
  | .egld v => if tok = strBytes "EGLD" ∧ nonce = 0 then v else 0
  | .esdt l => (l.map fun (t, n, a) => if t = tok ∧ n = nonce then a else 0).sum

theorem creditList (caller : Bytes) (l : List (Bytes × Nat × Nat)) (s : State) (key : RefundKey) :
    (l.foldl (fun s (x : Bytes × Nat × Nat) =>
      { s with refunds := upd s.refunds (caller, x.1, x.2.1) (s.refunds (caller, x.1, x.2.1) + x.2.2) }) s).refunds key =
    s.refunds key + (if key.1 = caller then
      (l.map fun (x : Bytes × Nat × Nat) => if x.1 = key.2.1 ∧ x.2.1 = key.2.2 then x.2.2 else 0).sum else 0) := by
  induction l generalizing s with
  | nil => simp
  | cons x l ih =>
    simp only [List.foldl_cons, List.map_cons, List.sum_cons]
    rw [ih]
    obtain ⟨u, t, n⟩ := key
    obtain ⟨xt, xn, xa⟩ := x
    simp only [upd]
    by_cases hu : u = caller
    · subst hu
      by_cases ht : xt = t ∧ xn = n
      · obtain ⟨rfl, rfl⟩ := ht
        simp; omega
      · have : ¬ ((u, t, n) = (u, xt, xn)) := by
          intro h; simp only [Prod.mk.injEq, true_and] at h; exact ht ⟨h.1.symm, h.2.symm⟩
        simp [this, ht]
    · have : ¬ ((u, t, n) = (caller, xt, xn)) := by
        intro h; simp only [Prod.mk.injEq] at h; exact hu h.1
      simp [this, hu]

/-- **Crediting is exact and additive per token**: after `handle_callback_failure` the credit
    of (caller, token, nonce) grew by exactly what the caller attached in that token; nobody
    else's credit moved. -/
theorem credit_exact (st : State) (caller : Bytes) (p : Payments) (key : RefundKey) :
    (creditPayments st caller p).refunds key =
      st.refunds key + (if key.1 = caller then attached p key.2.1 key.2.2 else 0) := by
  cases p with
  | egld v =>
    obtain ⟨u, t, n⟩ := key
    simp only [creditPayments, attached, upd]
    by_cases h : (u, t, n) = (caller, strBytes "EGLD", 0)
    · simp only [Prod.mk.injEq] at h
      obtain ⟨rfl, rfl, rfl⟩ := h
      simp
    · simp only [h, if_false]
      by_cases hu : u = caller
      · subst hu
        have : ¬ (t = strBytes "EGLD" ∧ n = 0) := by
          intro ⟨a, b⟩; exact h (by rw [a, b])
        simp [this]
      · simp [hu]
  | esdt l =>
    simp only [creditPayments, attached]
    have := creditList caller l st key
    simpa using this

/-- **A successful dispatched call credits nothing; a failed one credits the dispatching
    caller with every attached amount.** -/
theorem callback_credits (st : State) (d : Dispatch) (results : List Bytes) (key : RefundKey) :
    (callback st d true results).st.refunds key = st.refunds key ∧
    (callback st d false results).st.refunds key =
      st.refunds key + (if key.1 = d.caller then attached d.payments key.2.1 key.2.2 else 0) := by
  constructor
  · simp [callback]
  · simp only [callback, Bool.false_eq_true, if_false]
    split <;> exact credit_exact st d.caller d.payments key

/-- the payments remembered by a dispatch are exactly what its caller attached -/
theorem dispatch_remembers_payments (C : Crypto) (st : State) (ctx : Ctx) (t cd : Bytes) (v : Nat)
    (out : Out) (d : Dispatch) :
    (executeProposal C st ctx t cd v = .ok out ∨ executeOperatorProposal C st ctx t cd v = .ok out) →
    out.dispatch = some d → d.payments = anyPayment ctx ∧ d.caller = ctx.caller := by
  rintro (h | h) hd
  · simp only [executeProposal] at h
    split at h
    · cases h
    · split at h
      · cases h
      · cases h; cases hd; exact ⟨rfl, rfl⟩
  · simp only [executeOperatorProposal] at h
    split at h
    · cases h
    · rename_i hc
      split at h
      · cases h
      · split at h
        · cases h
        · cases h; cases hd
          have hcc : ctx.caller = st.operator := by simpa using hc
          exact ⟨rfl, hcc.symm⟩

/-- **Withdrawal pays the caller's whole credit to the caller, once**: the credit is zero
    afterwards, exactly the credited amount is sent (nothing when it is zero), and no other
    user's or token's credit changes. -/
theorem withdraw_exact (st : State) (ctx : Ctx) (tok : Bytes) (nonce : Nat) :
    let out := withdrawRefundToken st ctx tok nonce
    out.st.refunds (ctx.caller, tok, nonce) = 0 ∧
    (∀ key, key ≠ (ctx.caller, tok, nonce) → out.st.refunds key = st.refunds key) ∧
    (st.refunds (ctx.caller, tok, nonce) = 0 → out.sends = []) ∧
    (st.refunds (ctx.caller, tok, nonce) ≠ 0 →
      out.sends = [⟨ctx.caller, (match GasService.tokOfBytes tok with | none => none | some t => some (esdtKey t nonce)),
        st.refunds (ctx.caller, tok, nonce)⟩]) ∧
    out.st.eta = st.eta ∧ out.st.approvals = st.approvals := by
  simp only [withdrawRefundToken]
  exact ⟨by simp [upd], fun key hk => by simp [upd, hk], fun h => by simp [h], fun h => by simp [h]; rfl, by simp, by simp⟩

/-- **Credits change only in a failure callback or in the owner's own withdrawal**: every
    other endpoint leaves all credits untouched. -/
theorem credits_untouched_elsewhere (C : Crypto) (st : State) (ctx : Ctx) (func : String)
    (args : List Bytes) (out : Out) (h : call C st ctx func args = .ok out)
    (hf : func ≠ "withdrawRefundToken") : out.st.refunds = st.refunds := by
  unfold call at h
  split at h
  · -- executeProposal
    split at h
    · rename_i t _
      cases he : executeProposal C st ctx t _ (topBig _) with
      | error e => rw [he] at h; cases h
      | ok o =>
        rw [he] at h; cases h
        simp only [executeProposal] at he
        split at he
        · cases he
        · rename_i st' eta hfin
          split at he
          · cases he
          · cases he
            simp only [finalizeTimeLock] at hfin
            split at hfin
            · cases hfin
            · split at hfin
              · cases hfin
              · cases hfin; rfl
    · cases h
  · split at h
    · simp only [executeOperatorProposal] at h
      repeat' (first | (cases h; done) | (split at h))
      cases h; rfl
    · cases h
  · split at h
    · cases h
    · split at h
      all_goals (
        repeat' (first
          | (cases h; done)
          | (cases h; rfl)
          | (exact absurd rfl hf)
          | split at h))

/-! ### Non-vacuity (tests) -/
example : attached (.esdt [([1], 0, 10), ([2], 0, 20), ([1], 0, 5)]) [1] 0 = 15 := by decide

end Axelar.Props.C16
