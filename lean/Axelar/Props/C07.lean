/-
  C07 — ITS ABI decoder: round-trip, canonical acceptance, no misread on arbitrary bytes.
  Property theorems only; helper lemmas live in Axelar/Proofs.
-/
import Axelar.Proofs.AbiDecode
import Axelar.Generated.AbiFields
namespace Axelar.Props.C07
open Axelar Axelar.Abi Axelar.Sol

/-- **No misread, no out-of-bounds read, canonical acceptance — for arbitrary bytes.**
    The model of `raw_abi_decode` succeeds with `ts` *iff* the Solidity layout, read with every
    access inside the buffer, offset/length words below 2^32 and 8-bit words below 256, assigns
    exactly `ts` to the fields (in slot order).  Hence it rejects exactly when no such in-bounds
    layout exists, and never attributes bytes to another field. -/
theorem decode_iff_layout (tys : List Ty) (bs : Bytes) (ts : List Tok) :
    rawDecode tys bs = .ok ts ↔ ReadsAll bs 0 tys ts := by
  have := rawDecodeGo_iff tys bs 0 ts
  simpa [rawDecode] using this

/-- Decoding is a function of the bytes: at most one value is ever returned. -/
theorem reads_unique (tys : List Ty) (bs : Bytes) (ts ts' : List Tok)
    (h : ReadsAll bs 0 tys ts) (h' : ReadsAll bs 0 tys ts') : ts = ts' := by
  have a := (decode_iff_layout tys bs ts).mpr h
  have b := (decode_iff_layout tys bs ts').mpr h'
  rw [a] at b; cases b; rfl

/-- **Every canonical Solidity encoding is accepted and decodes to the encoded value.** -/
theorem roundtrip (toks : List Tok) (hf : ∀ t ∈ toks, Tok.fits t)
    (hlen : (enc toks).length < 2 ^ 32) :
    rawDecode (toks.map Tok.ty) (enc toks) = .ok toks :=
  (decode_iff_layout _ _ _).mpr (enc_readsAll toks hf hlen)

/-- An 8-bit field whose word is ≥ 256 is never accepted. -/
theorem u8_word_ge_256_rejected (bs : Bytes) (i : Nat) (n : Nat) (t : Tok)
    (hw : wordAt bs (32 * i) = some n) (hn : 256 ≤ n) :
    decodeParam .uint8 bs (32 * i) ≠ .ok t := by
  intro h
  have := (decodeParam_iff _ _ _ _).mp h
  cases this with
  | uint8 m hm hlt => rw [hw] at hm; cases hm; omega

/-- An offset word that does not fit 32 bits is never accepted. -/
theorem big_offset_rejected (bs : Bytes) (i : Nat) (n : Nat) (t : Tok)
    (hw : wordAt bs (32 * i) = some n) (hn : 2 ^ 32 ≤ n) :
    decodeParam .bytes bs (32 * i) ≠ .ok t := by
  intro h
  have := (decodeParam_iff _ _ _ _).mp h
  cases this with
  | bytes off len h1 h2 _ _ _ => rw [hw] at h1; cases h1; omega

/-- A length word that does not fit 32 bits is never accepted. -/
theorem big_length_rejected (bs : Bytes) (i : Nat) (off n : Nat) (t : Tok)
    (hw : wordAt bs (32 * i) = some off) (hl : wordAt bs off = some n) (hn : 2 ^ 32 ≤ n) :
    decodeParam .bytes bs (32 * i) ≠ .ok t := by
  intro h
  have := (decodeParam_iff _ _ _ _).mp h
  cases this with
  | bytes off' len h1 _ h3 h4 _ =>
    rw [hw] at h1; cases h1; rw [hl] at h3; cases h3; omega

/-- Nothing is read outside the buffer: a successful dynamic read lies inside `bs`. -/
theorem dynamic_read_in_bounds (bs : Bytes) (i : Nat) (v : Bytes)
    (h : decodeParam .bytes bs (32 * i) = .ok (.bytes v)) :
    ∃ off len, off + 32 + len ≤ bs.length ∧ 32 * i + 32 ≤ bs.length ∧
      v = slice bs (off + 32) len := by
  have := (decodeParam_iff _ _ _ _).mp h
  cases this with
  | bytes off len h1 _ _ _ h5 =>
    exact ⟨off, len, h5, ((wordAt_some _ _ _).mp h1).1, rfl⟩

/-! ### Tie to the source: type lists and pop order extracted from abi_types.rs -/

theorem decode_tys :
    Transfer.tys = Generated.transferDecodeTys ∧ Deploy.tys = Generated.deployDecodeTys ∧
    Hub.tys = Generated.hubDecodeTys ∧ Metadata.tys = Generated.metadataDecodeTys ∧
    Link.tys = Generated.linkDecodeTys := by decide

theorem initial_offsets :
    Generated.transferInitialOffset = 0 ∧ Generated.deployInitialOffset = 0 ∧
    Generated.hubInitialOffset = 0 ∧ Generated.metadataInitialOffset = 0 ∧
    Generated.linkInitialOffset = 0 := by decide

def convOf : Ty → String
  | .uint256 => "into_biguint" | .bytes32 => "into_managed_byte_array"
  | .bytes => "into_managed_buffer" | .string => "into_managed_buffer" | .uint8 => "into_u8"

/-- pops happen in exactly the reverse of the field order, each with the conversion of the
    field's type, and each popped value lands in the struct field of the same name -/
def popsMatch (enc : List (Ty × String)) (pops : List (String × String)) : Bool :=
  pops == (enc.reverse.map fun (ty, name) => (name, convOf ty))

theorem pops_are_reverse_fields :
    popsMatch Generated.transferEncode Generated.transferPops = true ∧
    popsMatch Generated.deployEncode Generated.deployPops = true ∧
    popsMatch Generated.hubEncode Generated.hubPops = true ∧
    popsMatch Generated.metadataEncode Generated.metadataPops = true ∧
    popsMatch Generated.linkEncode Generated.linkPops = true := by decide

theorem token_manager_type_from_u8 :
    Generated.tokenManagerTypeFromU8 =
      [(0, "NativeInterchainToken"), (1, "MintBurnFrom"), (2, "LockUnlock"),
       (3, "LockUnlockFee"), (4, "MintBurn")] := by decide

/-! ### Per-type round trips -/

theorem transfer_roundtrip (p : Transfer) (h1 : p.messageType < 2 ^ 256) (h2 : p.amount < 2 ^ 256)
    (h3 : p.tokenId.length = 32) (hlen : (enc p.toks).length < 2 ^ 32) :
    Transfer.decode (enc p.toks) = .ok p := by
  have := roundtrip p.toks (by simp [Transfer.toks, Tok.fits, h1, h2, h3]) hlen
  simp only [Transfer.decode]
  rw [show Transfer.tys = p.toks.map Tok.ty from rfl, this]
  rfl

theorem deploy_roundtrip (p : Deploy) (h1 : p.messageType < 2 ^ 256)
    (h3 : p.tokenId.length = 32) (hlen : (enc p.toks).length < 2 ^ 32) :
    Deploy.decode (enc p.toks) = .ok p := by
  have := roundtrip p.toks (by simp [Deploy.toks, Tok.fits, h1, h3]) hlen
  simp only [Deploy.decode]
  rw [show Deploy.tys = p.toks.map Tok.ty from rfl, this]
  rfl

theorem hub_roundtrip (p : Hub) (h1 : p.messageType < 2 ^ 256)
    (hlen : (enc p.toks).length < 2 ^ 32) :
    Hub.decode (enc p.toks) = .ok p := by
  have := roundtrip p.toks (by simp [Hub.toks, Tok.fits, h1]) hlen
  simp only [Hub.decode]
  rw [show Hub.tys = p.toks.map Tok.ty from rfl, this]
  rfl

theorem metadata_roundtrip (p : Metadata) (h1 : p.messageType < 2 ^ 256)
    (hlen : (enc p.toks).length < 2 ^ 32) :
    Metadata.decode (enc p.toks) = .ok p := by
  have := roundtrip p.toks (by simp [Metadata.toks, Tok.fits, h1]) hlen
  simp only [Metadata.decode]
  rw [show Metadata.tys = p.toks.map Tok.ty from rfl, this]
  rfl

theorem link_roundtrip (p : Link) (h1 : p.messageType < 2 ^ 256)
    (h3 : p.tokenId.length = 32) (h4 : p.tokenManagerType.toNat ≤ 4)
    (hlen : (enc p.toks).length < 2 ^ 32) :
    Link.decode (enc p.toks) = .ok p := by
  have := roundtrip p.toks (by simp [Link.toks, Tok.fits, h1, h3]) hlen
  simp only [Link.decode]
  rw [show Link.tys = p.toks.map Tok.ty from rfl, this]
  simp [Link.toks, Link.ofToks, Tok.intoBuf, Tok.intoU8, Tok.intoArr, Tok.intoBig,
    tokenManagerTypeOk, h4]

/-- A link payload whose type byte exceeds 4 is rejected. -/
theorem link_bad_type_rejected (bs : Bytes) (p : Link) (h : Link.decode bs = .ok p) :
    p.tokenManagerType.toNat ≤ 4 := by
  simp only [Link.decode] at h
  cases hd : rawDecode Link.tys bs with
  | error e => simp [hd] at h
  | ok ts =>
    simp only [hd] at h
    match ts, h with
    | [a, b, c, d, e, f], h =>
      simp only [Link.ofToks] at h
      split at h
      · split at h
        · cases h; simp_all [tokenManagerTypeOk]
        · cases h
      · cases h

/-- A message type that does not fit 63 bits is rejected (`to_u64().unwrap()` via `bi_to_i64`);
    an accepted one is exactly the first word. -/
theorem message_type_fits_u64 (bs : Bytes) (n : Nat) (h : getMessageType bs = .ok n) :
    n < 2 ^ 63 ∧ wordAt bs 0 = some n := by
  unfold getMessageType at h
  cases hd : decodeParam .uint256 bs 0 with
  | error e => simp [hd] at h
  | ok t =>
    have hr := (decodeParam_iff .uint256 bs 0 t).mp (by simpa using hd)
    cases hr with
    | uint256 m hm =>
      simp only [hd] at h
      split at h
      · cases h; exact ⟨by assumption, by simpa using hm⟩
      · cases h

/-! ### Non-vacuity (tests) -/
example : ∃ bs ts, rawDecode [.uint256] bs = .ok ts :=
  ⟨enc [.uint256 7], [.uint256 7], roundtrip [.uint256 7] (by decide) (by decide)⟩

end Axelar.Props.C07
