/-
  C08 — ITS transfer-with-data is atomic and single-shot across its asynchronous steps.
  Full strength ("never left behind") does NOT hold on the unchanged code (finding F1): see
  `failure_callback_fails_when_take_back_is_rejected`.
-/
import Axelar.Proofs.ItsLock
import Axelar.Proofs.GwHistory
import Axelar.Proofs.ItsLedger
namespace Axelar.Props.C08
open Axelar Axelar.ItsW Axelar.Its Codec

/-- **While a delivery is in flight the same message cannot start another one**: step 1 fails
    whenever the lock of (source chain, message id) is set — whatever the gateway, the token
    manager or the caller do. -/
theorem locked_message_cannot_start (C : Crypto) (cx : ICtx) (dest oc sc mid sa ph osa data tid : Bytes)
    (amount : Nat) (t : Tx) (hlock : t.w.its.lock (sc, mid) = true) :
    executeWithToken C cx dest oc sc mid sa ph osa data tid amount t = none := by
  simp only [executeWithToken, run_bind]
  cases h1 : gatewayIsApproved C cx sc mid sa ph t with
  | none => rfl
  | some r1 =>
    obtain ⟨ok, t1⟩ := r1
    simp only [run_require]
    cases ok with
    | false => simp
    | true =>
      simp only [if_true]
      cases h2 : tmGiveToken C cx tid cx.self amount t1 with
      | none => rfl
      | some r2 =>
        obtain ⟨⟨tokRaw, amt⟩, t2⟩ := r2
        simp only [run_getI, run_require]
        -- neither sub-call can write the service's storage: the lock is still set
        have e1 := gatewayIsApproved_keeps_its C cx sc mid sa ph t t1 true h1
        have e2 := tmGiveToken_keeps_its C cx tid cx.self amount t1 t2 (tokRaw, amt) h2
        have : t2.w.its.lock (sc, mid) = true := by rw [e2, e1]; exact hlock
        simp [this]

/-- **The callback always clears the lock first**; on success it then validates the message at
    the gateway (marking it executed), on failure it takes the tokens back into custody. -/
theorem callback_shape (C : Crypto) (cx : ICtx) (sc mid sa ph tid tokRaw : Bytes) (amount : Nat) (t : Tx) :
    executeWithTokenCallback C cx sc mid sa ph tid tokRaw amount false t =
      (do tmTakeToken C cx tid (GasService.tokOfBytes tokRaw) amount
          emit cx "execute_with_interchain_token_failed_event" [sc, mid] [[]])
        { t with w := { t.w with its := { t.w.its with lock := upd t.w.its.lock (sc, mid) false } } } := by
  simp [executeWithTokenCallback]

/-- **FINDING F1 (negation of "never left behind").**  If the token manager rejects the
    take-back (for instance because the flow limit was lowered, or the epoch's counters moved,
    inside the delivery window), the failure callback as a whole FAILS: its storage writes are
    rolled back, so the lock stays set and the tokens stay in the service. -/
theorem failure_callback_fails_when_take_back_is_rejected (C : Crypto) (cx : ICtx)
    (sc mid sa ph tid tokRaw : Bytes) (amount : Nat) (t : Tx)
    (hrej : tmTakeToken C cx tid (GasService.tokOfBytes tokRaw) amount
      { t with w := { t.w with its := { t.w.its with lock := upd t.w.its.lock (sc, mid) false } } } = none) :
    executeWithTokenCallback C cx sc mid sa ph tid tokRaw amount false t = none := by
  rw [callback_shape]
  simp only [run_bind]
  rw [hrej]

/-- **Partial (what does hold).**  If the failure callback succeeds, the lock is clear and the
    take-back went through (`tmTakeToken` succeeded: the manager's custody and flow accounting
    were updated by its `takeToken`). -/
theorem failure_callback_success_partial (C : Crypto) (cx : ICtx) (sc mid sa ph tid tokRaw : Bytes)
    (amount : Nat) (t t' : Tx)
    (h : executeWithTokenCallback C cx sc mid sa ph tid tokRaw amount false t = some ((), t')) :
    ∃ t1, tmTakeToken C cx tid (GasService.tokOfBytes tokRaw) amount
        { t with w := { t.w with its := { t.w.its with lock := upd t.w.its.lock (sc, mid) false } } } = some ((), t1) ∧
      t'.w = t1.w := by
  rw [callback_shape] at h
  simp only [run_bind] at h
  cases ht : tmTakeToken C cx tid (GasService.tokOfBytes tokRaw) amount
      { t with w := { t.w with its := { t.w.its with lock := upd t.w.its.lock (sc, mid) false } } } with
  | none => simp [ht] at h
  | some r =>
    obtain ⟨u, t1⟩ := r
    simp only [ht, run_emit, Option.some.injEq, Prod.mk.injEq, true_and] at h
    subst h
    exact ⟨t1, rfl, rfl⟩


/-! ### Single shot, over every schedule -/

/-- **Starting a delivery** (step 1) needs the gateway approval for exactly these fields (read,
    not consumed), an unlocked message, and sets the lock. -/
theorem start_needs_approval_and_sets_the_lock (C : Crypto) (cx : ICtx) (dest oc sc mid sa ph osa data tid : Bytes)
    (amount : Nat) (t t' : Tx) (hk : t.w.kind t.w.its.gateway = some .gateway)
    (h : executeWithToken C cx dest oc sc mid sa ph osa data tid amount t = some ((), t')) :
    t.w.gw.messages (sc, mid) = .approved (Gateway.messageHash C sc mid sa cx.self ph) ∧
    t.w.its.lock (sc, mid) = false ∧ t'.w.its.lock (sc, mid) = true := by
  have hnl : t.w.its.lock (sc, mid) = false := by
    cases hl : t.w.its.lock (sc, mid)
    · rfl
    · rw [locked_message_cannot_start C cx dest oc sc mid sa ph osa data tid amount t hl] at h; cases h
  simp only [executeWithToken, run_bind] at h
  cases h1 : gatewayIsApproved C cx sc mid sa ph t with
  | none => simp [h1] at h
  | some r1 =>
    obtain ⟨ok, t1⟩ := r1
    simp only [h1, run_require] at h
    cases ok with
    | false => simp at h
    | true =>
      simp only [if_true] at h
      refine ⟨?_, hnl, ?_⟩
      · -- the approval: `isMessageApproved` answered true
        simp only [gatewayIsApproved, run_bind, run_getI] at h1
        cases hs : subcall C cx t.w.its.gateway "isMessageApproved" 0 [] [sc, mid, sa, cx.self, ph] t with
        | none => simp [hs] at h1
        | some x =>
          obtain ⟨rs, tt⟩ := x
          simp only [hs, run_pure, Option.some.injEq, Prod.mk.injEq] at h1
          obtain ⟨hrs, rfl⟩ := h1
          have hrs' : rs = [encBool true] := by simpa using hrs
          unfold subcall at hs
          cases hp : World.pay t.w cx.self t.w.its.gateway 0 [] with
          | none => simp [hp] at hs
          | some w1 =>
            simp only [hp] at hs
            obtain ⟨g1, g2, _, _⟩ := World.pay_gw _ _ _ _ _ _ hp
            cases hc : World.callOther C w1 cx.self t.w.its.gateway "isMessageApproved" 0 [] [sc, mid, sa, cx.self, ph] with
            | none => simp [hc] at hs
            | some rr =>
              obtain ⟨w2, rs2, evs, pd⟩ := rr
              simp only [hc, Option.some.injEq, Prod.mk.injEq] at hs
              obtain ⟨rfl, rfl⟩ := hs
              unfold World.callOther at hc
              rw [g2, hk] at hc
              simp only [ne_eq, not_true_eq_false, decide_false, List.isEmpty_nil, Bool.not_true, Bool.or_self,
                Bool.false_eq_true, if_false] at hc
              cases hg : Gateway.call C w1.gw ⟨cx.self, w1.owner t.w.its.gateway, w1.now⟩ "isMessageApproved" [sc, mid, sa, cx.self, ph] with
              | error e => simp [hg] at hc
              | ok v =>
                obtain ⟨gw', rs3, evs3⟩ := v
                simp only [hg, Option.some.injEq, Prod.mk.injEq] at hc
                obtain ⟨_, rfl, _, _⟩ := hc
                rw [← g1]
                obtain ⟨_, hres⟩ := Gateway.isMessageApproved_call C _ _ _ _ _ _ _ _ _ _ hg
                rw [hrs'] at hres
                simp only [List.cons.injEq, and_true] at hres
                cases hb : Gateway.isMessageApproved C w1.gw sc mid sa cx.self ph
                · rw [hb] at hres; simp [encBool] at hres
                · simpa [Gateway.isMessageApproved] using hb
      · -- the lock
        cases h2 : tmGiveToken C cx tid cx.self amount t1 with
        | none => simp [h2] at h
        | some r2 =>
          obtain ⟨⟨tokRaw, amt⟩, t2⟩ := r2
          simp only [h2, run_getI, run_require] at h
          by_cases hl2 : (!t2.w.its.lock (sc, mid)) = true
          · simp only [hl2, if_true, run_setI] at h
            -- after `setI` only `addPend` follows, which keeps the service's storage
            have hk2 : ∀ (tt : Tx) (m : M Unit) [Keeps m], m tt = some ((), t') → t'.w.its = tt.w.its :=
              fun tt m inst hm => inst.h tt () t' hm
            have := hk2 _ _ h
            rw [this]; simp [upd]
          · simp [hl2] at h

/-- **The lock of a message in flight is never cleared by anything but the callback of that very
    delivery** — every other operation of every schedule (transactions by anyone to any
    contract, deliveries, other callbacks, environment moves) leaves it set; and while it is set
    the same message cannot start another delivery (`locked_message_cannot_start`). -/
theorem in_flight_lock_persists (C : Crypto) (w : World) (op : World.Op) (sc mid : Bytes)
    (hl : w.its.lock (sc, mid) = true) :
    (World.step C w op).its.lock (sc, mid) = true ∨
    ∃ id p its sa ph tid tok amount, op = .callback id ∧ World.findPending w.pending id = some p ∧
      p.result.isSome = true ∧ p.kind = .itsExecute its sc mid sa ph tid tok amount :=
  World.step_lock C w op (sc, mid) hl

/-- **A successful delivery ends with the message executed**: when the destination call
    succeeded and the callback ran, the gateway entry is `Executed` — given only that it was the
    approval (as step 1 found it) or already executed, which the life cycle guarantees for every
    schedule in between (`GwHistory.run_life`). -/
theorem success_callback_leaves_message_executed (C : Crypto) (cx : ICtx) (sc mid sa ph tid tokRaw : Bytes)
    (amount : Nat) (t t' : Tx) (hk : t.w.kind t.w.its.gateway = some .gateway)
    (hpre : t.w.gw.messages (sc, mid) = .approved (Gateway.messageHash C sc mid sa cx.self ph) ∨
            t.w.gw.messages (sc, mid) = .executed)
    (h : executeWithTokenCallback C cx sc mid sa ph tid tokRaw amount true t = some ((), t')) :
    t'.w.gw.messages (sc, mid) = .executed ∧ t'.w.its.lock (sc, mid) = false := by
  simp only [executeWithTokenCallback, run_bind, run_getI, run_setI, if_true] at h
  cases hv : gatewayValidate C cx sc mid sa ph
      { t with w := { t.w with its := { t.w.its with lock := upd t.w.its.lock (sc, mid) false } } } with
  | none => simp [hv] at h
  | some x =>
    obtain ⟨b, t1⟩ := x
    simp only [hv, run_emit, Option.some.injEq, Prod.mk.injEq, true_and] at h
    subst h
    have hits := gatewayValidate_keeps_its C cx sc mid sa ph _ t1 b hv
    refine ⟨?_, by simp only [hits]; simp [upd]⟩
    rcases hpre with ha | he
    · exact (gatewayValidate_of_approved C cx sc mid sa ph
        { t with w := { t.w with its := { t.w.its with lock := upd t.w.its.lock (sc, mid) false } } } t1 b hk ha hv).2
    · exact ((gwl_gatewayValidate C cx sc mid sa ph).h _ b t1 hv (sc, mid)).1 he

/-- … and an executed message can never start a delivery again, in any later state of any
    history: **no schedule delivers the tokens twice.** -/
theorem executed_message_cannot_start (C : Crypto) (w : World) (ops : List World.Op) (cx : ICtx)
    (dest oc sc mid sa ph osa data tid : Bytes) (amount : Nat) (t : Tx)
    (hex : w.gw.messages (sc, mid) = .executed) (ht : t.w.gw = (World.run C w ops).gw)
    (hk : t.w.kind t.w.its.gateway = some .gateway) :
    executeWithToken C cx dest oc sc mid sa ph osa data tid amount t = none := by
  cases hr : executeWithToken C cx dest oc sc mid sa ph osa data tid amount t with
  | none => rfl
  | some x =>
    obtain ⟨u, t'⟩ := x
    have ha := (start_needs_approval_and_sets_the_lock C cx dest oc sc mid sa ph osa data tid amount t t' hk hr).1
    have he : t.w.gw.messages (sc, mid) = .executed := by
      rw [ht]; exact (World.run_life C ops w (sc, mid)).1 hex
    rw [he] at ha; cases ha

/-! ### Where the tokens are, step by step (ledger equations over every account and asset) -/

/-- **Step 1 moves exactly the amount into the service** (out of a lock/unlock manager's
    holdings, or freshly minted by a mint/burn manager) and registers, as its last pending call,
    the call to the destination carrying exactly that amount of exactly that token; nothing
    else moves. -/
theorem start_moves_the_amount_into_the_service (C : Crypto) (cx : ICtx) (dest oc sc mid sa ph osa data tid : Bytes)
    (amount : Nat) (t t' : Tx) (tm : Bytes) (st : TokenManager.State)
    (htm : t.w.its.tmAddress tid = tm) (hst : t.w.tms tm = st)
    (hkgw : t.w.kind t.w.its.gateway = some .gateway) (hktm : t.w.kind tm = some .tokenManager)
    (h : executeWithToken C cx dest oc sc mid sa ph osa data tid amount t = some ((), t')) :
    World.Led t.w t'.w (giveOut st tm amount) (World.pt cx.self (TokenManager.tokOfBytes st.tokenIdentifier) amount) ∧
    ∃ ds d, t'.pend = ds ++ [d] ∧ d.to = dest ∧
      d.egld = (payOf (TokenManager.tokOfBytes st.tokenIdentifier) amount).1 ∧
      d.esdt = (payOf (TokenManager.tokOfBytes st.tokenIdentifier) amount).2.map
        (fun p => (World.asciiString p.1, p.2.1, p.2.2)) := by
  simp only [executeWithToken, run_bind] at h
  cases h1 : gatewayIsApproved C cx sc mid sa ph t with
  | none => simp [h1] at h
  | some r1 =>
    obtain ⟨ok, t1⟩ := r1
    simp only [h1, run_require] at h
    cases ok with
    | false => simp at h
    | true =>
      simp only [if_true] at h
      have ho := gatewayIsApproved_only C cx sc mid sa ph t t1 true hkgw h1
      have htm1 : t1.w.its.tmAddress tid = tm := by rw [ho.its]; exact htm
      have hst1 : t1.w.tms tm = st := by rw [ho.tms]; exact hst
      have hk1 : t1.w.kind tm = some .tokenManager := by rw [ho.kind]; exact hktm
      cases h2 : tmGiveToken C cx tid cx.self amount t1 with
      | none => simp [h2] at h
      | some r2 =>
        obtain ⟨⟨tokRaw, amt⟩, t2⟩ := r2
        simp only [h2, run_getI, run_require] at h
        obtain ⟨_, hr, hl⟩ := tmGiveToken_led C cx tid cx.self amount t1 t2 (tokRaw, amt) tm st htm1 hst1 hk1 h2
        simp only [Prod.mk.injEq] at hr
        obtain ⟨e1, e2⟩ := hr
        subst e1
        subst e2
        by_cases hl2 : (!t2.w.its.lock (sc, mid)) = true
        · simp only [hl2, if_true, run_setI, addPend_run, Option.some.injEq, Prod.mk.injEq, true_and] at h
          subst h
          refine ⟨?_, t2.pend, _, rfl, rfl, rfl, ?_⟩
          · have hl0 : World.Led t.w t1.w World.nil World.nil := ho.led
            have hl3 : World.Led t2.w _ World.nil World.nil := World.Led.of_accts (w := t2.w) rfl
            refine ((hl0.trans hl).trans hl3).conv ?_
            intro x k
            simp only [World.plus, World.nil]
            omega
          · simp [TokenManager.tokOfBytes]
        · simp [hl2] at h

/-- **Step 2, destination succeeds: it receives exactly what the pending call carries** (the
    amount registered by step 1), out of the service's balance; nothing else moves. -/
theorem delivery_pays_the_destination (C : Crypto) (w w' : World) (id : Nat) (vals rs : List Bytes)
    (evs : List Event) (pd : List PendDesc) (p : Pending) (hp : World.findPending w.pending id = some p)
    (h : World.deliver C w id (.ok vals) = (w', .ok rs evs pd)) :
    World.Led w w'
      (fun x k => if x = p.src then World.payAmt p.desc.egld (World.esdtB p.desc.esdt) k else 0)
      (fun x k => if x = p.desc.to then World.payAmt p.desc.egld (World.esdtB p.desc.esdt) k else 0) := by
  unfold World.deliver at h
  simp only [hp] at h
  split at h
  · cases h
  · cases hpay : World.pay w p.src p.desc.to p.desc.egld (World.esdtB p.desc.esdt) with
    | none => simp [hpay] at h
    | some w1 =>
      simp only [hpay, Prod.mk.injEq] at h
      obtain ⟨rfl, _⟩ := h
      have hl := World.led_pay _ _ _ _ _ _ hpay
      exact (hl.trans (World.Led.of_accts (w := w1) rfl)).conv (by intro x k; simp only [World.plus, World.nil]; omega)

/-- **Step 2, destination fails: nothing moves** (the tokens stay with the service until the
    callback takes them back). -/
theorem failed_delivery_moves_nothing (C : Crypto) (w w' : World) (id : Nat) (o : Outcome)
    (h : World.deliver C w id .fail = (w', o)) : w'.accts = w.accts := by
  unfold World.deliver at h
  split at h
  · cases h; rfl
  · split at h
    · cases h; rfl
    · cases h; rfl

/-- **Step 3 after a successful delivery moves nothing**: the destination keeps exactly the
    amount, the service and the manager keep what they had after step 2. -/
theorem success_callback_moves_nothing (C : Crypto) (cx : ICtx) (sc mid sa ph tid tokRaw : Bytes)
    (amount : Nat) (t t' : Tx) (hk : t.w.kind t.w.its.gateway = some .gateway)
    (h : executeWithTokenCallback C cx sc mid sa ph tid tokRaw amount true t = some ((), t')) :
    World.Led t.w t'.w World.nil World.nil := by
  simp only [executeWithTokenCallback, run_bind, run_getI, run_setI, if_true] at h
  cases hv : gatewayValidate C cx sc mid sa ph
      { t with w := { t.w with its := { t.w.its with lock := upd t.w.its.lock (sc, mid) false } } } with
  | none => simp [hv] at h
  | some r =>
    obtain ⟨b, t1⟩ := r
    simp only [hv, run_emit, Option.some.injEq, Prod.mk.injEq, true_and] at h
    subst h
    have ho := gatewayValidate_only C cx sc mid sa ph _ t1 b (by exact hk) hv
    exact ((World.Led.of_accts (w := t.w) (w' := { t.w with its := { t.w.its with lock := upd t.w.its.lock (sc, mid) false } }) rfl).trans
      ho.led).conv (by intro x k; simp only [World.plus, World.nil])

/-- **Step 3 after a failed delivery, when it goes through: exactly the amount returns** from the
    service to the manager's custody (lock/unlock) or is burned (mint/burn); the token is the
    manager's token; nothing else moves.  (When the manager rejects the take-back the whole
    callback fails and the tokens stay in the service: finding F1.) -/
theorem failure_callback_returns_the_amount (C : Crypto) (cx : ICtx) (sc mid sa ph tid tokRaw : Bytes)
    (amount : Nat) (t t' : Tx) (tm : Bytes) (st : TokenManager.State)
    (htm : t.w.its.tmAddress tid = tm) (hst : t.w.tms tm = st) (hktm : t.w.kind tm = some .tokenManager)
    (h : executeWithTokenCallback C cx sc mid sa ph tid tokRaw amount false t = some ((), t')) :
    GasService.tokOfBytes tokRaw = TokenManager.tokOfBytes st.tokenIdentifier ∧
    World.Led t.w t'.w (World.pt cx.self (GasService.tokOfBytes tokRaw) amount) (takeIn st tm amount) ∧
    t'.w.its.lock (sc, mid) = false := by
  simp only [executeWithTokenCallback, run_bind, run_getI, run_setI, Bool.false_eq_true, if_false] at h
  cases hk : tmTakeToken C cx tid (GasService.tokOfBytes tokRaw) amount
      { t with w := { t.w with its := { t.w.its with lock := upd t.w.its.lock (sc, mid) false } } } with
  | none => simp [hk] at h
  | some r =>
    obtain ⟨u, t1⟩ := r
    cases u
    simp only [hk, run_emit, Option.some.injEq, Prod.mk.injEq, true_and] at h
    subst h
    obtain ⟨_, htok, hl, _⟩ := tmTakeToken_led C cx tid (GasService.tokOfBytes tokRaw) amount _ t1 tm st
      (by exact htm) (by exact hst) (by exact hktm) hk
    have hits := tmTakeToken_keeps_its C cx tid (GasService.tokOfBytes tokRaw) amount _ t1 hk
    refine ⟨htok, ?_, ?_⟩
    · exact ((World.Led.of_accts (w := t.w) (w' := { t.w with its := { t.w.its with lock := upd t.w.its.lock (sc, mid) false } }) rfl).trans
        hl).conv (by intro x k; simp only [World.plus, World.nil]; omega)
    · show t1.w.its.lock (sc, mid) = false
      rw [hits]
      simp [upd]

/-! ### Non-vacuity (test) -/
example : (upd (fun (_ : Bytes × Bytes) => true) ([1], [2]) false) ([1], [2]) = false := by decide

end Axelar.Props.C08
