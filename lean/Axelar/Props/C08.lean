/-
  C08 — ITS transfer-with-data is atomic and single-shot across its asynchronous steps.
  Full strength ("never left behind") does NOT hold on the unchanged code (finding F1): see
  `failure_callback_fails_when_take_back_is_rejected`.
-/
import Axelar.Proofs.ItsMonad
namespace Axelar.Props.C08
open Axelar Axelar.ItsW Axelar.Its Codec

/-- **While a delivery is in flight the same message cannot start another one**: step 1 fails
    whenever the lock of (source chain, message id) is set — whatever the gateway, the token
    manager or the caller do. -/
theorem locked_message_cannot_start (C : Crypto) (cx : ICtx) (dest oc sc mid sa ph osa data tid : Bytes)
    (amount : Nat) (t : Tx) (hlock : t.w.its.lock (sc, mid) = true) :
    executeWithToken C cx dest oc sc mid sa ph osa data tid amount t = none := by
  simp only [executeWithToken, run_bind]
  cases h1 : gatewayIsApproved C cx sc mid sa ph t with
  | none => rfl
  | some r1 =>
    obtain ⟨ok, t1⟩ := r1
    simp only [run_require]
    cases ok with
    | false => simp
    | true =>
      simp only [if_true]
      cases h2 : tmGiveToken C cx tid cx.self amount t1 with
      | none => rfl
      | some r2 =>
        obtain ⟨⟨tokRaw, amt⟩, t2⟩ := r2
        simp only [run_getI, run_require]
        -- neither sub-call can write the service's storage: the lock is still set
        have e1 := gatewayIsApproved_keeps_its C cx sc mid sa ph t t1 true h1
        have e2 := tmGiveToken_keeps_its C cx tid cx.self amount t1 t2 (tokRaw, amt) h2
        have : t2.w.its.lock (sc, mid) = true := by rw [e2, e1]; exact hlock
        simp [this]

/-- **The callback always clears the lock first**; on success it then validates the message at
    the gateway (marking it executed), on failure it takes the tokens back into custody. -/
theorem callback_shape (C : Crypto) (cx : ICtx) (sc mid sa ph tid tokRaw : Bytes) (amount : Nat) (t : Tx) :
    executeWithTokenCallback C cx sc mid sa ph tid tokRaw amount false t =
      (do tmTakeToken C cx tid (GasService.tokOfBytes tokRaw) amount
          emit cx "execute_with_interchain_token_failed_event" [sc, mid] [[]])
        { t with w := { t.w with its := { t.w.its with lock := upd t.w.its.lock (sc, mid) false } } } := by
  simp [executeWithTokenCallback]

/-- **FINDING F1 (negation of "never left behind").**  If the token manager rejects the
    take-back (for instance because the flow limit was lowered, or the epoch's counters moved,
    inside the delivery window), the failure callback as a whole FAILS: its storage writes are
    rolled back, so the lock stays set and the tokens stay in the service. -/
theorem failure_callback_fails_when_take_back_is_rejected (C : Crypto) (cx : ICtx)
    (sc mid sa ph tid tokRaw : Bytes) (amount : Nat) (t : Tx)
    (hrej : tmTakeToken C cx tid (GasService.tokOfBytes tokRaw) amount
      { t with w := { t.w with its := { t.w.its with lock := upd t.w.its.lock (sc, mid) false } } } = none) :
    executeWithTokenCallback C cx sc mid sa ph tid tokRaw amount false t = none := by
  rw [callback_shape]
  simp only [run_bind]
  rw [hrej]

/-- **Partial (what does hold).**  If the failure callback succeeds, the lock is clear and the
    take-back went through (`tmTakeToken` succeeded: the manager's custody and flow accounting
    were updated by its `takeToken`). -/
theorem failure_callback_success_partial (C : Crypto) (cx : ICtx) (sc mid sa ph tid tokRaw : Bytes)
    (amount : Nat) (t t' : Tx)
    (h : executeWithTokenCallback C cx sc mid sa ph tid tokRaw amount false t = some ((), t')) :
    ∃ t1, tmTakeToken C cx tid (GasService.tokOfBytes tokRaw) amount
        { t with w := { t.w with its := { t.w.its with lock := upd t.w.its.lock (sc, mid) false } } } = some ((), t1) ∧
      t'.w = t1.w := by
  rw [callback_shape] at h
  simp only [run_bind] at h
  cases ht : tmTakeToken C cx tid (GasService.tokOfBytes tokRaw) amount
      { t with w := { t.w with its := { t.w.its with lock := upd t.w.its.lock (sc, mid) false } } } with
  | none => simp [ht] at h
  | some r =>
    obtain ⟨u, t1⟩ := r
    simp only [ht, run_emit, Option.some.injEq, Prod.mk.injEq, true_and] at h
    subst h
    exact ⟨t1, rfl, rfl⟩

/-! ### Non-vacuity (test) -/
example : (upd (fun (_ : Bytes × Bytes) => true) ([1], [2]) false) ([1], [2]) = false := by decide

end Axelar.Props.C08
