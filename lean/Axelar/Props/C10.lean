/-
  C10 — Token manager custody, mint authority and role transfers are exact and gated.
-/
import Axelar.Proofs.TokenManagerProofs
namespace Axelar.Props.C10
open Axelar Axelar.TokenManager Codec

/-- **Tokens move only through four endpoints, each gated**: give/take by the bound service,
    mint/burn by a minter of a native manager whose token is set.  (Any successful call with a
    chain effect is one of these.) -/
theorem effects_are_gated (st : State) (ctx : Ctx) (func : String) (args : List Bytes) (out : Out)
    (h : call st ctx func args = .ok out) (hne : out.effects ≠ []) :
    ((func = "giveToken" ∨ func = "takeToken") ∧ ctx.caller = st.service) ∨
    ((func = "mint" ∨ func = "burn") ∧ st.implType = 0 ∧
      intersects (st.roles ctx.caller) MINTER = true ∧ st.tokenIdentifier.isEmpty = false) := by
  rcases call_cases st ctx func args out h with
    ⟨d, a, hf, hg⟩ | ⟨hf, ht⟩ | ⟨l, _, hs⟩ | ⟨a, amt, hf, hm⟩ | ⟨hf, hb⟩ | ⟨m, n, s, d, _, hd⟩ | ⟨r, hr, hro⟩ | ⟨_, he, _⟩
  · exact Or.inl ⟨Or.inl hf, (giveToken_spec st ctx d a out hg).1⟩
  · exact Or.inl ⟨Or.inr hf, (takeToken_spec st ctx out ht).1⟩
  · unfold setFlowLimit at hs
    split at hs
    · cases hs
    · cases hs; exact absurd rfl hne
  · right
    unfold mint at hm
    split at hm
    · cases hm
    · rename_i h1
      split at hm
      · cases hm
      · rename_i h2
        split at hm
        · cases hm
        · rename_i h3
          exact ⟨Or.inl hf, by simpa using h1, by simpa [onlyRole] using h2, by simpa using h3⟩
  · right
    unfold burn at hb
    split at hb
    · cases hb
    · rename_i h1
      split at hb
      · cases hb
      · rename_i h2
        split at hb
        · cases hb
        · rename_i h3
          exact ⟨Or.inr hf, by simpa using h1, by simpa [onlyRole] using h2, by simpa using h3⟩
  · unfold deployInterchainToken at hd
    repeat' (first | (cases hd; done) | (cases hd; exact absurd rfl hne) | split at hd)
  · exact absurd (roleStep_same st ctx func r out hr hro).2.1 hne
  · exact absurd he hne

/-- net change of the manager's own holdings of token `t` caused by a list of effects -/
def netEffect (t : Bytes) : List Eff → Int
  | [] => 0
  | .send _ tok amt :: r => (if tok = some t then -(amt : Int) else 0) + netEffect t r
  | .mint tok amt :: r => (if tok = t then (amt : Int) else 0) + netEffect t r
  | .burn tok amt :: r => (if tok = t then -(amt : Int) else 0) + netEffect t r

/-- **Lock/unlock managers**: giving sends exactly `amount` of the bound token to the
    destination (holdings − amount); taking keeps the attached payment (holdings + amount). -/
theorem lock_unlock_custody (st : State) (ctx : Ctx) (hk : isMintBurnKind st.implType = false) :
    (∀ dest amount out, giveToken st ctx dest amount = .ok out →
        out.effects = [.send dest (tokOfBytes st.tokenIdentifier) amount]) ∧
    (∀ out, takeToken st ctx = .ok out → out.effects = [] ∧
        ∃ amount, requireCorrectToken st ctx = .ok (tokOfBytes st.tokenIdentifier, amount) ∧
          out.results = [encNat amount]) := by
  constructor
  · intro dest amount out h
    rcases (giveToken_spec st ctx dest amount out h).2.2.2.2 with ⟨h1, _⟩ | ⟨_, h2⟩
    · rw [hk] at h1; cases h1
    · exact h2
  · intro out h
    obtain ⟨_, _, tok, amount, hr, _, hres, hcase⟩ := takeToken_spec st ctx out h
    rcases hcase with ⟨h1, _⟩ | ⟨_, h2⟩
    · rw [hk] at h1; cases h1
    · refine ⟨h2, amount, ?_, hres⟩
      unfold requireCorrectToken at hr ⊢
      split at hr
      · cases hr
      · rename_i tok' amt' he
        split at hr
        · rename_i heq
          cases hr
          have : tok = tokOfBytes st.tokenIdentifier := by simpa using heq
          subst this
          simp [he]
        · cases hr

/-- **Mint/burn managers hold nothing**: giving mints `amount` and sends the same `amount`
    away; taking burns exactly the received amount. -/
theorem mint_burn_custody (st : State) (ctx : Ctx) (hk : isMintBurnKind st.implType = true) :
    (∀ dest amount out, giveToken st ctx dest amount = .ok out →
        ∃ t, tokOfBytes st.tokenIdentifier = some t ∧
          out.effects = [.mint t amount, .send dest (some t) amount] ∧ netEffect t out.effects = 0) ∧
    (∀ out, takeToken st ctx = .ok out →
        ∃ t amount, requireCorrectToken st ctx = .ok (some t, amount) ∧
          out.effects = [.burn t amount] ∧ netEffect t out.effects = -(amount : Int)) := by
  constructor
  · intro dest amount out h
    rcases (giveToken_spec st ctx dest amount out h).2.2.2.2 with ⟨_, t, ht, he⟩ | ⟨h1, _⟩
    · refine ⟨t, ht, he, ?_⟩
      rw [he]; simp [netEffect]; omega
    · rw [hk] at h1; cases h1
  · intro out h
    obtain ⟨_, _, tok, amount, hr, _, _, hcase⟩ := takeToken_spec st ctx out h
    rcases hcase with ⟨_, t, ht, he⟩ | ⟨h1, _⟩
    · subst ht
      refine ⟨t, amount, hr, he, ?_⟩
      rw [he]; simp [netEffect]
    · rw [hk] at h1; cases h1

/-! ### roles -/

/-- `transfer_role`: needs the role at the source, removes it there, adds it at the target
    (when source and target differ the source no longer has it). -/
theorem transferRole_effect (st st' : State) (src dst : Bytes) (r : Roles) (evs : List Ev)
    (h : transferRole st src dst r = .ok (st', evs)) :
    contains (st.roles src) r = true ∧
    st'.roles dst = insert (if dst = src then remove (st.roles src) r else st.roles dst) r ∧
    (dst ≠ src → st'.roles src = remove (st.roles src) r ∧ intersects (st'.roles src) r = false) ∧
    (∀ x, x ≠ src → x ≠ dst → st'.roles x = st.roles x) ∧ st'.proposed = st.proposed := by
  obtain ⟨hc, hr, hp⟩ := transferRole_ok st st' src dst r evs h
  refine ⟨hc, ?_, ?_, ?_, hp⟩
  · rw [hr]; simp only [upd, if_true]
  · intro hd
    have hs : ¬ src = dst := fun e => hd e.symm
    have e1 : st'.roles src = remove (st.roles src) r := by
      rw [hr]; simp only [upd, hs, if_false, if_true]
    exact ⟨e1, by rw [e1]; exact intersects_remove _ _⟩
  · intro x h1 h2
    rw [hr]; simp only [upd, h1, h2, if_false]

/-- `accept_role`: only for exactly the proposed (non-empty) roles of exactly this
    (proposer, acceptor) pair; the proposal is consumed. -/
theorem acceptRole_effect (st st' : State) (src dst : Bytes) (r : Roles) (evs : List Ev)
    (h : acceptRole st src dst r = .ok (st', evs)) :
    st.proposed (src, dst) = r ∧ r.isEmpty = false ∧ st'.proposed (src, dst) = {} ∧
    contains (st.roles src) r = true := by
  unfold acceptRole at h
  split at h
  · rename_i hc
    simp only [Bool.and_eq_true, Bool.not_eq_true', beq_iff_eq] at hc
    obtain ⟨a, b, c, d, e⟩ := transferRole_effect _ _ _ _ _ _ h
    refine ⟨hc.2, by rw [← hc.2]; exact hc.1, ?_, a⟩
    rw [e]; simp [upd]
  · cases h

theorem insert_idem (a r : Roles) : TokenManager.insert (TokenManager.insert a r) r = TokenManager.insert a r := by
  obtain ⟨a1, a2, a3⟩ := a
  obtain ⟨r1, r2, r3⟩ := r
  cases a1 <;> cases a2 <;> cases a3 <;> cases r1 <;> cases r2 <;> cases r3 <;> rfl

/-- **Roles change only through the listed operations.**  If a successful call changes the
    roles of any account, it is one of the nine role endpoints (with the guard listed in
    `RoleStep`: the operator for flow-limiter management and operatorship transfer/proposal, a
    minter for mintership transfer/proposal, nothing for the two `accept…` — those are gated
    by `acceptRole_effect`), or the token issuance step `deployInterchainToken` (which can only
    add the minter role, and only when called by the service or a minter). -/
theorem role_change_characterisation (st : State) (ctx : Ctx) (func : String) (args : List Bytes)
    (out : Out) (h : call st ctx func args = .ok out) (a : Bytes)
    (hne : out.st.roles a ≠ st.roles a) :
    (∃ r, RoleStep st ctx func r ∧ roleOut r = .ok out) ∨
    (func = "deployInterchainToken" ∧
      (ctx.caller = st.service ∨ intersects (st.roles ctx.caller) MINTER = true) ∧
      out.st.roles a = TokenManager.insert (st.roles a) MINTER) := by
  rcases call_cases st ctx func args out h with
    ⟨d, am, _, hg⟩ | ⟨_, ht⟩ | ⟨l, _, hs⟩ | ⟨x, amt, _, hm⟩ | ⟨_, hb⟩ | ⟨m, n, s, d, hf, hd⟩ | hr | ⟨he, _, _⟩
  · obtain ⟨_, hfl, _⟩ := giveToken_spec st ctx d am out hg
    rcases addFlowIn_spec _ _ _ _ hfl with ⟨_, e1⟩ | ⟨_, _, _, e1⟩ <;> (rw [e1] at hne; exact absurd rfl hne)
  · obtain ⟨_, _, tok, amount, _, hfl, _, _⟩ := takeToken_spec st ctx out ht
    rcases addFlowOut_spec _ _ _ _ hfl with ⟨_, e1⟩ | ⟨_, _, _, e1⟩ <;> (rw [e1] at hne; exact absurd rfl hne)
  · unfold setFlowLimit at hs
    split at hs
    · cases hs
    · cases hs; exact absurd rfl hne
  · unfold mint at hm
    repeat' (first | (cases hm; done) | (cases hm; exact absurd rfl hne) | split at hm)
  · unfold burn at hb
    repeat' (first | (cases hb; done) | (cases hb; exact absurd rfl hne) | split at hb)
  · right
    unfold deployInterchainToken at hd
    split at hd
    · cases hd
    · split at hd
      · cases hd
      · split at hd
        · cases hd
        · split at hd
          · cases hd
          · rename_i hcaller
            split at hd
            · cases hd
            · split at hd
              · cases hd
              · cases hd
                refine ⟨hf, ?_, ?_⟩
                · by_cases hs : ctx.caller = st.service
                  · exact Or.inl hs
                  · right
                    simp only [Bool.or_eq_true, beq_iff_eq, Bool.not_eq_true', Bool.not_eq_false] at hcaller
                    rcases hcaller with h' | h'
                    · exact absurd h' hs
                    · exact h'
                · have hne : upd (upd st.roles ctx.self (TokenManager.insert (st.roles ctx.self) MINTER)) (m.getD zeroAddr)
                        (TokenManager.insert (upd st.roles ctx.self (TokenManager.insert (st.roles ctx.self) MINTER)
                          (m.getD zeroAddr)) MINTER) a ≠ st.roles a := hne
                  show upd (upd st.roles ctx.self (TokenManager.insert (st.roles ctx.self) MINTER)) (m.getD zeroAddr)
                        (TokenManager.insert (upd st.roles ctx.self (TokenManager.insert (st.roles ctx.self) MINTER)
                          (m.getD zeroAddr)) MINTER) a = TokenManager.insert (st.roles a) MINTER
                  simp only [upd] at hne ⊢
                  by_cases h1 : a = m.getD zeroAddr
                  · simp only [h1, if_true]
                    by_cases h2 : m.getD zeroAddr = ctx.self
                    · simp only [h2, if_true]; exact insert_idem _ _
                    · simp only [h2, if_false]
                  · simp only [h1, if_false] at hne ⊢
                    by_cases h2 : a = ctx.self
                    · simp only [h2, if_true]
                    · simp only [h2, if_false] at hne; exact absurd rfl hne
  · exact Or.inl hr
  · rw [he] at hne; exact absurd rfl hne

/-- the role bits are the ones in roles.rs -/
theorem role_bits : Generated.ROLE_MINTER = 1 ∧ Generated.ROLE_OPERATOR = 2 ∧ Generated.ROLE_FLOW_LIMITER = 4 := by
  decide

/-! ### Non-vacuity (tests) -/
example : ∃ st', transferRole { roles := fun a => if a = [1] then OPERATOR else {} } [1] [2] OPERATOR =
    .ok (st', [⟨"roles_removed_event", [[1]], [roleBytes OPERATOR]⟩, ⟨"roles_added_event", [[2]], [roleBytes OPERATOR]⟩]) :=
  ⟨_, rfl⟩

end Axelar.Props.C10
