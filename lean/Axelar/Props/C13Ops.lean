/-
  C13 at chain level — a successful `execute` TRANSACTION on the token service (any sender, any message type) came along a
  trusted route: the source address is the trusted address registered for the source chain and the payload passed the
  unwrap rules (hub-wrapped only from the hub chain and only for a hub-routed original chain; never unwrapped from the hub).
-/
import Axelar.Props.C13
import Axelar.Props.C08Ops
namespace Axelar.Props.C13
open Axelar Axelar.ItsW Axelar.Its Codec

theorem inbound_transaction_only_on_trusted_route (C : Crypto) (w w' : World) (sender its sc mid sa payload : Bytes)
    (rs : List Bytes) (evs : List Event) (pd : List PendDesc) (hk : w.kind its = some .its)
    (h : World.tx C w sender its "execute" 0 [] [sc, mid, sa, payload] = (w', .ok rs evs pd)) :
    isTrustedAddress w.its sc sa = true ∧ (getExecuteParams w.its sc payload).isSome = true := by
  obtain ⟨tt, he, _, _⟩ := Axelar.Props.C08.tx_execute C w w' sender its sc mid sa payload rs evs pd hk h
  exact inbound_processed_only_on_trusted_route C (World.itsCtx w sender its 0 []) sc mid sa payload { w := w } tt () he

/-- … so a message from a source that is not the trusted one for its chain is refused as a transaction -/
theorem untrusted_source_transaction_refused (C : Crypto) (w : World) (sender its sc mid sa payload : Bytes)
    (hk : w.kind its = some .its) (hu : isTrustedAddress w.its sc sa = false)
    (w' : World) (rs : List Bytes) (evs : List Event) (pd : List PendDesc) :
    World.tx C w sender its "execute" 0 [] [sc, mid, sa, payload] ≠ (w', .ok rs evs pd) := by
  intro h
  have := (inbound_transaction_only_on_trusted_route C w w' sender its sc mid sa payload rs evs pd hk h).1
  rw [hu] at this
  cases this

end Axelar.Props.C13
