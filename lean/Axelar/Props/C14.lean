/-
  C14 — ITS token ids are deterministic, domain-separated, and bind one manager forever.
-/
import Axelar.Proofs.ItsHistory
namespace Axelar.Props.C14
open Axelar Axelar.ItsW Axelar.Its Codec

/-! ### The published derivation (Solidity InterchainTokenService / InterchainTokenFactory):

    tokenId            = keccak256(abi.encode(PREFIX_INTERCHAIN_TOKEN_ID, address(0), deploySalt))
    interchain salt    = keccak256(abi.encode(PREFIX_INTERCHAIN_TOKEN_SALT, chainNameHash, deployer, salt))
    canonical salt     = keccak256(abi.encode(PREFIX_CANONICAL_TOKEN_SALT,  chainNameHash, tokenAddress))
    linked salt        = keccak256(abi.encode(PREFIX_CUSTOM_TOKEN_SALT,     chainNameHash, deployer, salt))

  with every PREFIX_x = keccak256("<text>").  All operands are 32-byte words, so `abi.encode` is
  plain concatenation; on MultiversX the 32-byte address is used as is and the token identifier
  is appended raw (documented deviation of the port). -/

def specTokenId (C : Crypto) (deploySalt : Bytes) : Bytes :=
  C.H (C.H (strBytes "its-interchain-token-id") ++ List.replicate 32 0 ++ deploySalt)
def specInterchainSalt (C : Crypto) (chainNameHash deployer salt : Bytes) : Bytes :=
  C.H (C.H (strBytes "interchain-token-salt") ++ chainNameHash ++ deployer ++ salt)
def specCanonicalSalt (C : Crypto) (chainNameHash token : Bytes) : Bytes :=
  C.H (C.H (strBytes "canonical-token-salt") ++ chainNameHash ++ token)
def specLinkedSalt (C : Crypto) (chainNameHash deployer salt : Bytes) : Bytes :=
  C.H (C.H (strBytes "custom-token-salt") ++ chainNameHash ++ deployer ++ salt)

theorem prefixes_match_published :
    Generated.PREFIX_INTERCHAIN_TOKEN_ID = [105, 116, 115, 45, 105, 110, 116, 101, 114, 99, 104, 97, 105, 110, 45, 116, 111, 107, 101, 110, 45, 105, 100] ∧
    Generated.PREFIX_INTERCHAIN_TOKEN_SALT = [105, 110, 116, 101, 114, 99, 104, 97, 105, 110, 45, 116, 111, 107, 101, 110, 45, 115, 97, 108, 116] ∧
    Generated.PREFIX_CANONICAL_TOKEN_SALT = [99, 97, 110, 111, 110, 105, 99, 97, 108, 45, 116, 111, 107, 101, 110, 45, 115, 97, 108, 116] ∧
    Generated.PREFIX_CUSTOM_TOKEN_SALT = [99, 117, 115, 116, 111, 109, 45, 116, 111, 107, 101, 110, 45, 115, 97, 108, 116] := by
  decide

/-- **The ids are a fixed function of (kind, chain name hash, deployer, salt | token) only** —
    no other part of the state, the caller or the time enters. -/
theorem ids_depend_only_on_inputs (C : Crypto) (st st' : State) (h : st.chainNameHash = st'.chainNameHash)
    (d s tok : Bytes) :
    interchainTokenId C st d s = interchainTokenId C st' d s ∧
    linkedTokenId C st d s = linkedTokenId C st' d s ∧
    canonicalTokenId C st tok = canonicalTokenId C st' tok := by
  simp [interchainTokenId, linkedTokenId, canonicalTokenId, interchainTokenDeploySalt, linkedDeploySalt,
    canonicalDeploySalt, h]

theorem id_shapes (C : Crypto) (st : State) (d s tok : Bytes) :
    interchainTokenId C st d s =
      C.H (C.H Generated.PREFIX_INTERCHAIN_TOKEN_ID ++ List.replicate 32 0 ++
        C.H (C.H Generated.PREFIX_INTERCHAIN_TOKEN_SALT ++ st.chainNameHash ++ d ++ s)) ∧
    linkedTokenId C st d s =
      C.H (C.H Generated.PREFIX_INTERCHAIN_TOKEN_ID ++ List.replicate 32 0 ++
        C.H (C.H Generated.PREFIX_CUSTOM_TOKEN_SALT ++ st.chainNameHash ++ d ++ s)) ∧
    canonicalTokenId C st tok =
      C.H (C.H Generated.PREFIX_INTERCHAIN_TOKEN_ID ++ List.replicate 32 0 ++
        C.H (C.H Generated.PREFIX_CANONICAL_TOKEN_SALT ++ st.chainNameHash ++ tok)) := ⟨rfl, rfl, rfl⟩

/-- **Within a kind**: equal ids force equal (deployer, salt) — or exhibit a collision of `H`. -/
theorem interchain_id_binding (C : Crypto) (st : State) (d s d' s' : Bytes)
    (hd : d.length = d'.length)
    (hH : ∀ x y, (C.H x).length = (C.H y).length)
    (h : interchainTokenId C st d s = interchainTokenId C st d' s') :
    (d = d' ∧ s = s') ∨ ∃ a b, a ≠ b ∧ C.H a = C.H b := by
  simp only [interchainTokenId, tokenIdRaw] at h
  by_cases h1 : C.H Generated.PREFIX_INTERCHAIN_TOKEN_ID ++ zeroAddr ++ interchainTokenDeploySalt C st d s =
      C.H Generated.PREFIX_INTERCHAIN_TOKEN_ID ++ zeroAddr ++ interchainTokenDeploySalt C st d' s'
  · have h2 := List.append_cancel_left h1
    simp only [interchainTokenDeploySalt] at h2
    by_cases h3 : C.H Generated.PREFIX_INTERCHAIN_TOKEN_SALT ++ st.chainNameHash ++ d ++ s =
        C.H Generated.PREFIX_INTERCHAIN_TOKEN_SALT ++ st.chainNameHash ++ d' ++ s'
    · left
      simp only [List.append_assoc] at h3
      have h4 := List.append_cancel_left (List.append_cancel_left h3)
      exact List.append_inj h4 hd
    · right; exact ⟨_, _, h3, h2⟩
  · right; exact ⟨_, _, h1, h⟩

/-- **Across kinds**: an interchain (deployer, salt) id and a linked (deployer, salt) id never
    share a preimage: equality would be a collision of `H` (the two prefixes differ). -/
theorem kinds_are_domain_separated (C : Crypto) (st : State) (d s d' s' : Bytes)
    (hH : ∀ x y, (C.H x).length = (C.H y).length)
    (h : interchainTokenId C st d s = linkedTokenId C st d' s') :
    ∃ a b, a ≠ b ∧ C.H a = C.H b := by
  simp only [interchainTokenId, linkedTokenId, tokenIdRaw] at h
  by_cases h1 : C.H Generated.PREFIX_INTERCHAIN_TOKEN_ID ++ zeroAddr ++ interchainTokenDeploySalt C st d s =
      C.H Generated.PREFIX_INTERCHAIN_TOKEN_ID ++ zeroAddr ++ linkedDeploySalt C st d' s'
  · have h2 := List.append_cancel_left h1
    simp only [interchainTokenDeploySalt, linkedDeploySalt] at h2
    by_cases h3 : C.H Generated.PREFIX_INTERCHAIN_TOKEN_SALT ++ st.chainNameHash ++ d ++ s =
        C.H Generated.PREFIX_CUSTOM_TOKEN_SALT ++ st.chainNameHash ++ d' ++ s'
    · -- the first 32-byte words agree: the two prefix hashes collide
      simp only [List.append_assoc] at h3
      obtain ⟨h4, _⟩ := List.append_inj h3 (hH _ _)
      exact ⟨Generated.PREFIX_INTERCHAIN_TOKEN_SALT, Generated.PREFIX_CUSTOM_TOKEN_SALT, by decide, h4⟩
    · exact ⟨_, _, h3, h2⟩
  · exact ⟨_, _, h1, h⟩

/-! ### One manager per id, forever -/

/-- **Creation of a token manager** (`deploy_token_manager_raw`): refused when the id is already
    bound; otherwise the id is bound to a fresh non-empty address, the contract created there
    is initialised with exactly (this service, the requested type, this id, the requested
    operator, the requested token), and no other id's binding changes. -/
theorem manager_creation (C : Crypto) (cx : ICtx) (tokenId : Bytes) (ty : Nat) (token : Option Bytes)
    (opRaw : Bytes) (t t' : Tx) (addr : Bytes)
    (h : deployTokenManagerRaw C cx tokenId ty token opRaw t = some (addr, t')) :
    t.w.its.tmAddress tokenId = [] ∧ addr ≠ [] ∧ t'.w.its.tmAddress tokenId = addr ∧
    (∀ id, id ≠ tokenId → t'.w.its.tmAddress id = t.w.its.tmAddress id) ∧
    t.w.kind addr = none ∧ t'.w.kind addr = some .tokenManager ∧
    ∃ operator tmst evs, (opRaw = [] ∧ operator = none ∨ opRaw.length = 32 ∧ operator = some opRaw) ∧
      TokenManager.init cx.self ty tokenId operator token = .ok (tmst, evs) ∧ t'.w.tms addr = tmst := by
  obtain ⟨h1, h2, h3, _, h4, h5, h6⟩ := deployTokenManagerRaw_spec C cx tokenId ty token opRaw t t' addr h
  refine ⟨h1, h2, by rw [h3]; simp [upd], fun id hid => by rw [h3]; simp [upd, hid], h4, h5, h6⟩

/-- the manager's own record of (service, type, id, token) is what `init` was given -/
theorem init_records_arguments (service : Bytes) (ty : Nat) (tokenId : Bytes) (op tok : Option Bytes)
    (st : TokenManager.State) (evs : List Ev) (h : TokenManager.init service ty tokenId op tok = .ok (st, evs)) :
    st.service = service ∧ st.implType = ty ∧ st.tokenId = tokenId ∧ st.tokenIdentifier = tok.getD [] := by
  unfold TokenManager.init at h
  by_cases hz : Gateway.isZeroAddr service = true
  · simp [hz] at h
  · simp only [hz, Bool.false_eq_true, if_false] at h
    by_cases hk : TokenManager.tokenOk ty tok = true
    · simp only [hk, Bool.not_true, Bool.false_eq_true, if_false, Except.ok.injEq, Prod.mk.injEq] at h
      obtain ⟨h1, _⟩ := h
      subst h1
      exact ⟨rfl, rfl, rfl, rfl⟩
    · simp [hk] at h

/-- local registrations always derive the id from the CALLER's address -/
theorem custom_registration_forbids_native (C : Crypto) (cx : ICtx) (salt tok : Bytes) (lp : Bytes) (t : Tx) :
    registerCustomTokenRaw C cx salt tok 0 lp t = none := by
  simp only [registerCustomTokenRaw, run_bind, requireNotPaused_run]
  cases t.w.its.paused <;> simp


/-! ### Over every schedule -/

/-- **Once set, the binding of a token id to its manager is never replaced** — by any sequence of
    transactions, deliveries of pending calls, callbacks and environment moves, by any callers,
    in any order. -/
theorem binding_is_forever (C : Crypto) (w : World) (ops : List World.Op) (id : Bytes)
    (h : w.its.tmAddress id ≠ []) : (World.run C w ops).its.tmAddress id = w.its.tmAddress id :=
  World.run_binding C ops w id h

/-- **The inputs of the id derivations that live in storage (chain name and its hash) are never
    written after `init`**, so the same deployer / salt / token give the same id at every point of
    every history. -/
theorem ids_are_stable_over_histories (C : Crypto) (w : World) (ops : List World.Op) (d s tok : Bytes) :
    interchainTokenId C (World.run C w ops).its d s = interchainTokenId C w.its d s ∧
    linkedTokenId C (World.run C w ops).its d s = linkedTokenId C w.its d s ∧
    canonicalTokenId C (World.run C w ops).its tok = canonicalTokenId C w.its tok := by
  have h := (World.run_config C ops w).chainNameHash
  simp only [interchainTokenId, linkedTokenId, canonicalTokenId, interchainTokenDeploySalt, linkedDeploySalt,
    canonicalDeploySalt, h, and_self]

/-! ### Non-vacuity (test) -/
example : tokenIdRaw ⟨fun x => x.take 1, fun _ _ _ => true⟩ [5] ≠ [] := by decide

end Axelar.Props.C14
