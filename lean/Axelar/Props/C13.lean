/-
  C13 — ITS accepts and sends messages only along trusted routes, hub wrapping included.
-/
import Axelar.Proofs.ItsHistory
namespace Axelar.Props.C13
open Axelar Axelar.Its Axelar.ItsW Codec

/-- **Inbound, wrapped.**  A hub-wrapped message is unwrapped only when it arrives from the hub
    chain and names an original chain whose trusted address is the hub routing identifier; the
    result is the inner payload, its own message type, and that original chain. -/
theorem unwrap_only_from_hub (st : State) (sourceChain payload : Bytes) (mt : Nat) (orig inner : Bytes)
    (h : getExecuteParams st sourceChain payload = some (mt, orig, inner))
    (hw : Abi.getMessageType payload = .ok Generated.MESSAGE_TYPE_RECEIVE_FROM_HUB) :
    sourceChain = hubChain ∧ st.trusted orig = hubRouting ∧
    ∃ d, Abi.Hub.decode payload = .ok d ∧ orig = d.destinationChain ∧ inner = d.payload ∧
      Abi.getMessageType inner = .ok mt := by
  simp only [getExecuteParams, hw] at h
  simp only [beq_self_eq_true, if_true] at h
  split at h
  · cases h
  · rename_i hs
    split at h
    · cases h
    · rename_i d hd
      split at h
      · cases h
      · rename_i ht
        split at h
        · cases h
        · rename_i mt' hmt
          cases h
          refine ⟨by simpa using hs, ?_, d, hd, rfl, rfl, hmt⟩
          simp only [isTrustedAddress, Bool.not_eq_true', Bool.and_eq_false_iff, not_or,
            Bool.not_eq_false, Bool.not_eq_true'] at ht
          have := ht.2
          simp only [Bool.not_eq_false, beq_iff_eq] at this
          exact this.symm

/-- **Inbound, direct.**  A message that is not hub-wrapped is processed as coming from its
    source chain unchanged — and never when that chain is the hub chain itself. -/
theorem direct_never_from_hub (st : State) (sourceChain payload : Bytes) (mt0 : Nat)
    (hm : Abi.getMessageType payload = .ok mt0)
    (hne : mt0 ≠ Generated.MESSAGE_TYPE_RECEIVE_FROM_HUB) :
    getExecuteParams st sourceChain payload =
      if sourceChain = hubChain then none else some (mt0, sourceChain, payload) := by
  simp only [getExecuteParams, hm]
  have : (mt0 == Generated.MESSAGE_TYPE_RECEIVE_FROM_HUB) = false := by simpa using hne
  simp only [this, Bool.false_eq_true, if_false]
  by_cases hs : sourceChain = hubChain <;> simp [hs]

/-- **Outbound.**  Exact decision table of `get_call_params`. -/
theorem outbound_route (st : State) (dst payload : Bytes) :
    getCallParams st dst payload =
      if dst = hubChain then none                                   -- user-chosen hub chain: refused
      else if st.trusted dst = [] then none                          -- no trusted address: refused
      else if st.trusted dst = hubRouting then
        (if st.trusted hubChain = [] then none                       -- hub address unset: refused
         else match Abi.Hub.encode ⟨Generated.MESSAGE_TYPE_SEND_TO_HUB, dst, payload⟩ with
           | .ok wrapped => some (hubChain, st.trusted hubChain, wrapped)
           | .error _ => none)
      else some (dst, st.trusted dst, payload) := by
  simp only [getCallParams]
  by_cases h1 : dst = hubChain
  · simp [h1]
  · by_cases h2 : st.trusted dst = []
    · simp [h1, h2]
    · by_cases h3 : st.trusted dst = hubRouting
      · have hr : ¬ hubRouting = [] := by decide
        by_cases h4 : st.trusted hubChain = []
        · simp [h1, h3, h4, hr]
        · simp [h1, h3, h4, hr]; rfl
      · simp [h1, h2, h3]

/-- direct destinations are sent unwrapped to the trusted address of that very chain -/
theorem direct_destination (st : State) (dst payload : Bytes) (c a p : Bytes)
    (h : getCallParams st dst payload = some (c, a, p)) (hd : st.trusted dst ≠ hubRouting) :
    c = dst ∧ a = st.trusted dst ∧ p = payload ∧ a ≠ [] ∧ dst ≠ hubChain := by
  rw [outbound_route] at h
  split at h
  · cases h
  · rename_i h1
    split at h
    · cases h
    · rename_i h2
      cases h
      exact ⟨rfl, rfl, rfl, h2, h1⟩

/-- hub-routed destinations are wrapped with the destination chain name and sent to the hub's
    trusted address on the hub chain -/
theorem routed_destination (st : State) (dst payload : Bytes) (c a p : Bytes)
    (h : getCallParams st dst payload = some (c, a, p)) (hd : st.trusted dst = hubRouting) :
    c = hubChain ∧ a = st.trusted hubChain ∧ a ≠ [] ∧
    Abi.Hub.encode ⟨Generated.MESSAGE_TYPE_SEND_TO_HUB, dst, payload⟩ = .ok p := by
  rw [outbound_route] at h
  split at h
  · cases h
  · split at h
    · cases h
    · split at h
      · cases h
      · rename_i h4
        split at h
        · rename_i w hw
          cases h
          exact ⟨rfl, rfl, h4, hw⟩
        · cases h

/-- `is_trusted_address`: set and equal -/
theorem trusted_iff (st : State) (chain addr : Bytes) :
    isTrustedAddress st chain addr = true ↔ st.trusted chain ≠ [] ∧ addr = st.trusted chain := by
  simp [isTrustedAddress]

/-- constants extracted from the source -/
theorem hub_constants : hubChain = [97, 120, 101, 108, 97, 114] ∧ hubRouting = [104, 117, 98] ∧
    Generated.MESSAGE_TYPE_SEND_TO_HUB = 3 ∧ Generated.MESSAGE_TYPE_RECEIVE_FROM_HUB = 4 := by
  refine ⟨?_, ?_, rfl, rfl⟩ <;> decide


/-! ### The flows use exactly these decisions -/

/-- **Inbound**: `execute` gets past its first checks only for a source address that is the trusted
    address registered for the source chain, and only with a payload the unwrap rules accept. -/
theorem inbound_processed_only_on_trusted_route (C : Crypto) (cx : ICtx) (sc mid sa payload : Bytes)
    (t t' : Tx) (u : Unit) (h : execute C cx sc mid sa payload t = some (u, t')) :
    isTrustedAddress t.w.its sc sa = true ∧ (getExecuteParams t.w.its sc payload).isSome = true := by
  simp only [execute, run_bind, run_require, requireNotPaused_run, run_getI] at h
  by_cases he : cx.esdt.isEmpty = true
  · simp only [he, if_true] at h
    cases hp : t.w.its.paused
    · simp only [hp, Bool.false_eq_true, if_false] at h
      by_cases ht : isTrustedAddress t.w.its sc sa = true
      · refine ⟨ht, ?_⟩
        simp only [ht, if_true] at h
        cases hg : getExecuteParams t.w.its sc payload with
        | none => simp [hg] at h
        | some v => rfl
      · simp [ht] at h
    · simp [hp] at h
  · simp [he] at h

/-- **Outbound**: `route_message` sends exactly what `get_call_params` prescribes (trusted address of
    the destination chain, or the hub-wrapped payload to the hub's trusted address), and fails
    when it prescribes nothing. -/
theorem outbound_sent_where_the_table_says (C : Crypto) (cx : ICtx) (dst payload : Bytes) (g : Its.Tok) (n : Nat)
    (t t' : Tx) (u : Unit) (h : routeMessage C cx dst payload g n t = some (u, t')) :
    ∃ c a p, getCallParams t.w.its dst payload = some (c, a, p) ∧
      ItsW.callContract C cx c a p g n t = some (u, t') := by
  simp only [routeMessage, run_bind, run_getI] at h
  cases hg : getCallParams t.w.its dst payload with
  | none => simp [hg] at h
  | some v =>
    obtain ⟨c, a, p⟩ := v
    simp only [hg] at h
    exact ⟨c, a, p, rfl, h⟩

/-- `call_contract` refuses an empty destination address and hands the gateway exactly
    (destination chain, destination address, payload) -/
theorem callContract_refuses_empty_destination (C : Crypto) (cx : ICtx) (c p : Bytes) (g : Its.Tok) (n : Nat)
    (t : Tx) : ItsW.callContract C cx c [] p g n t = none := by
  simp [ItsW.callContract]

/-! ### Over every schedule -/

/-- **The trusted-address table changes only by the owner**: if any operation of any schedule
    changed it, that operation ran one of the owner endpoints of the service, called by its owner. -/
theorem trusted_table_changes_only_by_owner (C : Crypto) (w : World) (op : World.Op)
    (h : (World.step C w op).its.trusted ≠ w.its.trusted) :
    ∃ src dst func, World.Runs w op src dst func ∧ w.kind dst = some .its ∧ src = w.owner dst ∧
      func ∈ ownerOps := by
  rcases World.step_change C w op with hc | ⟨src, dst, func, hr, hk, ho, hf, _⟩ | ⟨_, _, _, _, _, _, hs⟩
  · exact absurd hc.trusted h
  · exact ⟨src, dst, func, hr, hk, ho, hf⟩
  · exact absurd hs.trusted h

/-! ### Non-vacuity (tests) -/
example : getCallParams { trusted := fun c => if c = [1] then [9] else [] } [1] [7] = some ([1], [9], [7]) := by
  decide

end Axelar.Props.C13
